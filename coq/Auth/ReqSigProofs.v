(* C33 -- proofs about the request signature verification model (Auth/ReqSig.v). *)
From Coq Require Import NArith List Bool Lia.
From NV Require Import Gen.AuthReqConsts Auth.ReqSig.
Import ListNotations.
Open Scope N_scope.

(* what a fully verified legacy chain looks like: every layer has a valid meta signature and a
   valid origin signature; the innermost layer (and only it) carries the body signature *)
Fixpoint chain_valid (ls : list layer) : Prop :=
  match ls with
  | [] => False
  | [l] => has_meta l = true /\ meta_ok l = true /\ has_origin l = true /\ origin_ok l = true
           /\ has_body l = true /\ body_ok l = true
  | l :: rest => has_meta l = true /\ meta_ok l = true /\ has_origin l = true /\ origin_ok l = true
                 /\ has_body l = false /\ chain_valid rest
  end.

Lemma verify_chain_spec : forall ls, verify_chain ls = true <-> chain_valid ls.
Proof.
  induction ls as [|l rest IH]; [cbn; split; [discriminate|contradiction]|].
  destruct rest as [|l2 rest'].
  - cbn. rewrite !andb_true_iff. tauto.
  - change (verify_chain (l :: l2 :: rest')) with
      (has_meta l && meta_ok l && has_origin l && origin_ok l && negb (has_body l) && verify_chain (l2 :: rest')).
    change (chain_valid (l :: l2 :: rest')) with
      (has_meta l = true /\ meta_ok l = true /\ has_origin l = true /\ origin_ok l = true
       /\ has_body l = false /\ chain_valid (l2 :: rest')).
    rewrite !andb_true_iff, negb_true_iff, IH. tauto.
Qed.

Lemma chain_valid_all : forall ls, chain_valid ls ->
  Forall (fun l => has_meta l = true /\ meta_ok l = true /\ has_origin l = true /\ origin_ok l = true) ls.
Proof.
  induction ls as [|l rest IH]; intros H; [contradiction|].
  destruct rest as [|l2 rest'].
  - cbn in H. constructor; [tauto|constructor].
  - destruct H as (H1 & H2 & H3 & H4 & _ & Hr). constructor; [tauto|apply IH; exact Hr].
Qed.

Lemma chain_valid_last : forall ls, chain_valid ls ->
  exists l, last ls l = l /\ In l ls /\ has_body l = true /\ body_ok l = true.
Proof.
  induction ls as [|l rest IH]; intros H; [contradiction|].
  destruct rest as [|l2 rest'].
  - cbn in H. exists l. cbn. tauto.
  - destruct H as (_ & _ & _ & _ & _ & Hr). destruct (IH Hr) as [x (Hl & Hin & Hb)].
    exists x. split; [|split; [right; exact Hin|exact Hb]].
    change (last (l :: l2 :: rest') x) with (last (l2 :: rest') x). exact Hl.
Qed.

(* legacy requests (API < 2.25): accepted => the numbers of meta and verification layers agree and
   every layer carries the valid signatures *)
Theorem accept_implies_all_layers_legacy : forall r ls,
  r_vh r = Some ls -> check_origin r = true -> verify r = true ->
  r_nmeta r = N.of_nat (length ls) /\ chain_valid ls.
Proof.
  intros r ls Hv Hc H. unfold verify in H. rewrite Hv, Hc in H.
  apply andb_true_iff in H. destruct H as [Hn Hch]. split; [apply N.eqb_eq; exact Hn|].
  apply verify_chain_spec; exact Hch.
Qed.

(* current requests (API >= 2.25): accepted => the outer layer's meta and body signatures are valid;
   nothing is required of further layers *)
Theorem accept_current_version : forall r ls,
  r_vh r = Some ls -> check_origin r = false -> verify r = true ->
  exists l rest, ls = l :: rest /\ has_meta l = true /\ meta_ok l = true /\ has_body l = true /\ body_ok l = true.
Proof.
  intros r ls Hv Hc H. unfold verify in H. rewrite Hv, Hc in H.
  destruct ls as [|l rest]; [discriminate|]. exists l, rest.
  rewrite !andb_true_iff in H. tauto.
Qed.

(* the exact characterisation in both modes *)
Theorem verify_exact : forall r,
  verify r = true <->
  exists ls, r_vh r = Some ls /\
    ((check_origin r = true /\ r_nmeta r = N.of_nat (length ls) /\ chain_valid ls)
     \/ (check_origin r = false /\ exists l rest, ls = l :: rest /\ has_meta l = true /\ meta_ok l = true
                                                  /\ has_body l = true /\ body_ok l = true)).
Proof.
  intros r. split.
  - intros H. unfold verify in H. destruct (r_vh r) as [ls|] eqn:Hv; [|discriminate].
    exists ls. split; [reflexivity|]. destruct (check_origin r) eqn:Hc.
    + left. apply andb_true_iff in H. destruct H as [Hn Hch]. split; [reflexivity|].
      split; [apply N.eqb_eq; exact Hn|apply verify_chain_spec; exact Hch].
    + right. split; [reflexivity|]. destruct ls as [|l rest]; [discriminate|]. exists l, rest.
      rewrite !andb_true_iff in H. tauto.
  - intros [ls [Hv [[Hc [Hn Hch]]|[Hc [l [rest [Hl H]]]]]]]; unfold verify; rewrite Hv, Hc.
    + apply andb_true_iff. split; [apply N.eqb_eq; exact Hn|apply verify_chain_spec; exact Hch].
    + subst ls. rewrite !andb_true_iff. tauto.
Qed.

(* the literal statement "every layer of an accepted request carries valid signatures" does not
   hold for API >= 2.25 requests: layers below the outer one are not looked at *)
Definition junk_layer := mklayer true false true false true false.
Definition good_outer := mklayer true true true true false false.
Definition refuting_req := mkreq (Some [good_outer; junk_layer]) true 2 (Some (ver_major, ver_minor_no_origin)) 2 false.

Theorem all_layers_refuted :
  exists r ls l, r_vh r = Some ls /\ accept_ctx r = true /\ needs_signature r = true /\ In l ls
                 /\ meta_ok l = false /\ body_ok l = false /\ origin_ok l = false.
Proof.
  exists refuting_req, [good_outer; junk_layer], junk_layer.
  vm_compute. repeat split; auto.
Qed.

(* the excluded class: current-version request with more than one verification layer *)
Definition unverified_origin_layers (r : req) : bool :=
  negb (check_origin r) && match r_vh r with Some (_ :: _ :: _) => true | _ => false end.

(* outside that class every layer of an accepted request that needed signatures is verified *)
Theorem accept_implies_all_layers_partial : forall r,
  accept_ctx r = true -> needs_signature r = true -> unverified_origin_layers r = false ->
  exists ls, r_vh r = Some ls /\
    ((check_origin r = true /\ r_nmeta r = N.of_nat (length ls) /\ chain_valid ls)
     \/ (check_origin r = false /\ exists l, ls = [l] /\ has_meta l = true /\ meta_ok l = true
                                             /\ has_body l = true /\ body_ok l = true)).
Proof.
  intros r Ha Hn Hu. unfold accept_ctx in Ha. rewrite Hn in Ha.
  apply verify_exact in Ha. destruct Ha as [ls [Hv [H|[Hc [l [rest [Hl H]]]]]]].
  - exists ls. split; [exact Hv|left; exact H].
  - exists ls. split; [exact Hv|]. right. split; [exact Hc|].
    unfold unverified_origin_layers in Hu. rewrite Hc, Hv, Hl in Hu. cbn in Hu.
    destruct rest; [|discriminate]. exists l. subst ls. tauto.
Qed.

(* the exemption *)
Theorem exemption_exact : forall r,
  exempt r = true <-> (r_vh r = None /\ r_has_meta r = true /\ r_ttl r = 1 /\ r_trusted r = true).
Proof.
  intros r. unfold exempt, needs_signature. destruct (r_vh r).
  - cbn. split; [discriminate|intros [H _]; discriminate].
  - rewrite negb_true_iff, !orb_false_iff, !negb_false_iff, N.eqb_eq. split; [intros [[H1 H2] H3]; auto|tauto].
Qed.

Theorem not_exempt_needs_valid : forall r, accept_ctx r = true -> exempt r = false -> verify r = true.
Proof.
  intros r Ha He. unfold accept_ctx in Ha. unfold exempt in He. apply negb_false_iff in He.
  rewrite He in Ha. exact Ha.
Qed.

Theorem plain_never_exempt : forall r, accept_plain r = true -> verify r = true.
Proof. intros r H. exact H. Qed.

(* ---------- abstract signatures: mutations ---------- *)

Section Unforgeable.
  Variable msg : Type.
  Variable sigv : Type.                       (* scheme, key and signature bytes *)
  Variable verify_sig : sigv -> msg -> bool.  (* supported scheme, decodable key, signature verifies *)
  Hypothesis sig_binds : forall s m m', verify_sig s m = true -> verify_sig s m' = true -> m = m'.

  (* wire view of a request: the three signatures of each layer *)
  Record wlayer := mkwlayer { w_body : option sigv; w_meta : option sigv; w_origin : option sigv }.
  Record wreq := mkwreq {
    w_bodymsg : msg;                 (* encoded body *)
    w_metas : list msg;              (* encoded meta header layers, outermost first *)
    w_layers : option (list wlayer);
    w_has_meta : bool; w_version : option (N * N); w_ttl : N; w_trusted : bool;
  }.
  (* encoding of the rest of the verification header (v.Origin), injective *)
  Variable enc_vh : list wlayer -> msg.
  Hypothesis enc_vh_inj : forall a b, enc_vh a = enc_vh b -> a = b.
  Variable nil_meta : msg.            (* encoding of a missing meta header layer *)

  Definition osig (s : option sigv) (m : msg) : bool := match s with Some x => verify_sig x m | None => false end.
  Definition present (s : option sigv) : bool := match s with Some _ => true | None => false end.

  Fixpoint facts (body : msg) (metas : list msg) (ls : list wlayer) : list layer :=
    match ls with
    | [] => []
    | l :: rest =>
        mklayer (present (w_body l)) (osig (w_body l) body)
                (present (w_meta l)) (osig (w_meta l) (hd nil_meta metas))
                (present (w_origin l)) (osig (w_origin l) (enc_vh rest))
        :: facts body (tl metas) rest
    end.

  Definition to_req (w : wreq) : req :=
    mkreq (option_map (facts (w_bodymsg w) (w_metas w)) (w_layers w)) (w_has_meta w)
          (N.of_nat (length (w_metas w))) (w_version w) (w_ttl w) (w_trusted w).

  Definition waccept (w : wreq) : bool := accept_ctx (to_req w).

  Lemma osig_binds : forall s m m', osig s m = true -> m <> m' -> osig s m' = false.
  Proof.
    intros s m m' H Hne. destruct s as [x|]; [|reflexivity]. cbn in *.
    destruct (verify_sig x m') eqn:Hv; [|reflexivity]. exfalso. apply Hne. exact (sig_binds _ _ _ H Hv).
  Qed.

  Lemma facts_length : forall b ms ls, length (facts b ms ls) = length ls.
  Proof. intros b ms ls. revert ms. induction ls; intros; cbn; [reflexivity|f_equal; apply IHls]. Qed.

  Lemma verify_chain_cons : forall l l2 r,
    verify_chain (l :: l2 :: r) =
    has_meta l && meta_ok l && has_origin l && origin_ok l && negb (has_body l) && verify_chain (l2 :: r).
  Proof. reflexivity. Qed.

  (* body signature facts of the whole chain depend on the body only through osig *)
  Lemma chain_body : forall b ms ls, verify_chain (facts b ms ls) = true ->
    exists l, In l ls /\ osig (w_body l) b = true.
  Proof.
    intros b ms ls. revert ms. induction ls as [|l rest IH]; intros ms H; [discriminate|].
    destruct rest as [|l2 rest'].
    - cbn in H. rewrite !andb_true_iff in H. exists l. split; [left; reflexivity|tauto].
    - cbn [facts] in H. rewrite verify_chain_cons in H. rewrite !andb_true_iff in H. destruct H as [_ Hr].
      specialize (IH (tl ms)). cbn [facts] in IH. destruct (IH Hr) as [x [Hin Hx]].
      exists x. split; [right; exact Hin|exact Hx].
  Qed.

  Lemma chain_body_false : forall b' ms ls,
    (forall l, In l ls -> osig (w_body l) b' = false) -> verify_chain (facts b' ms ls) = false.
  Proof.
    intros b' ms ls H. destruct (verify_chain (facts b' ms ls)) eqn:Hv; [|reflexivity].
    destruct (chain_body _ _ _ Hv) as [l [Hin Hl]]. rewrite (H l Hin) in Hl. discriminate.
  Qed.

  (* 1. any change of the signed body bytes *)
  Theorem body_change_rejected : forall w b',
    waccept w = true -> needs_signature (to_req w) = true -> b' <> w_bodymsg w ->
    (* every body signature present in the header was accepted for the old body or is invalid for both *)
    (forall ls l, w_layers w = Some ls -> In l ls -> osig (w_body l) (w_bodymsg w) = false -> osig (w_body l) b' = false) ->
    waccept (mkwreq b' (w_metas w) (w_layers w) (w_has_meta w) (w_version w) (w_ttl w) (w_trusted w)) = false.
  Proof.
    intros w b' Ha Hn Hne Hother.
    assert (Hbody : forall ls l, w_layers w = Some ls -> In l ls -> osig (w_body l) b' = false).
    { intros ls l Hl Hin. destruct (osig (w_body l) (w_bodymsg w)) eqn:Ho.
      - apply (osig_binds _ _ _ Ho). intros Heq. apply Hne. symmetry. exact Heq.
      - exact (Hother ls l Hl Hin Ho). }
    unfold waccept, accept_ctx in *.
    assert (Hn' : needs_signature (to_req (mkwreq b' (w_metas w) (w_layers w) (w_has_meta w) (w_version w) (w_ttl w) (w_trusted w))) = true).
    { unfold needs_signature, to_req in *. cbn in *. destruct (w_layers w); exact Hn. }
    rewrite Hn'. unfold verify, to_req. cbn [r_vh r_nmeta w_layers w_bodymsg w_metas].
    destruct (w_layers w) as [ls|] eqn:Hl; [|reflexivity]. cbn [option_map].
    match goal with |- (if ?c then _ else _) = false => destruct c end.
    - rewrite (chain_body_false b' (w_metas w) ls (fun l Hin => Hbody ls l eq_refl Hin)). apply andb_false_r.
    - destruct ls as [|l rest]; [reflexivity|]. cbn [facts has_meta meta_ok has_body body_ok].
      rewrite (Hbody (l :: rest) l eq_refl (or_introl eq_refl)). apply andb_false_r.
  Qed.

  (* 2. any change of the outer meta header bytes *)
  Theorem meta_change_rejected : forall w m0 mrest m0',
    waccept w = true -> needs_signature (to_req w) = true -> w_metas w = m0 :: mrest -> m0' <> m0 ->
    (forall ls l rest, w_layers w = Some ls -> ls = l :: rest -> osig (w_meta l) m0 = true) ->
    waccept (mkwreq (w_bodymsg w) (m0' :: mrest) (w_layers w) (w_has_meta w) (w_version w) (w_ttl w) (w_trusted w)) = false.
  Proof.
    intros w m0 mrest m0' Ha Hn Hm Hne Hok.
    unfold waccept, accept_ctx.
    assert (Hn' : needs_signature (to_req (mkwreq (w_bodymsg w) (m0' :: mrest) (w_layers w) (w_has_meta w) (w_version w) (w_ttl w) (w_trusted w))) = true).
    { unfold needs_signature, to_req in *. cbn in *. destruct (w_layers w); exact Hn. }
    rewrite Hn'. unfold verify, to_req. cbn [r_vh r_nmeta w_layers w_bodymsg w_metas].
    destruct (w_layers w) as [ls|] eqn:Hl; [|reflexivity]. cbn [option_map].
    destruct ls as [|l rest].
    { cbn. match goal with |- (if ?c then _ else _) = false => destruct c end; rewrite ?andb_false_r; reflexivity. }
    assert (Hf : osig (w_meta l) m0' = false).
    { apply (osig_binds _ m0); [exact (Hok _ l rest eq_refl eq_refl)|]. intros Heq. apply Hne. symmetry. exact Heq. }
    match goal with |- (if ?c then _ else _) = false => destruct c end.
    - destruct rest as [|l2 rest']; cbn [facts hd tl verify_chain has_meta meta_ok]; rewrite Hf;
        rewrite ?andb_false_r; cbn; rewrite ?andb_false_r; reflexivity.
    - cbn [facts hd has_meta meta_ok]. rewrite Hf. rewrite ?andb_false_r. reflexivity.
  Qed.

  (* 3. dropping the outermost layer of a legacy chain (the meta header kept) *)
  Theorem drop_outer_layer_rejected : forall w l rest,
    needs_signature (to_req w) = true -> check_origin (to_req w) = true ->
    w_layers w = Some (l :: rest) -> waccept w = true ->
    waccept (mkwreq (w_bodymsg w) (w_metas w) (Some rest) (w_has_meta w) (w_version w) (w_ttl w) (w_trusted w)) = false.
  Proof.
    intros w l rest Hn Hc Hl Ha.
    unfold waccept, accept_ctx in *. rewrite Hn in Ha.
    unfold verify in Ha. rewrite Hc in Ha. unfold to_req in Ha. cbn [r_vh r_nmeta] in Ha. rewrite Hl in Ha.
    cbn [option_map] in Ha. apply andb_true_iff in Ha. destruct Ha as [Hlen _].
    apply N.eqb_eq in Hlen. rewrite facts_length in Hlen. cbn [length] in Hlen.
    set (w' := mkwreq (w_bodymsg w) (w_metas w) (Some rest) (w_has_meta w) (w_version w) (w_ttl w) (w_trusted w)).
    assert (Hc' : check_origin (to_req w') = true) by exact Hc.
    assert (Hn' : needs_signature (to_req w') = true) by reflexivity.
    rewrite Hn'. unfold verify. rewrite Hc'.
    change (r_vh (to_req w')) with (Some (facts (w_bodymsg w) (w_metas w) rest)).
    change (r_nmeta (to_req w')) with (N.of_nat (length (w_metas w))).
    cbv beta iota. rewrite (facts_length (w_bodymsg w) (w_metas w) rest).
    assert (Hne : (N.of_nat (length (w_metas w)) =? N.of_nat (length rest)) = false).
    { apply N.eqb_neq. rewrite Hlen. lia. }
    rewrite Hne. reflexivity.
  Qed.

  (* 4. swapping the body and meta signatures of the signing layer *)
  Theorem swap_body_meta_rejected : forall w l rest m0 mrest,
    needs_signature (to_req w) = true -> w_layers w = Some (l :: rest) -> w_metas w = m0 :: mrest ->
    osig (w_meta l) m0 = true -> m0 <> w_bodymsg w ->
    waccept (mkwreq (w_bodymsg w) (w_metas w) (Some (mkwlayer (w_meta l) (w_body l) (w_origin l) :: rest))
                    (w_has_meta w) (w_version w) (w_ttl w) (w_trusted w)) = true ->
    rest <> [] /\ check_origin (to_req w) = true.
  Proof.
    intros w l rest m0 mrest Hn Hl Hm Hmo Hne Ha.
    (* the swapped layer's body signature is the old meta signature: it cannot verify the body *)
    assert (Hf : osig (w_meta l) (w_bodymsg w) = false) by (apply (osig_binds _ m0); assumption).
    unfold waccept, accept_ctx in Ha. cbn [needs_signature to_req r_vh w_layers option_map] in Ha.
    unfold verify in Ha. cbn [r_vh to_req w_layers option_map w_bodymsg w_metas w_has_meta w_version w_ttl w_trusted] in Ha.
    match type of Ha with (if ?c then _ else _) = true => destruct c eqn:Hc end.
    - split; [|exact Hc]. intros Hr. subst rest. cbn in Ha. rewrite Hf in Ha. rewrite !andb_false_r in Ha. discriminate.
    - cbn [facts has_meta meta_ok has_body body_ok w_body w_meta] in Ha. rewrite Hf in Ha. rewrite !andb_false_r in Ha. discriminate.
  Qed.
End Unforgeable.
