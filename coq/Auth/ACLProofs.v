(* C28 -- proofs about the access decision model (Auth/ACL.v). *)
From Coq Require Import NArith ZArith List Bool String Ascii.
From NV Require Import Gen.AuthConsts Auth.ACL.
Import ListNotations.
Open Scope N_scope.

(* the verdict of the table selected by the property's rule, as the checker reports it *)
Definition eres_of (v : verdict) : eres :=
  match v with
  | VDefault => EOk
  | VNotFinal => ENotMatched
  | VAction a => if a =? action_allow then EOk else EDenied
  end.

(* when findRequestInfo let the request through, the checker consults exactly the table the
   statement names -- or fails because the eACL source failed *)
Lemma check_eacl_selected : forall q s,
  bearer_invalid q = false -> bearer_mismatch q = false ->
  check_eacl q s =
    if negb (extendable (q_basic q)) then EOk
    else if system_role q then EOk
    else if source_failed q then ESrcErr
    else eres_of (calc (unit_of q s) (table_of_statement q)).
Proof.
  intros q s Hi Hm.
  unfold check_eacl, system_role, source_failed, table_of_statement, bearer_applies,
    bearer_invalid, bearer_mismatch, stored_table, eres_of in *.
  destruct (extendable (q_basic q)); cbn [negb]; [|reflexivity].
  destruct (erole (classify q) =? erole_system); [reflexivity|].
  destruct (q_bearer q) as [b|].
  - destruct (b_valid b); cbn [negb andb] in *; [|discriminate].
    destruct (bearer_matches q b); cbn [negb andb] in *; [|discriminate].
    destruct (bearer_allowed (q_basic q) (eff_op q)); cbn [negb].
    + destruct (q_stored q); reflexivity.
    + destruct (q_stored q); reflexivity.
  - destruct (bearer_allowed (q_basic q) (eff_op q)); destruct (q_stored q); reflexivity.
Qed.

Lemma decide_no_bearer_gate : forall q,
  bearer_invalid q = false -> bearer_mismatch q = false -> decide q = decide_acl q.
Proof.
  intros q Hi Hm. unfold decide, bearer_invalid, bearer_mismatch in *.
  destruct (q_bearer q) as [b|]; [|reflexivity].
  destruct (b_valid b); cbn [negb andb] in *; [|discriminate].
  destruct (bearer_matches q b); cbn [negb] in *; [reflexivity|discriminate].
Qed.

Lemma decide_bearer_gate : forall q,
  bearer_invalid q || bearer_mismatch q = true -> served q = false.
Proof.
  intros q H. unfold served, decide, bearer_invalid, bearer_mismatch in *.
  destruct (q_bearer q) as [b|]; [|discriminate].
  destruct (b_valid b); cbn [negb andb orb] in *; [|reflexivity].
  destruct (bearer_matches q b); cbn [negb] in *; [discriminate|reflexivity].
Qed.

(* exact characterisation of the implementation model *)
Theorem impl_exact : forall q, served q = statement_allows q && negb (stricter q).
Proof.
  intros q.
  destruct (bearer_invalid q || bearer_mismatch q) eqn:Hg.
  { rewrite (decide_bearer_gate q Hg). unfold stricter.
    rewrite <- orb_assoc, orb_assoc, Hg. cbn. rewrite andb_false_r. reflexivity. }
  apply orb_false_elim in Hg. destruct Hg as [Hi Hm].
  unfold served. rewrite (decide_no_bearer_gate q Hi Hm).
  unfold decide_acl, statement_allows, stricter, eacl_consulted, table_denies, odd_action,
    denies_at, odd_action_at, not_final_at_request.
  rewrite Hi, Hm. rewrite !(check_eacl_selected q _ Hi Hm). cbn [orb].
  destruct (basic_allows (q_basic q) (eff_op q) (classify q)); cbn [negb andb]; [|reflexivity].
  assert (Hcore :
    match
      (if negb (extendable (q_basic q)) then EOk else if system_role q then EOk
       else if source_failed q then ESrcErr
       else eres_of (calc (unit_of q AtRequest) (table_of_statement q)))
    with
    | EOk => true
    | ENotMatched =>
        if rechecks q then
          match
            (if negb (extendable (q_basic q)) then EOk else if system_role q then EOk
             else if source_failed q then ESrcErr
             else eres_of (calc (unit_of q AtResponse) (table_of_statement q)))
          with EOk | ENotMatched => true | _ => false end
        else true
    | _ => false
    end =
    (negb (extendable (q_basic q)) || system_role q
     || negb
          (match calc (unit_of q AtRequest) (table_of_statement q) with VAction a => a =? action_deny | _ => false end
           || rechecks q
              && match calc (unit_of q AtRequest) (table_of_statement q) with VNotFinal => true | _ => false end
              && match calc (unit_of q AtResponse) (table_of_statement q) with VAction a => a =? action_deny | _ => false end))
    && negb
         (extendable (q_basic q) && negb (system_role q)
          && (source_failed q
              || (match calc (unit_of q AtRequest) (table_of_statement q) with
                  | VAction a => negb (a =? action_allow) && negb (a =? action_deny) | _ => false end
                  || rechecks q
                     && match calc (unit_of q AtRequest) (table_of_statement q) with VNotFinal => true | _ => false end
                     && match calc (unit_of q AtResponse) (table_of_statement q) with
                        | VAction a => negb (a =? action_allow) && negb (a =? action_deny) | _ => false end)))).
  { destruct (extendable (q_basic q)); cbn [negb andb orb]; [|reflexivity].
    destruct (system_role q); cbn [negb andb orb]; [reflexivity|].
    destruct (source_failed q); cbn [negb andb orb]; [rewrite ?andb_false_r; reflexivity|].
    unfold eres_of.
    destruct (rechecks q);
    destruct (calc (unit_of q AtRequest) (table_of_statement q)) as [| |a];
    destruct (calc (unit_of q AtResponse) (table_of_statement q)) as [| |a2];
    cbn [andb orb negb]; try reflexivity;
    repeat match goal with
           | |- context [?x =? action_allow] =>
               let H := fresh "Ha" in destruct (x =? action_allow) eqn:H;
               [apply N.eqb_eq in H; subst x; cbn|]
           | |- context [?x =? action_deny] => destruct (x =? action_deny)
           end; cbn; reflexivity. }
  destruct (is_put q); cbn [negb andb orb].
  - destruct (sticky_ok q); cbn [negb andb orb]; [|reflexivity].
    rewrite <- Hcore.
    destruct (if negb (extendable (q_basic q)) then EOk else if system_role q then EOk
       else if source_failed q then ESrcErr
       else eres_of (calc (unit_of q AtRequest) (table_of_statement q))); try reflexivity.
    destruct (rechecks q); [|reflexivity].
    destruct (if negb (extendable (q_basic q)) then EOk else if system_role q then EOk
       else if source_failed q then ESrcErr
       else eres_of (calc (unit_of q AtResponse) (table_of_statement q))); reflexivity.
  - rewrite <- Hcore.
    destruct (if negb (extendable (q_basic q)) then EOk else if system_role q then EOk
       else if source_failed q then ESrcErr
       else eres_of (calc (unit_of q AtRequest) (table_of_statement q))); try reflexivity.
    destruct (rechecks q); [|reflexivity].
    destruct (if negb (extendable (q_basic q)) then EOk else if system_role q then EOk
       else if source_failed q then ESrcErr
       else eres_of (calc (unit_of q AtResponse) (table_of_statement q))); reflexivity.
Qed.

(* where the implementation is stricter it only removes served requests *)
Theorem stricter_is_safe : forall q, served q = true -> statement_allows q = true.
Proof.
  intros q H. rewrite impl_exact in H. apply andb_true_iff in H. tauto.
Qed.

Theorem not_stricter_exact : forall q, stricter q = false -> served q = statement_allows q.
Proof. intros q H. rewrite impl_exact, H. apply andb_true_r. Qed.

(* the implication the property states *)
Theorem served_implies : forall q,
  served q = true ->
  basic_allows (q_basic q) (eff_op q) (classify q) = true
  /\ (is_put q = true -> sticky_ok q = true)
  /\ (extendable (q_basic q) = false \/ system_role q = true \/ table_denies q = false).
Proof.
  intros q H. apply stricter_is_safe in H. unfold statement_allows in H.
  apply andb_true_iff in H. destruct H as [H H3].
  apply andb_true_iff in H. destruct H as [H1 H2].
  split; [exact H1|]. split.
  - intros Hp. rewrite Hp in H2. exact H2.
  - apply orb_true_iff in H3. destruct H3 as [H3|H3].
    + apply orb_true_iff in H3. destruct H3 as [H3|H3].
      * left. apply negb_true_iff. exact H3.
      * right. left. exact H3.
    + right. right. apply negb_true_iff. exact H3.
Qed.

(* which table: bearer iff issued by the owner for this container and requester and allowed *)
Theorem table_selection : forall q,
  table_of_statement q =
    match q_bearer q with
    | Some b => if b_valid b && ((b_issuer b =? q_owner q) && opt_is (b_cid b) (q_cnr q) && opt_is (b_user b) (q_author q))
                   && bearer_allowed (q_basic q) (eff_op q)
                then b_table b else stored_table q
    | None => stored_table q
    end.
Proof. intros q. unfold table_of_statement, bearer_applies, bearer_matches. reflexivity. Qed.

(* monotonic corollaries *)
Corollary basic_deny_denies : forall q,
  basic_allows (q_basic q) (eff_op q) (classify q) = false -> served q = false.
Proof.
  intros q H. rewrite impl_exact. unfold statement_allows. rewrite H. reflexivity.
Qed.

Corollary sticky_deny_denies : forall q,
  is_put q = true -> sticky_ok q = false -> served q = false.
Proof.
  intros q Hp H. rewrite impl_exact. unfold statement_allows. rewrite Hp, H. cbn.
  rewrite andb_false_r. reflexivity.
Qed.

Corollary table_deny_denies : forall q,
  extendable (q_basic q) = true -> system_role q = false -> table_denies q = true -> served q = false.
Proof.
  intros q He Hs Ht. rewrite impl_exact. unfold statement_allows. rewrite He, Hs, Ht. cbn.
  rewrite andb_false_r. reflexivity.
Qed.

Lemma drop_bearer_same : forall q,
  classify (drop_bearer q) = classify q /\ eff_op (drop_bearer q) = eff_op q
  /\ sticky_ok (drop_bearer q) = sticky_ok q /\ is_put (drop_bearer q) = is_put q
  /\ rechecks (drop_bearer q) = rechecks q
  /\ (forall s, unit_of (drop_bearer q) s = unit_of q s).
Proof. intros q. repeat split. Qed.

(* a bearer token that passed findRequestInfo is ignored when bearer rules are not allowed
   for the operation *)
Corollary bearer_ignored_when_not_allowed : forall q b,
  q_bearer q = Some b -> b_valid b = true -> bearer_matches q b = true ->
  bearer_allowed (q_basic q) (eff_op q) = false ->
  decide q = decide (drop_bearer q).
Proof.
  intros q b Hb Hv Hm Ha.
  unfold decide at 1. rewrite Hb, Hv, Hm. cbn [negb].
  unfold decide, drop_bearer at 1. cbn [q_bearer].
  unfold decide_acl.
  destruct (drop_bearer_same q) as (Hc & Ho & Hs & Hp & Hr & Hu).
  rewrite Hc, Ho, Hs, Hp, Hr.
  assert (He : forall s, check_eacl (drop_bearer q) s = check_eacl q s).
  { intros s. unfold check_eacl. rewrite Hc, Ho, Hu. cbn [drop_bearer q_basic q_bearer q_stored].
    rewrite Ha. reflexivity. }
  rewrite !He. reflexivity.
Qed.
