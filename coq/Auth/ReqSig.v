(* C33 -- model of request signature verification (definitions only, executable).

   Sources:
     internal/crypto/requests.go   VerifyRequestSignatures / ...WithContext / ...N3, requestNeedsSignature
     pkg/network/peerauth          IsTrustedPeer
     SDK crypto/proto.go           VerifyRequestWithBufferN3 (the loop over verification layers),
                                   needsOriginSig (API version < 2.25 <=> chained origin signatures),
                                   VerifyMessageSignature

   A request is: a body, a chain of meta header layers (m, m.Origin, ...), a chain of verification
   header layers (v, v.Origin, ...; outermost first), the API version of the outer meta header, the
   TTL, and whether the peer connection is authenticated.  Per signature the facts "present" and
   "valid over exactly that message with a supported scheme" are booleans here; Auth/ReqSigProofs.v
   instantiates them with an abstract verification predicate. *)
From Coq Require Import NArith List Bool.
From NV Require Import Gen.AuthReqConsts.
Import ListNotations.
Open Scope N_scope.

Record layer := mklayer {
  has_body : bool;  body_ok : bool;      (* body signature present / valid over the request body *)
  has_meta : bool;  meta_ok : bool;      (* meta signature present / valid over this layer's meta header *)
  has_origin : bool; origin_ok : bool;   (* origin signature present / valid over the previous layer (v.Origin) *)
}.

Record req := mkreq {
  r_vh : option (list layer);    (* verification header: None = absent; layers outermost first *)
  r_has_meta : bool;             (* meta header present *)
  r_nmeta : N;                   (* meta header layers (1 + number of origins; an absent header counts as one) *)
  r_version : option (N * N);    (* API version in the outer meta header *)
  r_ttl : N;
  r_trusted : bool;              (* peer connection authenticated (peerauth.IsTrustedPeer) *)
}.

(* needsOriginSig *)
Definition check_origin (r : req) : bool :=
  negb (r_has_meta r)
  || match r_version r with
     | None => true
     | Some (major, minor) => (major <? ver_major) || ((major =? ver_major) && (minor <? ver_minor_no_origin))
     end.

(* the loop of VerifyRequestWithBufferN3 when origin signatures are required *)
Fixpoint verify_chain (ls : list layer) : bool :=
  match ls with
  | [] => false
  | [l] => has_meta l && meta_ok l && has_origin l && origin_ok l && has_body l && body_ok l
  | l :: rest => has_meta l && meta_ok l && has_origin l && origin_ok l && negb (has_body l) && verify_chain rest
  end.

Definition verify (r : req) : bool :=
  match r_vh r with
  | None => false
  | Some ls =>
      if check_origin r then (r_nmeta r =? N.of_nat (length ls)) && verify_chain ls
      else match ls with
           | l :: _ => has_meta l && meta_ok l && has_body l && body_ok l
           | [] => false
           end
  end.

(* requestNeedsSignature *)
Definition needs_signature (r : req) : bool :=
  match r_vh r with
  | Some _ => true
  | None => negb (r_has_meta r) || negb (r_ttl r =? 1) || negb (r_trusted r)
  end.

(* VerifyRequestSignatures (no context: always verified) and the two context-aware variants *)
Definition accept_plain (r : req) : bool := verify r.
Definition accept_ctx (r : req) : bool := if needs_signature r then verify r else true.

Definition exempt (r : req) : bool := negb (needs_signature r).
