(* C28 -- model of the object access decision (definitions only, executable).

   Sources:
     SDK container/acl  Basic.IsOpAllowed / Extendable / Sticky / AllowedBearerRules  (bit layout
                        imported from Gen/AuthConsts.v, dumped from the compiled SDK on every run)
     SDK eacl           Validator.CalculateAction, matchFilters, targetMatches
     pkg/services/object/acl/acl.go          Checker.CheckBasicACL / StickyBitCheck / CheckEACL
     pkg/services/object/acl/v2/service.go   findRequestInfo, verifyBearerTokenAgainstRequest, PutRequestToInfo
     pkg/services/object/acl/v2/classifier.go  senderClassifier.classify
     pkg/services/object/acl/eacl/v2/headers.go  which object headers a request of each kind exposes
     pkg/services/object/server.go           order of the calls in Get/Head/Put/Delete/SearchV2/GetRange

   A request is abstracted into facts (record [req]); the harness constructs every real request
   from these facts.  Signature / lifetime validity of a bearer token is one boolean here
   (property C30 is about that part). *)
From Coq Require Import NArith ZArith List Bool String Ascii.
From NV Require Import Gen.AuthConsts.
Import ListNotations.
Open Scope N_scope.

(* ---------- basic ACL (SDK container/acl) ---------- *)

Fixpoint assoc (k : N) (l : list (N * N)) : option N :=
  match l with
  | [] => None
  | (a, b) :: r => if a =? k then Some b else assoc k r
  end.

Definition memN (x : N) (l : list N) : bool := existsb (N.eqb x) l.

(* isOpBitSet; Go panics for an unknown op, the model says false *)
Definition op_bit_set (tbl : list (N * N)) (mask op : N) : bool :=
  match assoc op tbl with Some i => N.testbit mask i | None => false end.

Definition basic_allows (mask op role : N) : bool :=
  if role =? role_ir then memN op ir_ops
  else if role =? role_owner then op_bit_set owner_bits mask op
  else if role =? role_container then memN op container_always_ops || op_bit_set container_bits mask op
  else if role =? role_others then op_bit_set others_bits mask op
  else false.

Definition extendable (mask : N) : bool := negb (N.testbit mask final_bit).
Definition sticky (mask : N) : bool := N.testbit mask sticky_bit.
Definition bearer_allowed (mask op : N) : bool := op_bit_set bearer_bits mask op.

(* ---------- eACL tables (SDK eacl) ---------- *)

Definition hdr := (string * string)%type.

Inductive subject := SKey (k : N) | SAcct (a : N) | SJunk.   (* 33-byte / 25-byte / other raw subject *)

Record target := mktarget { t_role : N; t_subjs : list subject }.
Record filter := mkfilter { f_from : N; f_key : string; f_matcher : N; f_value : string }.
Record record := mkrecord { rc_op : N; rc_action : N; rc_targets : list target; rc_filters : list filter }.
Definition table := list record.

(* what the validator is asked about *)
Record vunit := mkunit {
  u_role : N;                       (* eACL role *)
  u_op : N;                         (* eACL operation *)
  u_key : N;
  u_acct : N;
  u_xhdrs : list hdr;               (* request X-headers *)
  u_ohdrs : option (list hdr);      (* object headers; None = cannot be composed (incomplete) *)
}.

(* math/big Int.SetString(s, 10): optional sign, at least one digit, nothing else *)
Definition digit_of (c : ascii) : option Z :=
  let n := N_of_ascii c in
  if (48 <=? n) && (n <=? 57) then Some (Z.of_N (n - 48)) else None.

Fixpoint parse_digits (s : string) (acc : Z) : option Z :=
  match s with
  | EmptyString => Some acc
  | String c r => match digit_of c with Some d => parse_digits r (acc * 10 + d)%Z | None => None end
  end.

Definition parse_unsigned (s : string) : option Z :=
  match s with EmptyString => None | _ => parse_digits s 0%Z end.

Definition parse_int (s : string) : option Z :=
  match s with
  | EmptyString => None
  | String c r =>
      if Ascii.eqb c "-"%char then option_map Z.opp (parse_unsigned r)
      else if Ascii.eqb c "+"%char then parse_unsigned r
      else parse_unsigned s
  end.

Definition is_num_matcher (m : N) : bool :=
  (m =? m_num_gt) || (m =? m_num_ge) || (m =? m_num_lt) || (m =? m_num_le).

Definition num_cmp (m : N) (hv fv : Z) : bool :=
  if m =? m_num_gt then (fv <? hv)%Z
  else if m =? m_num_ge then (fv <=? hv)%Z
  else if m =? m_num_lt then (hv <? fv)%Z
  else if m =? m_num_le then (hv <=? fv)%Z
  else false.

(* one filter against the headers of its type (inner loop of matchFilters) *)
Definition filter_hit (f : filter) (hs : list hdr) : bool :=
  let m := f_matcher f in
  if m =? m_not_present then negb (existsb (fun h => String.eqb (fst h) (f_key f)) hs)
  else if m =? m_string_equal then
    existsb (fun h => String.eqb (fst h) (f_key f) && String.eqb (snd h) (f_value f)) hs
  else if m =? m_string_not_equal then
    existsb (fun h => String.eqb (fst h) (f_key f) && negb (String.eqb (snd h) (f_value f))) hs
  else if is_num_matcher m then
    match parse_int (f_value f) with
    | None => false
    | Some fv =>
        existsb (fun h => String.eqb (fst h) (f_key f) &&
                          match parse_int (snd h) with Some hv => num_cmp m hv fv | None => false end) hs
    end
  else false.

Definition hdrs_of_type (u : vunit) (t : N) : option (list hdr) :=
  if t =? ht_request then Some (u_xhdrs u)
  else if t =? ht_object then u_ohdrs u
  else Some [].

(* matchFilters: None = headers of some filter's type cannot be obtained (first such filter
   stops the scan), Some b = all filters hit? *)
Fixpoint filters_res (u : vunit) (fs : list filter) (all_hit : bool) : option bool :=
  match fs with
  | [] => Some all_hit
  | f :: r =>
      match hdrs_of_type u (f_from f) with
      | None => None
      | Some hs => filters_res u r (all_hit && filter_hit f hs)
      end
  end.

Definition subj_is_key (s : subject) : bool := match s with SKey _ => true | _ => false end.
Definition subj_is_acct (s : subject) : bool := match s with SAcct _ => true | _ => false end.

Definition target_hit (u : vunit) (t : target) : bool :=
  if t_role t =? erole_system then false
  else
    existsb (fun s => match s with SKey k => k =? u_key u | _ => false end) (t_subjs t)
    || existsb (fun s => match s with SAcct a => a =? u_acct u | _ => false end) (t_subjs t)
    || (negb (existsb subj_is_key (t_subjs t)) && negb (existsb subj_is_acct (t_subjs t))
        && (u_role u =? t_role t)).

Definition targets_match (u : vunit) (r : record) : bool := existsb (target_hit u) (rc_targets r).

Inductive verdict := VDefault | VNotFinal | VAction (a : N).

(* Validator.CalculateAction *)
Fixpoint calc (u : vunit) (t : table) : verdict :=
  match t with
  | [] => VDefault
  | r :: rest =>
      if negb (rc_op r =? u_op u) then calc u rest
      else if negb (targets_match u r) then calc u rest
      else match filters_res u (rc_filters r) true with
           | None => VNotFinal
           | Some true => VAction (rc_action r)
           | Some false => calc u rest
           end
  end.

(* ---------- request facts ---------- *)

Inductive kind := KGet | KHead | KPut | KDelete | KSearch | KRange.

Definition op_of_kind (k : kind) : N :=
  match k with KGet => op_get | KHead => op_head | KPut => op_put | KDelete => op_delete
             | KSearch => op_search | KRange => op_range end.

Record bearer := mkbearer {
  b_valid : bool;          (* decodes, correctly signed, within its lifetime (C30) *)
  b_issuer : N;            (* resolved issuer account *)
  b_cid : option N;        (* container the table is bound to; None = unbound *)
  b_user : option N;       (* account the token is restricted to; None = anyone *)
  b_table : table;
}.

Inductive stored := SNotFound | SErr | STable (t : table).

Record req := mkreq {
  q_kind : kind;
  q_tomb : bool;               (* PUT of a TOMBSTONE object *)
  q_ttl1 : bool;               (* meta header TTL = 1 *)
  q_cnr : N;                   (* requested container *)
  q_basic : N;                 (* its basic ACL *)
  q_owner : N;                 (* its owner account *)
  q_author : N;                (* request author account *)
  q_key : N;                   (* request author public key *)
  q_key_user : option N;       (* account derived from the key; None = key does not decode *)
  q_is_ir : bool;              (* key is in the inner ring list *)
  q_is_cnr : bool;             (* key belongs to a container node (current or previous epoch) *)
  q_obj_owner : N;             (* PUT: owner in the object header *)
  q_bearer : option bearer;
  q_stored : stored;           (* eACL source answer for the container *)
  q_xhdrs : list hdr;
  q_addr_hdrs : list hdr;      (* container / object ID headers of the address *)
  q_obj_hdrs : list hdr;       (* headers of the object in the PUT request resp. returned by GET/HEAD *)
}.

(* ---------- acl/v2 service ---------- *)

Definition classify (q : req) : N :=
  if q_author q =? q_owner q then role_owner
  else if q_is_ir q then role_ir
  else if q_is_cnr q then role_container
  else role_others.

Definition opt_is (o : option N) (x : N) : bool := match o with None => true | Some y => y =? x end.

(* verifyBearerTokenAgainstRequest *)
Definition bearer_matches (q : req) (b : bearer) : bool :=
  (b_issuer b =? q_owner q) && opt_is (b_cid b) (q_cnr q) && opt_is (b_user b) (q_author q).

(* operation after PutRequestToInfo's tombstone rule *)
Definition eff_op (q : req) : N :=
  match q_kind q with
  | KPut => if q_tomb q then
              (if (classify q =? role_container) && q_ttl1 q then op_put else op_delete)
            else op_put
  | k => op_of_kind k
  end.

(* ---------- Checker ---------- *)

Definition sticky_ok (q : req) : bool :=
  if classify q =? role_container then true
  else if negb (sticky (q_basic q)) then true
  else match q_key_user q with Some u => u =? q_obj_owner q | None => false end.

Definition erole (role : N) : N := match assoc role erole_of_role with Some e => e | None => role end.
Definition eop (op : N) : N := match assoc op eop_of_op with Some e => e | None => op end.

Inductive stage := AtRequest | AtResponse.

(* object headers visible to the eACL check (eacl/v2 readObjectHeaders); GET/HEAD at request
   time would read the local storage -- the model covers the case of a local miss *)
Definition ohdrs_at (q : req) (s : stage) : option (list hdr) :=
  match s with
  | AtResponse => Some (q_obj_hdrs q)
  | AtRequest =>
      match q_kind q with
      | KGet | KHead => None
      | KRange | KDelete => Some (q_addr_hdrs q)
      | KPut => Some (q_obj_hdrs q)
      | KSearch => Some []
      end
  end.

Definition unit_of (q : req) (s : stage) : vunit :=
  mkunit (erole (classify q)) (eop (eff_op q)) (q_key q) (q_author q) (q_xhdrs q) (ohdrs_at q s).

Inductive eres := EOk | ENotMatched | EDenied | ESrcErr.

(* Checker.CheckEACL *)
Definition check_eacl (q : req) (s : stage) : eres :=
  if negb (extendable (q_basic q)) then EOk
  else if erole (classify q) =? erole_system then EOk
  else
    let b := if bearer_allowed (q_basic q) (eff_op q) then q_bearer q else None in
    let tbl := match b with
               | Some bt => Some (b_table bt)
               | None => match q_stored q with
                         | STable t => Some t
                         | SNotFound => Some []
                         | SErr => None
                         end
               end in
    match tbl with
    | None => ESrcErr
    | Some t =>
        (* ErrEACLNotFound returns before the validator runs; the empty table gives the same answer *)
        match calc (unit_of q s) t with
        | VDefault => EOk
        | VNotFinal => ENotMatched
        | VAction a => if a =? action_allow then EOk else EDenied
        end
    end.

(* ---------- handler pipeline (server.go) ---------- *)

Inductive outcome :=
  | Served
  | DeniedToken          (* bearer token rejected by VerifyBearerTokenMessage *)
  | DeniedBearerReq      (* verifyBearerTokenAgainstRequest *)
  | DeniedBasic          (* CheckBasicACL / StickyBitCheck *)
  | DeniedEACL           (* CheckEACL on the request *)
  | DeniedRecheck.       (* CheckEACL on the returned header (GET/HEAD) *)

Definition is_put (q : req) : bool := match q_kind q with KPut => true | _ => false end.
Definition rechecks (q : req) : bool := match q_kind q with KGet | KHead => true | _ => false end.

Definition decide_acl (q : req) : outcome :=
  if negb (basic_allows (q_basic q) (eff_op q) (classify q)) then DeniedBasic
  else if is_put q && negb (sticky_ok q) then DeniedBasic
  else match check_eacl q AtRequest with
       | EOk => Served
       | ENotMatched =>
           if rechecks q then
             match check_eacl q AtResponse with
             | EOk | ENotMatched => Served
             | _ => DeniedRecheck
             end
           else Served
       | _ => DeniedEACL
       end.

Definition decide (q : req) : outcome :=
  match q_bearer q with
  | Some b => if negb (b_valid b) then DeniedToken
              else if negb (bearer_matches q b) then DeniedBearerReq
              else decide_acl q
  | None => decide_acl q
  end.

Definition served (q : req) : bool := match decide q with Served => true | _ => false end.

(* ---------- the property's own rule (reference) ---------- *)

(* "the bearer token's table when the token was issued by the container owner for this
   container and requester and bearer rules are allowed, and the container's stored table
   otherwise" *)
Definition bearer_applies (q : req) (b : bearer) : bool :=
  b_valid b && bearer_matches q b && bearer_allowed (q_basic q) (eff_op q).

Definition stored_table (q : req) : table :=
  match q_stored q with STable t => t | _ => [] end.

Definition table_of_statement (q : req) : table :=
  match q_bearer q with
  | Some b => if bearer_applies q b then b_table b else stored_table q
  | None => stored_table q
  end.

(* the table denies the request: the first rule that applies has action DENY.  A rule whose
   headers cannot be composed at request time is looked at again when the object header is
   known (GET/HEAD) *)
Definition denies_at (q : req) (s : stage) : bool :=
  match calc (unit_of q s) (table_of_statement q) with
  | VAction a => a =? action_deny
  | _ => false
  end.

Definition not_final_at_request (q : req) : bool :=
  match calc (unit_of q AtRequest) (table_of_statement q) with VNotFinal => true | _ => false end.

Definition table_denies (q : req) : bool :=
  denies_at q AtRequest || (rechecks q && not_final_at_request q && denies_at q AtResponse).

Definition system_role (q : req) : bool := erole (classify q) =? erole_system.

Definition statement_allows (q : req) : bool :=
  basic_allows (q_basic q) (eff_op q) (classify q)
  && (negb (is_put q) || sticky_ok q)
  && (negb (extendable (q_basic q)) || system_role q || negb (table_denies q)).

(* where the implementation refuses although the statement would allow *)
Definition bearer_invalid (q : req) : bool :=
  match q_bearer q with Some b => negb (b_valid b) | None => false end.
Definition bearer_mismatch (q : req) : bool :=
  match q_bearer q with Some b => b_valid b && negb (bearer_matches q b) | None => false end.
(* the first applicable rule of the selected table carries an action that is neither ALLOW nor DENY *)
Definition odd_action_at (q : req) (s : stage) : bool :=
  match calc (unit_of q s) (table_of_statement q) with
  | VAction a => negb (a =? action_allow) && negb (a =? action_deny)
  | _ => false
  end.
Definition odd_action (q : req) : bool :=
  odd_action_at q AtRequest || (rechecks q && not_final_at_request q && odd_action_at q AtResponse).
(* the eACL source failed (other than "not found") and the stored table was needed *)
Definition source_failed (q : req) : bool :=
  match q_stored q with
  | SErr => match q_bearer q with
               | Some b => negb (bearer_allowed (q_basic q) (eff_op q))
               | None => true
               end
  | _ => false
  end.

Definition eacl_consulted (q : req) : bool := extendable (q_basic q) && negb (system_role q).

Definition stricter (q : req) : bool :=
  bearer_invalid q || bearer_mismatch q || (eacl_consulted q && (source_failed q || odd_action q)).

(* request without its bearer token *)
Definition drop_bearer (q : req) : req :=
  mkreq (q_kind q) (q_tomb q) (q_ttl1 q) (q_cnr q) (q_basic q) (q_owner q) (q_author q) (q_key q)
        (q_key_user q) (q_is_ir q) (q_is_cnr q) (q_obj_owner q) None (q_stored q) (q_xhdrs q)
        (q_addr_hdrs q) (q_obj_hdrs q).
