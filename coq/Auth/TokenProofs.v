(* C30 -- proofs about the token verification model (Auth/Token.v). *)
From Coq Require Import NArith List Bool Lia.
From NV Require Import Gen.AuthTokenConsts Auth.Token.
Import ListNotations.
Open Scope N_scope.

(* ---------- what "valid" means ---------- *)

(* signed by the issuer: signature present, supported scheme, verifies, key belongs to the issuer
   (ECDSA schemes) resp. the N3 witness of the issuer's account verifies *)
Definition signed_by_issuer (ku : list (N * N)) (issuer : N) (sg : option sigd) (sigok n3ok : bool) : Prop :=
  issuer <> 0 /\ exists s, sg = Some s /\
    ((is_ecdsa (sg_scheme s) = true /\ sigok = true /\ assocN (sg_key s) ku = Some issuer)
     \/ (is_ecdsa (sg_scheme s) = false /\ sg_scheme s = scheme_n3 /\ n3ok = true)).

Lemma auth_sound : forall ku issuer sg sigok n3ok,
  auth ku issuer sg sigok n3ok = true -> signed_by_issuer ku issuer sg sigok n3ok.
Proof.
  intros ku issuer sg sigok n3ok H. unfold auth in H.
  apply andb_true_iff in H. destruct H as [Hi H].
  split. { apply negb_true_iff, N.eqb_neq in Hi. exact Hi. }
  destruct sg as [s|]; [|discriminate]. exists s. split; [reflexivity|].
  destruct (is_ecdsa (sg_scheme s)) eqn:He.
  - left. destruct (assocN (sg_key s) ku) as [u|]; [|discriminate].
    apply andb_true_iff in H. destruct H as [Hs Hu]. apply N.eqb_eq in Hu. subst u. auto.
  - right. destruct (sg_scheme s =? scheme_n3) eqn:Hn; [|discriminate].
    apply N.eqb_eq in Hn. auto.
Qed.

Definition in_life (cur : N) (l : life) : Prop := l_nbf l <= cur /\ l_iat l <= cur /\ cur <= l_exp l.

Lemma valid_at_spec : forall cur l, valid_at cur l = true <-> in_life cur l.
Proof.
  intros. unfold valid_at, in_life. rewrite !andb_true_iff, !N.leb_le. tauto.
Qed.

(* ---------- v1 ---------- *)

Lemma common1_accept : forall ku e wf t so no,
  common1 ku e wf t so no = Accept ->
  wf = true /\ valid_at e (t1_life t) = true /\ auth ku (t1_issuer t) (t1_sig t) so no = true.
Proof.
  intros ku e wf t so no H. unfold common1 in H.
  destruct wf; cbn [negb] in H; [|discriminate].
  destruct (l_exp (t1_life t) <? e); [discriminate|].
  destruct (valid_at e (t1_life t)); cbn [negb] in H; [|discriminate].
  destruct (auth ku (t1_issuer t) (t1_sig t) so no); cbn [negb] in H; [|discriminate]. auto.
Qed.

Theorem accept1_implies_valid : forall ku e wf t so no rv rc ro,
  accept1 ku e wf t so no rv rc ro = Accept ->
  signed_by_issuer ku (t1_issuer t) (t1_sig t) so no
  /\ in_life e (t1_life t)
  /\ t1_cnr t = rc
  /\ (t1_verb t = verb_delete \/ ro = 0 \/ t1_objs t = [] \/ In ro (t1_objs t))
  /\ verb_covers (t1_verb t) rv = true.
Proof.
  intros ku e wf t so no rv rc ro H. unfold accept1 in H.
  destruct (common1 ku e wf t so no) eqn:Hc; try discriminate.
  destruct (applies1 t rv rc ro) eqn:Ha; [|discriminate].
  apply common1_accept in Hc. destruct Hc as (_ & Hv & Hau).
  split; [apply auth_sound; exact Hau|]. split; [apply valid_at_spec; exact Hv|].
  unfold applies1, relation_ok in Ha. rewrite !andb_true_iff in Ha.
  destruct Ha as [[Hcn Ho] Hvb]. split; [apply N.eqb_eq; exact Hcn|]. split; [|exact Hvb].
  rewrite !orb_true_iff in Ho. destruct Ho as [[Hd|Hz]|Hl].
  - left. apply N.eqb_eq. exact Hd.
  - right. left. apply N.eqb_eq. exact Hz.
  - destruct (t1_objs t) as [|x l] eqn:Hobj; [right; right; left; reflexivity|].
    right. right. right. unfold memN in Hl. apply existsb_exists in Hl.
    destruct Hl as [y [Hy He]]. apply N.eqb_eq in He. subst y. exact Hy.
Qed.

(* lifetime boundaries (epochs) *)
Lemma common1_at_nbf : forall ku wf t so no,
  wf = true -> auth ku (t1_issuer t) (t1_sig t) so no = true ->
  l_iat (t1_life t) <= l_nbf (t1_life t) -> l_nbf (t1_life t) <= l_exp (t1_life t) ->
  common1 ku (l_nbf (t1_life t)) wf t so no = Accept.
Proof.
  intros ku wf t so no Hw Ha Hi He. unfold common1. rewrite Hw, Ha. cbn [negb].
  assert (H1 : (l_exp (t1_life t) <? l_nbf (t1_life t)) = false) by (apply N.ltb_ge; exact He).
  rewrite H1. unfold valid_at.
  rewrite (proj2 (N.leb_le _ _) (N.le_refl _)), (proj2 (N.leb_le _ _) Hi), (proj2 (N.leb_le _ _) He).
  reflexivity.
Qed.

Lemma common1_at_exp : forall ku wf t so no,
  wf = true -> auth ku (t1_issuer t) (t1_sig t) so no = true ->
  l_iat (t1_life t) <= l_exp (t1_life t) -> l_nbf (t1_life t) <= l_exp (t1_life t) ->
  common1 ku (l_exp (t1_life t)) wf t so no = Accept.
Proof.
  intros ku wf t so no Hw Ha Hi He. unfold common1. rewrite Hw, Ha. cbn [negb].
  rewrite N.ltb_irrefl. unfold valid_at.
  rewrite (proj2 (N.leb_le _ _) (N.le_refl _)), (proj2 (N.leb_le _ _) Hi), (proj2 (N.leb_le _ _) He).
  reflexivity.
Qed.

Lemma common1_after_exp : forall ku wf t so no e,
  l_exp (t1_life t) < e -> common1 ku e wf t so no <> Accept.
Proof.
  intros ku wf t so no e H. unfold common1. destruct wf; cbn [negb]; [|discriminate].
  apply N.ltb_lt in H. rewrite H. discriminate.
Qed.

Lemma common1_before_nbf : forall ku wf t so no e,
  e < l_nbf (t1_life t) -> common1 ku e wf t so no <> Accept.
Proof.
  intros ku wf t so no e H. unfold common1. destruct wf; cbn [negb]; [|discriminate].
  destruct (l_exp (t1_life t) <? e); [discriminate|].
  unfold valid_at. assert (Hn : (l_nbf (t1_life t) <=? e) = false) by (apply N.leb_gt; exact H).
  rewrite Hn. cbn. discriminate.
Qed.

(* ---------- bearer ---------- *)

Theorem acceptb_implies_valid : forall ku e wf t so no owner rc sender,
  acceptb ku e wf t so no owner rc sender = Accept ->
  signed_by_issuer ku (b_issuer t) (b_sig t) so no
  /\ in_life e (b_life t)
  /\ b_issuer t = owner /\ (b_cid t = 0 \/ b_cid t = rc) /\ (b_user t = 0 \/ b_user t = sender).
Proof.
  intros ku e wf t so no owner rc sender H. unfold acceptb in H.
  destruct (commonb ku e wf t so no) eqn:Hc; try discriminate.
  destruct (appliesb t owner rc sender) eqn:Ha; [|discriminate].
  unfold commonb in Hc. destruct wf; cbn [negb] in Hc; [|discriminate].
  destruct (valid_at e (b_life t)) eqn:Hv; cbn [negb] in Hc; [|discriminate].
  destruct (auth ku (b_issuer t) (b_sig t) so no) eqn:Hau; cbn [negb] in Hc; [|discriminate].
  split; [apply auth_sound; exact Hau|]. split; [apply valid_at_spec; exact Hv|].
  unfold appliesb in Ha. rewrite !andb_true_iff, !orb_true_iff, !N.eqb_eq in Ha. tauto.
Qed.

Lemma commonb_boundaries : forall ku t so no,
  auth ku (b_issuer t) (b_sig t) so no = true ->
  l_iat (b_life t) <= l_nbf (b_life t) -> l_nbf (b_life t) <= l_exp (b_life t) ->
  commonb ku (l_nbf (b_life t)) true t so no = Accept
  /\ commonb ku (l_exp (b_life t)) true t so no = Accept
  /\ commonb ku (l_exp (b_life t) + 1) true t so no = Reject.
Proof.
  intros ku t so no Ha Hi He. unfold commonb, valid_at. rewrite Ha. cbn [negb].
  assert (Hie : l_iat (b_life t) <= l_exp (b_life t)) by lia.
  rewrite (proj2 (N.leb_le _ _) (N.le_refl (l_nbf (b_life t)))), (proj2 (N.leb_le _ _) Hi), (proj2 (N.leb_le _ _) He).
  rewrite (proj2 (N.leb_le _ _) (N.le_refl (l_exp (b_life t)))), (proj2 (N.leb_le _ _) Hie).
  assert (H1 : (l_exp (b_life t) + 1 <=? l_exp (b_life t)) = false) by (apply N.leb_gt; lia).
  rewrite H1. cbn. rewrite !andb_false_r. cbn. auto.
Qed.

(* ---------- v2 ---------- *)

Lemma verbs_sub_aux_sound : forall fuel req avail,
  verbs_sub_aux fuel req avail = true -> forall v, In v req -> In v avail.
Proof.
  induction fuel as [|f IH]; intros req avail H v Hv.
  - cbn in H. destruct req; [contradiction|discriminate].
  - cbn in H. destruct req as [|r req']; [contradiction|].
    destruct avail as [|a avail']; [discriminate|].
    destruct (r =? a) eqn:Hra.
    + apply N.eqb_eq in Hra. subst a. destruct Hv as [Hv|Hv].
      * subst v. left. reflexivity.
      * right. exact (IH _ _ H v Hv).
    + destruct (r <? a); [discriminate|]. right. exact (IH _ _ H v Hv).
Qed.

Lemma verbs_sub_sound : forall req avail, verbs_sub req avail = true -> forall v, In v req -> In v avail.
Proof. intros req avail. apply verbs_sub_aux_sound. Qed.

Lemma drop_less_incl : forall c l x, In x (drop_less c l) -> In x l.
Proof.
  induction l as [|o r IH]; intros x H; [exact H|].
  cbn in H. destruct (c_cnr o <? c); [right; apply IH; exact H|exact H].
Qed.

Lemma memN_In : forall x l, memN x l = true <-> In x l.
Proof.
  intros x l. unfold memN. rewrite existsb_exists. split.
  - intros [y [Hy He]]. apply N.eqb_eq in He. subst y. exact Hy.
  - intros H. exists x. split; [exact H|apply N.eqb_refl].
Qed.

(* every delegated context is covered by an origin context of the same container or by the
   origin's wildcard context *)
Lemma delegated_aux_sound : forall wild del rest,
  delegated_aux wild del rest = true ->
  forall d, In d del ->
    (exists o, In o rest /\ c_cnr o = c_cnr d /\ forall v, In v (c_verbs d) -> In v (c_verbs o))
    \/ (exists w, wild = Some w /\ forall v, In v (c_verbs d) -> In v w).
Proof.
  intros wild del. induction del as [|d0 del IH]; intros rest H d Hd; [contradiction|].
  cbn [delegated_aux] in H.
  assert (Hrec : forall rest', delegated_aux wild del rest' = true -> (forall x, In x rest' -> In x rest) ->
                 In d del ->
                 (exists o, In o rest /\ c_cnr o = c_cnr d /\ forall v, In v (c_verbs d) -> In v (c_verbs o))
                 \/ (exists w, wild = Some w /\ forall v, In v (c_verbs d) -> In v w)).
  { intros rest' Hr Hincl Hin. destruct (IH rest' Hr d Hin) as [[o [Ho1 Ho2]]|Hw].
    - left. exists o. split; [apply Hincl; exact Ho1|exact Ho2].
    - right. exact Hw. }
  destruct (drop_less (c_cnr d0) rest) as [|o rest''] eqn:Hdl.
  - destruct wild as [w|]; [|discriminate].
    apply andb_true_iff in H. destruct H as [Hs Hr].
    destruct Hd as [Hd|Hd].
    + subst d. right. exists w. split; [reflexivity|apply verbs_sub_sound; exact Hs].
    + apply (Hrec [] Hr); [intros x []|exact Hd].
  - assert (Hincl : forall x, In x (o :: rest'') -> In x rest).
    { intros x Hx. apply (drop_less_incl (c_cnr d0)). rewrite Hdl. exact Hx. }
    destruct (c_cnr o =? c_cnr d0) eqn:Heq.
    + apply andb_true_iff in H. destruct H as [Hs Hr].
      destruct Hd as [Hd|Hd].
      * subst d. left. exists o. split; [apply Hincl; left; reflexivity|].
        split; [apply N.eqb_eq; exact Heq|apply verbs_sub_sound; exact Hs].
      * apply (Hrec (o :: rest'') Hr Hincl Hd).
    + destruct wild as [w|]; [|discriminate].
      apply andb_true_iff in H. destruct H as [Hs Hr].
      destruct Hd as [Hd|Hd].
      * subst d. right. exists w. split; [reflexivity|apply verbs_sub_sound; exact Hs].
      * apply (Hrec (o :: rest'') Hr Hincl Hd).
Qed.

(* a verb the delegated token grants for a container is granted by its origin *)
Lemma delegated_ok_assert : forall t o verb cnr,
  delegated_ok t o = true -> assert_verb t verb cnr = true -> assert_verb o verb cnr = true.
Proof.
  intros t o verb cnr Hd Ha. unfold assert_verb in *.
  apply existsb_exists in Ha. destruct Ha as [d [Hin Hd2]].
  apply andb_true_iff in Hd2. destruct Hd2 as [Hc Hv]. apply memN_In in Hv.
  unfold delegated_ok in Hd.
  destruct (delegated_aux_sound _ _ _ Hd d Hin) as [[oc [Ho1 [Ho2 Ho3]]]|[w [Hw1 Hw2]]].
  - apply existsb_exists. exists oc. split; [exact Ho1|].
    rewrite Ho2, Hc. apply memN_In, Ho3, Hv.
  - unfold wildcard_of in Hw1. destruct (t2_ctxs o) as [|c0 r]; [discriminate|].
    destruct (c_cnr c0 =? 0) eqn:Hz; [|discriminate]. inversion Hw1; subst w.
    apply existsb_exists. exists c0. split; [left; reflexivity|].
    rewrite Hz. cbn. apply memN_In, Hw2, Hv.
Qed.

(* facts about every link of an accepted chain *)
Fixpoint chain_links (nns : list (N * N)) (ch : list tok2) : Prop :=
  match ch with
  | t :: ((o :: _) as rest) =>
      issuer_in_subjects nns t o = true
      /\ l_nbf (t2_life o) <= l_nbf (t2_life t) /\ l_exp (t2_life t) <= l_exp (t2_life o)
      /\ delegated_ok t o = true
      /\ chain_links nns rest
  | _ => True
  end.

Lemma validate_links : forall nns ch d, validate nns d ch = true -> chain_links nns ch.
Proof.
  intros nns ch. induction ch as [|t rest IH]; intros d H; [exact I|].
  cbn [validate] in H. destruct rest as [|o rest']; [exact I|].
  rewrite !andb_true_iff in H. destruct H as [_ [[[[Hdel Hiss] Hn] He] Hr]].
  cbn [chain_links]. repeat split; auto.
  - apply N.leb_le; exact Hn.
  - apply N.leb_le; exact He.
  - exact (IH _ Hr).
Qed.

Lemma validate_length : forall nns ch d, ch <> [] -> validate nns d ch = true -> N.of_nat (length ch) + d <= max_depth + 1.
Proof.
  intros nns ch. induction ch as [|t rest IH]; intros d Hne H; [contradiction|].
  cbn [validate] in H. rewrite !andb_true_iff in H. destruct H as [[[Hd _] _] Hr].
  apply N.leb_le in Hd. unfold max_depth in *. destruct rest as [|o rest'].
  - cbn [length]. change (N.of_nat 1) with 1. lia.
  - rewrite !andb_true_iff in Hr. destruct Hr as [_ Hr].
    assert (Hne' : o :: rest' <> []) by discriminate.
    specialize (IH _ Hne' Hr). cbn [length] in *. lia.
Qed.

Lemma validate_fields : forall nns ch d, validate nns d ch = true -> Forall (fun t => fields_ok t = true) ch.
Proof.
  intros nns ch. induction ch as [|t rest IH]; intros d H; [constructor|].
  cbn [validate] in H. rewrite !andb_true_iff in H. destruct H as [[[_ Hf] _] Hr].
  constructor; [exact Hf|]. destruct rest as [|o rest']; [constructor|].
  rewrite !andb_true_iff in Hr. destruct Hr as [_ Hr]. exact (IH _ Hr).
Qed.

Lemma links_assert : forall nns ch verb cnr,
  chain_links nns ch -> match ch with t :: _ => assert_verb t verb cnr = true | [] => True end ->
  Forall (fun t => assert_verb t verb cnr = true) ch.
Proof.
  intros nns ch verb cnr. induction ch as [|t rest IH]; intros Hl H0; [constructor|].
  constructor; [exact H0|]. destruct rest as [|o rest']; [constructor|].
  cbn [chain_links] in Hl. destruct Hl as (_ & _ & _ & Hd & Hl).
  apply IH; [exact Hl|]. exact (delegated_ok_assert _ _ _ _ Hd H0).
Qed.

Lemma links_life : forall nns ch now,
  chain_links nns ch -> match ch with t :: _ => l_nbf (t2_life t) <= now /\ now <= l_exp (t2_life t) | [] => True end ->
  Forall (fun t => l_nbf (t2_life t) <= now /\ now <= l_exp (t2_life t)) ch.
Proof.
  intros nns ch now. induction ch as [|t rest IH]; intros Hl H0; [constructor|].
  constructor; [exact H0|]. destruct rest as [|o rest']; [constructor|].
  cbn [chain_links] in Hl. destruct Hl as (_ & Hn & He & _ & Hl).
  apply IH; [exact Hl|]. destruct H0 as [H1 H2]. split; lia.
Qed.

(* per-layer signature facts, aligned lists *)
Fixpoint chain_signed (ku : list (N * N)) (ch : list tok2) (sigoks n3oks : list bool) : Prop :=
  match ch with
  | [] => True
  | t :: rest => signed_by_issuer ku (t2_issuer t) (t2_sig t) (hd false sigoks) (hd false n3oks)
                 /\ chain_signed ku rest (tl sigoks) (tl n3oks)
  end.

Lemma auth_chain_sound : forall ku ch so no, auth_chain ku ch so no = true -> chain_signed ku ch so no.
Proof.
  intros ku ch. induction ch as [|t rest IH]; intros so no H; [exact I|].
  cbn [auth_chain] in H. apply andb_true_iff in H. destruct H as [H1 H2].
  split; [apply auth_sound; exact H1|apply IH; exact H2].
Qed.

Theorem accept2_implies_valid : forall ku nns now wf ch so no rv rc,
  accept2 ku nns now wf ch so no rv rc = Accept ->
  chain_signed ku ch so no
  /\ (exists t rest, ch = t :: rest /\ in_life now (t2_life t))
  /\ Forall (fun t => l_nbf (t2_life t) <= now /\ now <= l_exp (t2_life t)) ch
  /\ Forall (fun t => assert_verb t rv rc = true) ch
  /\ chain_links nns ch
  /\ Forall (fun t => fields_ok t = true) ch
  /\ N.of_nat (length ch) <= max_depth + 1.
Proof.
  intros ku nns now wf ch so no rv rc H. unfold accept2 in H.
  destruct (common2 ku nns wf ch so no) eqn:Hc; try discriminate.
  destruct ch as [|t rest]; [discriminate|].
  unfold common2 in Hc. destruct wf; cbn [negb] in Hc; [|discriminate].
  destruct (validate nns 0 (t :: rest)) eqn:Hv; cbn [negb] in Hc; [|discriminate].
  destruct (auth_chain ku (t :: rest) so no) eqn:Ha; cbn [negb] in Hc; [|discriminate].
  destruct (l_exp (t2_life t) <? now) eqn:He; [discriminate|].
  destruct (valid_at now (t2_life t)) eqn:Hva; cbn [negb] in H; [|discriminate].
  destruct (assert_verb t rv rc) eqn:Hav; cbn [negb] in H; [|discriminate].
  pose proof (validate_links _ _ _ Hv) as Hl.
  apply valid_at_spec in Hva.
  split; [apply auth_chain_sound; exact Ha|].
  split; [exists t, rest; split; [reflexivity|exact Hva]|].
  split; [apply (links_life nns); [exact Hl|]; destruct Hva as (H1 & _ & H3); split; assumption|].
  split; [apply (links_assert nns); [exact Hl|exact Hav]|].
  split; [exact Hl|].
  split; [exact (validate_fields _ _ _ Hv)|].
  assert (Hne : t :: rest <> []) by discriminate.
  pose proof (validate_length _ _ _ Hne Hv) as Hlen. unfold max_depth in *. lia.
Qed.

(* v2 time boundaries (seconds) *)
Lemma accept2_time : forall ku nns wf ch so no rv rc t rest now,
  ch = t :: rest -> common2 ku nns wf ch so no = Accept -> assert_verb t rv rc = true ->
  (accept2 ku nns now wf ch so no rv rc = Accept <-> in_life now (t2_life t)).
Proof.
  intros ku nns wf ch so no rv rc t rest now Hch Hc Hav. subst ch.
  unfold accept2. rewrite Hc, Hav. cbn [negb].
  rewrite <- valid_at_spec. split.
  - destruct (l_exp (t2_life t) <? now); [discriminate|].
    destruct (valid_at now (t2_life t)); [reflexivity|discriminate].
  - intros Hv. rewrite Hv. apply valid_at_spec in Hv. destruct Hv as (_ & _ & H3).
    apply N.ltb_ge in H3. rewrite H3. reflexivity.
Qed.

(* ---------- the result cache ---------- *)

Section Cache.
  Variable keyf : tok1 -> bool -> bool -> bool -> N.
  Hypothesis keyf_inj : forall t w s n t' w' s' n',
    keyf t w s n = keyf t' w' s' n' -> t = t' /\ w = w' /\ s = s' /\ n = n'.
  Variable ku : list (N * N).

  Definition ids_faithful (es : list cevent) : Prop :=
    Forall (fun e => match e with
                     | EVerify id t wf so no _ _ _ => id = keyf t wf so no
                     | ETick _ _ => True
                     end) es.

  Definition ticks_reset (es : list cevent) : Prop :=
    Forall (fun e => match e with ETick _ r => r = true | _ => True end) es.

  (* every cached result was computed in the current epoch for the token its key stands for *)
  Definition cinv (s : cstate) : Prop :=
    forall en, In en (cs_cache s) ->
      exists t wf so no, ce_tok en = keyf t wf so no /\ ce_res en = common1 ku (cs_epoch s) wf t so no.

  Lemma clookup_in : forall k c en, clookup k c = Some en -> In en c /\ ce_tok en = k.
  Proof.
    induction c as [|e r IH]; intros en H; [discriminate|].
    cbn in H. destruct (ce_tok e =? k) eqn:He.
    - inversion H; subst. split; [left; reflexivity|apply N.eqb_eq; exact He].
    - destruct (IH _ H) as [H1 H2]. split; [right; exact H1|exact H2].
  Qed.

  Lemma cstep_correct : forall s e,
    cinv s -> ids_faithful [e] -> ticks_reset [e] ->
    cinv (fst (cstep ku s e))
    /\ match e with
       | EVerify id t wf so no rv rc ro =>
           snd (cstep ku s e) = Some (accept1 ku (cs_epoch s) wf t so no rv rc ro)
       | ETick _ _ => snd (cstep ku s e) = None
       end.
  Proof.
    intros s e Hinv Hid Hr. inversion Hid as [|? ? Hid1 _]; subst. inversion Hr as [|? ? Hr1 _]; subst.
    destruct e as [id t wf so no rv rc ro|ep reset].
    - cbn [cstep]. destruct (clookup id (cs_cache s)) as [en|] eqn:Hl.
      + apply clookup_in in Hl. destruct Hl as [Hin Hk].
        destruct (Hinv en Hin) as (t' & wf' & so' & no' & Hk' & Hres).
        rewrite Hk, Hid1 in Hk'. apply keyf_inj in Hk'. destruct Hk' as (? & ? & ? & ?); subst t' wf' so' no'.
        cbn [fst snd]. split.
        * intros en2 Hin2. cbn [cs_cache cs_epoch] in *. exact (Hinv en2 Hin2).
        * unfold accept1. rewrite Hres. destruct (common1 ku (cs_epoch s) wf t so no); reflexivity.
      + cbn [fst snd]. split.
        * intros en2 Hin2. cbn [cs_cache cs_epoch] in *. destruct Hin2 as [Hin2|Hin2].
          -- subst en2. exists t, wf, so, no. cbn. split; [exact Hid1|reflexivity].
          -- exact (Hinv en2 Hin2).
        * unfold accept1. destruct (common1 ku (cs_epoch s) wf t so no); reflexivity.
    - subst reset. cbn. split; [intros en []|reflexivity].
  Qed.

  (* with a reset at every epoch tick the cache is transparent: every answer in any history equals
     the uncached verification at the epoch current at that moment *)
  Fixpoint crun_ref (epoch : N) (es : list cevent) : list (option res) :=
    match es with
    | [] => []
    | EVerify _ t wf so no rv rc ro :: r => Some (accept1 ku epoch wf t so no rv rc ro) :: crun_ref epoch r
    | ETick ep _ :: r => None :: crun_ref ep r
    end.

  Theorem cache_transparent : forall es s,
    cinv s -> ids_faithful es -> ticks_reset es -> crun ku s es = crun_ref (cs_epoch s) es.
  Proof.
    induction es as [|e r IH]; intros s Hinv Hid Hr; [reflexivity|].
    inversion Hid as [|? ? Hid1 Hid2]; subst. inversion Hr as [|? ? Hr1 Hr2]; subst.
    assert (H1 : ids_faithful [e]) by (constructor; [exact Hid1|constructor]).
    assert (H2 : ticks_reset [e]) by (constructor; [exact Hr1|constructor]).
    destruct (cstep_correct s e Hinv H1 H2) as [Hinv' Hres].
    cbn [crun]. destruct (cstep ku s e) as [s' o] eqn:Hst. cbn [fst snd] in *.
    destruct e as [id t wf so no rv rc ro|ep reset].
    - cbn [crun_ref]. rewrite Hres. f_equal.
      assert (He : cs_epoch s' = cs_epoch s).
      { cbn [cstep] in Hst. destruct (clookup id (cs_cache s)); inversion Hst; reflexivity. }
      rewrite <- He. apply IH; assumption.
    - cbn [crun_ref]. rewrite Hres. f_equal.
      assert (He : cs_epoch s' = ep) by (cbn in Hst; inversion Hst; reflexivity).
      rewrite <- He. apply IH; assumption.
  Qed.
End Cache.

(* ---------- abstract signatures: changing a signed field ---------- *)

Section Unforgeable.
  Variable msg : Type.
  (* signature verification of the scheme over the signed bytes *)
  Variable verify : N -> N -> msg -> N -> bool.
  (* a signature value verifies for at most one message under a key: a holder of a token cannot
     re-use its signature for a different body (no key, no second preimage) *)
  Hypothesis sig_binds : forall sc k s m m', verify sc k m s = true -> verify sc k m' s = true -> m = m'.

  Definition sigok_of (m : msg) (sg : option sigd) : bool :=
    match sg with Some s => verify (sg_scheme s) (sg_key s) m (sg_val s) | None => false end.

  Lemma sigok_binds : forall m m' sg, sigok_of m sg = true -> m <> m' -> sigok_of m' sg = false.
  Proof.
    intros m m' sg H Hne. unfold sigok_of in *. destruct sg as [s|]; [|reflexivity].
    destruct (verify (sg_scheme s) (sg_key s) m' (sg_val s)) eqn:Hv; [|reflexivity].
    exfalso. apply Hne. exact (sig_binds _ _ _ _ _ H Hv).
  Qed.

  (* signed bodies: everything but the signature; the encodings are injective (stable protobuf
     marshalling of the body as transmitted) *)
  Definition body1 (t : tok1) := (t1_issuer t, t1_life t, t1_authkey t, t1_verb t, t1_cnr t, t1_objs t).
  Definition bodyb (t : btok) := (b_issuer t, b_life t, b_cid t, b_user t, b_table t).
  Definition body2 (t : tok2) := (t2_version t, t2_applen t, t2_issuer t, t2_subjs t, t2_life t, t2_ctxs t, t2_final t).

  Variable enc1 : (N * life * N * N * N * list N) -> msg.
  Variable encb : (N * life * N * N * N) -> msg.
  Hypothesis enc1_inj : forall a b, enc1 a = enc1 b -> a = b.
  Hypothesis encb_inj : forall a b, encb a = encb b -> a = b.

  Lemma auth_needs_sig : forall ku issuer sg n3ok,
    (forall s, sg = Some s -> is_ecdsa (sg_scheme s) = true) ->
    auth ku issuer sg false n3ok = false.
  Proof.
    intros ku issuer sg n3ok He. unfold auth. destruct sg as [s|]; [|apply andb_false_r].
    rewrite (He s eq_refl). destruct (assocN (sg_key s) ku); cbn; apply andb_false_r.
  Qed.

  (* a token accepted with an ECDSA signature is rejected after any change of its signed body
     that keeps the signature *)
  Theorem field_change_rejected_v1 : forall ku e t t' rv rc ro n3ok n3ok',
    accept1 ku e true t (sigok_of (enc1 (body1 t)) (t1_sig t)) n3ok rv rc ro = Accept ->
    (forall s, t1_sig t = Some s -> is_ecdsa (sg_scheme s) = true) ->
    t1_sig t' = t1_sig t -> body1 t' <> body1 t ->
    forall e' wf' rv' rc' ro',
      accept1 ku e' wf' t' (sigok_of (enc1 (body1 t')) (t1_sig t')) n3ok' rv' rc' ro' <> Accept.
  Proof.
    intros ku e t t' rv rc ro n3ok n3ok' Hacc Hec Hsig Hne e' wf' rv' rc' ro' Hacc'.
    unfold accept1 in Hacc. destruct (common1 ku e true t _ n3ok) eqn:Hc; try discriminate.
    apply common1_accept in Hc. destruct Hc as (_ & _ & Hau).
    assert (Hso : sigok_of (enc1 (body1 t)) (t1_sig t) = true).
    { destruct (sigok_of (enc1 (body1 t)) (t1_sig t)) eqn:Hs; [reflexivity|].
      rewrite (auth_needs_sig ku (t1_issuer t) (t1_sig t) n3ok Hec) in Hau. discriminate. }
    assert (Hso' : sigok_of (enc1 (body1 t')) (t1_sig t') = false).
    { rewrite Hsig. apply (sigok_binds (enc1 (body1 t))); [exact Hso|].
      intros Heq. apply enc1_inj in Heq. apply Hne. symmetry. exact Heq. }
    unfold accept1 in Hacc'. destruct (common1 ku e' wf' t' _ n3ok') eqn:Hc'; try discriminate.
    apply common1_accept in Hc'. destruct Hc' as (_ & _ & Hau').
    rewrite Hso' in Hau'.
    rewrite (auth_needs_sig ku (t1_issuer t') (t1_sig t') n3ok') in Hau'; [discriminate|].
    rewrite Hsig. exact Hec.
  Qed.

  Theorem field_change_rejected_bearer : forall ku e t t' owner rc sender n3ok n3ok',
    acceptb ku e true t (sigok_of (encb (bodyb t)) (b_sig t)) n3ok owner rc sender = Accept ->
    (forall s, b_sig t = Some s -> is_ecdsa (sg_scheme s) = true) ->
    b_sig t' = b_sig t -> bodyb t' <> bodyb t ->
    forall e' wf' owner' rc' sender',
      acceptb ku e' wf' t' (sigok_of (encb (bodyb t')) (b_sig t')) n3ok' owner' rc' sender' <> Accept.
  Proof.
    intros ku e t t' owner rc sender n3ok n3ok' Hacc Hec Hsig Hne e' wf' owner' rc' sender' Hacc'.
    unfold acceptb in Hacc. destruct (commonb ku e true t _ n3ok) eqn:Hc; try discriminate.
    unfold commonb in Hc. cbn [negb] in Hc.
    destruct (valid_at e (b_life t)); cbn [negb] in Hc; [|discriminate].
    destruct (auth ku (b_issuer t) (b_sig t) (sigok_of (encb (bodyb t)) (b_sig t)) n3ok) eqn:Hau; cbn [negb] in Hc; [|discriminate].
    assert (Hso : sigok_of (encb (bodyb t)) (b_sig t) = true).
    { destruct (sigok_of (encb (bodyb t)) (b_sig t)) eqn:Hs; [reflexivity|].
      rewrite (auth_needs_sig ku (b_issuer t) (b_sig t) n3ok Hec) in Hau. discriminate. }
    assert (Hso' : sigok_of (encb (bodyb t')) (b_sig t') = false).
    { rewrite Hsig. apply (sigok_binds (encb (bodyb t))); [exact Hso|].
      intros Heq. apply encb_inj in Heq. apply Hne. symmetry. exact Heq. }
    unfold acceptb in Hacc'. destruct (commonb ku e' wf' t' _ n3ok') eqn:Hc'; try discriminate.
    unfold commonb in Hc'. destruct wf'; cbn [negb] in Hc'; [|discriminate].
    destruct (valid_at e' (b_life t')); cbn [negb] in Hc'; [|discriminate].
    rewrite Hso' in Hc'.
    rewrite (auth_needs_sig ku (b_issuer t') (b_sig t') n3ok') in Hc'; [discriminate|].
    rewrite Hsig. exact Hec.
  Qed.

  Variable enc2 : (N * N * N * list subj * life * list ctx2 * bool) -> msg.
  Hypothesis enc2_inj : forall a b, enc2 a = enc2 b -> a = b.

  Definition sigoks_of (ch : list tok2) : list bool := map (fun t => sigok_of (enc2 (body2 t)) (t2_sig t)) ch.

  Lemma auth_chain_nth : forall ku ch n3oks i t,
    auth_chain ku ch (sigoks_of ch) n3oks = true -> nth_error ch i = Some t ->
    exists no, auth ku (t2_issuer t) (t2_sig t) (sigok_of (enc2 (body2 t)) (t2_sig t)) no = true.
  Proof.
    intros ku ch. induction ch as [|t0 rest IH]; intros n3oks i t H Hn.
    - destruct i; discriminate.
    - cbn [auth_chain sigoks_of map hd tl] in H. apply andb_true_iff in H. destruct H as [H1 H2].
      destruct i as [|i].
      + cbn in Hn. inversion Hn; subst. eexists. exact H1.
      + cbn in Hn. exact (IH _ _ _ H2 Hn).
  Qed.

  (* replacing layer i of an accepted chain by a token with the same signature and a different
     signed body makes the chain rejected *)
  Theorem field_change_rejected_v2 : forall ku nns now ch n3oks rv rc i t t' ch',
    accept2 ku nns now true ch (sigoks_of ch) n3oks rv rc = Accept ->
    nth_error ch i = Some t ->
    (forall s, t2_sig t = Some s -> is_ecdsa (sg_scheme s) = true) ->
    t2_sig t' = t2_sig t -> body2 t' <> body2 t ->
    nth_error ch' i = Some t' ->
    forall nns' now' wf' n3oks' rv' rc',
      accept2 ku nns' now' wf' ch' (sigoks_of ch') n3oks' rv' rc' <> Accept.
  Proof.
    intros ku nns now ch n3oks rv rc i t t' ch' Hacc Hn Hec Hsig Hne Hn' nns' now' wf' n3oks' rv' rc' Hacc'.
    assert (Hch : auth_chain ku ch (sigoks_of ch) n3oks = true).
    { unfold accept2 in Hacc. destruct (common2 ku nns true ch (sigoks_of ch) n3oks) eqn:Hc; try discriminate.
      unfold common2 in Hc. destruct ch; [discriminate|]. cbn [negb] in Hc.
      destruct (validate nns 0 (t0 :: ch)); cbn [negb] in Hc; [|discriminate].
      destruct (auth_chain ku (t0 :: ch) (sigoks_of (t0 :: ch)) n3oks); [reflexivity|discriminate]. }
    assert (Hch' : auth_chain ku ch' (sigoks_of ch') n3oks' = true).
    { unfold accept2 in Hacc'. destruct (common2 ku nns' wf' ch' (sigoks_of ch') n3oks') eqn:Hc; try discriminate.
      unfold common2 in Hc. destruct ch'; [discriminate|]. destruct wf'; cbn [negb] in Hc; [|discriminate].
      destruct (validate nns' 0 (t0 :: ch')); cbn [negb] in Hc; [|discriminate].
      destruct (auth_chain ku (t0 :: ch') (sigoks_of (t0 :: ch')) n3oks'); [reflexivity|discriminate]. }
    destruct (auth_chain_nth _ _ _ _ _ Hch Hn) as [no Hau].
    destruct (auth_chain_nth _ _ _ _ _ Hch' Hn') as [no' Hau'].
    assert (Hso : sigok_of (enc2 (body2 t)) (t2_sig t) = true).
    { destruct (sigok_of (enc2 (body2 t)) (t2_sig t)) eqn:Hs; [reflexivity|].
      rewrite (auth_needs_sig ku (t2_issuer t) (t2_sig t) no Hec) in Hau. discriminate. }
    assert (Hso' : sigok_of (enc2 (body2 t')) (t2_sig t') = false).
    { rewrite Hsig. apply (sigok_binds (enc2 (body2 t))); [exact Hso|].
      intros Heq. apply enc2_inj in Heq. apply Hne. symmetry. exact Heq. }
    rewrite Hso' in Hau'.
    rewrite (auth_needs_sig ku (t2_issuer t') (t2_sig t') no') in Hau'; [discriminate|].
    rewrite Hsig. exact Hec.
  Qed.
End Unforgeable.
