(* Proofs about the PUT placement model (C25). *)
From Coq Require Import List Arith Bool Lia.
Import ListNotations.
From NV Require Import EC.NodeSeq EC.NodeSeqProofs Place.Put.

Lemma part_seq_eq : part_seq = node_seq.
Proof. reflexivity. Qed.

Lemma nodup_app_intro {A} (l1 l2 : list A) :
  NoDup l1 -> NoDup l2 -> (forall x, In x l1 -> ~ In x l2) -> NoDup (l1 ++ l2).
Proof.
  induction l1 as [|a l1 IH]; simpl; intros H1 H2 H; auto.
  inversion H1; subst. constructor.
  - rewrite in_app_iff. intros [Hi|Hi]; [tauto|]. apply (H a); auto.
  - apply IH; auto.
Qed.

Lemma nodup_app_l {A} (l1 l2 : list A) : NoDup (l1 ++ l2) -> NoDup l1.
Proof. induction l1; simpl; intros H; [constructor|]. inversion H; subst. constructor; auto. rewrite in_app_iff in H2. tauto. Qed.

Lemma nodup_app_r {A} (l1 l2 : list A) : NoDup (l1 ++ l2) -> NoDup l2.
Proof. induction l1; simpl; intros H; auto. inversion H; auto. Qed.

Lemma nodup_app_disj {A} (l1 l2 : list A) x : NoDup (l1 ++ l2) -> In x l1 -> ~ In x l2.
Proof.
  induction l1 as [|a l1 IH]; simpl; intros H Hi; [destruct Hi|].
  apply NoDup_cons_iff in H. destruct H as [Ha Hr]. destruct Hi as [Hi|Hi].
  - subst. rewrite in_app_iff in Ha. tauto.
  - auto.
Qed.

Lemma nodup_filter {A} (f : A -> bool) (l : list A) : NoDup l -> NoDup (filter f l).
Proof.
  induction 1; simpl; [constructor|].
  destruct (f x); auto. constructor; auto. intro Hi. apply filter_In in Hi. tauto.
Qed.

Lemma filter_len_le {A} (f : A -> bool) (l : list A) : length (filter f l) <= length l.
Proof. induction l; simpl; auto. destruct (f a); simpl; lia. Qed.

Section Rep.
Variable ack : node -> bool.

Definition res_true (rs : results) (n : node) : Prop := find_res n rs = Some true.

(* a recorded success is a real acknowledgement of a node the object was sent to *)
Definition good (p : rprog) : Prop :=
  forall n, res_true (rp_results p) n -> ack n = true /\ In n (rp_sent p).

Lemma find_res_cons n m b rs :
  find_res n ((m, b) :: rs) = if Nat.eqb m n then Some b else find_res n rs.
Proof. reflexivity. Qed.

(* ---- select ---------------------------------------------------------------- *)
Lemma select_spec : forall rest rs rem stored group g rest' stored' rs',
  select rs rest rem stored group = (g, rest', stored', rs') ->
  length group <= rem ->
  NoDup rest ->
  exists pre gnew hs,
    rest = pre ++ rest' /\ g = group ++ gnew
    /\ incl gnew pre /\ incl hs pre /\ NoDup hs /\ NoDup gnew
    /\ (forall n, In n hs -> res_true rs n)
    /\ (forall n, In n gnew -> find_res n rs = None)
    /\ stored' = stored + length hs
    /\ stored' + length g <= stored + rem
    /\ (forall n, res_true rs' n <-> res_true rs n)
    /\ (forall n, In n gnew -> find_res n rs' = Some false)
    /\ (forall n, ~ In n gnew -> find_res n rs' = find_res n rs).
Proof.
  induction rest as [|x r IH]; simpl; intros rs rem stored group g rest' stored' rs' H Hlen Hnd.
  { inversion H; subst. exists [], [], []. simpl.
    repeat split; auto using incl_nil_l, NoDup_nil; try tauto; try lia; try (rewrite app_nil_r; auto). }
  destruct (Nat.ltb (length group) rem) eqn:Hlt.
  2:{ inversion H; subst. exists [], [], []. simpl.
      repeat split; auto using incl_nil_l, NoDup_nil; try tauto; try lia; try (rewrite app_nil_r; auto). }
  apply Nat.ltb_lt in Hlt. inversion Hnd as [|? ? Hx Hr]; subst.
  destruct (find_res x rs) as [[|]|] eqn:Hf.
  - apply IH in H; auto; [|lia].
    destruct H as (pre & gnew & hs & H1 & H2 & H3 & H4 & H5 & H6 & H7 & H8 & H9 & H10 & H11 & H12 & H13).
    exists (x :: pre), gnew, (x :: hs). subst. simpl.
    assert (~ In x pre) as Hxp by (intro; apply Hx; apply in_or_app; auto).
    split; [reflexivity|]. split; [reflexivity|].
    split; [intros y Hy; right; auto|].
    split; [intros y [Hy|Hy]; [left; auto|right; auto]|].
    split; [constructor; auto|].
    split; [auto|].
    split; [intros n [<-|Hn]; [exact Hf|auto]|].
    split; [auto|]. split; [lia|]. split; [lia|]. auto.
  - apply IH in H; auto.
    destruct H as (pre & gnew & hs & H1 & H2 & H3 & H4 & H5 & H6 & H7 & H8 & H9 & H10 & H11 & H12 & H13).
    exists (x :: pre), gnew, hs. subst. simpl.
    split; [reflexivity|]. split; [reflexivity|].
    split; [intros y Hy; right; auto|].
    split; [intros y Hy; right; auto|]. auto 10.
  - apply IH in H; auto; [|rewrite app_length; simpl; lia].
    destruct H as (pre & gnew & hs & H1 & H2 & H3 & H4 & H5 & H6 & H7 & H8 & H9 & H10 & H11 & H12 & H13).
    assert (~ In x pre) as Hxp by (intro; apply Hx; subst; apply in_or_app; auto).
    exists (x :: pre), (x :: gnew), hs. subst. rewrite <- app_assoc. simpl.
    split; [reflexivity|]. split; [reflexivity|].
    split; [intros y [Hy|Hy]; [left; auto|right; auto]|].
    split; [intros y Hy; right; auto|].
    split; [auto|].
    split; [constructor; auto|].
    split.
    { intros n Hn. specialize (H7 n Hn). unfold res_true in *. rewrite find_res_cons in H7.
      destruct (Nat.eqb x n) eqn:E; [discriminate|exact H7]. }
    split.
    { intros n [<-|Hn]; [exact Hf|]. specialize (H8 n Hn). rewrite find_res_cons in H8.
      destruct (Nat.eqb x n); [discriminate|exact H8]. }
    split; [lia|].
    split; [rewrite app_length in H10 |- *; simpl in *; rewrite app_length in H10; simpl in H10; lia|].
    split.
    { intros n. rewrite H11. unfold res_true. rewrite find_res_cons.
      destruct (Nat.eqb x n) eqn:E; [|tauto]. apply Nat.eqb_eq in E. subst. rewrite Hf. split; discriminate. }
    split.
    { intros n [<-|Hn]; [|auto].
      destruct (in_dec Nat.eq_dec x gnew) as [Hi|Hi]; [auto|].
      rewrite (H13 x Hi). rewrite find_res_cons, Nat.eqb_refl. reflexivity. }
    intros n Hn. rewrite H13 by tauto. rewrite find_res_cons.
    destruct (Nat.eqb x n) eqn:E; auto. apply Nat.eqb_eq in E. subst. tauto.
Qed.

(* ---- send_group --------------------------------------------------------------- *)
Lemma send_group_spec : forall g rs stored rs' stored',
  send_group ack g rs stored = (rs', stored') ->
  NoDup g ->
  stored' = stored + length (filter ack g)
  /\ (forall n, In n g -> find_res n rs' = Some (ack n))
  /\ (forall n, ~ In n g -> find_res n rs' = find_res n rs).
Proof.
  induction g as [|x r IH]; simpl; intros rs stored rs' stored' H Hnd.
  { inversion H; subst. repeat split; auto; try lia; try tauto. }
  inversion Hnd as [|? ? Hx Hr]; subst.
  destruct (ack x) eqn:Ea; apply IH in H; auto; destruct H as (H1 & H2 & H3);
    (split; [simpl; lia|]); (split;
      [intros n [<-|Hn]; [rewrite H3 by auto; rewrite find_res_cons, Nat.eqb_refl; congruence|auto]
      |intros n Hn; rewrite H3 by tauto; rewrite find_res_cons;
       destruct (Nat.eqb x n) eqn:E; auto; apply Nat.eqb_eq in E; subst; tauto]).
Qed.

(* ---- handleREPRule ---------------------------------------------------------------- *)
(* witness of [stored]: that many distinct acknowledged nodes of the processed prefix *)
Definition witness (p : rprog) (pre : list node) (stored : nat) : Prop :=
  exists hs, NoDup hs /\ incl hs pre /\ (forall n, In n hs -> res_true (rp_results p) n) /\ length hs = stored.

Definition mono (p p' : rprog) : Prop :=
  (forall n, res_true (rp_results p) n -> res_true (rp_results p') n)
  /\ incl (rp_sent p) (rp_sent p').

Lemma mono_refl p : mono p p.
Proof. split; auto using incl_refl. Qed.

Lemma mono_trans p q r : mono p q -> mono q r -> mono p r.
Proof. intros [A B] [C D]. split; auto. eapply incl_tran; eauto. Qed.

Lemma witness_weaken p pre rest stored : witness p pre stored -> witness p (pre ++ rest) stored.
Proof.
  intros (hs & A & B & C & D). exists hs. split; [auto|]. split; [apply incl_appl; auto|]. split; auto.
Qed.

Lemma hr_loop_spec minR maxR : forall fuel p pre rest stored p' stored' ok,
  hr_loop fuel ack p rest stored minR maxR = (p', stored', ok) ->
  NoDup (pre ++ rest) -> good p -> witness p pre stored -> stored <= maxR ->
  good p' /\ mono p p'
  /\ witness p' (pre ++ rest) stored' /\ stored' <= maxR
  /\ (ok = true -> maxR <= stored' \/ minR <= stored').
Proof.
  induction fuel as [|f IH]; simpl; intros p pre rest stored p' stored' ok H Hnd Hg Hw Hle.
  { inversion H; subst. split; [auto|]. split; [apply mono_refl|]. split; [apply witness_weaken; auto|].
    split; [auto|discriminate]. }
  assert (witness p (pre ++ rest) stored) as Hw' by (apply witness_weaken; auto).
  destruct (Nat.leb maxR stored) eqn:E1.
  { inversion H; subst. apply Nat.leb_le in E1. split; [auto|]. split; [apply mono_refl|]. split; [auto|].
    split; [auto|]. intros _. left. auto. }
  apply Nat.leb_gt in E1.
  destruct (Nat.ltb (length rest) (minR - stored)) eqn:E2.
  { inversion H; subst. split; [auto|]. split; [apply mono_refl|]. split; [auto|]. split; [auto|discriminate]. }
  apply Nat.ltb_ge in E2.
  destruct rest as [|x r].
  { inversion H; subst. simpl in E2. split; [auto|]. split; [apply mono_refl|]. split; [auto|]. split; [auto|].
    intros _. right. lia. }
  remember (x :: r) as rest eqn:Hrest.
  destruct (select (rp_results p) rest (maxR - stored) stored []) as [[[g rest'] st1] rs1] eqn:Hsel.
  destruct (send_group ack g rs1 st1) as [rs2 st2] eqn:Hsend.
  pose proof (nodup_app_r _ _ Hnd) as Hndr.
  destruct (select_spec _ _ _ _ _ _ _ _ _ Hsel (Nat.le_0_l _) Hndr)
    as (seg & gnew & hs1 & S1 & S2 & S3 & S4 & S5 & S6 & S7 & S8 & S9 & S10 & S11 & S12 & S13).
  simpl in S2. subst g. unfold res_true in S7.
  destruct (send_group_spec _ _ _ _ _ Hsend S6) as (G1 & G2 & G3).
  set (p2 := mkRP rs2 (rp_sent p ++ gnew)) in *.
  assert (forall n, In n seg -> ~ In n pre) as Hdisj.
  { intros n Hn Hp. apply (nodup_app_disj _ _ n Hnd Hp). rewrite S1. apply in_or_app. auto. }
  assert (good p2) as Hg2.
  { intros n Hn. unfold res_true in Hn. simpl in Hn |- *.
    destruct (in_dec Nat.eq_dec n gnew) as [Hi|Hi].
    - rewrite (G2 n Hi) in Hn. split; [congruence|apply in_or_app; auto].
    - rewrite (G3 n Hi) in Hn. apply S11 in Hn. destruct (Hg n Hn). split; auto. apply in_or_app; auto. }
  assert (mono p p2) as Hm2.
  { split; simpl; [|apply incl_appl, incl_refl].
    intros n Hn. unfold res_true in Hn |- *.
    destruct (in_dec Nat.eq_dec n gnew) as [Hi|Hi].
    - rewrite (S8 n Hi) in Hn. discriminate.
    - rewrite (G3 n Hi). apply S11. exact Hn. }
  assert (witness p2 (pre ++ seg) st2) as Hw2.
  { destruct Hw as (hs & A & B & C & D).
    exists (hs ++ hs1 ++ filter ack gnew). split; [|split; [|split]].
    - apply nodup_app_intro; auto.
      + apply nodup_app_intro; auto using nodup_filter.
        intros n Hn Hf. apply filter_In in Hf. destruct Hf as [Hf _].
        specialize (S7 n Hn). rewrite (S8 n Hf) in S7. discriminate.
      + intros n Hn Hx. apply in_app_or in Hx. apply (Hdisj n); auto.
        destruct Hx as [Hx|Hx]; [auto|]. apply filter_In in Hx. apply S3. tauto.
    - intros n Hn. apply in_app_or in Hn. apply in_or_app. destruct Hn as [Hn|Hn]; [left; auto|right].
      apply in_app_or in Hn. destruct Hn as [Hn|Hn]; [auto|]. apply filter_In in Hn. apply S3. tauto.
    - intros n Hn. unfold res_true. simpl. apply in_app_or in Hn. destruct Hn as [Hn|Hn].
      + apply Hm2. auto.
      + apply in_app_or in Hn. destruct Hn as [Hn|Hn].
        * assert (~ In n gnew) as Hi.
          { intro Hi. specialize (S7 n Hn). rewrite (S8 n Hi) in S7. discriminate. }
          rewrite (G3 n Hi). apply S11. exact (S7 n Hn).
        * apply filter_In in Hn. destruct Hn as [Hi Ha]. rewrite (G2 n Hi). congruence.
    - rewrite !app_length. lia. }
  assert (st2 <= maxR) as Hle2.
  { pose proof (filter_len_le ack gnew). simpl in S10. lia. }
  assert (NoDup ((pre ++ seg) ++ rest')) as Hnd2 by (rewrite <- app_assoc, <- S1; exact Hnd).
  destruct (IH _ _ _ _ _ _ _ H Hnd2 Hg2 Hw2 Hle2) as (R1 & R2 & R3 & R4 & R5).
  rewrite <- app_assoc, <- S1 in R3.
  split; [auto|]. split; [eapply mono_trans; eauto|]. split; [auto|]. split; auto.
Qed.

Lemma handle_rep_rule_spec p nodes minR maxR p' stored ok :
  handle_rep_rule ack p nodes minR maxR = (p', stored, ok) ->
  NoDup nodes -> good p ->
  good p' /\ mono p p' /\ witness p' nodes stored /\ stored <= maxR
  /\ (ok = true -> maxR <= stored \/ minR <= stored).
Proof.
  unfold handle_rep_rule. intros H Hnd Hg.
  apply (hr_loop_spec minR maxR _ p [] nodes 0 p' stored ok H); auto; [|lia].
  exists []. split; [constructor|]. split; [apply incl_nil_l|]. split; [intros n []|reflexivity].
Qed.

(* ---- the rule loop ------------------------------------------------------------------ *)
Definition rule_ok (p : rprog) (r : list node * nat) (stored : nat) : Prop :=
  exists hs, NoDup hs /\ incl hs (fst r) /\ length hs = stored
             /\ forall n, In n hs -> ack n = true /\ In n (rp_sent p).

Lemma witness_rule_ok p p' nodes lim stored :
  good p' -> mono p p' -> witness p nodes stored -> rule_ok p' (nodes, lim) stored.
Proof.
  intros Hg [Hm _] (hs & A & B & C & D). exists hs. split; [auto|]. split; [auto|]. split; [auto|].
  intros n Hn. apply Hg, Hm, C; auto.
Qed.

(* no MaxReplicas: full success means every rule got its number of acknowledgements *)
Lemma rule_ok_mono p p' r s : mono p p' -> rule_ok p r s -> rule_ok p' r s.
Proof.
  intros [_ Hm] (hs & A & B & C & D). exists hs. split; [auto|]. split; [auto|]. split; [auto|].
  intros n Hn. destruct (D n Hn). split; auto.
Qed.

Lemma rep_loop_nomax : forall rules left p acc st p' acc',
  rep_loop ack 0 rules left p acc = (st, p', acc') ->
  Forall (fun r => NoDup (fst r)) rules -> good p ->
  good p' /\ mono p p'
  /\ (st = Ok -> Forall (fun r => rule_ok p' r (snd r)) rules).
Proof.
  induction rules as [|[nodes lim] rest IH]; simpl; intros left p acc st p' acc' H Hnd Hg.
  { inversion H; subst. split; [auto|]. split; [apply mono_refl|]. intros _. constructor. }
  inversion Hnd as [|? ? Hn1 Hn2]; subst. simpl in Hn1.
  destruct (handle_rep_rule ack p nodes lim lim) as [[p1 stored] ok] eqn:Hh.
  destruct (handle_rep_rule_spec _ _ _ _ _ _ _ Hh Hn1 Hg) as (G1 & M1 & W1 & L1 & O1).
  destruct ok; simpl in H.
  - destruct (IH _ _ _ _ _ _ H Hn2 G1) as (G2 & M2 & F2).
    split; [auto|]. split; [eapply mono_trans; eauto|].
    intros ->. constructor; auto.
    assert (stored = lim) as -> by (destruct (O1 eq_refl); lia).
    simpl. eapply rule_ok_mono; [exact M2|]. exact (witness_rule_ok p1 p1 nodes lim lim G1 (mono_refl p1) W1).
  - inversion H; subst. split; [auto|]. split; [auto|].
    intros Hx. destruct (Nat.ltb 0 stored); discriminate.
Qed.

(* MaxReplicas > 0: per-rule limits are never exceeded and the total reaches
   min(MaxReplicas, sum of limits) *)
Definition within (p : rprog) (r : list node * nat) (s : nat) : Prop := s <= snd r /\ rule_ok p r s.

Lemma rep_loop_max mx : 0 < mx -> forall rules left p acc st p' acc',
  rep_loop ack mx rules left p acc = (st, p', acc') ->
  Forall (fun r => NoDup (fst r)) rules -> good p -> 0 < left ->
  good p' /\ mono p p'
  /\ exists ss, acc' = acc ++ ss /\ length ss <= length rules
       /\ Forall2 (within p') (firstn (length ss) rules) ss
       /\ fold_right plus 0 ss <= left
       /\ (st = Ok -> fold_right plus 0 ss = Nat.min left (sum_limits rules)).
Proof.
  intros Hmx. assert (Nat.eqb mx 0 = false) as Emx by (apply Nat.eqb_neq; lia).
  induction rules as [|[nodes lim] rest IH]; simpl; intros left p acc st p' acc' H Hnd Hg Hleft.
  { inversion H; subst. split; [auto|]. split; [apply mono_refl|].
    exists []. rewrite app_nil_r. simpl. split; [auto|]. split; [lia|]. split; [constructor|]. split; lia. }
  rewrite Emx in H. inversion Hnd as [|? ? Hn1 Hn2]; subst. simpl in Hn1.
  destruct (handle_rep_rule ack p nodes (left - sum_limits rest) (Nat.min lim left)) as [[p1 stored] ok] eqn:Hh.
  destruct (handle_rep_rule_spec _ _ _ _ _ _ _ Hh Hn1 Hg) as (G1 & M1 & W1 & L1 & O1).
  assert (within p1 (nodes, lim) stored) as Hw1.
  { split; [simpl; lia|]. exact (witness_rule_ok p1 p1 nodes lim stored G1 (mono_refl p1) W1). }
  destruct ok; simpl in H.
  - destruct (Nat.leb left stored) eqn:El.
    + inversion H; subst. apply Nat.leb_le in El. split; [auto|]. split; [auto|].
      exists [stored]. simpl. split; [auto|]. split; [lia|].
      split; [constructor; [exact Hw1|constructor]|]. split; [lia|]. intros _. lia.
    + apply Nat.leb_gt in El.
      assert (0 < left - stored) as Hl2 by lia.
      destruct (IH _ _ _ _ _ _ H Hn2 G1 Hl2) as (G2 & M2 & ss & A1 & A2 & A3 & A4 & A5).
      split; [auto|]. split; [eapply mono_trans; eauto|].
      exists (stored :: ss). rewrite A1, <- app_assoc. simpl.
      split; [auto|]. split; [lia|].
      split; [constructor; [|exact A3]|].
      { destruct Hw1 as [Hb Hr]. split; [auto|]. eapply rule_ok_mono; eauto. }
      split; [lia|].
      intros Hok. rewrite (A5 Hok). destruct (O1 eq_refl); lia.
  - inversion H; subst. split; [auto|]. split; [auto|].
    exists [stored]. simpl. split; [auto|]. split; [lia|].
    split; [constructor; [exact Hw1|constructor]|]. split; [lia|].
    intros Hx. destruct (Nat.ltb 0 (mx - left + stored)); discriminate.
Qed.

End Rep.

(* ---- EC part distribution: safety for every schedule --------------------------------- *)
From Coq Require Import Permutation.

Definition own (s : pstate) : list nat :=
  match ps_done s with
  | Some i => [i]
  | None => match ps_hold s with Some i => [i] | None => [] end
  end.

Definition owned (parts : list pstate) : list nat := flat_map own parts.

Lemma own_done r h i d : own (mkPS r h (Some i) d) = [i].
Proof. reflexivity. Qed.
Lemma own_hold r i d : own (mkPS r (Some i) None d) = [i].
Proof. reflexivity. Qed.
Lemma own_none r d : own (mkPS r None None d) = [].
Proof. reflexivity. Qed.

Lemma owned_app l1 l2 : owned (l1 ++ l2) = owned l1 ++ owned l2.
Proof. unfold owned. apply flat_map_app. Qed.

Lemma update_split {A} (f : A -> A) : forall (l : list A) p s,
  nth_error l p = Some s -> exists l1 l2, l = l1 ++ s :: l2 /\ update p f l = l1 ++ f s :: l2.
Proof.
  induction l as [|x r IH]; intros [|p] s H; simpl in H; try discriminate.
  - inversion H; subst. exists [], r. auto.
  - destruct (IH p s H) as (l1 & l2 & -> & E). exists (x :: l1), l2. simpl. rewrite E. auto.
Qed.

Section EC.
Variable ack : node -> bool.
Variable nodes : list node.
Variable data : nat.

Record ecinv (taken : list nat) (parts : list pstate) : Prop := mkInv {
  i_nodup : NoDup (owned parts);
  i_taken : incl (owned parts) taken;
  i_ack : forall s, In s parts -> forall i, ps_done s = Some i -> ack (nth i nodes 0) = true;
  i_bound : forall s, In s parts -> forall i, In i (ps_rest s) \/ In i (own s) -> i < length nodes
}.

Lemma ecinv_update taken taken' l1 s s' l2 :
  ecinv taken (l1 ++ s :: l2) ->
  incl taken taken' ->
  NoDup (own s') ->
  (forall i, In i (own s') -> In i (own s) \/ (~ In i taken /\ In i taken')) ->
  (forall i, ps_done s' = Some i -> ack (nth i nodes 0) = true) ->
  (forall i, In i (ps_rest s') \/ In i (own s') -> i < length nodes) ->
  ecinv taken' (l1 ++ s' :: l2).
Proof.
  intros [N T A B] Hinc Hnd Hown Hack Hb.
  rewrite owned_app in N, T. simpl in N, T. unfold owned in N, T. simpl in N, T.
  fold (owned l1) in N, T. fold (owned l2) in N, T.
  assert (Permutation (owned l1 ++ own s ++ owned l2) (own s ++ owned l1 ++ owned l2)) as P1
      by apply Permutation_app_swap_app.
  pose proof (Permutation_NoDup P1 N) as N1.
  pose proof (nodup_app_r _ _ N1) as N2.
  constructor.
  - rewrite owned_app. simpl. unfold owned. simpl. fold (owned l1). fold (owned l2).
    apply (Permutation_NoDup (Permutation_app_swap_app (own s') (owned l1) (owned l2))).
    apply nodup_app_intro; auto.
    intros i Hi Hx. destruct (Hown i Hi) as [Ho|[Hn _]].
    + apply (nodup_app_disj _ _ i N1 Ho Hx).
    + apply Hn. apply T. apply in_app_or in Hx. apply in_or_app.
      destruct Hx; [left; auto|right; apply in_or_app; right; auto].
  - rewrite owned_app. simpl. unfold owned. simpl. fold (owned l1). fold (owned l2).
    intros i Hi. apply in_app_or in Hi. destruct Hi as [Hi|Hi].
    + apply Hinc, T. apply in_or_app. auto.
    + apply in_app_or in Hi. destruct Hi as [Hi|Hi].
      * destruct (Hown i Hi) as [Ho|[_ Ht]]; auto.
        apply Hinc, T. apply in_or_app. right. apply in_or_app. auto.
      * apply Hinc, T. apply in_or_app. right. apply in_or_app. auto.
  - intros x Hx i Hd. apply in_app_or in Hx. destruct Hx as [Hx|[<-|Hx]]; auto.
    + apply (A x); auto. apply in_or_app. auto.
    + apply (A x); auto. apply in_or_app. right. right. auto.
  - intros x Hx i Hi. apply in_app_or in Hx. destruct Hx as [Hx|[<-|Hx]]; auto.
    + apply (B x); auto. apply in_or_app. auto.
    + apply (B x); auto. apply in_or_app. right. right. auto.
Qed.

Lemma ec_step_inv st p :
  ecinv (ec_taken st) (ec_parts st) ->
  ecinv (ec_taken (ec_step ack nodes data st p)) (ec_parts (ec_step ack nodes data st p)).
Proof.
  intros Hinv. unfold ec_step.
  destruct (nth_error (ec_parts st) p) as [s|] eqn:En; [|exact Hinv].
  destruct (ps_finished s) eqn:Ef; [exact Hinv|].
  unfold ps_finished in Ef.
  destruct (ps_done s) eqn:Ed; [discriminate|].
  assert (In s (ec_parts st)) as Hs by (eapply nth_error_In; eauto).
  assert (forall i, In i (ps_rest s) \/ In i (own s) -> i < length nodes) as Hb
      by (intros i Hi; exact (i_bound _ _ Hinv s Hs i Hi)).
  assert (forall f, exists l1 l2, ec_parts st = l1 ++ s :: l2 /\ update p f (ec_parts st) = l1 ++ f s :: l2) as Hsplit
      by (intros f; eapply update_split; eauto).
  assert (forall r' b l1 l2, (forall j, In j r' -> In j (ps_rest s)) ->
            ecinv (ec_taken st) (l1 ++ s :: l2) ->
            ecinv (ec_taken st) (l1 ++ mkPS r' None None b :: l2)) as Hnone.
  { intros r' b l1 l2 Hr Hi. eapply ecinv_update; [exact Hi|apply incl_refl|..]; rewrite ?own_none; simpl.
    - constructor.
    - intros j [].
    - intros j Hj. discriminate.
    - intros j [Hj|[]]. apply Hb. left. apply Hr. exact Hj. }
  destruct (ps_hold s) as [i|] eqn:Eh.
  - assert (own s = [i]) as Hown by (unfold own; rewrite Ed, Eh; reflexivity).
    destruct (ack (nth i nodes 0)) eqn:Ea; [|destruct (ec_stop st)]; simpl.
    + destruct (Hsplit (fun s => mkPS (ps_rest s) None (Some i) false)) as (l1 & l2 & E1 & ->).
      rewrite E1 in Hinv. eapply ecinv_update; [exact Hinv|apply incl_refl|..]; rewrite ?own_done; simpl.
      * constructor; [intros []|constructor].
      * intros j [<-|[]]. left. rewrite Hown. left. reflexivity.
      * intros j Hj. inversion Hj; subst. exact Ea.
      * intros j [Hj|[<-|[]]]; apply Hb; [left; exact Hj|right; rewrite Hown; left; reflexivity].
    + destruct (Hsplit (fun s => mkPS (ps_rest s) None None true)) as (l1 & l2 & E1 & ->).
      rewrite E1 in Hinv. apply Hnone; auto.
    + destruct (Hsplit (fun s => mkPS (ps_rest s) None None (Nat.ltb (length nodes - S (ec_failed st)) data)))
        as (l1 & l2 & E1 & ->).
      rewrite E1 in Hinv. apply Hnone; auto.
  - assert (own s = []) as Hown by (unfold own; rewrite Ed, Eh; reflexivity).
    destruct (ps_rest s) as [|i r] eqn:Er; simpl.
    + destruct (Hsplit (fun _ => mkPS [] None None true)) as (l1 & l2 & E1 & ->).
      rewrite E1 in Hinv. apply Hnone; auto.
    + destruct (ec_stop st || memb i (ec_taken st)) eqn:Ec; simpl.
      * destruct (Hsplit (fun _ => mkPS r None None false)) as (l1 & l2 & E1 & ->).
        rewrite E1 in Hinv. apply Hnone; auto. intros j Hj. right. exact Hj.
      * apply orb_false_iff in Ec. destruct Ec as [_ Ec].
        assert (~ In i (ec_taken st)) as Hni.
        { intro Hi. unfold memb in Ec. rewrite <- not_true_iff_false in Ec. apply Ec.
          apply existsb_exists. exists i. split; auto. apply Nat.eqb_refl. }
        destruct (Hsplit (fun _ => mkPS r (Some i) None false)) as (l1 & l2 & E1 & ->).
        rewrite E1 in Hinv. eapply ecinv_update; [exact Hinv|..]; rewrite ?own_hold; simpl.
        -- intros j Hj. right. exact Hj.
        -- constructor; [intros []|constructor].
        -- intros j [<-|[]]. right. split; [exact Hni|left; reflexivity].
        -- intros j Hj. discriminate.
        -- intros j [Hj|[<-|[]]]; apply Hb; left; [right; exact Hj|left; reflexivity].
Qed.

Lemma ec_run_inv sched : forall st,
  ecinv (ec_taken st) (ec_parts st) ->
  ecinv (ec_taken (ec_run ack nodes data sched st)) (ec_parts (ec_run ack nodes data sched st)).
Proof.
  unfold ec_run. induction sched as [|p r IH]; simpl; intros st H; auto.
  apply IH. apply ec_step_inv. exact H.
Qed.

Lemma update_length {A} (f : A -> A) : forall l p, length (update p f l) = length l.
Proof. induction l as [|x r IH]; intros [|p]; simpl; auto. Qed.

Lemma ec_step_length st p : length (ec_parts (ec_step ack nodes data st p)) = length (ec_parts st).
Proof.
  unfold ec_step. destruct (nth_error (ec_parts st) p) as [s|]; auto.
  destruct (ps_finished s); auto.
  destruct (ps_hold s).
  - destruct (ack _); [|destruct (ec_stop st)]; simpl; apply update_length.
  - destruct (ps_rest s); simpl; [apply update_length|].
    destruct (ec_stop st || memb n (ec_taken st)); simpl; apply update_length.
Qed.

Lemma ec_run_length sched : forall st,
  length (ec_parts (ec_run ack nodes data sched st)) = length (ec_parts st).
Proof.
  unfold ec_run. induction sched as [|p r IH]; simpl; intros st; auto.
  rewrite IH. apply ec_step_length.
Qed.

Lemma all_done_placement parts :
  forallb (fun s => match ps_done s with Some _ => true | None => false end) parts = true ->
  map ps_done parts = map Some (owned parts) /\ length (owned parts) = length parts.
Proof.
  induction parts as [|s r IH]; simpl; intros H; auto.
  apply andb_true_iff in H. destruct H as [H1 H2]. destruct (IH H2) as [E1 E2].
  unfold own. destruct (ps_done s); [|discriminate]. simpl. rewrite E1, E2. auto.
Qed.

Lemma owned_in parts i : In i (owned parts) -> exists s, In s parts /\ In i (own s).
Proof. unfold owned. rewrite in_flat_map. auto. Qed.

End EC.

Lemma ec_init_inv ack nodes total : ecinv ack nodes [] (ec_parts (ec_init total (length nodes))).
Proof.
  unfold ec_init. simpl.
  assert (forall l, owned (map (fun p => mkPS (part_seq p total (length nodes)) None None false) l) = []) as Ho.
  { induction l; simpl; auto. }
  constructor.
  - rewrite Ho. constructor.
  - rewrite Ho. intros i [].
  - intros s Hs i Hd. apply in_map_iff in Hs. destruct Hs as (p & <- & _). discriminate.
  - intros s Hs i Hi. apply in_map_iff in Hs. destruct Hs as (p & <- & _). simpl in Hi.
    destruct Hi as [Hi|[]]. rewrite part_seq_eq in Hi. destruct total as [|t]; [destruct Hi|].
    apply (node_seq_in p (S t) (length nodes) i); [lia|exact Hi].
Qed.

(* C25, EC: whatever the interleaving of the part goroutines, if all parts are
   stored then they sit on pairwise distinct, acknowledging nodes of the list *)
Theorem ec_safe ack nodes data total sched :
  let st := ec_run ack nodes data sched (ec_init total (length nodes)) in
  ec_all_done st = true ->
  exists idxs, ec_placement st = map Some idxs /\ length idxs = total /\ NoDup idxs
               /\ forall i, In i idxs -> i < length nodes /\ ack (nth i nodes 0) = true.
Proof.
  intros st Hd. subst st.
  pose proof (ec_run_inv ack nodes data sched (ec_init total (length nodes)) (ec_init_inv ack nodes total)) as Hinv.
  set (st := ec_run ack nodes data sched (ec_init total (length nodes))) in *.
  unfold ec_all_done in Hd. destruct (all_done_placement _ Hd) as [E1 E2].
  exists (owned (ec_parts st)). split; [exact E1|]. split.
  { rewrite E2. unfold st. rewrite ec_run_length. unfold ec_init. simpl. rewrite map_length, seq_length. reflexivity. }
  split; [exact (i_nodup _ _ _ _ Hinv)|].
  intros i Hi. destruct (owned_in _ _ Hi) as (s & Hs & Ho). split.
  - apply (i_bound _ _ _ _ Hinv s Hs). right. exact Ho.
  - apply (i_ack _ _ _ _ Hinv s Hs).
    rewrite forallb_forall in Hd. specialize (Hd s Hs). unfold own in Ho.
    destruct (ps_done s) as [j|]; [|discriminate]. destruct Ho as [<-|[]]. reflexivity.
Qed.

(* distinct indexes of a duplicate-free list are distinct nodes *)
Lemma distinct_nodes (nodes : list node) idxs :
  NoDup nodes -> NoDup idxs -> (forall i, In i idxs -> i < length nodes) ->
  NoDup (map (fun i => nth i nodes 0) idxs).
Proof.
  intros Hn. induction 1 as [|i r Hi Hr IH]; simpl; intros Hb; [constructor|].
  constructor; [|apply IH; intros; apply Hb; auto].
  intros Hx. apply in_map_iff in Hx. destruct Hx as (j & Hj & Hjr).
  assert (j = i).
  { apply (proj1 (NoDup_nth nodes 0) Hn); auto. }
  subst. tauto.
Qed.

(* ---- saveObject level ------------------------------------------------------------------ *)
Lemma good_empty ack : good ack (mkRP [] []).
Proof. intros n H. discriminate. Qed.

Definition max_of (ini : option initial) : nat := match ini with Some i => i_max i | None => 0 end.

(* no MaxReplicas (no initial policy, or an initial policy with limits only):
   success = every enabled rule has its number (R, or its limit) of distinct
   acknowledging nodes of its own list, all of which were sent the object *)
Theorem put_rep_ok ack local lists rep ini st p acc :
  max_of ini = 0 ->
  save_rep ack local lists rep ini = (st, p, acc) ->
  Forall (fun r => NoDup (fst r)) (ordered_rules local lists rep ini) ->
  st = Ok ->
  Forall (fun r => rule_ok ack p r (snd r)) (ordered_rules local lists rep ini).
Proof.
  unfold save_rep. fold (max_of ini). intros -> H Hnd Hok.
  destruct (rep_loop_nomax ack _ _ _ _ _ _ _ H Hnd (good_empty ack)) as (_ & _ & F). auto.
Qed.

(* every rule with a positive count is processed when there is no initial policy *)
Lemma ordered_rules_all local lists rep i :
  i < length rep -> 0 < nth i rep 0 ->
  In (nth i lists [], nth i rep 0) (ordered_rules local lists rep None).
Proof.
  intros Hi Hp. unfold ordered_rules. apply in_map_iff. exists i. split; auto.
  apply filter_In. split; [apply in_seq; lia|]. apply Nat.ltb_lt. exact Hp.
Qed.

(* MaxReplicas > 0: limits never exceeded, total = min(MaxReplicas, sum of limits) *)
Theorem put_initial_ok ack local lists rep ini st p acc :
  0 < max_of ini ->
  save_rep ack local lists rep ini = (st, p, acc) ->
  Forall (fun r => NoDup (fst r)) (ordered_rules local lists rep ini) ->
  length acc <= length (ordered_rules local lists rep ini)
  /\ Forall2 (within ack p) (firstn (length acc) (ordered_rules local lists rep ini)) acc
  /\ fold_right plus 0 acc <= max_of ini
  /\ (st = Ok -> fold_right plus 0 acc
                 = Nat.min (max_of ini) (sum_limits (ordered_rules local lists rep ini))).
Proof.
  unfold save_rep. fold (max_of ini). intros Hmx H Hnd.
  destruct (rep_loop_max ack _ Hmx _ _ _ _ _ _ _ H Hnd (good_empty ack) Hmx)
    as (_ & _ & ss & E & A2 & A3 & A4 & A5).
  simpl in E. subst acc. auto.
Qed.

(* the entry point only adds an early refusal *)
Lemma put_rep_ok_inv session ack local lists rep ini p acc :
  put_rep session ack local lists rep ini = (Ok, p, acc) ->
  save_rep ack local lists rep ini = (Ok, p, acc).
Proof.
  unfold put_rep. destruct ini as [i|]; auto.
  destruct (negb session && Nat.ltb (length (i_limits i)) (length rep)); auto. discriminate.
Qed.
