(* Proofs about the PUT placement model (C25). *)
From Coq Require Import List Arith Bool Lia.
Import ListNotations.
From NV Require Import EC.NodeSeq EC.NodeSeqProofs Place.Put.

Lemma part_seq_eq : part_seq = node_seq.
Proof. reflexivity. Qed.

Lemma nodup_app_intro {A} (l1 l2 : list A) :
  NoDup l1 -> NoDup l2 -> (forall x, In x l1 -> ~ In x l2) -> NoDup (l1 ++ l2).
Proof.
  induction l1 as [|a l1 IH]; simpl; intros H1 H2 H; auto.
  inversion H1; subst. constructor.
  - rewrite in_app_iff. intros [Hi|Hi]; [tauto|]. apply (H a); auto.
  - apply IH; auto.
Qed.

Lemma nodup_app_l {A} (l1 l2 : list A) : NoDup (l1 ++ l2) -> NoDup l1.
Proof. induction l1; simpl; intros H; [constructor|]. inversion H; subst. constructor; auto. rewrite in_app_iff in H2. tauto. Qed.

Lemma nodup_app_r {A} (l1 l2 : list A) : NoDup (l1 ++ l2) -> NoDup l2.
Proof. induction l1; simpl; intros H; auto. inversion H; auto. Qed.

Lemma nodup_app_disj {A} (l1 l2 : list A) x : NoDup (l1 ++ l2) -> In x l1 -> ~ In x l2.
Proof.
  induction l1 as [|a l1 IH]; simpl; intros H Hi; [destruct Hi|].
  apply NoDup_cons_iff in H. destruct H as [Ha Hr]. destruct Hi as [Hi|Hi].
  - subst. rewrite in_app_iff in Ha. tauto.
  - auto.
Qed.

Lemma nodup_filter {A} (f : A -> bool) (l : list A) : NoDup l -> NoDup (filter f l).
Proof.
  induction 1; simpl; [constructor|].
  destruct (f x); auto. constructor; auto. intro Hi. apply filter_In in Hi. tauto.
Qed.

Lemma filter_len_le {A} (f : A -> bool) (l : list A) : length (filter f l) <= length l.
Proof. induction l; simpl; auto. destruct (f a); simpl; lia. Qed.

Section Rep.
Variable ack : node -> bool.

Definition res_true (rs : results) (n : node) : Prop := find_res n rs = Some true.

(* a recorded success is a real acknowledgement of a node the object was sent to *)
Definition good (p : rprog) : Prop :=
  forall n, res_true (rp_results p) n -> ack n = true /\ In n (rp_sent p).

Lemma find_res_cons n m b rs :
  find_res n ((m, b) :: rs) = if Nat.eqb m n then Some b else find_res n rs.
Proof. reflexivity. Qed.

(* ---- select ---------------------------------------------------------------- *)
Lemma select_spec : forall rest rs rem stored group g rest' stored' rs',
  select rs rest rem stored group = (g, rest', stored', rs') ->
  length group <= rem ->
  NoDup rest ->
  exists pre gnew hs,
    rest = pre ++ rest' /\ g = group ++ gnew
    /\ incl gnew pre /\ incl hs pre /\ NoDup hs /\ NoDup gnew
    /\ (forall n, In n hs -> res_true rs n)
    /\ (forall n, In n gnew -> find_res n rs = None)
    /\ stored' = stored + length hs
    /\ stored' + length g <= stored + rem
    /\ (forall n, res_true rs' n <-> res_true rs n)
    /\ (forall n, In n gnew -> find_res n rs' = Some false)
    /\ (forall n, ~ In n gnew -> find_res n rs' = find_res n rs).
Proof.
  induction rest as [|x r IH]; simpl; intros rs rem stored group g rest' stored' rs' H Hlen Hnd.
  { inversion H; subst. exists [], [], []. simpl.
    repeat split; auto using incl_nil_l, NoDup_nil; try tauto; try lia; try (rewrite app_nil_r; auto). }
  destruct (Nat.ltb (length group) rem) eqn:Hlt.
  2:{ inversion H; subst. exists [], [], []. simpl.
      repeat split; auto using incl_nil_l, NoDup_nil; try tauto; try lia; try (rewrite app_nil_r; auto). }
  apply Nat.ltb_lt in Hlt. inversion Hnd as [|? ? Hx Hr]; subst.
  destruct (find_res x rs) as [[|]|] eqn:Hf.
  - apply IH in H; auto; [|lia].
    destruct H as (pre & gnew & hs & H1 & H2 & H3 & H4 & H5 & H6 & H7 & H8 & H9 & H10 & H11 & H12 & H13).
    exists (x :: pre), gnew, (x :: hs). subst. simpl.
    assert (~ In x pre) as Hxp by (intro; apply Hx; apply in_or_app; auto).
    split; [reflexivity|]. split; [reflexivity|].
    split; [intros y Hy; right; auto|].
    split; [intros y [Hy|Hy]; [left; auto|right; auto]|].
    split; [constructor; auto|].
    split; [auto|].
    split; [intros n [<-|Hn]; [exact Hf|auto]|].
    split; [auto|]. split; [lia|]. split; [lia|]. auto.
  - apply IH in H; auto.
    destruct H as (pre & gnew & hs & H1 & H2 & H3 & H4 & H5 & H6 & H7 & H8 & H9 & H10 & H11 & H12 & H13).
    exists (x :: pre), gnew, hs. subst. simpl.
    split; [reflexivity|]. split; [reflexivity|].
    split; [intros y Hy; right; auto|].
    split; [intros y Hy; right; auto|]. auto 10.
  - apply IH in H; auto; [|rewrite app_length; simpl; lia].
    destruct H as (pre & gnew & hs & H1 & H2 & H3 & H4 & H5 & H6 & H7 & H8 & H9 & H10 & H11 & H12 & H13).
    assert (~ In x pre) as Hxp by (intro; apply Hx; subst; apply in_or_app; auto).
    exists (x :: pre), (x :: gnew), hs. subst. rewrite <- app_assoc. simpl.
    split; [reflexivity|]. split; [reflexivity|].
    split; [intros y [Hy|Hy]; [left; auto|right; auto]|].
    split; [intros y Hy; right; auto|].
    split; [auto|].
    split; [constructor; auto|].
    split.
    { intros n Hn. specialize (H7 n Hn). unfold res_true in *. rewrite find_res_cons in H7.
      destruct (Nat.eqb x n) eqn:E; [discriminate|exact H7]. }
    split.
    { intros n [<-|Hn]; [exact Hf|]. specialize (H8 n Hn). rewrite find_res_cons in H8.
      destruct (Nat.eqb x n); [discriminate|exact H8]. }
    split; [lia|].
    split; [rewrite app_length in H10 |- *; simpl in *; rewrite app_length in H10; simpl in H10; lia|].
    split.
    { intros n. rewrite H11. unfold res_true. rewrite find_res_cons.
      destruct (Nat.eqb x n) eqn:E; [|tauto]. apply Nat.eqb_eq in E. subst. rewrite Hf. split; discriminate. }
    split.
    { intros n [<-|Hn]; [|auto].
      destruct (in_dec Nat.eq_dec x gnew) as [Hi|Hi]; [auto|].
      rewrite (H13 x Hi). rewrite find_res_cons, Nat.eqb_refl. reflexivity. }
    intros n Hn. rewrite H13 by tauto. rewrite find_res_cons.
    destruct (Nat.eqb x n) eqn:E; auto. apply Nat.eqb_eq in E. subst. tauto.
Qed.

(* ---- send_group --------------------------------------------------------------- *)
Lemma send_group_spec : forall g rs stored rs' stored',
  send_group ack g rs stored = (rs', stored') ->
  NoDup g ->
  stored' = stored + length (filter ack g)
  /\ (forall n, In n g -> find_res n rs' = Some (ack n))
  /\ (forall n, ~ In n g -> find_res n rs' = find_res n rs).
Proof.
  induction g as [|x r IH]; simpl; intros rs stored rs' stored' H Hnd.
  { inversion H; subst. repeat split; auto; try lia; try tauto. }
  inversion Hnd as [|? ? Hx Hr]; subst.
  destruct (ack x) eqn:Ea; apply IH in H; auto; destruct H as (H1 & H2 & H3);
    (split; [simpl; lia|]); (split;
      [intros n [<-|Hn]; [rewrite H3 by auto; rewrite find_res_cons, Nat.eqb_refl; congruence|auto]
      |intros n Hn; rewrite H3 by tauto; rewrite find_res_cons;
       destruct (Nat.eqb x n) eqn:E; auto; apply Nat.eqb_eq in E; subst; tauto]).
Qed.

(* ---- handleREPRule ---------------------------------------------------------------- *)
(* witness of [stored]: that many distinct acknowledged nodes of the processed prefix *)
Definition witness (p : rprog) (pre : list node) (stored : nat) : Prop :=
  exists hs, NoDup hs /\ incl hs pre /\ (forall n, In n hs -> res_true (rp_results p) n) /\ length hs = stored.

Definition mono (p p' : rprog) : Prop :=
  (forall n, res_true (rp_results p) n -> res_true (rp_results p') n)
  /\ incl (rp_sent p) (rp_sent p').

Lemma mono_refl p : mono p p.
Proof. split; auto using incl_refl. Qed.

Lemma mono_trans p q r : mono p q -> mono q r -> mono p r.
Proof. intros [A B] [C D]. split; auto. eapply incl_tran; eauto. Qed.

Lemma witness_weaken p pre rest stored : witness p pre stored -> witness p (pre ++ rest) stored.
Proof.
  intros (hs & A & B & C & D). exists hs. split; [auto|]. split; [apply incl_appl; auto|]. split; auto.
Qed.

Lemma hr_loop_spec minR maxR : forall fuel p pre rest stored p' stored' ok,
  hr_loop fuel ack p rest stored minR maxR = (p', stored', ok) ->
  NoDup (pre ++ rest) -> good p -> witness p pre stored -> stored <= maxR ->
  good p' /\ mono p p'
  /\ witness p' (pre ++ rest) stored' /\ stored' <= maxR
  /\ (ok = true -> maxR <= stored' \/ minR <= stored').
Proof.
  induction fuel as [|f IH]; simpl; intros p pre rest stored p' stored' ok H Hnd Hg Hw Hle.
  { inversion H; subst. split; [auto|]. split; [apply mono_refl|]. split; [apply witness_weaken; auto|].
    split; [auto|discriminate]. }
  assert (witness p (pre ++ rest) stored) as Hw' by (apply witness_weaken; auto).
  destruct (Nat.leb maxR stored) eqn:E1.
  { inversion H; subst. apply Nat.leb_le in E1. split; [auto|]. split; [apply mono_refl|]. split; [auto|].
    split; [auto|]. intros _. left. auto. }
  apply Nat.leb_gt in E1.
  destruct (Nat.ltb (length rest) (minR - stored)) eqn:E2.
  { inversion H; subst. split; [auto|]. split; [apply mono_refl|]. split; [auto|]. split; [auto|discriminate]. }
  apply Nat.ltb_ge in E2.
  destruct rest as [|x r].
  { inversion H; subst. simpl in E2. split; [auto|]. split; [apply mono_refl|]. split; [auto|]. split; [auto|].
    intros _. right. lia. }
  remember (x :: r) as rest eqn:Hrest.
  destruct (select (rp_results p) rest (maxR - stored) stored []) as [[[g rest'] st1] rs1] eqn:Hsel.
  destruct (send_group ack g rs1 st1) as [rs2 st2] eqn:Hsend.
  pose proof (nodup_app_r _ _ Hnd) as Hndr.
  destruct (select_spec _ _ _ _ _ _ _ _ _ Hsel (Nat.le_0_l _) Hndr)
    as (seg & gnew & hs1 & S1 & S2 & S3 & S4 & S5 & S6 & S7 & S8 & S9 & S10 & S11 & S12 & S13).
  simpl in S2. subst g. unfold res_true in S7.
  destruct (send_group_spec _ _ _ _ _ Hsend S6) as (G1 & G2 & G3).
  set (p2 := mkRP rs2 (rp_sent p ++ gnew)) in *.
  assert (forall n, In n seg -> ~ In n pre) as Hdisj.
  { intros n Hn Hp. apply (nodup_app_disj _ _ n Hnd Hp). rewrite S1. apply in_or_app. auto. }
  assert (good p2) as Hg2.
  { intros n Hn. unfold res_true in Hn. simpl in Hn |- *.
    destruct (in_dec Nat.eq_dec n gnew) as [Hi|Hi].
    - rewrite (G2 n Hi) in Hn. split; [congruence|apply in_or_app; auto].
    - rewrite (G3 n Hi) in Hn. apply S11 in Hn. destruct (Hg n Hn). split; auto. apply in_or_app; auto. }
  assert (mono p p2) as Hm2.
  { split; simpl; [|apply incl_appl, incl_refl].
    intros n Hn. unfold res_true in Hn |- *.
    destruct (in_dec Nat.eq_dec n gnew) as [Hi|Hi].
    - rewrite (S8 n Hi) in Hn. discriminate.
    - rewrite (G3 n Hi). apply S11. exact Hn. }
  assert (witness p2 (pre ++ seg) st2) as Hw2.
  { destruct Hw as (hs & A & B & C & D).
    exists (hs ++ hs1 ++ filter ack gnew). split; [|split; [|split]].
    - apply nodup_app_intro; auto.
      + apply nodup_app_intro; auto using nodup_filter.
        intros n Hn Hf. apply filter_In in Hf. destruct Hf as [Hf _].
        specialize (S7 n Hn). rewrite (S8 n Hf) in S7. discriminate.
      + intros n Hn Hx. apply in_app_or in Hx. apply (Hdisj n); auto.
        destruct Hx as [Hx|Hx]; [auto|]. apply filter_In in Hx. apply S3. tauto.
    - intros n Hn. apply in_app_or in Hn. apply in_or_app. destruct Hn as [Hn|Hn]; [left; auto|right].
      apply in_app_or in Hn. destruct Hn as [Hn|Hn]; [auto|]. apply filter_In in Hn. apply S3. tauto.
    - intros n Hn. unfold res_true. simpl. apply in_app_or in Hn. destruct Hn as [Hn|Hn].
      + apply Hm2. auto.
      + apply in_app_or in Hn. destruct Hn as [Hn|Hn].
        * assert (~ In n gnew) as Hi.
          { intro Hi. specialize (S7 n Hn). rewrite (S8 n Hi) in S7. discriminate. }
          rewrite (G3 n Hi). apply S11. exact (S7 n Hn).
        * apply filter_In in Hn. destruct Hn as [Hi Ha]. rewrite (G2 n Hi). congruence.
    - rewrite !app_length. lia. }
  assert (st2 <= maxR) as Hle2.
  { pose proof (filter_len_le ack gnew). simpl in S10. lia. }
  assert (NoDup ((pre ++ seg) ++ rest')) as Hnd2 by (rewrite <- app_assoc, <- S1; exact Hnd).
  destruct (IH _ _ _ _ _ _ _ H Hnd2 Hg2 Hw2 Hle2) as (R1 & R2 & R3 & R4 & R5).
  rewrite <- app_assoc, <- S1 in R3.
  split; [auto|]. split; [eapply mono_trans; eauto|]. split; [auto|]. split; auto.
Qed.

Lemma handle_rep_rule_spec p nodes minR maxR p' stored ok :
  handle_rep_rule ack p nodes minR maxR = (p', stored, ok) ->
  NoDup nodes -> good p ->
  good p' /\ mono p p' /\ witness p' nodes stored /\ stored <= maxR
  /\ (ok = true -> maxR <= stored \/ minR <= stored).
Proof.
  unfold handle_rep_rule. intros H Hnd Hg.
  apply (hr_loop_spec minR maxR _ p [] nodes 0 p' stored ok H); auto; [|lia].
  exists []. split; [constructor|]. split; [apply incl_nil_l|]. split; [intros n []|reflexivity].
Qed.

(* ---- the rule loop ------------------------------------------------------------------ *)
Definition rule_ok (p : rprog) (r : list node * nat) (stored : nat) : Prop :=
  exists hs, NoDup hs /\ incl hs (fst r) /\ length hs = stored
             /\ forall n, In n hs -> ack n = true /\ In n (rp_sent p).

Lemma witness_rule_ok p p' nodes lim stored :
  good p' -> mono p p' -> witness p nodes stored -> rule_ok p' (nodes, lim) stored.
Proof.
  intros Hg [Hm _] (hs & A & B & C & D). exists hs. split; [auto|]. split; [auto|]. split; [auto|].
  intros n Hn. apply Hg, Hm, C; auto.
Qed.

(* no MaxReplicas: full success means every rule got its number of acknowledgements *)
Lemma rule_ok_mono p p' r s : mono p p' -> rule_ok p r s -> rule_ok p' r s.
Proof.
  intros [_ Hm] (hs & A & B & C & D). exists hs. split; [auto|]. split; [auto|]. split; [auto|].
  intros n Hn. destruct (D n Hn). split; auto.
Qed.

Lemma rep_loop_nomax : forall rules left p acc st p' acc',
  rep_loop ack 0 rules left p acc = (st, p', acc') ->
  Forall (fun r => NoDup (fst r)) rules -> good p ->
  good p' /\ mono p p'
  /\ (st = Ok -> Forall (fun r => rule_ok p' r (snd r)) rules).
Proof.
  induction rules as [|[nodes lim] rest IH]; simpl; intros left p acc st p' acc' H Hnd Hg.
  { inversion H; subst. split; [auto|]. split; [apply mono_refl|]. intros _. constructor. }
  inversion Hnd as [|? ? Hn1 Hn2]; subst. simpl in Hn1.
  destruct (handle_rep_rule ack p nodes lim lim) as [[p1 stored] ok] eqn:Hh.
  destruct (handle_rep_rule_spec _ _ _ _ _ _ _ Hh Hn1 Hg) as (G1 & M1 & W1 & L1 & O1).
  destruct ok; simpl in H.
  - destruct (IH _ _ _ _ _ _ H Hn2 G1) as (G2 & M2 & F2).
    split; [auto|]. split; [eapply mono_trans; eauto|].
    intros ->. constructor; auto.
    assert (stored = lim) as -> by (destruct (O1 eq_refl); lia).
    simpl. eapply rule_ok_mono; [exact M2|]. exact (witness_rule_ok p1 p1 nodes lim lim G1 (mono_refl p1) W1).
  - inversion H; subst. split; [auto|]. split; [auto|].
    intros Hx. destruct (Nat.ltb 0 stored); discriminate.
Qed.

(* MaxReplicas > 0: per-rule limits are never exceeded and the total reaches
   min(MaxReplicas, sum of limits) *)
Definition within (p : rprog) (r : list node * nat) (s : nat) : Prop := s <= snd r /\ rule_ok p r s.

Lemma rep_loop_max mx : 0 < mx -> forall rules left p acc st p' acc',
  rep_loop ack mx rules left p acc = (st, p', acc') ->
  Forall (fun r => NoDup (fst r)) rules -> good p -> 0 < left ->
  good p' /\ mono p p'
  /\ exists ss, acc' = acc ++ ss /\ length ss <= length rules
       /\ Forall2 (within p') (firstn (length ss) rules) ss
       /\ fold_right plus 0 ss <= left
       /\ (st = Ok -> fold_right plus 0 ss = Nat.min left (sum_limits rules)).
Proof.
  intros Hmx. assert (Nat.eqb mx 0 = false) as Emx by (apply Nat.eqb_neq; lia).
  induction rules as [|[nodes lim] rest IH]; simpl; intros left p acc st p' acc' H Hnd Hg Hleft.
  { inversion H; subst. split; [auto|]. split; [apply mono_refl|].
    exists []. rewrite app_nil_r. simpl. split; [auto|]. split; [lia|]. split; [constructor|]. split; lia. }
  rewrite Emx in H. inversion Hnd as [|? ? Hn1 Hn2]; subst. simpl in Hn1.
  destruct (handle_rep_rule ack p nodes (left - sum_limits rest) (Nat.min lim left)) as [[p1 stored] ok] eqn:Hh.
  destruct (handle_rep_rule_spec _ _ _ _ _ _ _ Hh Hn1 Hg) as (G1 & M1 & W1 & L1 & O1).
  assert (within p1 (nodes, lim) stored) as Hw1.
  { split; [simpl; lia|]. exact (witness_rule_ok p1 p1 nodes lim stored G1 (mono_refl p1) W1). }
  destruct ok; simpl in H.
  - destruct (Nat.leb left stored) eqn:El.
    + inversion H; subst. apply Nat.leb_le in El. split; [auto|]. split; [auto|].
      exists [stored]. simpl. split; [auto|]. split; [lia|].
      split; [constructor; [exact Hw1|constructor]|]. split; [lia|]. intros _. lia.
    + apply Nat.leb_gt in El.
      assert (0 < left - stored) as Hl2 by lia.
      destruct (IH _ _ _ _ _ _ H Hn2 G1 Hl2) as (G2 & M2 & ss & A1 & A2 & A3 & A4 & A5).
      split; [auto|]. split; [eapply mono_trans; eauto|].
      exists (stored :: ss). rewrite A1, <- app_assoc. simpl.
      split; [auto|]. split; [lia|].
      split; [constructor; [|exact A3]|].
      { destruct Hw1 as [Hb Hr]. split; [auto|]. eapply rule_ok_mono; eauto. }
      split; [lia|].
      intros Hok. rewrite (A5 Hok). destruct (O1 eq_refl); lia.
  - inversion H; subst. split; [auto|]. split; [auto|].
    exists [stored]. simpl. split; [auto|]. split; [lia|].
    split; [constructor; [exact Hw1|constructor]|]. split; [lia|].
    intros Hx. destruct (Nat.ltb 0 (mx - left + stored)); discriminate.
Qed.

End Rep.
