(* Proofs for C27 (Place/Rounds.v): repeated policer cycles restore the required
   replicas, then stop. *)
From Coq Require Import List Arith Bool Lia.
Import ListNotations.
From NV Require Import Place.Policer Place.PolicerProofs Place.Rounds.

(* ---- small facts ------------------------------------------------------------- *)
Lemma memb_In n l : memb n l = true <-> In n l.
Proof.
  unfold memb. rewrite existsb_exists. split.
  - intros [x [Hx He]]. apply Nat.eqb_eq in He. subst. exact Hx.
  - intros H. exists n. split; [exact H|apply Nat.eqb_refl].
Qed.

Lemma memb_false n l : memb n l = false <-> ~ In n l.
Proof.
  rewrite <- memb_In. destruct (memb n l); split; intros H; congruence.
Qed.

Lemma add_all_In xs : forall h x, In x (add_all xs h) <-> In x xs \/ In x h.
Proof.
  unfold add_all. induction xs as [|a r IH]; simpl; intros h x.
  - tauto.
  - rewrite IH. destruct (memb a h) eqn:E.
    + apply memb_In in E. split; [tauto|]. intros [[H|H]|H]; auto. subst. auto.
    + rewrite in_app_iff. simpl. tauto.
Qed.

Lemma remove_In v h x : In x (remove v h) <-> In x h /\ x <> v.
Proof.
  unfold remove. rewrite filter_In. rewrite negb_true_iff, Nat.eqb_neq. tauto.
Qed.

Lemma firstn_in_S {A} (l : list A) : forall k x, In x (firstn k l) -> In x (firstn (S k) l).
Proof.
  induction l as [|a r IH]; intros k x H.
  - rewrite firstn_nil in H. destruct H.
  - destruct k as [|k]; [destruct H|].
    simpl in H. destruct H as [H|H]; [left; exact H|right; apply IH; exact H].
Qed.

Lemma firstn_in {A} (l : list A) k x : In x (firstn k l) -> In x l.
Proof. intros H. rewrite <- (firstn_skipn k l). apply in_or_app. left. exact H. Qed.

Lemma filter_len_le {A} (f g : A -> bool) (l : list A) :
  (forall x, In x l -> g x = true -> f x = true) ->
  length (filter g l) <= length (filter f l).
Proof.
  induction l as [|a r IH]; simpl; intros H; [lia|].
  assert (length (filter g r) <= length (filter f r)) as Hr by (apply IH; intros; apply H; auto).
  destruct (g a) eqn:Eg.
  - rewrite (H a (or_introl eq_refl) Eg). simpl. lia.
  - destruct (f a); simpl; lia.
Qed.

Lemma filter_len_lt {A} (f g : A -> bool) (l : list A) m :
  (forall x, In x l -> g x = true -> f x = true) ->
  In m l -> f m = true -> g m = false ->
  length (filter g l) < length (filter f l).
Proof.
  induction l as [|a r IH]; simpl; intros H Hin Hf Hg; [destruct Hin|].
  assert (length (filter g r) <= length (filter f r)) as Hr by (apply filter_len_le; intros; apply H; auto).
  destruct Hin as [->|Hin].
  - rewrite Hf, Hg. simpl. lia.
  - assert (length (filter g r) < length (filter f r)) as Hlt by (apply IH; auto).
    destruct (g a) eqn:Eg.
    + rewrite (H a (or_introl eq_refl) Eg). simpl. lia.
    + destruct (f a); simpl; lia.
Qed.

Lemma filter_len0 {A} (f : A -> bool) (l : list A) :
  length (filter f l) = 0 <-> forall x, In x l -> f x = false.
Proof.
  induction l as [|a r IH]; simpl.
  - split; [intros _ x []|reflexivity].
  - destruct (f a) eqn:E; simpl.
    + split; [discriminate|]. intros H. rewrite (H a (or_introl eq_refl)) in E. discriminate.
    + rewrite IH. split.
      * intros H x [<-|Hx]; auto.
      * intros H x Hx. apply H. auto.
Qed.

(* ---- the scan: elementary facts ------------------------------------------------ *)
Section Scan.
Variable holds : list node.
Variable v : node.

Lemma scan_step_need_mono s n : s_need s = true -> s_need (scan_step holds v s n) = true.
Proof.
  intros H. unfold scan_step.
  destruct (Nat.eqb (s_short s) 0); [exact H|].
  destruct (Nat.eqb n v); [reflexivity|]. destruct (memb n holds); exact H.
Qed.

Lemma scan_step_inc_mono s n : s_inc s = true -> s_inc (scan_step holds v s n) = true.
Proof.
  intros H. unfold scan_step. rewrite H.
  destruct (Nat.eqb (s_short s) 0); [reflexivity|].
  destruct (Nat.eqb n v); [reflexivity|]. destruct (memb n holds); reflexivity.
Qed.

Lemma scan_step_inc_local s : s_inc (scan_step holds v s v) = true.
Proof.
  unfold scan_step. rewrite Nat.eqb_refl.
  destruct (Nat.eqb (s_short s) 0); simpl; destruct (s_inc s); reflexivity.
Qed.

Lemma scan_need_mono l : forall s, s_need s = true -> s_need (scan holds v l s) = true.
Proof.
  induction l as [|n r IH]; simpl; intros s H; auto.
  destruct (negb (s_inc s) || Nat.ltb 0 (s_short s)); auto.
  apply IH. apply scan_step_need_mono. exact H.
Qed.

Lemma scan_inc_mono l : forall s, s_inc s = true -> s_inc (scan holds v l s) = true.
Proof.
  induction l as [|n r IH]; simpl; intros s H; auto.
  destruct (negb (s_inc s) || Nat.ltb 0 (s_short s)); auto.
  apply IH. apply scan_step_inc_mono. exact H.
Qed.

(* L1: the local node is among the next [shortage] nodes: it must keep its copy *)
Lemma scan_need_local l : forall s,
  In v (firstn (s_short s) l) -> s_need (scan holds v l s) = true.
Proof.
  induction l as [|n r IH]; intros s Hin.
  { rewrite firstn_nil in Hin. destruct Hin. }
  destruct (s_short s) as [|k] eqn:Hk; [destruct Hin|].
  simpl. rewrite Hk. replace (negb (s_inc s) || Nat.ltb 0 (S k)) with true
    by (simpl; rewrite orb_true_r; reflexivity).
  destruct (Nat.eq_dec n v) as [->|Hne].
  - apply scan_need_mono. unfold scan_step. rewrite Hk. simpl. rewrite Nat.eqb_refl. reflexivity.
  - simpl in Hin. destruct Hin as [Hin|Hin]; [congruence|].
    apply IH. unfold scan_step. rewrite Hk. simpl.
    apply Nat.eqb_neq in Hne. rewrite Hne.
    destruct (memb n holds); simpl.
    + rewrite Nat.sub_0_r. exact Hin.
    + apply firstn_in_S. exact Hin.
Qed.

(* L2: the local node is listed: the loop reaches it *)
Lemma scan_local_reached l : forall s,
  In v l -> s_need (scan holds v l s) = true \/ s_inc (scan holds v l s) = true.
Proof.
  induction l as [|n r IH]; simpl; intros s Hin; [destruct Hin|].
  destruct (negb (s_inc s) || Nat.ltb 0 (s_short s)) eqn:Hc.
  - destruct (Nat.eq_dec n v) as [->|Hne].
    + right. apply scan_inc_mono. apply scan_step_inc_local.
    + destruct Hin as [Hin|Hin]; [congruence|]. apply IH. exact Hin.
  - apply orb_false_iff in Hc. destruct Hc as [Hc _]. right.
    destruct (s_inc s); [reflexivity|discriminate].
Qed.

(* L3: candidates are only appended *)
Lemma scan_cands_prefix l : forall s, exists c, s_cands (scan holds v l s) = s_cands s ++ c.
Proof.
  induction l as [|n r IH]; simpl; intros s.
  { exists []. rewrite app_nil_r. reflexivity. }
  destruct (negb (s_inc s) || Nat.ltb 0 (s_short s)).
  2:{ exists []. rewrite app_nil_r. reflexivity. }
  destruct (IH (scan_step holds v s n)) as [c Hc]. rewrite Hc.
  unfold scan_step.
  destruct (Nat.eqb (s_short s) 0); simpl; [eauto|].
  destruct (Nat.eqb n v); simpl; [eauto|].
  destruct (memb n holds); simpl; [eauto|].
  rewrite <- app_assoc. eauto.
Qed.

Lemma scan_cands_incl l : forall s x,
  In x (s_cands (scan holds v l s)) -> In x (s_cands s) \/ In x l.
Proof.
  induction l as [|n r IH]; simpl; intros s x H; auto.
  destruct (negb (s_inc s) || Nat.ltb 0 (s_short s)); auto.
  apply IH in H. destruct H as [H|H]; auto.
  revert H. unfold scan_step.
  destruct (Nat.eqb (s_short s) 0); simpl; auto.
  destruct (Nat.eqb n v); simpl; auto.
  destruct (memb n holds); simpl; auto.
  rewrite in_app_iff. simpl. intros [H|[H|[]]]; auto.
Qed.

(* L4: a node among the next [shortage] nodes lacks the object: the first
   candidate is such a node *)
Lemma scan_first_cand l : forall s m,
  s_cands s = [] -> In m (firstn (s_short s) l) -> memb m holds = false -> m <> v ->
  exists m' c, s_cands (scan holds v l s) = m' :: c
               /\ In m' (firstn (s_short s) l) /\ memb m' holds = false /\ m' <> v.
Proof.
  induction l as [|n r IH]; intros s m Hc Hin Hm Hmv.
  { rewrite firstn_nil in Hin. destruct Hin. }
  destruct (s_short s) as [|k] eqn:Hk; [destruct Hin|].
  simpl. rewrite Hk. replace (negb (s_inc s) || Nat.ltb 0 (S k)) with true
    by (simpl; rewrite orb_true_r; reflexivity).
  simpl in Hin.
  destruct (Nat.eqb n v) eqn:Env.
  - assert (n = v) as Hnv by (apply Nat.eqb_eq; exact Env).
    destruct Hin as [Hin|Hin]; [congruence|].
    destruct (IH (scan_step holds v s n) m) as (m' & c & H1 & H2 & H3 & H4).
    + unfold scan_step. rewrite Hk. simpl. rewrite Env. simpl. exact Hc.
    + unfold scan_step. rewrite Hk. simpl. rewrite Env. simpl. rewrite Nat.sub_0_r. exact Hin.
    + exact Hm.
    + exact Hmv.
    + exists m', c. split; [exact H1|]. split; [|auto].
      right. revert H2. unfold scan_step. rewrite Hk. simpl. rewrite Env. simpl.
      rewrite Nat.sub_0_r. auto.
  - destruct (memb n holds) eqn:Enh.
    + destruct Hin as [Hin|Hin]; [congruence|].
      destruct (IH (scan_step holds v s n) m) as (m' & c & H1 & H2 & H3 & H4).
      * unfold scan_step. rewrite Hk. simpl. rewrite Env, Enh. simpl. exact Hc.
      * unfold scan_step. rewrite Hk. simpl. rewrite Env, Enh. simpl. rewrite Nat.sub_0_r. exact Hin.
      * exact Hm.
      * exact Hmv.
      * exists m', c. split; [exact H1|]. split; [|auto].
        right. revert H2. unfold scan_step. rewrite Hk. simpl. rewrite Env, Enh. simpl.
        rewrite Nat.sub_0_r. auto.
    + destruct (scan_cands_prefix r (scan_step holds v s n)) as [c Hcc].
      revert Hcc. unfold scan_step at 2. rewrite Hk. simpl. rewrite Env, Enh. simpl. rewrite Hc. simpl.
      intros Hcc. exists n, c. split; [exact Hcc|]. split; [left; reflexivity|].
      split; [exact Enh|]. apply Nat.eqb_neq. exact Env.
Qed.

(* L5: the next [shortage] nodes all hold the object (or are the local node):
   the shortage is covered and nobody becomes a candidate *)
Lemma scan_complete l : forall s,
  (forall x, In x (firstn (s_short s) l) -> memb x holds = true \/ x = v) ->
  s_short s <= length l -> s_cands s = [] ->
  s_short (scan holds v l s) = 0 /\ s_cands (scan holds v l s) = [].
Proof.
  induction l as [|n r IH]; simpl; intros s Hall Hlen Hc.
  { split; [lia|exact Hc]. }
  destruct (negb (s_inc s) || Nat.ltb 0 (s_short s)) eqn:Hcond.
  2:{ apply orb_false_iff in Hcond. destruct Hcond as [_ Hcond]. apply Nat.ltb_ge in Hcond.
      split; [lia|exact Hc]. }
  destruct (s_short s) as [|k] eqn:Hk.
  - apply IH; unfold scan_step; rewrite Hk; simpl; auto; try lia.
  - assert (memb n holds = true \/ n = v) as Hn by (apply Hall; left; reflexivity).
    assert (s_short (scan_step holds v s n) = k /\ s_cands (scan_step holds v s n) = []) as [E1 E2].
    { unfold scan_step. rewrite Hk. simpl.
      destruct (Nat.eqb n v) eqn:Env; simpl; [rewrite Nat.sub_0_r; auto|].
      destruct Hn as [Hn|Hn]; [|apply Nat.eqb_neq in Env; congruence].
      rewrite Hn. simpl. rewrite Nat.sub_0_r. auto. }
    apply IH.
    + rewrite E1. intros x Hx. apply Hall. right. exact Hx.
    + rewrite E1. lia.
    + exact E2.
Qed.

(* L6: ... and if none of them is the local node, it is not asked to keep its copy *)
Lemma scan_need_false l : forall s,
  (forall x, In x (firstn (s_short s) l) -> memb x holds = true /\ x <> v) ->
  s_need s = false -> s_need (scan holds v l s) = false.
Proof.
  induction l as [|n r IH]; simpl; intros s Hall Hn; auto.
  destruct (negb (s_inc s) || Nat.ltb 0 (s_short s)); auto.
  destruct (s_short s) as [|k] eqn:Hk.
  - apply IH; unfold scan_step; rewrite Hk; simpl; auto.
  - destruct (Hall n (or_introl eq_refl)) as [Hh Hv].
    apply Nat.eqb_neq in Hv.
    assert (s_short (scan_step holds v s n) = k /\ s_need (scan_step holds v s n) = false) as [E1 E2].
    { unfold scan_step. rewrite Hk. simpl. rewrite Hv, Hh. simpl. rewrite Nat.sub_0_r. auto. }
    apply IH; [|exact E2].
    rewrite E1. intros x Hx. apply Hall. right. exact Hx.
Qed.

End Scan.

(* ---- processNodes in a cluster_env equals the scan -------------------------------- *)
Definition abs (s : lst) : sst := mkS (l_short s) (l_cands s) (l_incnr s) (l_need s).

Lemma pn_step_abs holds v s n :
  lookup n (l_cache s) = None ->
  abs (pn_step true (cluster_env holds v) s n) = scan_step holds v (abs s) n
  /\ l_unchk (pn_step true (cluster_env holds v) s n) = l_unchk s
  /\ (forall m, m <> n ->
        lookup m (l_cache (pn_step true (cluster_env holds v) s n)) = lookup m (l_cache s)).
Proof.
  intros Hl. unfold pn_step, scan_step, abs, l_headed, l_maint. simpl. rewrite Hl.
  destruct (Nat.eqb (l_short s) 0); simpl; [auto|].
  destruct (Nat.eqb n v); simpl; [auto|].
  destruct (memb n holds); simpl; (split; [reflexivity|split; [reflexivity|]]);
    intros m Hm; apply not_eq_sym in Hm; apply Nat.eqb_neq in Hm; rewrite Hm; reflexivity.
Qed.

Lemma pn_loop_abs holds v l : forall s,
  NoDup l -> (forall n, In n l -> lookup n (l_cache s) = None) ->
  abs (pn_loop true (cluster_env holds v) l s) = scan holds v l (abs s)
  /\ l_unchk (pn_loop true (cluster_env holds v) l s) = l_unchk s.
Proof.
  induction l as [|n r IH]; simpl; intros s Hnd Hc; [auto|].
  unfold pn_cond.
  destruct (negb (l_incnr s) || Nat.ltb 0 (l_short s)); [|auto].
  inversion Hnd as [|? ? Hn Hr]; subst.
  destruct (pn_step_abs holds v s n (Hc n (or_introl eq_refl))) as (E1 & E2 & E3).
  rewrite <- E1, <- E2. apply IH; [exact Hr|].
  intros m Hm. rewrite E3; [apply Hc; right; exact Hm|].
  intros ->. exact (Hn Hm).
Qed.

(* every replication succeeds: the first q candidates are served *)
Lemma ht_loop_all holds v cands : forall q,
  (forall n, In n cands -> n <> v) ->
  ht_loop (cluster_env holds v) q cands = (firstn q cands, firstn q cands).
Proof.
  induction cands as [|n r IH]; intros q Hne.
  { rewrite firstn_nil. reflexivity. }
  destruct q as [|q]; [reflexivity|].
  simpl. assert (Nat.eqb n v = false) as E by (apply Nat.eqb_neq; apply Hne; left; reflexivity).
  rewrite E. rewrite IH; [reflexivity|]. intros m Hm. apply Hne. right. exact Hm.
Qed.

Lemma node_result_unfold nodes R holds v :
  node_result nodes R holds v
  = finish_rep (cluster_env holds v) Regular 1 []
      (process_nodes true (cluster_env holds v) Regular p0 nodes R).
Proof. reflexivity. Qed.

Ltac fin :=
  split; [reflexivity|split; [reflexivity|split;
    [intros Hx; try discriminate Hx; reflexivity
    |intros Hx; try discriminate Hx; intros Hy; try discriminate Hy; reflexivity]]].

(* closed form of one check *)
Lemma node_result_closed nodes R holds v :
  NoDup nodes ->
  let s := scan_res nodes R holds v in
  let r := node_result nodes R holds v in
  r_succ r = succ_of s /\ r_tasks r = tasks_of s
  /\ (s_need s = true -> r_dels r = [])
  /\ (s_need s = false -> s_inc s = true -> r_dels r = [MRedundant]).
Proof.
  intros Hnd s r. subst r. rewrite node_result_unfold.
  unfold process_nodes. simpl is_broadcast. cbv iota.
  set (e := cluster_env holds v).
  set (s0 := mkL R [] 0 (p_incnr p0) (p_need p0) (p_cache p0) (p_heads p0)).
  destruct (pn_loop_abs holds v nodes s0 Hnd (fun n _ => eq_refl)) as [Ha Hu].
  fold e in Ha, Hu. change (abs s0) with (mkS R [] false false) in Ha.
  fold (scan_res nodes R holds v) in Ha. fold s in Ha.
  assert (forall n, In n (l_cands (pn_loop true e nodes s0)) -> n <> v) as Hcv.
  { apply (pn_loop_cands e true nodes s0). intros n []. }
  set (t := pn_loop true e nodes s0) in *.
  assert (l_short t = s_short s /\ l_cands t = s_cands s /\ l_incnr t = s_inc s /\ l_need t = s_need s)
    as (Hs1 & Hs2 & Hs3 & Hs4).
  { rewrite <- Ha. unfold abs. simpl. auto. }
  assert (forall q, handle_task e q (l_cands t) = (firstn q (l_cands t), firstn q (l_cands t))) as Hht.
  { intros q. unfold handle_task. simpl. apply ht_loop_all. exact Hcv. }
  unfold succ_of, tasks_of. rewrite <- Hs1, <- Hs2, <- Hs3, <- Hs4.
  destruct (Nat.ltb 0 (l_short t)) eqn:Hlt.
  - unfold with_task. rewrite Hht. unfold finish_rep. simpl.
    destruct (l_need t); simpl; [fin|destruct (l_incnr t); simpl; [fin|match goal with |- context [negb ?b] => destruct b end; simpl; fin]].
  - rewrite Hu. simpl.
    destruct (l_cands t) as [|c cs] eqn:Hc.
    + unfold without_task, finish_rep. simpl.
      destruct (l_need t); simpl; [fin|destruct (l_incnr t); simpl; [fin|match goal with |- context [negb ?b] => destruct b end; simpl; fin]].
    + rewrite <- Hc in Hht |- *. unfold with_task. rewrite Hht. rewrite firstn_all. unfold finish_rep. simpl.
      destruct (l_need t); simpl; [fin|destruct (l_incnr t); simpl; [fin|match goal with |- context [negb ?b] => destruct b end; simpl; fin]].
Qed.

(* ---- one step ------------------------------------------------------------------------ *)
Lemma succ_of_incl s x : In x (succ_of s) -> In x (s_cands s).
Proof.
  unfold succ_of. destruct (Nat.ltb 0 (s_short s)); [apply firstn_in|auto].
Qed.

Lemma scan_res_cands_in_nodes nodes R holds v x :
  In x (s_cands (scan_res nodes R holds v)) -> In x nodes.
Proof.
  unfold scan_res. intros H. apply scan_cands_incl in H. destruct H as [[]|H]. exact H.
Qed.

Lemma node_step_skip nodes R holds v : ~ In v holds -> node_step nodes R holds v = holds.
Proof. intros H. apply memb_false in H. unfold node_step. rewrite H. reflexivity. Qed.

Lemma node_tasks_skip nodes R holds v : ~ In v holds -> node_tasks nodes R holds v = [].
Proof. intros H. apply memb_false in H. unfold node_tasks. rewrite H. reflexivity. Qed.

(* members after a check by a holder *)
Lemma step_mem nodes R holds v :
  NoDup nodes -> In v nodes -> In v holds ->
  let s := scan_res nodes R holds v in
  forall x, In x (node_step nodes R holds v)
            <-> (In x (succ_of s) \/ In x holds) /\ (s_need s = false -> x <> v).
Proof.
  intros Hnd Hvn Hvh s x.
  destruct (node_result_closed nodes R holds v Hnd) as (Hsucc & _ & Hd1 & Hd2).
  fold s in Hsucc, Hd1, Hd2.
  unfold node_step. apply memb_In in Hvh. rewrite Hvh. cbv zeta. rewrite Hsucc.
  destruct (s_need s) eqn:Hn.
  - rewrite (Hd1 eq_refl). simpl. rewrite add_all_In. split; [intros H; split; [exact H|discriminate]|tauto].
  - assert (s_inc s = true) as Hi.
    { destruct (scan_local_reached holds v nodes (mkS R [] false false) Hvn) as [H|H];
        fold (scan_res nodes R holds v) in H; fold s in H; congruence. }
    rewrite (Hd2 eq_refl Hi). simpl. rewrite remove_In, add_all_In. split.
    + intros [H1 H2]. split; auto.
    + intros [H1 H2]. split; auto.
Qed.

Theorem step_keeps_holders_in_nodes nodes R holds v :
  NoDup nodes -> incl holds nodes -> incl (node_step nodes R holds v) nodes.
Proof.
  intros Hnd Hincl.
  destruct (in_dec Nat.eq_dec v holds) as [Hv|Hv].
  2:{ rewrite node_step_skip; auto. }
  intros x Hx. apply (step_mem nodes R holds v Hnd (Hincl v Hv) Hv) in Hx.
  destruct Hx as [[Hx|Hx] _]; [|auto].
  apply succ_of_incl in Hx. eapply scan_res_cands_in_nodes. exact Hx.
Qed.

Theorem primary_never_drops nodes R holds v :
  NoDup nodes -> In v (primaries nodes R) -> In v holds ->
  In v (node_step nodes R holds v).
Proof.
  intros Hnd Hp Hv.
  apply (step_mem nodes R holds v Hnd (firstn_in _ _ _ Hp) Hv).
  split; [right; exact Hv|].
  intros Hn. exfalso.
  assert (s_need (scan_res nodes R holds v) = true) as Ht.
  { unfold scan_res. apply scan_need_local. simpl. exact Hp. }
  congruence.
Qed.

(* a step removes only the checking node itself, and never a primary *)
Theorem step_monotone_primaries nodes R holds v p :
  NoDup nodes -> incl holds nodes ->
  In p (primaries nodes R) -> In p holds -> In p (node_step nodes R holds v).
Proof.
  intros Hnd Hincl Hp Hph.
  destruct (in_dec Nat.eq_dec v holds) as [Hv|Hv].
  2:{ rewrite node_step_skip; auto. }
  apply (step_mem nodes R holds v Hnd (Hincl v Hv) Hv).
  split; [right; exact Hph|].
  intros Hn ->.
  assert (s_need (scan_res nodes R holds v) = true) as Ht.
  { unfold scan_res. apply scan_need_local. simpl. exact Hp. }
  congruence.
Qed.

Lemma missing_le nodes R h h' :
  (forall p, In p (primaries nodes R) -> In p h -> In p h') ->
  missing nodes R h' <= missing nodes R h.
Proof.
  intros H. unfold missing. apply filter_len_le.
  intros x Hx Hg. apply negb_true_iff in Hg. apply negb_true_iff.
  apply memb_false in Hg. apply memb_false. intros Hi. apply Hg. apply H; auto.
Qed.

Lemma missing_zero_iff nodes R h :
  missing nodes R h = 0 <-> forall p, In p (primaries nodes R) -> In p h.
Proof.
  unfold missing. rewrite filter_len0. split.
  - intros H p Hp. apply memb_In. specialize (H p Hp). apply negb_false_iff in H. exact H.
  - intros H p Hp. apply negb_false_iff. apply memb_In. auto.
Qed.

Lemma missing_pos nodes R h :
  0 < missing nodes R h -> exists m, In m (primaries nodes R) /\ ~ In m h.
Proof.
  unfold missing.
  induction (primaries nodes R) as [|a r IH]; simpl; [lia|].
  destruct (memb a h) eqn:E; simpl.
  - intros H. destruct (IH H) as (m & H1 & H2). exists m. auto.
  - intros _. exists a. split; [auto|]. apply memb_false. exact E.
Qed.

Lemma missing_step_le nodes R holds v :
  NoDup nodes -> incl holds nodes ->
  missing nodes R (node_step nodes R holds v) <= missing nodes R holds.
Proof.
  intros Hnd Hincl. apply missing_le. intros p Hp Hh.
  apply step_monotone_primaries; auto.
Qed.

Theorem step_progress nodes R holds v :
  NoDup nodes -> incl holds nodes -> In v holds ->
  0 < missing nodes R holds ->
  missing nodes R (node_step nodes R holds v) < missing nodes R holds.
Proof.
  intros Hnd Hincl Hv Hpos.
  destruct (missing_pos nodes R holds Hpos) as (m & Hmp & Hmh).
  assert (m <> v) as Hmv by (intros ->; auto).
  destruct (scan_first_cand holds v nodes (mkS R [] false false) m eq_refl Hmp
              (proj2 (memb_false m holds) Hmh) Hmv) as (m' & c & Hc & Hm'p & Hm'h & Hm'v).
  fold (scan_res nodes R holds v) in Hc. simpl in Hm'p.
  assert (In m' (node_step nodes R holds v)) as Hin.
  { apply (step_mem nodes R holds v Hnd (Hincl v Hv) Hv). split; [|auto].
    left. unfold succ_of. rewrite Hc.
    destruct (Nat.ltb 0 (s_short (scan_res nodes R holds v))) eqn:Hlt; [|left; reflexivity].
    apply Nat.ltb_lt in Hlt.
    destruct (s_short (scan_res nodes R holds v)); [lia|]. left. reflexivity. }
  unfold missing. apply filter_len_lt with (m := m').
  - intros x Hx Hg. apply negb_true_iff in Hg. apply negb_true_iff.
    apply memb_false in Hg. apply memb_false. intros Hi. apply Hg.
    apply step_monotone_primaries; auto.
  - exact Hm'p.
  - rewrite Hm'h. reflexivity.
  - apply negb_false_iff. apply memb_In. exact Hin.
Qed.

(* a check that ends without "keep the local copy" met another holder *)
Lemma scan_need_false_other holds v l : forall s,
  In v l -> 0 < s_short s -> s_need (scan holds v l s) = false ->
  exists n, In n l /\ n <> v /\ memb n holds = true.
Proof.
  induction l as [|n r IH]; simpl; intros s Hin Hpos Hn; [destruct Hin|].
  replace (negb (s_inc s) || Nat.ltb 0 (s_short s)) with true in Hn
    by (symmetry; apply orb_true_iff; right; apply Nat.ltb_lt; exact Hpos).
  destruct (Nat.eqb n v) eqn:Env.
  - exfalso. rewrite scan_need_mono in Hn; [discriminate|].
    unfold scan_step. rewrite Env.
    destruct (Nat.eqb (s_short s) 0) eqn:E0; [apply Nat.eqb_eq in E0; lia|reflexivity].
  - apply Nat.eqb_neq in Env.
    destruct (memb n holds) eqn:Enh.
    + exists n. auto.
    + destruct Hin as [Hin|Hin]; [congruence|].
      destruct (IH (scan_step holds v s n) Hin) as (x & H1 & H2 & H3).
      * unfold scan_step. apply Nat.eqb_neq in Env. rewrite Env, Enh.
        destruct (Nat.eqb (s_short s) 0) eqn:E0; [apply Nat.eqb_eq in E0; lia|simpl; exact Hpos].
      * exact Hn.
      * exists x. auto.
Qed.

Theorem never_empty nodes R holds v :
  NoDup nodes -> 0 < R -> incl holds nodes ->
  (exists x, In x holds) -> exists x, In x (node_step nodes R holds v).
Proof.
  intros Hnd HR Hincl [x Hx].
  destruct (in_dec Nat.eq_dec v holds) as [Hv|Hv].
  2:{ rewrite node_step_skip; eauto. }
  pose proof (step_mem nodes R holds v Hnd (Hincl v Hv) Hv) as Hm. cbv zeta in Hm.
  destruct (s_need (scan_res nodes R holds v)) eqn:Hn.
  - exists x. apply Hm. split; [auto|discriminate].
  - destruct (scan_need_false_other holds v nodes (mkS R [] false false) (Hincl v Hv) HR Hn)
      as (n & H1 & H2 & H3).
    exists n. apply Hm. split; [right; apply memb_In; exact H3|auto].
Qed.

(* all primaries hold the object: a check issues no task, adds nobody, and a
   non-primary holder drops its copy *)
Lemma step_complete nodes R holds v :
  NoDup nodes -> R <= length nodes -> incl holds nodes ->
  missing nodes R holds = 0 ->
  incl (node_step nodes R holds v) holds
  /\ node_tasks nodes R holds v = []
  /\ (~ In v (primaries nodes R) -> ~ In v (node_step nodes R holds v)).
Proof.
  intros Hnd HR Hincl Hz.
  destruct (in_dec Nat.eq_dec v holds) as [Hv|Hv].
  2:{ rewrite node_step_skip, node_tasks_skip; auto. split; [apply incl_refl|auto]. }
  rewrite missing_zero_iff in Hz.
  destruct (scan_complete holds v nodes (mkS R [] false false)) as [Hs Hc].
  { simpl. intros x Hx. left. apply memb_In. apply Hz. exact Hx. }
  { simpl. exact HR. }
  { reflexivity. }
  fold (scan_res nodes R holds v) in Hs, Hc.
  pose proof (step_mem nodes R holds v Hnd (Hincl v Hv) Hv) as Hm. cbv zeta in Hm.
  assert (succ_of (scan_res nodes R holds v) = []) as Hsu.
  { unfold succ_of. rewrite Hs, Hc. reflexivity. }
  rewrite Hsu in Hm.
  split; [|split].
  - intros x Hx. apply Hm in Hx. destruct Hx as [[[]|Hx] _]. exact Hx.
  - unfold node_tasks. apply memb_In in Hv. rewrite Hv.
    destruct (node_result_closed nodes R holds v Hnd) as (_ & Ht & _). rewrite Ht.
    unfold tasks_of. rewrite Hs, Hc. reflexivity.
  - intros Hnp Hin. apply Hm in Hin. destruct Hin as [_ Hin]. apply Hin; [|reflexivity].
    unfold scan_res. apply scan_need_false; [|reflexivity].
    simpl. intros x Hx. split; [apply memb_In; apply Hz; exact Hx|].
    intros ->. exact (Hnp Hx).
Qed.

Theorem non_primary_drops_when_complete nodes R holds v :
  NoDup nodes -> R <= length nodes -> incl holds nodes ->
  missing nodes R holds = 0 -> In v holds -> ~ In v (primaries nodes R) ->
  ~ In v (node_step nodes R holds v) /\ node_tasks nodes R holds v = [].
Proof.
  intros Hnd HR Hincl Hz _ Hnp.
  destruct (step_complete nodes R holds v Hnd HR Hincl Hz) as (_ & H2 & H3). auto.
Qed.

(* the holders are exactly the primaries: nothing changes and nobody replicates *)
Theorem fixpoint nodes R holds :
  NoDup nodes -> R <= length nodes -> same_set holds (primaries nodes R) ->
  forall v, node_step nodes R holds v = holds /\ node_tasks nodes R holds v = [].
Proof.
  intros Hnd HR Hss v.
  destruct (in_dec Nat.eq_dec v holds) as [Hv|Hv].
  2:{ rewrite node_step_skip, node_tasks_skip; auto. }
  assert (In v (primaries nodes R)) as Hvp by (apply Hss; exact Hv).
  destruct (scan_complete holds v nodes (mkS R [] false false)) as [Hs Hc].
  { simpl. intros x Hx. left. apply memb_In. apply Hss. exact Hx. }
  { simpl. exact HR. }
  { reflexivity. }
  fold (scan_res nodes R holds v) in Hs, Hc.
  assert (s_need (scan_res nodes R holds v) = true) as Hn.
  { unfold scan_res. apply scan_need_local. simpl. exact Hvp. }
  destruct (node_result_closed nodes R holds v Hnd) as (Hsu & Ht & Hd & _).
  unfold node_step, node_tasks. apply memb_In in Hv. rewrite Hv. cbv zeta.
  rewrite Hsu, Ht, (Hd Hn). unfold succ_of, tasks_of. rewrite Hs, Hc. simpl. auto.
Qed.

(* ---- rounds ---------------------------------------------------------------------------- *)
Lemma round_cons nodes R a o h :
  round nodes R (a :: o) h = round nodes R o (node_step nodes R h a).
Proof. reflexivity. Qed.

Lemma round_incl_le nodes R o : forall h,
  NoDup nodes -> incl h nodes ->
  incl (round nodes R o h) nodes /\ missing nodes R (round nodes R o h) <= missing nodes R h.
Proof.
  induction o as [|a o IH]; intros h Hnd Hincl.
  { split; [exact Hincl|apply Nat.le_refl]. }
  rewrite round_cons.
  destruct (IH (node_step nodes R h a) Hnd (step_keeps_holders_in_nodes nodes R h a Hnd Hincl)) as [H1 H2].
  split; [exact H1|].
  pose proof (missing_step_le nodes R h a Hnd Hincl). lia.
Qed.

Lemma round_nonempty nodes R o : forall h,
  NoDup nodes -> 0 < R -> incl h nodes -> (exists x, In x h) ->
  exists x, In x (round nodes R o h).
Proof.
  induction o as [|a o IH]; intros h Hnd HR Hincl Hne; [exact Hne|].
  rewrite round_cons. apply IH; auto.
  - apply step_keeps_holders_in_nodes; auto.
  - apply never_empty; auto.
Qed.

(* while a primary lacks the object, a round in which some holder runs its check
   reduces the number of such primaries *)
Lemma round_progress nodes R o : forall h,
  NoDup nodes -> incl h nodes -> (exists x, In x h /\ In x o) ->
  0 < missing nodes R h ->
  missing nodes R (round nodes R o h) < missing nodes R h.
Proof.
  induction o as [|a o IH]; intros h Hnd Hincl [x [Hxh Hxo]] Hpos; [destruct Hxo|].
  rewrite round_cons.
  destruct (in_dec Nat.eq_dec a h) as [Ha|Ha].
  - pose proof (step_progress nodes R h a Hnd Hincl Ha Hpos) as Hlt.
    destruct (round_incl_le nodes R o (node_step nodes R h a) Hnd
                (step_keeps_holders_in_nodes nodes R h a Hnd Hincl)) as [_ Hle].
    lia.
  - rewrite node_step_skip; [|exact Ha].
    apply IH; auto. exists x. split; [exact Hxh|].
    destruct Hxo as [->|Hxo]; [contradiction|exact Hxo].
Qed.

(* all primaries hold the object: a round only removes copies, and every
   non-primary node that runs its check ends without a copy *)
Lemma round_complete nodes R o : forall h,
  NoDup nodes -> R <= length nodes -> incl h nodes -> missing nodes R h = 0 ->
  incl (round nodes R o h) h
  /\ missing nodes R (round nodes R o h) = 0
  /\ (forall x, In x o -> ~ In x (primaries nodes R) -> ~ In x (round nodes R o h)).
Proof.
  induction o as [|a o IH]; intros h Hnd HR Hincl Hz.
  { split; [apply incl_refl|]. split; [exact Hz|]. intros x []. }
  rewrite round_cons.
  destruct (step_complete nodes R h a Hnd HR Hincl Hz) as (S1 & _ & S3).
  assert (incl (node_step nodes R h a) nodes) as Hi1 by (apply step_keeps_holders_in_nodes; auto).
  assert (missing nodes R (node_step nodes R h a) = 0) as Hz1.
  { pose proof (missing_step_le nodes R h a Hnd Hincl). lia. }
  destruct (IH (node_step nodes R h a) Hnd HR Hi1 Hz1) as (I1 & I2 & I3).
  split; [|split].
  - eapply incl_tran; eauto.
  - exact I2.
  - intros x [->|Hx] Hnp.
    + intros Hin. apply (S3 Hnp). apply I1. exact Hin.
    + apply I3; auto.
Qed.

Lemma round_to_primaries nodes R o h :
  NoDup nodes -> R <= length nodes -> incl h nodes -> incl nodes o ->
  missing nodes R h = 0 ->
  same_set (round nodes R o h) (primaries nodes R).
Proof.
  intros Hnd HR Hincl Hcov Hz.
  destruct (round_complete nodes R o h Hnd HR Hincl Hz) as (C1 & C2 & C3).
  intros x. split.
  - intros Hx. destruct (in_dec Nat.eq_dec x (primaries nodes R)) as [Hp|Hp]; [exact Hp|].
    exfalso. apply (C3 x); auto.
  - intros Hx. apply (proj1 (missing_zero_iff nodes R _) C2). exact Hx.
Qed.

Lemma round_fix nodes R o h :
  NoDup nodes -> R <= length nodes -> same_set h (primaries nodes R) ->
  round nodes R o h = h.
Proof.
  intros Hnd HR Hss. induction o as [|a o IH]; [reflexivity|].
  rewrite round_cons. destruct (fixpoint nodes R h Hnd HR Hss a) as [-> _]. exact IH.
Qed.

Lemma rounds_fix nodes R orders h :
  NoDup nodes -> R <= length nodes -> same_set h (primaries nodes R) ->
  rounds nodes R orders h = h.
Proof.
  intros Hnd HR Hss. induction orders as [|o r IH]; [reflexivity|].
  simpl. rewrite round_fix; auto.
Qed.

Lemma missing_bound nodes R h : missing nodes R h <= R.
Proof.
  unfold missing, primaries.
  assert (forall (f : node -> bool) l, length (filter f l) <= length l) as Hf.
  { intros f l. induction l as [|a r IH]; simpl; [lia|]. destruct (f a); simpl; lia. }
  eapply Nat.le_trans; [apply Hf|apply firstn_le_length].
Qed.

(* missing + 1 covering rounds are enough *)
Theorem converges_missing nodes R : forall orders h,
  NoDup nodes -> 0 < R -> R <= length nodes ->
  incl h nodes -> (exists x, In x h) ->
  covering nodes orders -> missing nodes R h + 1 <= length orders ->
  same_set (rounds nodes R orders h) (primaries nodes R).
Proof.
  induction orders as [|o rest IH]; intros h Hnd HR HRl Hincl Hne Hcov Hlen.
  { simpl in Hlen. lia. }
  simpl.
  assert (incl nodes o) as Ho by (apply Hcov; left; reflexivity).
  destruct (Nat.eq_dec (missing nodes R h) 0) as [Hz|Hz].
  - pose proof (round_to_primaries nodes R o h Hnd HRl Hincl Ho Hz) as Hss.
    rewrite rounds_fix; auto.
  - assert (missing nodes R (round nodes R o h) < missing nodes R h) as Hlt.
    { apply round_progress; auto; [|lia].
      destruct Hne as [x Hx]. exists x. split; [exact Hx|]. apply Ho. apply Hincl. exact Hx. }
    apply IH; auto.
    + apply round_incl_le; auto.
    + apply round_nonempty; auto.
    + intros o' Ho'. apply Hcov. right. exact Ho'.
    + simpl in Hlen. lia.
Qed.

(* C27: after R + 1 rounds (in any orders that let every container node run its
   check) the holders are exactly the R primaries; from then on no check changes
   the holders or issues a replication task *)
Theorem converges nodes R holds orders :
  NoDup nodes -> 0 < R -> R <= length nodes ->
  incl holds nodes -> (exists x, In x holds) ->
  covering nodes orders -> R + 1 <= length orders ->
  let h := rounds nodes R orders holds in
  same_set h (primaries nodes R)
  /\ (forall more, rounds nodes R more h = h)
  /\ (forall v, node_step nodes R h v = h /\ node_tasks nodes R h v = []).
Proof.
  intros Hnd HR HRl Hincl Hne Hcov Hlen h.
  assert (same_set h (primaries nodes R)) as Hss.
  { apply converges_missing; auto. pose proof (missing_bound nodes R holds). lia. }
  split; [exact Hss|]. split.
  - intros more. apply rounds_fix; auto.
  - apply fixpoint; auto.
Qed.

(* ---- the replicator -------------------------------------------------------------------- *)
Theorem replicator_bounded holds v q cands sends succ :
  handle_task (cluster_env holds v) q cands = (sends, succ) ->
  length succ <= q /\ incl succ sends /\ incl sends cands
  /\ (forall n, In n succ -> e_rep (cluster_env holds v) n = RStored /\ n <> v)
  /\ (NoDup cands -> NoDup succ).
Proof. apply handle_task_spec. Qed.

(* one check issues at most one task; the reported successes are candidates of
   that task, at most [quantity] of them, all container nodes other than v *)
Theorem node_replication_bounded nodes R holds v :
  NoDup nodes ->
  let r := node_result nodes R holds v in
  match r_tasks r with
  | [] => r_succ r = []
  | [(q, c)] => length (r_succ r) <= q /\ incl (r_succ r) c /\ incl c nodes
  | _ => False
  end.
Proof.
  intros Hnd r. subst r.
  destruct (node_result_closed nodes R holds v Hnd) as (-> & -> & _).
  pose proof (scan_res_cands_in_nodes nodes R holds v) as Hc.
  unfold tasks_of, succ_of.
  destruct (Nat.ltb 0 (s_short (scan_res nodes R holds v))).
  - split; [apply firstn_le_length|]. split; [intros x; apply firstn_in|exact Hc].
  - destruct (s_cands (scan_res nodes R holds v)) as [|a l]; [reflexivity|].
    split; [apply Nat.le_refl|]. split; [apply incl_refl|exact Hc].
Qed.

(* ---- concrete runs (vm_compute on the model) ------------------------------------------ *)
(* 4 nodes, REP 2, the object sits on the two wrong nodes *)
Example ex_round1 : round [1;2;3;4] 2 [1;2;3;4] [3;4] = [3;1;2].
Proof. vm_compute. reflexivity. Qed.

Example ex_rounds2 : rounds [1;2;3;4] 2 [[1;2;3;4];[1;2;3;4]] [3;4] = [1;2].
Proof. vm_compute. reflexivity. Qed.

Example ex_rounds2_rev : rounds [1;2;3;4] 2 [[4;3;2;1];[4;3;2;1]] [3;4] = [1;2].
Proof. vm_compute. reflexivity. Qed.

(* 6 nodes, REP 3, a single copy on the last node *)
Example ex_six_round1 : rounds [1;2;3;4;5;6] 3 [[6;5;4;3;2;1]] [6] = [6;1;2;3;4;5].
Proof. vm_compute. reflexivity. Qed.

Example ex_six_round2 : rounds [1;2;3;4;5;6] 3 [[6;5;4;3;2;1];[6;5;4;3;2;1]] [6] = [1;2;3].
Proof. vm_compute. reflexivity. Qed.

Example ex_missing :
  missing [1;2;3;4] 2 [3;4] = 2 /\ missing [1;2;3;4] 2 (node_step [1;2;3;4] 2 [3;4] 3) = 0.
Proof. vm_compute. split; reflexivity. Qed.

Example ex_tasks :
  node_tasks [1;2;3;4] 2 [3;4] 3 = [(2, [1;2])]
  /\ node_tasks [1;2;3;4] 2 [1;2] 1 = [] /\ node_tasks [1;2;3;4] 2 [1;2] 2 = [].
Proof. vm_compute. repeat split; reflexivity. Qed.

(* the premises of [converges] are satisfiable (non-vacuity) *)
Example ex_converges_instance :
  same_set (rounds [1;2;3;4] 2 [[1;2;3;4];[4;3;2;1];[2;4;1;3]] [3;4]) [1;2].
Proof.
  apply (converges [1;2;3;4] 2 [3;4] [[1;2;3;4];[4;3;2;1];[2;4;1;3]]).
  - repeat constructor; simpl; intuition discriminate.
  - lia.
  - simpl. lia.
  - intros x Hx. simpl in *. tauto.
  - exists 3. left. reflexivity.
  - intros o Ho x Hx. simpl in Ho.
    destruct Ho as [<-|[<-|[<-|[]]]]; simpl in *; tauto.
  - simpl. lia.
Qed.
