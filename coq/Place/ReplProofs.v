(* The replicator never reports more successful copies than it was asked for, nor a
   node that did not store the object - for every kind of task (Place/Repl.v). *)
From Coq Require Import List Arith Bool Lia.
Import ListNotations.
From NV Require Import Place.Policer Place.PolicerProofs Place.Repl.

Definition given_stored (o : tobj) : Prop := exists h, o = ObjGiven h true.

Lemma ht_loop_obj_spec e lput : forall nodes q sends succ,
  ht_loop_obj e lput q nodes = (sends, succ) ->
  length succ <= q /\ incl succ nodes /\ incl sends nodes
  /\ (forall n, In n sends -> n <> e_local e)
  /\ (forall n, In n succ ->
        (n <> e_local e /\ In n sends /\ e_rep e n = RStored) \/ (n = e_local e /\ lput = true))
  /\ (NoDup nodes -> NoDup succ).
Proof.
  induction nodes as [|n r IH]; simpl; intros q sends succ H.
  { inversion H; subst. simpl. split; [lia|]. split; [apply incl_nil_l|]. split; [apply incl_nil_l|].
    split; [intros ? []|]. split; [intros ? []|intros; constructor]. }
  destruct q as [|q'].
  { inversion H; subst. simpl. split; [lia|]. split; [apply incl_nil_l|]. split; [apply incl_nil_l|].
    split; [intros ? []|]. split; [intros ? []|intros; constructor]. }
  destruct (Nat.eqb n (e_local e)) eqn:El.
  { apply Nat.eqb_eq in El. destruct lput.
    - destruct (ht_loop_obj e true q' r) as [s k] eqn:Hr. inversion H; subst.
      apply IH in Hr. destruct Hr as (H1 & H2 & H3 & H4 & H5 & H6).
      split; [simpl; lia|].
      split; [intros x [Hx|Hx]; [left; auto|right; auto]|].
      split; [intros x Hx; right; auto|].
      split; [exact H4|].
      split.
      + intros x [Hx|Hx]; [right; subst; auto|apply H5; exact Hx].
      + intros Hnd. apply NoDup_cons_iff in Hnd. destruct Hnd as [Hn1 Hn2]. constructor; [|auto].
        intro Hi. apply Hn1. apply H2. exact Hi.
    - apply IH in H. destruct H as (H1 & H2 & H3 & H4 & H5 & H6).
      split; [exact H1|]. split; [intros x Hx; right; auto|]. split; [intros x Hx; right; auto|].
      split; [exact H4|]. split; [exact H5|]. intros Hnd. inversion Hnd; auto. }
  apply Nat.eqb_neq in El.
  destruct (rep_stored (e_rep e n)) eqn:Er; [|destruct (rep_sent (e_rep e n)) eqn:Es].
  - apply rep_stored_true in Er.
    destruct (ht_loop_obj e lput q' r) as [s k] eqn:Hr. inversion H; subst.
    apply IH in Hr. destruct Hr as (H1 & H2 & H3 & H4 & H5 & H6).
    split; [simpl; lia|].
    split; [intros x [Hx|Hx]; [left; auto|right; auto]|].
    split; [intros x [Hx|Hx]; [left; auto|right; auto]|].
    split; [intros x [Hx|Hx]; [subst; auto|auto]|].
    split.
    + intros x [Hx|Hx].
      * left. subst. split; [auto|]. split; [left; reflexivity|exact Er].
      * destruct (H5 x Hx) as [(A & B & C)|D]; [left; split; [auto|]; split; [right; exact B|exact C]|right; exact D].
    + intros Hnd. apply NoDup_cons_iff in Hnd. destruct Hnd as [Hn1 Hn2]. constructor; [|auto].
      intro Hi. apply Hn1. apply H2. exact Hi.
  - destruct (ht_loop_obj e lput (S q') r) as [s k] eqn:Hr. inversion H; subst.
    apply IH in Hr. destruct Hr as (H1 & H2 & H3 & H4 & H5 & H6).
    split; [exact H1|].
    split; [intros x Hx; right; auto|].
    split; [intros x [Hx|Hx]; [left; auto|right; auto]|].
    split; [intros x [Hx|Hx]; [subst; auto|auto]|].
    split.
    + intros x Hx. destruct (H5 x Hx) as [(A & B & C)|D]; [left; split; [auto|]; split; [right; exact B|exact C]|right; exact D].
    + intros Hnd. inversion Hnd; auto.
  - apply IH in H. destruct H as (H1 & H2 & H3 & H4 & H5 & H6).
    split; [exact H1|]. split; [intros x Hx; right; auto|]. split; [intros x Hx; right; auto|].
    split; [exact H4|]. split; [exact H5|]. intros Hnd. inversion Hnd; auto.
Qed.

(* every kind of task: at most [q] reported nodes, all of them targets of the task,
   each one either a remote node that was sent the object and stored it, or the
   local node of a task that carries the object and whose local Put succeeded *)
Theorem handle_task_any_spec e o q nodes sends succ :
  handle_task_any e o q nodes = (sends, succ) ->
  length succ <= q /\ incl succ nodes /\ incl sends nodes
  /\ (forall n, In n succ ->
        (n <> e_local e /\ In n sends /\ e_rep e n = RStored) \/ (n = e_local e /\ given_stored o))
  /\ (NoDup nodes -> NoDup succ).
Proof.
  destruct o as [|h lput]; simpl.
  - intros H. destruct (handle_task_spec _ _ _ _ _ H) as (H1 & H2 & H3 & H4 & H5).
    split; [exact H1|]. split; [intros x Hx; apply H3; apply H2; exact Hx|]. split; [exact H3|].
    split; [|exact H5].
    intros n Hn. left. destruct (H4 n Hn) as [A B]. split; [exact B|]. split; [apply H2; exact Hn|exact A].
  - destruct h.
    + intros H. destruct (ht_loop_obj_spec _ _ _ _ _ _ H) as (H1 & H2 & H3 & _ & H5 & H6).
      split; [exact H1|]. split; [exact H2|]. split; [exact H3|]. split; [|exact H6].
      intros n Hn. destruct (H5 n Hn) as [A|[B C]]; [left; exact A|right].
      split; [exact B|]. subst lput. exists true. reflexivity.
    + intros H. inversion H; subst. simpl. split; [lia|]. split; [apply incl_nil_l|]. split; [apply incl_nil_l|].
      split; [intros ? []|intros; constructor].
Qed.

(* the local node among the targets of a task that carries the object: it takes one
   unit of the quota, so only ONE of the two remote nodes is served (non-vacuity) *)
Example ex_local_consumes_quota :
  handle_task_any (mkEnv 9 true (fun _ => false) (fun _ => NotFound) (fun _ => RStored) true)
                  (ObjGiven true true) 2 [9; 1; 2] = ([1], [9; 1])
  /\ handle_task_any (mkEnv 9 true (fun _ => false) (fun _ => NotFound) (fun _ => RStored) true)
                     ObjAddr 2 [9; 1; 2] = ([1; 2], [1; 2])
  /\ handle_task_any (mkEnv 9 true (fun _ => false) (fun _ => NotFound) (fun _ => RStored) true)
                     (ObjGiven true false) 2 [9; 1; 2] = ([1; 2], [1; 2]).
Proof. repeat split; reflexivity. Qed.
