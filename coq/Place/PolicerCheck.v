(* Executable comparison used by the correspondence checks of C26.
   A case carries the inputs the Go harness used and the observables recorded
   from the real Policer/Replicator run. *)
From Coq Require Import List Arith Bool.
Import ListNotations.
From NV Require Import Place.Policer.

Record pcase := mkCase {
  c_local : nat;
  c_innm : bool;
  c_mflag : list nat;            (* nodes flagged as under maintenance in the netmap *)
  c_ans : list (nat * nat);      (* node -> 0 has | 1 not found | 2 maintenance | 3 error (default) *)
  c_rep : list (nat * nat);      (* node -> what it does with a replication request:
                                    0 stores | 1 maintenance status | 2 other failure status |
                                    3 transport failure (default) | 4 no client for the node *)
  c_readable : bool;
  c_ty : nat;                    (* 0 REGULAR 1 TOMBSTONE 2 LOCK 3 LINK *)
  c_ec : option (nat * nat);
  c_shards : nat;
  c_net : netres;
  o_heads : list nat;
  o_tasks : list (nat * list nat);
  o_sends : list nat;
  o_succ : list nat;
  o_dels : list nat;             (* 0 default mark, 1 redundant mark *)
  o_ds : bool;
  o_panic : bool
}.

Definition memb (n : nat) (l : list nat) : bool := existsb (Nat.eqb n) l.

Fixpoint assoc (n : nat) (l : list (nat * nat)) (d : nat) : nat :=
  match l with
  | [] => d
  | (k, v) :: r => if Nat.eqb k n then v else assoc n r d
  end.

Definition answer_of (k : nat) : answer :=
  match k with 0 => Has | 1 => NotFound | 2 => Maint | _ => Err end.

Definition repans_of (k : nat) : repans :=
  match k with 0 => RStored | 1 => RMaint | 2 => RStatus | 4 => RNoConn | _ => RFail end.

(* the node stored the object (reference side: read from the case input, not from the model) *)
Definition stored_b (c_rep : list (nat * nat)) (n : nat) : bool := Nat.eqb (assoc n c_rep 3) 0.

Definition type_of (k : nat) : otype :=
  match k with 0 => Regular | 1 => Tombstone | 2 => Lock | _ => Link end.

Definition env_of (c : pcase) : env :=
  mkEnv (c_local c) (c_innm c)
        (fun n => memb n (c_mflag c))
        (fun n => answer_of (assoc n (c_ans c) 3))
        (fun n => repans_of (assoc n (c_rep c) 3))
        (c_readable c).

Definition mark_code (m : mark) : nat := match m with MDefault => 0 | MRedundant => 1 end.

Definition list_eqb (a b : list nat) : bool :=
  if list_eq_dec Nat.eq_dec a b then true else false.

Fixpoint tasks_eqb (a b : list (nat * list nat)) : bool :=
  match a, b with
  | [], [] => true
  | (q, l) :: ra, (q', l') :: rb => Nat.eqb q q' && list_eqb l l' && tasks_eqb ra rb
  | _, _ => false
  end.

Definition model_result (fx : bool) (c : pcase) : result :=
  process_object fx (env_of c) (type_of (c_ty c)) (c_ec c) (c_shards c) (c_net c).

Definition model_ok_fx (fx : bool) (c : pcase) : bool :=
  let r := model_result fx c in
  negb (o_panic c)
  && list_eqb (r_heads r) (o_heads c)
  && tasks_eqb (r_tasks r) (o_tasks c)
  && list_eqb (r_sends r) (o_sends c)
  && list_eqb (r_succ r) (o_succ c)
  && list_eqb (map mark_code (r_dels r)) (o_dels c)
  && Bool.eqb (r_dropshards r) (o_ds c).

(* ---- reference: the right-hand sides of the C26 theorems evaluated on the
        implementation's observables (no use of the decision model) ---------- *)

(* confirmed holder: header actually read OK, or replication reported and accepted *)
Definition confirmed_b (c : pcase) (n : nat) : bool :=
  (memb n (o_heads c) && Nat.eqb (assoc n (c_ans c) 3) 0)
  || (memb n (o_succ c) && stored_b (c_rep c) n).

Fixpoint dedup (l : list nat) : list nat :=
  match l with
  | [] => []
  | x :: r => if memb x r then dedup r else x :: dedup r
  end.

Definition confirmed_others (c : pcase) (nodes : list nat) : nat :=
  length (filter (fun n => negb (Nat.eqb n (c_local c)) && confirmed_b c n) (dedup nodes)).

Definition is_ec_path (c : pcase) : bool :=
  match c_ec c, c_net c with
  | Some _, NetOk _ _ (_ :: _) => true
  | _, _ => false
  end.

Definition ref_rep_ok (c : pcase) : bool :=
  match c_net c with
  | NetOk nn rep ecr =>
    let ty := type_of (c_ty c) in
    let rules := combine nn (effective_rules ty nn rep ecr) in
    let dropped := memb 1 (o_dels c) in
    let listed := existsb (fun r => memb (c_local c) (fst r)) rules in
    (* every rule listing the local node has enough confirmed other holders *)
    (negb dropped
     || forallb (fun r =>
          negb (memb (c_local c) (fst r))
          || Nat.leb (if is_broadcast ty then length (fst r) else snd r) (confirmed_others c (fst r)))
        rules)
    (* outside the container: in the netmap and at least one confirmed holder *)
    && (negb dropped || listed
        || (c_innm c && existsb (fun r => Nat.ltb 0 (confirmed_others c (fst r))) rules))
    (* LOCK / LINK never removed from container nodes *)
    && (negb (is_broadcast ty) || negb listed
        || match c_ec c with Some _ => true | None => match o_dels c with [] => true | _ => false end end)
  | _ => true
  end.

Definition ref_ec_ok (c : pcase) : bool :=
  match c_net c, c_ec c with
  | NetOk nn rep ecr, Some (ri, _) =>
    negb (memb 1 (o_dels c))
    || Nat.ltb 0 (confirmed_others c (nth ri (skipn (length rep) nn) []))
  | _, _ => true
  end.

(* replicator: never more successes than asked for, only for nodes that stored *)
Definition ref_repl_ok (c : pcase) : bool :=
  Nat.leb (length (o_succ c)) (fold_right (fun t a => fst t + a) 0 (o_tasks c))
  && forallb (fun n => stored_b (c_rep c) n && memb n (o_sends c)) (o_succ c).

Definition ref_ok (c : pcase) : bool :=
  negb (o_panic c)
  && (if is_ec_path c then ref_ec_ok c else ref_rep_ok c)
  && ref_repl_ok c.

Fixpoint mism_from (i : nat) (f : pcase -> bool) (cs : list pcase) : list nat :=
  match cs with
  | [] => []
  | c :: r => if f c then mism_from (S i) f r else i :: mism_from (S i) f r
  end.

Definition model_mismatches (fx : bool) := mism_from 0 (model_ok_fx fx).
Definition ref_mismatches := mism_from 0 ref_ok.
