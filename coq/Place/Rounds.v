(* C27: repeated policer cycles restore the required replicas, then stop.

   A cluster of container nodes checks one REGULAR object stored under a single
   rule REP R.  [nodes] is the placement list for the object (no repetitions),
   [holds] the nodes that currently store it (used as a set: only membership
   matters).  Every check is the finished one-object model
   Place.Policer.process_object (repaired variant, fx = true); the cluster-level
   effect of a check is: reported successful replications store the object on the
   target, a redundant-mark delete removes the local copy.

   Definitions only (executable).  Proofs: Place/RoundsProofs.v. *)
From Coq Require Import List Arith Bool.
Import ListNotations.
From NV Require Import Place.Policer.

Definition memb (n : nat) (l : list nat) : bool := existsb (Nat.eqb n) l.

(* what node v sees: it is in the netmap, nobody is under maintenance, a HEAD
   is answered Has exactly by the holders, every replication succeeds, the local
   copy is readable *)
Definition cluster_env (holds : list node) (v : node) : env :=
  mkEnv v true (fun _ => false) (fun n => if memb n holds then Has else NotFound)
        (fun _ => RStored) true.

(* one policer check of the object on node v *)
Definition node_result (nodes : list node) (R : nat) (holds : list node) (v : node) : result :=
  process_object true (cluster_env holds v) Regular None 1 (NetOk [nodes] [R] []).

Definition add_all (xs holds : list node) : list node :=
  fold_left (fun h x => if memb x h then h else h ++ [x]) xs holds.

Definition remove (v : node) (holds : list node) : list node :=
  filter (fun n => negb (Nat.eqb n v)) holds.

Definition is_redundant (m : mark) : bool :=
  match m with MRedundant => true | MDefault => false end.

(* effect on the cluster: reported successful replications store the object;
   a redundant-mark delete removes the local copy.  Only a node that holds the
   object checks it. *)
Definition node_step (nodes : list node) (R : nat) (holds : list node) (v : node) : list node :=
  if memb v holds then
    let r := node_result nodes R holds v in
    let h := add_all (r_succ r) holds in
    if existsb is_redundant (r_dels r) then remove v h else h
  else holds.

(* a round: the nodes run their check one after another in the given order *)
Definition round (nodes : list node) (R : nat) (order : list node) (holds : list node) : list node :=
  fold_left (node_step nodes R) order holds.

Fixpoint rounds (nodes : list node) (R : nat) (orders : list (list node)) (holds : list node) : list node :=
  match orders with
  | [] => holds
  | o :: r => rounds nodes R r (round nodes R o holds)
  end.

Definition primaries (nodes : list node) (R : nat) : list node := firstn R nodes.

Definition missing (nodes : list node) (R : nat) (holds : list node) : nat :=
  length (filter (fun n => negb (memb n holds)) (primaries nodes R)).

(* tasks issued by node v in the current state (to state "stops replicating") *)
Definition node_tasks (nodes : list node) (R : nat) (holds : list node) (v : node) : list (nat * list node) :=
  if memb v holds then r_tasks (node_result nodes R holds v) else [].

(* same member set *)
Definition same_set (a b : list node) : Prop := forall n, In n a <-> In n b.

(* ---- reference scan (closed form of processNodes in a cluster_env) ---------- *)
(* shortage, candidates, "local node seen", "local copy needed" *)
Record sst := mkS { s_short : nat; s_cands : list node; s_inc : bool; s_need : bool }.

Definition scan_step (holds : list node) (v : node) (s : sst) (n : node) : sst :=
  let inc := if s_inc s then true else Nat.eqb n v in
  if Nat.eqb (s_short s) 0 then mkS (s_short s) (s_cands s) inc (s_need s)
  else if Nat.eqb n v then mkS (s_short s - 1) (s_cands s) inc true
  else if memb n holds then mkS (s_short s - 1) (s_cands s) inc (s_need s)
  else mkS (s_short s) (s_cands s ++ [n]) inc (s_need s).

Fixpoint scan (holds : list node) (v : node) (l : list node) (s : sst) : sst :=
  match l with
  | [] => s
  | n :: r => if negb (s_inc s) || Nat.ltb 0 (s_short s)
              then scan holds v r (scan_step holds v s n) else s
  end.

Definition scan_res (nodes : list node) (R : nat) (holds : list node) (v : node) : sst :=
  scan holds v nodes (mkS R [] false false).

(* reported successes / issued tasks as a function of the scan result *)
Definition succ_of (s : sst) : list node :=
  if Nat.ltb 0 (s_short s) then firstn (s_short s) (s_cands s) else s_cands s.

Definition tasks_of (s : sst) : list (nat * list node) :=
  if Nat.ltb 0 (s_short s) then [(s_short s, s_cands s)]
  else match s_cands s with
       | [] => []
       | _ => [(length (s_cands s), s_cands s)]
       end.

(* every listed order lets every container node run its check *)
Definition covering (nodes : list node) (orders : list (list node)) : Prop :=
  forall o, In o orders -> incl nodes o.

(* ---- several REP rules (policies like "REP 1 IN X REP 2 IN Y") --------------------- *)
(* One placement vector and one copies number per rule; the vectors may share nodes.
   The per-node check is the same finished model (process_object walks the rules in
   order with ONE processPlacementContext: localNodeInContainer, needLocalCopy and the
   node cache are shared by the rules). *)
Definition rule := (list node * nat)%type.

Definition mnode_result (rules : list rule) (holds : list node) (v : node) : result :=
  process_object true (cluster_env holds v) Regular None 1
                 (NetOk (map fst rules) (map snd rules) []).

Definition mnode_step (rules : list rule) (holds : list node) (v : node) : list node :=
  if memb v holds then
    let r := mnode_result rules holds v in
    let h := add_all (r_succ r) holds in
    if existsb is_redundant (r_dels r) then remove v h else h
  else holds.

Definition mround (rules : list rule) (order : list node) (holds : list node) : list node :=
  fold_left (mnode_step rules) order holds.

Fixpoint mrounds (rules : list rule) (orders : list (list node)) (holds : list node) : list node :=
  match orders with
  | [] => holds
  | o :: r => mrounds rules r (mround rules o holds)
  end.

Definition mnode_tasks (rules : list rule) (holds : list node) (v : node) : list (nat * list node) :=
  if memb v holds then r_tasks (mnode_result rules holds v) else [].

(* container nodes = nodes of any vector *)
Definition in_container (rules : list rule) (n : node) : Prop :=
  exists r, In r rules /\ In n (fst r).

Definition rule_ok (r : rule) : Prop :=
  NoDup (fst r) /\ 0 < snd r /\ snd r <= length (fst r).

Definition total_R (rules : list rule) : nat := fold_right (fun r a => snd r + a) 0 rules.

Definition mcovering (rules : list rule) (orders : list (list node)) : Prop :=
  forall o, In o orders -> forall n, in_container rules n -> In n o.

(* every primary node of every rule holds the object *)
Definition restored (rules : list rule) (holds : list node) : Prop :=
  forall r p, In r rules -> In p (primaries (fst r) (snd r)) -> In p holds.

(* number of (rule, primary node) pairs whose node misses the object *)
Definition mmissing (rules : list rule) (holds : list node) : nat :=
  fold_right (fun r a => missing (fst r) (snd r) holds + a) 0 rules.
