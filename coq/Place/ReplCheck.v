(* Executable comparison for direct replicator tasks (C26/C27): the real
   Replicator.HandleTask against Place/Repl.v [handle_task_any]. *)
From Coq Require Import List Arith Bool.
Import ListNotations.
From NV Require Import Place.Policer Place.PolicerCheck Place.Repl.

Record plcase := mkPL {
  pl_local : nat;
  pl_rep : list (nat * nat);     (* node -> replication outcome code, as in PolicerCheck.pcase *)
  pl_readable : bool;            (* address-only task: the object is in the local storage *)
  pl_given : bool;               (* Task.SetObject used *)
  pl_hdr_ok : bool;              (* header of the carried object within object.MaxHeaderLen *)
  pl_lput : bool;                (* local storage accepts writes *)
  pl_q : nat;
  pl_nodes : list nat;
  po_sends : list nat;
  po_succ : list nat
}.

Definition pl_env (c : plcase) : env :=
  mkEnv (pl_local c) true (fun _ => false) (fun _ => NotFound)
        (fun n => repans_of (assoc n (pl_rep c) 3)) (pl_readable c).

Definition pl_obj (c : plcase) : tobj :=
  if pl_given c then ObjGiven (pl_hdr_ok c) (pl_lput c) else ObjAddr.

Definition pl_model_ok (c : plcase) : bool :=
  let '(s, k) := handle_task_any (pl_env c) (pl_obj c) (pl_q c) (pl_nodes c) in
  list_eqb s (po_sends c) && list_eqb k (po_succ c).

Fixpoint count (n : nat) (l : list nat) : nat :=
  match l with [] => 0 | x :: r => (if Nat.eqb x n then 1 else 0) + count n r end.

(* reference (no model): at most [q] reported nodes, each a target of the task reported
   once, each a remote node that was sent the object and stored it, or the local node
   of a task carrying the object with a writable local storage *)
Definition pl_ref_ok (c : plcase) : bool :=
  Nat.leb (length (po_succ c)) (pl_q c)
  && forallb (fun n =>
       memb n (pl_nodes c) && Nat.eqb (count n (po_succ c)) 1
       && (if Nat.eqb n (pl_local c) then pl_given c && pl_lput c
           else stored_b (pl_rep c) n && memb n (po_sends c))) (po_succ c)
  && forallb (fun n => memb n (pl_nodes c) && negb (Nat.eqb n (pl_local c))) (po_sends c).

Fixpoint pl_mism_from (i : nat) (f : plcase -> bool) (cs : list plcase) : list nat :=
  match cs with
  | [] => []
  | c :: r => if f c then pl_mism_from (S i) f r else i :: pl_mism_from (S i) f r
  end.

Definition pl_model_mismatches := pl_mism_from 0 pl_model_ok.
Definition pl_ref_mismatches := pl_mism_from 0 pl_ref_ok.
