(* Executable comparison used by the correspondence check of C27. *)
From Coq Require Import List Arith Bool.
Import ListNotations.
From NV Require Import Place.Policer Place.Rounds.

(* one executed policer check: node, tasks, reported successes, deletion marks *)
Definition ostep := (nat * list (nat * list nat) * list nat * list nat)%type.

Record rcase := mkRC {
  k_rules : list (list nat * nat);   (* one (placement vector, copies number) per REP rule *)
  k_holds : list nat;
  k_orders : list (list nat);
  o_rounds : list (list ostep);    (* executed checks per round *)
  o_after : list (list nat)        (* holders after each round, sorted *)
}.

Fixpoint insert (x : nat) (l : list nat) : list nat :=
  match l with [] => [x] | y :: r => if Nat.leb x y then x :: l else y :: insert x r end.
Definition sort (l : list nat) : list nat := fold_right insert [] l.
Definition list_eqb (a b : list nat) : bool := if list_eq_dec Nat.eq_dec a b then true else false.

Fixpoint tasks_eqb (a b : list (nat * list nat)) : bool :=
  match a, b with
  | [], [] => true
  | (q, l) :: ra, (q', l') :: rb => Nat.eqb q q' && list_eqb l l' && tasks_eqb ra rb
  | _, _ => false
  end.

Definition mark_code (m : mark) : nat := match m with MDefault => 0 | MRedundant => 1 end.

(* replay one round on the model, consuming the observed steps *)
Fixpoint replay_round (rules : list (list nat * nat)) (order : list nat) (holds : list nat) (obs : list ostep)
  : bool * list nat * list ostep :=
  match order with
  | [] => (true, holds, obs)
  | v :: rest =>
    if memb v holds then
      match obs with
      | [] => (false, holds, [])
      | (v', tasks, succ, dels) :: obs' =>
        let r := mnode_result rules holds v in
        if Nat.eqb v v' && tasks_eqb (r_tasks r) tasks && list_eqb (r_succ r) succ
           && list_eqb (map mark_code (r_dels r)) dels
        then replay_round rules rest (mnode_step rules holds v) obs'
        else (false, holds, obs)
      end
    else replay_round rules rest holds obs
  end.

Fixpoint replay (rules : list (list nat * nat)) (orders : list (list nat)) (holds : list nat)
         (obs : list (list ostep)) (after : list (list nat)) : bool :=
  match orders, obs, after with
  | [], [], [] => true
  | o :: ro, s :: rs, a :: ra =>
    let '(ok, h, rem) := replay_round rules o holds s in
    ok && match rem with [] => true | _ => false end
    && list_eqb (sort h) a && replay rules ro h rs ra
  | _, _, _ => false
  end.

Definition model_ok (c : rcase) : bool :=
  replay (k_rules c) (k_orders c) (k_holds c) (o_rounds c) (o_after c).

(* reference (no model).
   One REP rule: after R+1 rounds the holders are exactly the primaries, later rounds
   change nothing and issue no task.
   Several REP rules with overlapping vectors (K = sum of the copies numbers): after K
   rounds every primary node of every rule holds the object and keeps it; after K+1
   rounds the holder set no longer changes and no check replicates or deletes anything
   (a check may still call the replicator with an EMPTY candidate list: a holder
   confirmed for an earlier vector is not counted for a later one by processNodes, so
   the node keeps "detecting a shortage" it cannot act upon; nothing is sent).
   Always: the replicator never over-reports. *)
Definition step_quiet (s : ostep) : bool :=
  let '(_, tasks, succ, dels) := s in
  match tasks, succ, dels with [], [], [] => true | _, _, _ => false end.

Definition step_still (s : ostep) : bool :=
  let '(_, tasks, succ, dels) := s in
  forallb (fun t => match snd t with [] => true | _ => false end) tasks
  && match succ, dels with [], [] => true | _, _ => false end.

Definition step_bounded (nodes : list nat) (s : ostep) : bool :=
  let '(v, tasks, succ, _) := s in
  Nat.leb (length succ) (fold_right (fun t a => fst t + a) 0 tasks)
  && forallb (fun n => negb (Nat.eqb n v) && memb n nodes
                       && existsb (fun t => memb n (snd t)) tasks) succ.

Definition container (c : rcase) : list nat := flat_map fst (k_rules c).

Definition all_same (l : list (list nat)) : bool :=
  match l with [] => true | a :: r => forallb (list_eqb a) r end.

Definition ref_ok (c : rcase) : bool :=
  let K := total_R (k_rules c) in
  let single := match k_rules c with [_] => true | _ => false end in
  forallb (fun a => forallb (fun r => forallb (fun p => memb p a) (primaries (fst r) (snd r))) (k_rules c))
          (skipn K (o_after c))
  && match k_rules c with
     | [(nodes, R)] => forallb (fun a => list_eqb a (sort (primaries nodes R))) (skipn K (o_after c))
     | _ => all_same (skipn K (o_after c))
     end
  && forallb (fun ss => forallb (if single then step_quiet else step_still) ss) (skipn (S K) (o_rounds c))
  && forallb (fun ss => forallb (step_bounded (container c)) ss) (o_rounds c)
  && Nat.leb (K + 2) (length (o_after c)).

Fixpoint mism_from (i : nat) (f : rcase -> bool) (cs : list rcase) : list nat :=
  match cs with
  | [] => []
  | c :: r => if f c then mism_from (S i) f r else i :: mism_from (S i) f r
  end.

Definition model_mismatches := mism_from 0 model_ok.
Definition ref_mismatches := mism_from 0 ref_ok.
