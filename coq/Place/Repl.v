(* Replicator.HandleTask for every kind of task (C26/C27).

   Place/Policer.v [handle_task] covers the tasks the policer builds: an address
   only (task.obj == nil), the object is read from the local storage and a target
   that is the local node is skipped.  Tasks that CARRY the object
   (Task.SetObject: post-placement replication of the Put service, EC parts with
   copies = 1, object recreation) take the other arm of the local-node branch of
   pkg/services/replicator/process.go: the object is put into the local storage
   and, when that succeeded, the copy consumes one unit of the requested quantity
   and the local node is reported through SubmitSuccessfulReplication like any
   remote target.

   Definitions only (executable).  Proofs: Place/ReplProofs.v. *)
From Coq Require Import List Arith Bool.
Import ListNotations.
From NV Require Import Place.Policer.

(* the loop for a task with task.obj != nil; [lput] = localStorage.Put succeeds.
   returns (nodes the object was sent to over the network, reported nodes) *)
Fixpoint ht_loop_obj (e : env) (lput : bool) (q : nat) (nodes : list node) : list node * list node :=
  match nodes with
  | [] => ([], [])
  | n :: r =>
    match q with
    | 0 => ([], [])
    | S q' =>
      if Nat.eqb n (e_local e) then
        if lput then let '(s, k) := ht_loop_obj e lput q' r in (s, n :: k)  (* stored locally: quantity--, reported *)
        else ht_loop_obj e lput q r                                       (* Put failed: logged, next node *)
      else if rep_stored (e_rep e n)
           then let '(s, k) := ht_loop_obj e lput q' r in (n :: s, n :: k)
           else if rep_sent (e_rep e n)
           then let '(s, k) := ht_loop_obj e lput q r in (n :: s, k)
           else ht_loop_obj e lput q r
    end
  end.

Inductive tobj :=
| ObjAddr                              (* task.obj == nil: address of a local object *)
| ObjGiven (hdr_ok lput : bool).       (* task.obj != nil; header within object.MaxHeaderLen; local Put outcome *)

Definition handle_task_any (e : env) (o : tobj) (q : nat) (nodes : list node) : list node * list node :=
  match o with
  | ObjAddr => handle_task e q nodes
  | ObjGiven hdr_ok lput => if hdr_ok then ht_loop_obj e lput q nodes else ([], [])
  end.
