(* Model of the PUT placement counting (C25).

   Go sources: pkg/services/object/put/distributed.go (saveObject rule loop,
   placementIterator.handleREPRule, repProgress) and
   pkg/services/object/put/ec.go (applyECRule, ecProgress, distributeECPart).

   Definitions only (executable).  A node acknowledges or refuses whatever it
   is sent ([ack]); the local node is a node like the others (its "send" is the
   local storage write).  Inside one group of handleREPRule the sends run
   concurrently, but every node of a group is distinct and its result is
   recorded exactly once, so the counters do not depend on the interleaving:
   the model performs them in list order.  The EC part distribution is really
   concurrent (shared takenNodes / failure budget): it is modelled as an
   interleaving of atomic steps chosen by an explicit schedule, and the theorems
   quantify over all schedules.

   Not modelled: TOMBSTONE/LOCK/LINK broadcast (iterateNodesForObject),
   client-side EC parts (saveECPart), meta signatures, post-placement
   replication, mixed REP+EC policies (refused by the inner ring). *)
From Coq Require Import List Arith Bool.
Import ListNotations.

Definition node := nat.

(* verbatim copy of EC.NodeSeq.node_seq, see Place/PutProofs.v [part_seq_eq] *)
Fixpoint part_stride (fuel i t n : nat) : list nat :=
  match fuel with
  | O => []
  | S f => if Nat.ltb i n then i :: part_stride f (i + t) t n else []
  end.

Definition part_seq (p t n : nat) : list nat :=
  match t with
  | O => []
  | _ => flat_map (fun shift => part_stride n ((p + shift) mod t) t n) (seq 0 t)
  end.

(* ---- repProgress ------------------------------------------------------------ *)
Definition results := list (node * bool).       (* nodeResults: node -> succeeded *)

Fixpoint find_res (n : node) (rs : results) : option bool :=
  match rs with
  | [] => None
  | (m, b) :: r => if Nat.eqb m n then Some b else find_res n r
  end.

Record rprog := mkRP {
  rp_results : results;
  rp_sent : list node          (* every node the object was sent to *)
}.

(* choice of the next group: walk the unprocessed tail of the list while the
   group is smaller than replRem; nodes with a result from a previous list are
   not contacted again (a success there counts here) *)
Fixpoint select (rs : results) (rest : list node) (rem stored : nat) (group : list node)
  : list node * list node * nat * results :=
  match rest with
  | [] => (group, [], stored, rs)
  | n :: r =>
    if Nat.ltb (length group) rem then
      match find_res n rs with
      | Some true => select rs r (rem - 1) (S stored) group
      | Some false => select rs r rem stored group
      | None => select ((n, false) :: rs) r rem stored (group ++ [n])
      end
    else (group, rest, stored, rs)
  end.

(* the sends of one group *)
Fixpoint send_group (ack : node -> bool) (group : list node) (rs : results) (stored : nat) : results * nat :=
  match group with
  | [] => (rs, stored)
  | n :: r => if ack n then send_group ack r ((n, true) :: rs) (S stored)
              else send_group ack r ((n, false) :: rs) stored
  end.

(* placementIterator.handleREPRule for a list not handled before;
   result: (progress, stored, succeeded) *)
Fixpoint hr_loop (fuel : nat) (ack : node -> bool) (p : rprog) (rest : list node)
         (stored minR maxR : nat) : rprog * nat * bool :=
  match fuel with
  | 0 => (p, stored, false)
  | S f =>
    if Nat.leb maxR stored then (p, stored, true)
    else if Nat.ltb (length rest) (minR - stored) then (p, stored, false)
    else match rest with
         | [] => (p, stored, true)
         | _ =>
           let '(group, rest', stored', rs') := select (rp_results p) rest (maxR - stored) stored [] in
           let '(rs'', stored'') := send_group ack group rs' stored' in
           hr_loop f ack (mkRP rs'' (rp_sent p ++ group)) rest' stored'' minR maxR
         end
  end.

Definition handle_rep_rule (ack : node -> bool) (p : rprog) (nodes : list node) (minR maxR : nat) :=
  hr_loop (S (length nodes)) ack p nodes 0 minR maxR.

(* ---- saveObject: REP rules --------------------------------------------------- *)
Inductive status := Ok | Incomplete | Failed.

Definition sum_limits (rules : list (list node * nat)) : nat :=
  fold_right (fun r a => snd r + a) 0 rules.

(* the rule loop over the (ordered, enabled) rules; mx = MaxReplicas (0 = no cap);
   left = leftReplicas *)
Fixpoint rep_loop (ack : node -> bool) (mx : nat) (rules : list (list node * nat))
         (left : nat) (p : rprog) (acc : list nat) : status * rprog * list nat :=
  match rules with
  | [] => (Ok, p, acc)
  | (nodes, lim) :: rest =>
    let minR := if Nat.eqb mx 0 then lim else left - sum_limits rest in
    let maxR := if Nat.eqb mx 0 then lim else Nat.min lim left in
    let '(p', stored, ok) := handle_rep_rule ack p nodes minR maxR in
    if negb ok then
      ((if Nat.eqb mx 0 then (if Nat.ltb 0 stored then Incomplete else Failed)
        else (if Nat.ltb 0 (mx - left + stored) then Incomplete else Failed)), p', acc ++ [stored])
    else if Nat.eqb mx 0 then rep_loop ack mx rest left p' (acc ++ [stored])
    else if Nat.leb left stored then (Ok, p', acc ++ [stored])
    else rep_loop ack mx rest (left - stored) p' (acc ++ [stored])
  end.

(* slices.SortFunc on <= 12 elements = insertion sort with the comparator
   "a before b iff the local node is in list a" (as written in Go) *)
Fixpoint bubble_left (has_local : nat -> bool) (sorted_rev : list nat) (x : nat) : list nat :=
  (* sorted_rev: the already placed prefix, last element first *)
  if has_local x then sorted_rev ++ [x] else x :: sorted_rev.

Definition prefer_local_order (has_local : nat -> bool) (idxs : list nat) : list nat :=
  rev (fold_left (bubble_left has_local) idxs []).

Record initial := mkInit {
  i_limits : list nat;        (* ReplicaLimits, [] = not set *)
  i_max : nat;                (* MaxReplicas, 0 = not set *)
  i_prefer_local : bool
}.

Definition memb (n : nat) (l : list nat) : bool := existsb (Nat.eqb n) l.

(* rules in processing order, disabled ones (limit 0) dropped *)
Definition ordered_rules (local : node) (lists : list (list node)) (rep : list nat) (ini : option initial)
  : list (list node * nat) :=
  let lims := match ini with
              | Some i => match i_limits i with [] => rep | l => firstn (length rep) l end
              | None => rep
              end in
  let idxs := filter (fun i => Nat.ltb 0 (nth i lims 0)) (seq 0 (length rep)) in
  let order := match ini with
               | Some i => if Nat.ltb 0 (i_max i) && i_prefer_local i
                           then prefer_local_order (fun i => memb local (nth i lists [])) idxs
                           else idxs
               | None => idxs
               end in
  map (fun i => (nth i lists [], nth i lims 0)) order.

Definition save_rep (ack : node -> bool) (local : node) (lists : list (list node)) (rep : list nat)
           (ini : option initial) : status * rprog * list nat :=
  let mx := match ini with Some i => i_max i | None => 0 end in
  rep_loop ack mx (ordered_rules local lists rep ini) mx (mkRP [] []) [].

(* ---- EC: applyECRule ----------------------------------------------------------- *)
(* one goroutine per part *)
Record pstate := mkPS {
  ps_rest : list nat;          (* node indexes still to be tried, in NodeSequenceForPart order *)
  ps_hold : option nat;        (* canTryNode succeeded, the send is in flight *)
  ps_done : option nat;        (* stored on this node index *)
  ps_dead : bool               (* returned errIncompletePut *)
}.

Record ecstate := mkEC {
  ec_taken : list nat;
  ec_failed : nat;
  ec_stop : bool;
  ec_parts : list pstate;
  ec_log : list (nat * nat)    (* (part, node index) sends in completion order *)
}.

Definition ps_finished (s : pstate) : bool :=
  match ps_done s with Some _ => true | None => ps_dead s end.

Fixpoint update {A} (i : nat) (f : A -> A) (l : list A) : list A :=
  match l, i with
  | [], _ => []
  | x :: r, 0 => f x :: r
  | x :: r, S j => x :: update j f r
  end.

(* one atomic action of part p: a canTryNode call, or the completion of its send
   followed by submitSuccess / submitNodeFailure *)
Definition ec_step (ack : node -> bool) (nodes : list node) (data : nat) (st : ecstate) (p : nat) : ecstate :=
  match nth_error (ec_parts st) p with
  | None => st
  | Some s =>
    if ps_finished s then st
    else match ps_hold s with
         | Some i =>
           if ack (nth i nodes 0) then
             mkEC (ec_taken st) (ec_failed st) (ec_stop st)
                  (update p (fun s => mkPS (ps_rest s) None (Some i) false) (ec_parts st))
                  (ec_log st ++ [(p, i)])
           else if ec_stop st then
             (* submitNodeFailure: already stopped -> false *)
             mkEC (ec_taken st) (ec_failed st) true
                  (update p (fun s => mkPS (ps_rest s) None None true) (ec_parts st))
                  (ec_log st ++ [(p, i)])
           else
             let failed := S (ec_failed st) in
             let placement_failed := Nat.ltb (length nodes - failed) data in
             mkEC (ec_taken st) failed placement_failed
                  (update p (fun s => mkPS (ps_rest s) None None placement_failed) (ec_parts st))
                  (ec_log st ++ [(p, i)])
         | None =>
           match ps_rest s with
           | [] => mkEC (ec_taken st) (ec_failed st) (ec_stop st)
                        (update p (fun s => mkPS [] None None true) (ec_parts st)) (ec_log st)
           | i :: r =>
             if ec_stop st || memb i (ec_taken st) then
               mkEC (ec_taken st) (ec_failed st) (ec_stop st)
                    (update p (fun s => mkPS r None None false) (ec_parts st)) (ec_log st)
             else
               mkEC (i :: ec_taken st) (ec_failed st) (ec_stop st)
                    (update p (fun s => mkPS r (Some i) None false) (ec_parts st)) (ec_log st)
           end
         end
  end.

Definition ec_init (total n : nat) : ecstate :=
  mkEC [] 0 false (map (fun p => mkPS (part_seq p total n) None None false) (seq 0 total)) [].

Definition ec_run (ack : node -> bool) (nodes : list node) (data : nat) (sched : list nat) (st : ecstate) : ecstate :=
  fold_left (ec_step ack nodes data) sched st.

Definition ec_all_finished (st : ecstate) : bool := forallb ps_finished (ec_parts st).
Definition ec_all_done (st : ecstate) : bool :=
  forallb (fun s => match ps_done s with Some _ => true | None => false end) (ec_parts st).

(* node indexes the parts ended on *)
Definition ec_placement (st : ecstate) : list (option nat) := map ps_done (ec_parts st).

(* ---- saveObject: EC rules (EC-only policy, node-side encoding) ---------------------- *)
Definition rule_eqb (a b : nat * nat) : bool := Nat.eqb (fst a) (fst b) && Nat.eqb (snd a) (snd b).

(* order of the applyECRule calls: a rule equal to an earlier one is applied right
   after the first occurrence (its parts are reused), each on its own node list *)
Definition ec_call_order (ecr : list (nat * nat)) : list nat :=
  flat_map (fun e =>
              let r := nth e ecr (0, 0) in
              if existsb (rule_eqb r) (firstn e ecr) then []
              else e :: filter (fun j => rule_eqb r (nth j ecr (0, 0))) (seq (S e) (length ecr - S e)))
           (seq 0 (length ecr)).

(* one applyECRule call under a schedule *)
Definition apply_ec (ack : node -> bool) (nodes : list node) (rule : nat * nat) (sched : list nat) : ecstate :=
  ec_run ack nodes (fst rule) sched (ec_init (fst rule + snd rule) (length nodes)).

(* the calls are made in order until the first one that fails *)
Fixpoint save_ec (ack : node -> bool) (lists : list (list node)) (ecr : list (nat * nat))
         (order : list nat) (scheds : list (list nat)) : status * list (nat * ecstate) :=
  match order with
  | [] => (Ok, [])
  | e :: rest =>
    let st := apply_ec ack (nth e lists []) (nth e ecr (0, 0)) (nth e scheds []) in
    if ec_all_done st then
      let '(s, l) := save_ec ack lists ecr rest scheds in (s, (e, st) :: l)
    else (Failed, [(e, st)])
  end.

(* saveObject entry for REP rules: an object sealed by the client (no session
   signer) under an initial policy needs a limit for every REP rule *)
Definition put_rep (session : bool) (ack : node -> bool) (local : node) (lists : list (list node))
           (rep : list nat) (ini : option initial) : status * rprog * list nat :=
  match ini with
  | Some i => if negb session && Nat.ltb (length (i_limits i)) (length rep)
              then (Failed, mkRP [] [], [])
              else save_rep ack local lists rep ini
  | None => save_rep ack local lists rep ini
  end.
