(* Model of the policer decision for one object (C26, reused by C27).

   Go sources: pkg/services/policer/check.go (processObject, processNodes,
   nodeCache, dropRedundantLocalCopies, tryToReplicate),
   pkg/services/policer/ec.go (processECPart, processECPartByRule),
   pkg/services/replicator/process.go (HandleTask).

   Definitions only (executable).  [fx] selects the code variant:
     fx = true   the tree after the C26 repair (maintenance nodes are not
                 cached as replica holders; the "maintenance copies => keep the
                 local copy" step is no longer the last arm of an else-if chain)
     fx = false  the code before the repair (kept to prove the refutation).

   Not modelled: context cancellation, EC attribute decoding failures,
   checkECParts (restoring lost EC parts; it never deletes anything),
   metrics, logging.  Nodes are identified by naturals (Go: hash of the public
   key, assumed collision-free). *)
From Coq Require Import List Arith Bool.
Import ListNotations.

(* Verbatim copy of EC.NodeSeq.node_seq (internal/ec NodeSequenceForPart, C22);
   Place/PolicerProofs.v proves [part_seq = node_seq] by reflexivity and uses the
   C22 lemmas through it.  (The copy keeps this model file free of the proof
   libraries EC.NodeSeq loads, so that case evaluation starts fast.) *)
Fixpoint part_stride (fuel i t n : nat) : list nat :=
  match fuel with
  | O => []
  | S f => if Nat.ltb i n then i :: part_stride f (i + t) t n else []
  end.

Definition part_seq (p t n : nat) : list nat :=
  match t with
  | O => []
  | _ => flat_map (fun shift => part_stride n ((p + shift) mod t) t n) (seq 0 t)
  end.

Definition node := nat.

Inductive answer := Has | NotFound | Maint | Err.

(* what a remote node does with the replicator's request (ReplicateObjectToNode).
   Only [RStored] means that the node holds the object afterwards; every other
   outcome is a failure for HandleTask, whatever the status says. *)
Inductive repans :=
| RStored     (* request answered OK: the node accepted and stored the object *)
| RMaint      (* answered with status NODE_UNDER_MAINTENANCE: nothing stored *)
| RStatus     (* answered with any other failure status (already removed, access denied, ...) *)
| RFail       (* transport failure: no answer *)
| RNoConn.    (* no client for the node (clientConstructor.Get fails): request never sent *)

Definition rep_stored (a : repans) : bool := match a with RStored => true | _ => false end.
Definition rep_sent (a : repans) : bool := match a with RNoConn => false | _ => true end.
Inductive otype := Regular | Tombstone | Lock | Link.
Inductive mark := MDefault | MRedundant.

(* everything outside the policer: who the local node is, what the remote
   nodes answer to HEAD, whether a replication to a node succeeds *)
Record env := mkEnv {
  e_local : node;
  e_in_netmap : bool;
  e_mflag : node -> bool;      (* netmap.NodeInfo.IsMaintenance() *)
  e_head : node -> answer;     (* remote header read *)
  e_rep : node -> repans;      (* outcome of ReplicateObjectToNode *)
  e_readable : bool            (* replicator can read the object from the local storage *)
}.

(* ---- nodeCache -------------------------------------------------------- *)
Definition cache := list (node * bool).

Fixpoint lookup (n : node) (c : cache) : option bool :=
  match c with
  | [] => None
  | (m, b) :: r => if Nat.eqb m n then Some b else lookup n r
  end.

Definition cset (n : node) (b : bool) (c : cache) : cache := (n, b) :: c.

Definition is_holder (c : cache) (n : node) : bool :=
  match lookup n c with Some true => true | _ => false end.

(* nodeCache.atLeastOneHolder *)
Definition at_least_one_holder (c : cache) : bool :=
  existsb (fun p => is_holder c (fst p)) c.

(* SubmitSuccessfulReplication for every reported node *)
Definition submit_all (succ : list node) (c : cache) : cache :=
  fold_left (fun c n => cset n true c) succ c.

(* ---- replicator.HandleTask -------------------------------------------- *)
(* returns (nodes the object was sent to, nodes reported as successful) *)
Fixpoint ht_loop (e : env) (q : nat) (nodes : list node) : list node * list node :=
  match nodes with
  | [] => ([], [])
  | n :: r =>
    match q with
    | 0 => ([], [])
    | S q' =>
      if Nat.eqb n (e_local e) then ht_loop e q r   (* task.obj == nil: skipped *)
      else if rep_stored (e_rep e n)
           then let '(s, k) := ht_loop e q' r in (n :: s, n :: k)   (* err == nil: quantity--, reported *)
           else if rep_sent (e_rep e n)
           then let '(s, k) := ht_loop e q r in (n :: s, k)         (* any error: logged, next node *)
           else ht_loop e q r
    end
  end.

Definition handle_task (e : env) (q : nat) (nodes : list node) : list node * list node :=
  if e_readable e then ht_loop e q nodes else ([], []).

(* ---- processNodes ------------------------------------------------------ *)
Record lst := mkL {
  l_short : nat;
  l_cands : list node;
  l_unchk : nat;
  l_incnr : bool;
  l_need : bool;
  l_cache : cache;
  l_heads : list node
}.

Definition l_maint (fx : bool) (n : node) (s : lst) : lst :=
  mkL (l_short s - 1) (l_cands s) (S (l_unchk s)) (l_incnr s) (l_need s)
      (if fx then l_cache s else cset n true (l_cache s)) (l_heads s).

Definition l_headed (n : node) (s : lst) : lst :=
  mkL (l_short s) (l_cands s) (l_unchk s) (l_incnr s) (l_need s) (l_cache s) (l_heads s ++ [n]).

(* loop condition: (!plc.localNodeInContainer || shortage > 0) *)
Definition pn_cond (s : lst) : bool := negb (l_incnr s) || Nat.ltb 0 (l_short s).

(* one iteration of the loop body *)
Definition pn_step (fx : bool) (e : env) (s : lst) (n : node) : lst :=
  let is_local := Nat.eqb n (e_local e) in
  let s := mkL (l_short s) (l_cands s) (l_unchk s)
               (if l_incnr s then true else is_local) (l_need s) (l_cache s) (l_heads s) in
  if Nat.eqb (l_short s) 0 then s
  else if is_local then
    mkL (l_short s - 1) (l_cands s) (l_unchk s) (l_incnr s) true (l_cache s) (l_heads s)
  else if e_mflag e n then l_maint fx n s
  else match lookup n (l_cache s) with
       | Some true => s
       | Some false =>
         mkL (l_short s) (l_cands s ++ [n]) (l_unchk s) (l_incnr s) (l_need s) (l_cache s) (l_heads s)
       | None =>
         let s := l_headed n s in
         match e_head e n with
         | NotFound =>
           mkL (l_short s) (l_cands s ++ [n]) (l_unchk s) (l_incnr s) (l_need s)
               (cset n false (l_cache s)) (l_heads s)
         | Maint => l_maint fx n s
         | Err => s
         | Has =>
           mkL (l_short s - 1) (l_cands s) (l_unchk s) (l_incnr s) (l_need s)
               (cset n true (l_cache s)) (l_heads s)
         end
       end.

Fixpoint pn_loop (fx : bool) (e : env) (nodes : list node) (s : lst) : lst :=
  match nodes with
  | [] => s
  | n :: r => if pn_cond s then pn_loop fx e r (pn_step fx e s n) else s
  end.

(* state carried from rule to rule (processPlacementContext + recorded effects) *)
Record pst := mkP {
  p_incnr : bool;
  p_need : bool;
  p_cache : cache;
  p_heads : list node;                 (* HEAD calls, in order *)
  p_tasks : list (nat * list node);    (* replication tasks: (quantity, candidates) *)
  p_sends : list node;                 (* ReplicateObjectToNode calls *)
  p_succ : list node                   (* SubmitSuccessfulReplication calls *)
}.

Definition is_broadcast (ty : otype) : bool :=
  match ty with Lock | Link => true | _ => false end.

Definition with_task (e : env) (q : nat) (cands : list node) (need : bool) (s : lst) (p : pst) : pst :=
  let '(sends, succ) := handle_task e q cands in
  mkP (l_incnr s) need (submit_all succ (l_cache s)) (l_heads s)
      (p_tasks p ++ [(q, cands)]) (p_sends p ++ sends) (p_succ p ++ succ).

Definition without_task (need : bool) (s : lst) (p : pst) : pst :=
  mkP (l_incnr s) need (l_cache s) (l_heads s) (p_tasks p) (p_sends p) (p_succ p).

Definition process_nodes (fx : bool) (e : env) (ty : otype) (p : pst)
           (nodes : list node) (shortage : nat) : pst :=
  let shortage := if is_broadcast ty then length nodes else shortage in
  let s := pn_loop fx e nodes
             (mkL shortage [] 0 (p_incnr p) (p_need p) (p_cache p) (p_heads p)) in
  if Nat.ltb 0 (l_short s) then
    with_task e (l_short s) (l_cands s) (l_need s) s p
  else if fx then
    let need := if Nat.ltb 0 (l_unchk s) then true else l_need s in
    match l_cands s with
    | [] => without_task need s p
    | _ => with_task e (length (l_cands s)) (l_cands s) need s p
    end
  else
    match l_cands s with
    | [] => without_task (if Nat.ltb 0 (l_unchk s) then true else l_need s) s p
    | _ => with_task e (length (l_cands s)) (l_cands s) (l_need s) s p
    end.

Definition p0 : pst := mkP false false [] [] [] [] [].

Definition run_rules (fx : bool) (e : env) (ty : otype) (rules : list (list node * nat)) (p : pst) : pst :=
  fold_left (fun p r => process_nodes fx e ty p (fst r) (snd r)) rules p.

(* ---- processObject ------------------------------------------------------ *)
Inductive netres :=
| NetNotFound                           (* container not found *)
| NetErr                                (* any other failure *)
| NetOk (nn : list (list node)) (rep : list nat) (ecr : list (nat * nat)).

Record result := mkR {
  r_heads : list node;
  r_tasks : list (nat * list node);
  r_sends : list node;
  r_succ : list node;
  r_dels : list mark;                   (* localStorage.Delete calls *)
  r_dropshards : bool                   (* localStorage.DeleteRedundantCopies called *)
}.

Definition res_empty (dels : list mark) : result := mkR [] [] [] [] dels false.

(* dropRedundantLocalCopies *)
Definition drop_shard_copies (ty : otype) (shards : nat) : bool :=
  Nat.leb 2 shards && match ty with Regular => true | _ => false end.

(* tail of processObject once the rules were processed *)
Definition finish_rep (e : env) (ty : otype) (shards : nat) (pre : list mark) (p : pst) : result :=
  let mk dels ds := mkR (p_heads p) (p_tasks p) (p_sends p) (p_succ p) (pre ++ dels) ds in
  if p_need p then mk [] (drop_shard_copies ty shards)
  else if p_incnr p then mk [MRedundant] false
  else if negb (e_in_netmap e) then mk [] false
  else if negb (at_least_one_holder (p_cache p)) then mk [] false
  else mk [MRedundant] false.

(* effective REP rules: LOCK/LINK/TOMBSTONE also cover the EC node lists *)
Definition effective_rules (ty : otype) (nn : list (list node)) (rep : list nat) (ecr : list (nat * nat)) : list nat :=
  match ecr with
  | [] => rep
  | _ => match ty with
         | Tombstone => rep ++ map (@length node) (skipn (length rep) nn)
         | Lock | Link => rep ++ map (fun _ => 0) ecr
         | Regular => rep
         end
  end.

(* ---- EC part: processECPartByRule --------------------------------------- *)
Inductive ecr_res :=
| EcReturn (drop : bool) (heads : list node)
| EcDone (cands : list node) (maint : bool) (heads : list node).

Fixpoint ec_loop (e : env) (nodes : list node) (idxs : list nat)
         (cands : list node) (maint : bool) (heads : list node) : ecr_res :=
  match idxs with
  | [] => EcDone cands maint heads
  | i :: r =>
    let n := nth i nodes 0 in
    if Nat.eqb n (e_local e) then
      match cands with [] => EcReturn false heads | _ => EcDone cands maint heads end
    else
      match e_head e n with
      | Has => EcReturn true (heads ++ [n])
      | Maint => ec_loop e nodes r cands true (heads ++ [n])
      | NotFound => ec_loop e nodes r (cands ++ [n]) maint (heads ++ [n])
      | Err => ec_loop e nodes r cands maint (heads ++ [n])
      end
  end.

Definition process_ec_part_by_rule (e : env) (total part : nat) (nodes : list node) : result :=
  match ec_loop e nodes (part_seq part total (length nodes)) [] false [] with
  | EcReturn true heads => mkR heads [] [] [] [MRedundant] false
  | EcReturn false heads => mkR heads [] [] [] [] false
  | EcDone cands maint heads =>
    if maint then mkR heads [] [] [] [] false
    else match cands with
         | [] => mkR heads [] [] [] [] false
         | _ => let '(sends, succ) := handle_task e 1 cands in
                mkR heads [(1, cands)] sends succ
                    (match succ with [] => [] | _ => [MRedundant] end) false
         end
  end.

Definition process_ec_part (e : env) (ri pi : nat) (ecr : list (nat * nat)) (lists : list (list node)) : result :=
  match nth_error ecr ri with
  | None => res_empty [MDefault]
  | Some (d, pr) =>
    if Nat.leb (d + pr) pi then res_empty [MDefault]
    else process_ec_part_by_rule e (d + pr) pi (nth ri lists [])
  end.

Definition process_object (fx : bool) (e : env) (ty : otype) (ec : option (nat * nat))
           (shards : nat) (net : netres) : result :=
  match net with
  | NetNotFound => res_empty [MDefault]
  | NetErr => res_empty []
  | NetOk nn rep ecr =>
    match ec with
    | Some (ri, pi) =>
      match ecr with
      | _ :: _ => process_ec_part e ri pi ecr (skipn (length rep) nn)
      | [] =>
        (* no return after the delete in Go: the REP rules are processed as well *)
        finish_rep e ty shards [MDefault] (run_rules fx e ty (combine nn rep) p0)
      end
    | None =>
      match ecr, ty, rep with
      | _ :: _, Regular, [] => res_empty [MDefault]
      | _, _, _ =>
        finish_rep e ty shards [] (run_rules fx e ty (combine nn (effective_rules ty nn rep ecr)) p0)
      end
    end
  end.
