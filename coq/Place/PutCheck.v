(* Executable comparison used by the correspondence checks of C25. *)
From Coq Require Import List Arith Bool.
Import ListNotations.
From NV Require Import Place.Put.

Record putcase := mkPut {
  u_local : nat;
  u_lists : list (list nat);
  u_rep : list nat;
  u_ecr : list (nat * nat);
  u_ack : list nat;
  u_session : bool;
  u_ini : option initial;
  u_scheds : list (list nat);                 (* per EC rule: schedule found by the driver *)
  o_status : nat;                             (* 0 ok, 1 incomplete, 2 error *)
  o_sends : list (nat * nat * nat);           (* (0 = whole object | EC rule index + 1, part, node) *)
  o_panic : bool
}.

Definition ack_of (c : putcase) : node -> bool := fun n => memb n (u_ack c).

Definition status_code (s : status) : nat := match s with Ok => 0 | Incomplete => 1 | Failed => 2 end.

Fixpoint insert (x : nat) (l : list nat) : list nat :=
  match l with [] => [x] | y :: r => if Nat.leb x y then x :: l else y :: insert x r end.
Definition sort (l : list nat) : list nat := fold_right insert [] l.

Definition list_eqb (a b : list nat) : bool := if list_eq_dec Nat.eq_dec a b then true else false.

Definition send_node (s : nat * nat * nat) : nat := snd s.
Definition send_part (s : nat * nat * nat) : nat := snd (fst s).
Definition send_rule (s : nat * nat * nat) : nat := fst (fst s).

Fixpoint index_of (n : nat) (l : list nat) : nat :=
  match l with [] => 0 | x :: r => if Nat.eqb x n then 0 else S (index_of n r) end.

(* ---- model ---------------------------------------------------------------------------- *)
Definition model_rep_ok (c : putcase) : bool :=
  let '(st, p, _) := put_rep (u_session c) (ack_of c) (u_local c) (u_lists c) (u_rep c) (u_ini c) in
  Nat.eqb (status_code st) (o_status c)
  && list_eqb (sort (rp_sent p)) (sort (map send_node (o_sends c)))
  && forallb (fun s => Nat.eqb (send_rule s) 0) (o_sends c).

Fixpoint pairs_eqb (a b : list (nat * nat)) : bool :=
  match a, b with
  | [], [] => true
  | (x, y) :: ra, (x', y') :: rb => Nat.eqb x x' && Nat.eqb y y' && pairs_eqb ra rb
  | _, _ => false
  end.

Definition sends_of_rule (c : putcase) (e : nat) : list (nat * nat) :=
  map (fun s => (send_part s, send_node s)) (filter (fun s => Nat.eqb (send_rule s) (S e)) (o_sends c)).

Definition model_ec_ok (c : putcase) : bool :=
  let '(st, runs) := save_ec (ack_of c) (u_lists c) (u_ecr c) (ec_call_order (u_ecr c)) (u_scheds c) in
  Nat.eqb (status_code st) (o_status c)
  (* every call that was made: same sends in the same order, all parts finished *)
  && forallb (fun r => let '(e, s) := r in
                       let nodes := nth e (u_lists c) [] in
                       let mlog := map (fun pi => (fst pi, nth (snd pi) nodes 0)) (ec_log s) in
                       (* same sends, in the same order for every part (parts run concurrently) *)
                       Nat.eqb (length mlog) (length (sends_of_rule c e))
                       && forallb (fun q => pairs_eqb (filter (fun pn => Nat.eqb (fst pn) q) mlog)
                                                      (filter (fun pn => Nat.eqb (fst pn) q) (sends_of_rule c e)))
                                  (seq 0 (length (ec_parts s)))
                       && forallb (fun pn => Nat.ltb (fst pn) (length (ec_parts s))) (sends_of_rule c e)
                       && ec_all_finished s) runs
  (* calls that were not made sent nothing *)
  && forallb (fun e => memb e (map fst runs) || match sends_of_rule c e with [] => true | _ => false end)
             (seq 0 (length (u_ecr c)))
  && forallb (fun s => negb (Nat.eqb (send_rule s) 0)) (o_sends c).

Definition model_ok (c : putcase) : bool :=
  negb (o_panic c) && match u_ecr c with [] => model_rep_ok c | _ => model_ec_ok c end.

(* ---- reference: right-hand sides of the C25 theorems on the implementation's observables *)
Definition acked_sent (c : putcase) (rule : nat) (n : nat) : bool :=
  memb n (u_ack c) && existsb (fun s => Nat.eqb (send_rule s) rule && Nat.eqb (send_node s) n) (o_sends c).

Fixpoint dedup (l : list nat) : list nat :=
  match l with [] => [] | x :: r => if memb x r then dedup r else x :: dedup r end.

Definition acked_in (c : putcase) (nodes : list nat) : nat :=
  length (filter (acked_sent c 0) (dedup nodes)).

Definition ref_rep_ok (c : putcase) : bool :=
  let rules := ordered_rules (u_local c) (u_lists c) (u_rep c) (u_ini c) in
  let mx := match u_ini c with Some i => i_max i | None => 0 end in
  if negb (Nat.eqb (o_status c) 0) then true
  else if Nat.eqb mx 0 then
    forallb (fun r => Nat.leb (snd r) (acked_in c (fst r))) rules
  else
    Nat.leb (Nat.min mx (sum_limits rules))
            (fold_right (fun r a => Nat.min (snd r) (acked_in c (fst r)) + a) 0 rules)
    && Nat.leb (length (filter (acked_sent c 0) (dedup (map send_node (o_sends c))))) mx.

Fixpoint nodupb (l : list nat) : bool :=
  match l with [] => true | x :: r => negb (memb x r) && nodupb r end.

(* all parts of EC rule e acknowledged by pairwise distinct nodes of its own list *)
Definition ec_rule_stored (c : putcase) (e : nat) : bool :=
  let nodes := nth e (u_lists c) [] in
  let rule := nth e (u_ecr c) (0, 0) in
  let acked := filter (fun pn => memb (snd pn) (u_ack c)) (sends_of_rule c e) in
  forallb (fun p => existsb (fun pn => Nat.eqb (fst pn) p) acked) (seq 0 (fst rule + snd rule))
  && nodupb (map snd acked)
  && forallb (fun pn => memb (snd pn) nodes) acked
  && Nat.eqb (length acked) (fst rule + snd rule).

Definition ref_ec_ok (c : putcase) : bool :=
  if Nat.eqb (o_status c) 0 then forallb (ec_rule_stored c) (seq 0 (length (u_ecr c))) else true.

Definition ref_ok (c : putcase) : bool :=
  negb (o_panic c) && match u_ecr c with [] => ref_rep_ok c | _ => ref_ec_ok c end.

Fixpoint mism_from (i : nat) (f : putcase -> bool) (cs : list putcase) : list nat :=
  match cs with
  | [] => []
  | c :: r => if f c then mism_from (S i) f r else i :: mism_from (S i) f r
  end.

Definition model_mismatches := mism_from 0 model_ok.
Definition ref_mismatches := mism_from 0 ref_ok.
