(* Proofs for the multi-rule part of C27 (Place/Rounds.v, "several REP rules"):
   repeated policer cycles restore the primaries of every rule. *)
From Coq Require Import List Arith Bool Lia.
Import ListNotations.
From NV Require Import Place.Policer Place.PolicerProofs Place.Rounds Place.RoundsProofs.

(* ---- 1. one rule: the multi-rule step is the single-rule step ------------------- *)
Lemma mstep_single nodes R holds v :
  mnode_step [(nodes, R)] holds v = node_step nodes R holds v.
Proof. reflexivity. Qed.

Lemma mtasks_single nodes R holds v :
  mnode_tasks [(nodes, R)] holds v = node_tasks nodes R holds v.
Proof. reflexivity. Qed.

(* ---- unfolding one check --------------------------------------------------------- *)
Lemma combine_fst_snd {A B} (l : list (A * B)) : combine (map fst l) (map snd l) = l.
Proof.
  induction l as [|[a b] r IH]; simpl; [reflexivity|]. rewrite IH. reflexivity.
Qed.

(* state of the placement context after all rules *)
Definition final (rules : list rule) (holds : list node) (v : node) : pst :=
  run_rules true (cluster_env holds v) Regular rules p0.

Lemma mnode_result_unfold rules holds v :
  mnode_result rules holds v
  = finish_rep (cluster_env holds v) Regular 1 [] (final rules holds v).
Proof.
  unfold mnode_result, process_object, effective_rules, final.
  rewrite combine_fst_snd. reflexivity.
Qed.

Lemma mstep_skip rules holds v : ~ In v holds -> mnode_step rules holds v = holds.
Proof. intros H. apply memb_false in H. unfold mnode_step. rewrite H. reflexivity. Qed.

(* who is certainly a holder after the check of a holder v *)
Lemma mstep_keep rules holds v x :
  In v holds ->
  In x (p_succ (final rules holds v)) \/ In x holds ->
  x <> v \/ p_need (final rules holds v) = true ->
  In x (mnode_step rules holds v).
Proof.
  intros Hv Hx Hk. unfold mnode_step. apply memb_In in Hv. rewrite Hv. cbv zeta.
  rewrite mnode_result_unfold.
  destruct (finish_rep_fields (cluster_env holds v) Regular 1 [] (final rules holds v)) as [_ Hs].
  rewrite Hs.
  destruct (p_need (final rules holds v)) eqn:Hn.
  - rewrite finish_rep_need by exact Hn. simpl. apply add_all_In. exact Hx.
  - destruct Hk as [Hk|Hk]; [|discriminate].
    match goal with |- context [existsb ?f ?l] => destruct (existsb f l) end.
    + apply remove_In. split; [apply add_all_In; exact Hx|exact Hk].
    + apply add_all_In. exact Hx.
Qed.

(* where the holders after a check come from *)
Lemma mstep_from rules holds v x :
  In x (mnode_step rules holds v) ->
  In x holds \/ In x (p_succ (final rules holds v)).
Proof.
  unfold mnode_step. destruct (memb v holds); [|auto]. cbv zeta.
  rewrite mnode_result_unfold.
  destruct (finish_rep_fields (cluster_env holds v) Regular 1 [] (final rules holds v)) as [_ Hs].
  rewrite Hs.
  match goal with |- context [existsb ?f ?l] => destruct (existsb f l) end.
  - intros H. apply remove_In in H. destruct H as [H _]. apply add_all_In in H. tauto.
  - intros H. apply add_all_In in H. tauto.
Qed.

(* ---- the loop of processNodes: facts valid for every environment -------------------- *)
Lemma firstn_in_le {A} (l : list A) : forall k k' x,
  k <= k' -> In x (firstn k l) -> In x (firstn k' l).
Proof.
  induction l as [|a r IH]; intros k k' x Hk H.
  - rewrite firstn_nil in H. destruct H.
  - destruct k as [|k]; [destruct H|]. destruct k' as [|k']; [lia|].
    simpl in *. destruct H as [H|H]; [left; exact H|right].
    apply (IH k k'); [lia|exact H].
Qed.

Lemma pn_step_short_ge fx e s n : l_short s - 1 <= l_short (pn_step fx e s n).
Proof. step_cases; lia. Qed.

Lemma pn_step_cands fx e s n :
  l_cands (pn_step fx e s n) = l_cands s \/ l_cands (pn_step fx e s n) = l_cands s ++ [n].
Proof. step_cases; auto. Qed.

Lemma pn_loop_cands_prefix fx e l : forall s,
  exists c, l_cands (pn_loop fx e l s) = l_cands s ++ c.
Proof.
  induction l as [|n r IH]; simpl; intros s.
  { exists []. rewrite app_nil_r. reflexivity. }
  destruct (pn_cond s).
  2:{ exists []. rewrite app_nil_r. reflexivity. }
  destruct (IH (pn_step fx e s n)) as [c Hc]. rewrite Hc.
  destruct (pn_step_cands fx e s n) as [->| ->]; [eauto|].
  rewrite <- app_assoc. eauto.
Qed.

Lemma pn_loop_cands_incl fx e l : forall s x,
  In x (l_cands (pn_loop fx e l s)) -> In x (l_cands s) \/ In x l.
Proof.
  induction l as [|n r IH]; simpl; intros s x H; auto.
  destruct (pn_cond s); auto.
  apply IH in H. destruct H as [H|H]; auto.
  destruct (pn_step_cands fx e s n) as [E|E]; rewrite E in H; auto.
  apply in_app_iff in H. simpl in H. destruct H as [H|[H|[]]]; auto.
Qed.

(* the local node is among the next [k <= shortage] nodes: it must keep its copy,
   whatever the cache says *)
Lemma pn_loop_need_primary fx e l : forall s k,
  k <= l_short s -> In (e_local e) (firstn k l) -> l_need (pn_loop fx e l s) = true.
Proof.
  induction l as [|n r IH]; intros s k Hk Hin.
  { rewrite firstn_nil in Hin. destruct Hin. }
  destruct k as [|k]; [destruct Hin|]. simpl in Hin. simpl.
  assert (pn_cond s = true) as Hc.
  { unfold pn_cond. apply orb_true_iff. right. apply Nat.ltb_lt. lia. }
  rewrite Hc.
  destruct (Nat.eq_dec n (e_local e)) as [->|Hne].
  - apply pn_loop_need_mono. unfold pn_step. simpl. rewrite Nat.eqb_refl.
    destruct (Nat.eqb (l_short s) 0) eqn:E0; [apply Nat.eqb_eq in E0; lia|reflexivity].
  - destruct Hin as [Hin|Hin]; [congruence|]. apply (IH _ k); [|exact Hin].
    pose proof (pn_step_short_ge fx e s n). lia.
Qed.

Lemma process_nodes_need_primary e p nodes R :
  In (e_local e) (firstn R nodes) ->
  p_need (process_nodes true e Regular p nodes R) = true.
Proof.
  intros H.
  destruct (process_nodes_shape e Regular p nodes R) as (need & succ & Heq & _ & _ & Hn).
  rewrite Heq. simpl. apply Hn. unfold loop_of. simpl.
  apply (pn_loop_need_primary true e nodes _ R); [simpl; lia|exact H].
Qed.

(* ---- 2. a primary node of some rule never drops its copy --------------------------- *)
Theorem multi_primary_never_drops : forall rules holds v r,
  (forall r, In r rules -> rule_ok r) -> In r rules ->
  In v (primaries (fst r) (snd r)) -> In v holds ->
  In v (mnode_step rules holds v).
Proof.
  intros rules holds v r _ Hin Hp Hv.
  apply mstep_keep; auto. right.
  unfold final. apply in_split in Hin. destruct Hin as (r1 & r2 & ->).
  rewrite run_rules_app. simpl. apply run_rules_need_mono.
  apply process_nodes_need_primary. exact Hp.
Qed.

(* ---- 3. a check removes only the checking node, and never a primary ---------------- *)
Theorem multi_step_keeps_primaries : forall rules holds v r p,
  (forall r, In r rules -> rule_ok r) -> In r rules ->
  In p (primaries (fst r) (snd r)) -> In p holds ->
  In p (mnode_step rules holds v).
Proof.
  intros rules holds v r p Hok Hin Hp Hph.
  destruct (in_dec Nat.eq_dec v holds) as [Hv|Hv].
  2:{ rewrite mstep_skip; auto. }
  destruct (Nat.eq_dec p v) as [->|Hne].
  - apply (multi_primary_never_drops rules holds v r); auto.
  - apply mstep_keep; auto.
Qed.

(* ---- 5. the last copy is never removed ---------------------------------------------- *)
Theorem multi_never_empty : forall rules holds v,
  (forall r, In r rules -> rule_ok r) ->
  (forall x, In x holds -> in_container rules x) ->
  (exists x, In x holds) -> exists x, In x (mnode_step rules holds v).
Proof.
  intros rules holds v Hok Hc [x Hx].
  destruct (in_dec Nat.eq_dec v holds) as [Hv|Hv].
  2:{ rewrite mstep_skip; eauto. }
  destruct (p_need (final rules holds v)) eqn:Hn.
  - exists x. apply mstep_keep; auto.
  - destruct (Hc v Hv) as ([nodes R] & Hr & Hvn). simpl in Hvn.
    destruct (Hok _ Hr) as (Hnd & HR & _). simpl in Hnd, HR.
    destruct (run_rules_drop_safe (cluster_env holds v) Regular rules nodes R Hr Hnd Hvn Hn)
      as (hs & _ & _ & Hnv & Hhas & Hlen).
    simpl in Hlen. destruct hs as [|n hs]; [simpl in Hlen; lia|].
    exists n. apply mstep_keep; auto.
    + right. destruct (Hhas n (or_introl eq_refl)) as [_ Hh]. simpl in Hh.
      destruct (memb n holds) eqn:E; [apply memb_In; exact E|discriminate].
    + left. intros ->. apply Hnv. left. reflexivity.
Qed.

(* ---- the loop in a cluster_env: cache invariant and candidates ---------------------- *)
Section Cluster.
Variable holds : list node.
Variable v : node.
Notation E := (cluster_env holds v).

(* cached "holder": a real holder or a node this check replicated to;
   cached "no copy": not a holder *)
Definition cinv (succ0 : list node) (c : cache) : Prop :=
  forall n, (lookup n c = Some true -> In n holds \/ In n succ0)
            /\ (lookup n c = Some false -> ~ In n holds).

Lemma cinv_mono succ0 succ1 c : incl succ0 succ1 -> cinv succ0 c -> cinv succ1 c.
Proof.
  intros Hi Hc n. destruct (Hc n) as [H1 H2]. split; [|exact H2].
  intros H. destruct (H1 H); auto.
Qed.

Lemma pn_step_cluster succ0 s n :
  0 < l_short s -> cinv succ0 (l_cache s) ->
  l_short s - 1 <= l_short (pn_step true E s n)
  /\ cinv succ0 (l_cache (pn_step true E s n))
  /\ ((l_cands (pn_step true E s n) = l_cands s /\ (n = v \/ In n holds \/ In n succ0))
      \/ (l_cands (pn_step true E s n) = l_cands s ++ [n] /\ n <> v /\ ~ In n holds)).
Proof.
  intros Hpos Hci. unfold pn_step. simpl.
  destruct (Nat.eqb (l_short s) 0) eqn:E0; [apply Nat.eqb_eq in E0; lia|].
  destruct (Nat.eqb n v) eqn:Env.
  - apply Nat.eqb_eq in Env. simpl. split; [lia|]. split; [exact Hci|]. left. auto.
  - apply Nat.eqb_neq in Env.
    destruct (lookup n (l_cache s)) as [[|]|] eqn:El.
    + simpl. split; [lia|]. split; [exact Hci|]. left. split; [reflexivity|].
      right. apply (Hci n). exact El.
    + simpl. split; [lia|]. split; [exact Hci|]. right. split; [reflexivity|].
      split; [exact Env|]. apply (Hci n). exact El.
    + unfold l_headed; simpl. destruct (memb n holds) eqn:Em; simpl.
      * split; [lia|]. split.
        -- intros m. rewrite lookup_cset. destruct (Nat.eqb n m) eqn:Enm.
           ++ apply Nat.eqb_eq in Enm. subst m.
              split; [intros _; left; apply memb_In; exact Em|discriminate].
           ++ apply Hci.
        -- left. split; [reflexivity|]. right; left. apply memb_In; exact Em.
      * split; [lia|]. split.
        -- intros m. rewrite lookup_cset. destruct (Nat.eqb n m) eqn:Enm.
           ++ apply Nat.eqb_eq in Enm. subst m.
              split; [discriminate|intros _; apply memb_false; exact Em].
           ++ apply Hci.
        -- right. split; [reflexivity|]. split; [exact Env|]. apply memb_false; exact Em.
Qed.

Lemma pn_step_cinv succ0 s n :
  cinv succ0 (l_cache s) -> cinv succ0 (l_cache (pn_step true E s n)).
Proof.
  intros Hci. destruct (Nat.eq_dec (l_short s) 0) as [Hz|Hz].
  - unfold pn_step. simpl. rewrite Hz. simpl. exact Hci.
  - apply pn_step_cluster; [lia|exact Hci].
Qed.

Lemma pn_loop_cinv succ0 l : forall s,
  cinv succ0 (l_cache s) -> cinv succ0 (l_cache (pn_loop true E l s)).
Proof.
  induction l as [|n r IH]; simpl; intros s H; auto.
  destruct (pn_cond s); auto. apply IH. apply pn_step_cinv. exact H.
Qed.

(* a node among the next [k <= shortage] nodes lacks the object: either such a node
   was already replicated to during this check, or the first candidate is such a node *)
Lemma pn_loop_first_cand succ0 l : forall s k m,
  k <= l_short s -> l_cands s = [] -> cinv succ0 (l_cache s) ->
  In m (firstn k l) -> ~ In m holds -> In v holds ->
  (exists m', In m' (firstn k l) /\ ~ In m' holds /\ In m' succ0)
  \/ (exists m' c, l_cands (pn_loop true E l s) = m' :: c
                   /\ In m' (firstn k l) /\ ~ In m' holds).
Proof.
  induction l as [|n r IH]; intros s k m Hk Hc Hci Hin Hm Hv.
  { rewrite firstn_nil in Hin. destruct Hin. }
  destruct k as [|k]; [destruct Hin|].
  simpl pn_loop.
  assert (pn_cond s = true) as Hcond.
  { unfold pn_cond. apply orb_true_iff. right. apply Nat.ltb_lt. lia. }
  rewrite Hcond.
  destruct (pn_step_cluster succ0 s n) as (Hs & Hci' & Hcase); [lia|exact Hci|].
  simpl in Hin. simpl firstn.
  destruct Hcase as [[Hcs Hn]|[Hcs [Hnv Hnh]]].
  - destruct Hin as [Hin|Hin].
    + subst m. destruct Hn as [Hn|[Hn|Hn]].
      * subst. contradiction.
      * contradiction.
      * left. exists n. split; [left; reflexivity|]. auto.
    + destruct (IH (pn_step true E s n) k m) as [(m' & H1 & H2 & H3)|(m' & c & H1 & H2 & H3)];
        try assumption; [lia|congruence| |].
      * left. exists m'. split; [right; exact H1|auto].
      * right. exists m', c. split; [exact H1|]. split; [right; exact H2|exact H3].
  - right. destruct (pn_loop_cands_prefix true E r (pn_step true E s n)) as [c Hcc].
    rewrite Hcs, Hc in Hcc. simpl in Hcc. exists n, c.
    split; [exact Hcc|]. split; [left; reflexivity|exact Hnh].
Qed.

(* ---- processNodes in a cluster_env ---------------------------------------------------- *)
Definition loopc (p : pst) (nodes : list node) (R : nat) : lst :=
  pn_loop true E nodes (mkL R [] 0 (p_incnr p) (p_need p) (p_cache p) (p_heads p)).

Lemma pnodes_cluster p nodes R :
  exists succ,
    p_succ (process_nodes true E Regular p nodes R) = p_succ p ++ succ
    /\ p_cache (process_nodes true E Regular p nodes R) = submit_all succ (l_cache (loopc p nodes R))
    /\ incl succ (l_cands (loopc p nodes R))
    /\ (forall m c, l_cands (loopc p nodes R) = m :: c -> In m succ).
Proof.
  assert (forall q cs, (forall n, In n cs -> n <> v) ->
            handle_task E q cs = (firstn q cs, firstn q cs)) as Hht.
  { intros q cs Hcs. unfold handle_task. simpl. apply ht_loop_all. exact Hcs. }
  assert (forall n, In n (l_cands (loopc p nodes R)) -> n <> v) as Hcv.
  { apply (pn_loop_cands E true nodes). intros n []. }
  unfold process_nodes. simpl is_broadcast. cbv iota. fold (loopc p nodes R).
  set (t := loopc p nodes R) in *.
  destruct (Nat.ltb 0 (l_short t)) eqn:Hlt.
  - unfold with_task. rewrite (Hht _ _ Hcv). simpl.
    exists (firstn (l_short t) (l_cands t)).
    split; [reflexivity|]. split; [reflexivity|]. split.
    + intros x. apply firstn_in.
    + intros m c Hc. rewrite Hc. apply Nat.ltb_lt in Hlt.
      destruct (l_short t); [lia|]. left. reflexivity.
  - destruct (l_cands t) as [|m0 c0] eqn:Hc.
    + exists []. unfold without_task. simpl. rewrite app_nil_r.
      split; [reflexivity|]. split; [reflexivity|]. split; [apply incl_refl|].
      intros m c Hx. discriminate Hx.
    + unfold with_task. rewrite (Hht _ (m0 :: c0)).
      2:{ intros n Hn. apply Hcv. try rewrite Hc. exact Hn. }
      rewrite firstn_all. simpl.
      exists (m0 :: c0).
      split; [reflexivity|]. split; [reflexivity|]. split; [apply incl_refl|].
      intros m c Hx. inversion Hx. left. reflexivity.
Qed.

Definition pinv (p : pst) : Prop := cinv (p_succ p) (p_cache p).

Lemma pinv_p0 : pinv p0.
Proof. intros n. simpl. split; discriminate. Qed.

Lemma process_nodes_pinv p nodes R :
  pinv p -> pinv (process_nodes true E Regular p nodes R).
Proof.
  intros Hp. destruct (pnodes_cluster p nodes R) as (succ & Hs & Hc & _).
  pose proof (pn_loop_cinv (p_succ p) nodes
                (mkL R [] 0 (p_incnr p) (p_need p) (p_cache p) (p_heads p)) Hp) as Hl.
  fold (loopc p nodes R) in Hl.
  unfold pinv. rewrite Hs, Hc. intros n.
  split; intros Hx; apply lookup_submit_all in Hx; destruct Hx as [[Hb Hi]|Hx].
  - right. apply in_or_app. right. exact Hi.
  - destruct (Hl n) as [H1 _]. destruct (H1 Hx); [left|right; apply in_or_app; left]; auto.
  - discriminate.
  - apply (Hl n). exact Hx.
Qed.

Lemma run_rules_pinv rules : forall p,
  pinv p -> pinv (run_rules true E Regular rules p).
Proof.
  induction rules as [|r rs IH]; simpl; intros p H; auto.
  apply IH. apply process_nodes_pinv. exact H.
Qed.

(* a primary of the rule lacks the object: after the rule was processed, some primary
   of the rule that lacks the object has been replicated to *)
Lemma process_nodes_progress p nodes R m :
  pinv p -> In v holds -> In m (firstn R nodes) -> ~ In m holds ->
  exists m', In m' (firstn R nodes) /\ ~ In m' holds
             /\ In m' (p_succ (process_nodes true E Regular p nodes R)).
Proof.
  intros Hp Hv Hm Hmh.
  destruct (pnodes_cluster p nodes R) as (succ & Hs & _ & _ & Hfirst).
  destruct (pn_loop_first_cand (p_succ p) nodes
              (mkL R [] 0 (p_incnr p) (p_need p) (p_cache p) (p_heads p)) R m)
    as [(m' & H1 & H2 & H3)|(m' & c & H1 & H2 & H3)]; simpl; auto.
  - exists m'. split; [exact H1|]. split; [exact H2|]. rewrite Hs. apply in_or_app. left. exact H3.
  - exists m'. split; [exact H2|]. split; [exact H3|]. rewrite Hs. apply in_or_app. right.
    apply (Hfirst m' c). exact H1.
Qed.

(* reported successes are nodes of the vectors *)
Lemma run_rules_succ_src rules : forall p x,
  In x (p_succ (run_rules true E Regular rules p)) ->
  In x (p_succ p) \/ exists r, In r rules /\ In x (fst r).
Proof.
  induction rules as [|a rs IH]; simpl; intros p x H; auto.
  apply IH in H. destruct H as [H|(r & H1 & H2)].
  - destruct (pnodes_cluster p (fst a) (snd a)) as (succ & Hs & _ & Hincl & _).
    rewrite Hs in H. apply in_app_iff in H. destruct H as [H|H]; auto.
    right. exists a. split; [left; reflexivity|].
    apply Hincl in H. unfold loopc in H. apply pn_loop_cands_incl in H.
    destruct H as [[]|H]. exact H.
  - right. exists r. auto.
Qed.

End Cluster.

(* ---- the measure -------------------------------------------------------------------- *)
Lemma mmissing_le rules h h' :
  (forall r, In r rules -> missing (fst r) (snd r) h' <= missing (fst r) (snd r) h) ->
  mmissing rules h' <= mmissing rules h.
Proof.
  induction rules as [|a rs IH]; simpl; intros H; [lia|].
  pose proof (H a (or_introl eq_refl)).
  assert (mmissing rs h' <= mmissing rs h) by (apply IH; intros; apply H; auto).
  unfold mmissing in *. lia.
Qed.

Lemma mmissing_lt rules h h' :
  (forall r, In r rules -> missing (fst r) (snd r) h' <= missing (fst r) (snd r) h) ->
  (exists r, In r rules /\ missing (fst r) (snd r) h' < missing (fst r) (snd r) h) ->
  mmissing rules h' < mmissing rules h.
Proof.
  induction rules as [|a rs IH]; simpl; intros H [r [Hr Hlt]]; [destruct Hr|].
  pose proof (H a (or_introl eq_refl)) as Ha.
  assert (mmissing rs h' <= mmissing rs h) as Hle by (apply mmissing_le; intros; apply H; auto).
  destruct Hr as [->|Hr].
  - unfold mmissing in *. lia.
  - assert (mmissing rs h' < mmissing rs h) as Hl.
    { apply IH; [intros; apply H; auto|]. exists r. auto. }
    unfold mmissing in *. lia.
Qed.

Lemma mmissing_pos rules h :
  0 < mmissing rules h -> exists r, In r rules /\ 0 < missing (fst r) (snd r) h.
Proof.
  induction rules as [|a rs IH]; simpl; intros H; [lia|].
  destruct (Nat.eq_dec (missing (fst a) (snd a) h) 0) as [Hz|Hz].
  - destruct IH as (r & H1 & H2); [unfold mmissing in *; lia|]. exists r. auto.
  - exists a. split; [auto|lia].
Qed.

Lemma mmissing_zero_iff rules h : mmissing rules h = 0 <-> restored rules h.
Proof.
  unfold restored. induction rules as [|a rs IH]; simpl.
  - split; [intros _ r p []|reflexivity].
  - split.
    + intros H r p [<-|Hr] Hp.
      * apply (proj1 (missing_zero_iff (fst a) (snd a) h)); [lia|exact Hp].
      * apply (proj1 IH) with r; auto. unfold mmissing in *. lia.
    + intros H.
      assert (missing (fst a) (snd a) h = 0) as H1.
      { apply missing_zero_iff. intros p Hp. apply (H a); auto. }
      assert (mmissing rs h = 0) as H2.
      { apply IH. intros r p Hr Hp. apply (H r); auto. }
      unfold mmissing in *. lia.
Qed.

Lemma mmissing_bound rules h : mmissing rules h <= total_R rules.
Proof.
  induction rules as [|a rs IH]; simpl; [lia|].
  pose proof (missing_bound (fst a) (snd a) h). unfold mmissing, total_R in *. lia.
Qed.

Lemma multi_step_le rules holds v :
  (forall r, In r rules -> rule_ok r) ->
  mmissing rules (mnode_step rules holds v) <= mmissing rules holds.
Proof.
  intros Hok. apply mmissing_le. intros r Hr. apply missing_le. intros p Hp Hh.
  apply (multi_step_keeps_primaries rules holds v r); auto.
Qed.

(* ---- 4. while a primary of some rule lacks the object, the check of a holder reduces
   the number of (rule, primary) pairs without a copy ------------------------------------ *)
Theorem multi_step_progress : forall rules holds v,
  (forall r, In r rules -> rule_ok r) -> In v holds ->
  0 < mmissing rules holds ->
  mmissing rules (mnode_step rules holds v) < mmissing rules holds.
Proof.
  intros rules holds v Hok Hv Hpos.
  destruct (mmissing_pos rules holds Hpos) as (r & Hr & Hrpos).
  destruct (missing_pos (fst r) (snd r) holds Hrpos) as (m & Hmp & Hmh).
  assert (exists m', In m' (primaries (fst r) (snd r)) /\ ~ In m' holds
                     /\ In m' (p_succ (final rules holds v))) as (m' & Hp' & Hh' & Hs').
  { unfold final. destruct (in_split _ _ Hr) as (r1 & r2 & ->).
    rewrite run_rules_app. simpl.
    destruct (process_nodes_progress holds v
                (run_rules true (cluster_env holds v) Regular r1 p0) (fst r) (snd r) m)
      as (m' & H1 & H2 & H3); auto.
    { apply run_rules_pinv. apply pinv_p0. }
    exists m'. split; [exact H1|]. split; [exact H2|].
    apply (run_rules_succ (cluster_env holds v) Regular r2). exact H3. }
  assert (In m' (mnode_step rules holds v)) as Hin.
  { apply mstep_keep; auto. left. intros ->. contradiction. }
  apply mmissing_lt.
  - intros r0 Hr0. apply missing_le. intros p Hp Hh.
    apply (multi_step_keeps_primaries rules holds v r0); auto.
  - exists r. split; [exact Hr|].
    unfold missing. apply filter_len_lt with (m := m').
    + intros x Hx Hg. apply negb_true_iff in Hg. apply negb_true_iff.
      apply memb_false in Hg. apply memb_false. intros Hi. apply Hg.
      apply (multi_step_keeps_primaries rules holds v r); auto.
    + exact Hp'.
    + apply negb_true_iff. apply memb_false. exact Hh'.
    + apply negb_false_iff. apply memb_In. exact Hin.
Qed.

(* ---- holders stay inside the container ---------------------------------------------- *)
Lemma multi_step_in_container rules holds v :
  (forall x, In x holds -> in_container rules x) ->
  forall x, In x (mnode_step rules holds v) -> in_container rules x.
Proof.
  intros Hc x Hx. apply mstep_from in Hx. destruct Hx as [Hx|Hx]; [auto|].
  unfold final in Hx. apply run_rules_succ_src in Hx.
  destruct Hx as [[]|(r & H1 & H2)]. exists r. auto.
Qed.

Lemma multi_step_restored rules holds v :
  (forall r, In r rules -> rule_ok r) ->
  restored rules holds -> restored rules (mnode_step rules holds v).
Proof.
  intros Hok Hres r p Hr Hp.
  apply (multi_step_keeps_primaries rules holds v r); auto. apply (Hres r); auto.
Qed.

(* ---- rounds ---------------------------------------------------------------------------- *)
Lemma mround_cons rules a o h :
  mround rules (a :: o) h = mround rules o (mnode_step rules h a).
Proof. reflexivity. Qed.

Lemma mround_props rules o : forall h,
  (forall r, In r rules -> rule_ok r) ->
  (forall x, In x h -> in_container rules x) -> (exists x, In x h) ->
  (forall x, In x (mround rules o h) -> in_container rules x)
  /\ (exists x, In x (mround rules o h))
  /\ mmissing rules (mround rules o h) <= mmissing rules h.
Proof.
  induction o as [|a o IH]; intros h Hok Hc Hne.
  { split; [exact Hc|]. split; [exact Hne|apply Nat.le_refl]. }
  rewrite mround_cons.
  destruct (IH (mnode_step rules h a) Hok) as (H1 & H2 & H3).
  - apply multi_step_in_container. exact Hc.
  - apply multi_never_empty; auto.
  - split; [exact H1|]. split; [exact H2|].
    pose proof (multi_step_le rules h a Hok). lia.
Qed.

Lemma mround_progress rules o : forall h,
  (forall r, In r rules -> rule_ok r) ->
  (forall x, In x h -> in_container rules x) ->
  (exists x, In x h /\ In x o) -> 0 < mmissing rules h ->
  mmissing rules (mround rules o h) < mmissing rules h.
Proof.
  induction o as [|a o IH]; intros h Hok Hc [x [Hxh Hxo]] Hpos; [destruct Hxo|].
  rewrite mround_cons.
  destruct (in_dec Nat.eq_dec a h) as [Ha|Ha].
  - pose proof (multi_step_progress rules h a Hok Ha Hpos) as Hlt.
    destruct (mround_props rules o (mnode_step rules h a) Hok) as (_ & _ & Hle).
    + apply multi_step_in_container. exact Hc.
    + apply multi_never_empty; eauto.
    + lia.
  - rewrite mstep_skip; [|exact Ha].
    apply IH; auto. exists x. split; [exact Hxh|].
    destruct Hxo as [->|Hxo]; [contradiction|exact Hxo].
Qed.

Lemma mround_restored rules o : forall h,
  (forall r, In r rules -> rule_ok r) ->
  restored rules h -> restored rules (mround rules o h).
Proof.
  induction o as [|a o IH]; intros h Hok Hres; [exact Hres|].
  rewrite mround_cons. apply IH; [exact Hok|]. apply multi_step_restored; auto.
Qed.

Lemma mrounds_restored rules orders : forall h,
  (forall r, In r rules -> rule_ok r) ->
  restored rules h -> restored rules (mrounds rules orders h).
Proof.
  induction orders as [|o rest IH]; intros h Hok Hres; [exact Hres|].
  simpl. apply IH; [exact Hok|]. apply mround_restored; auto.
Qed.

(* [mmissing] covering rounds are enough *)
Lemma multi_converges_missing rules : forall orders h,
  (forall r, In r rules -> rule_ok r) ->
  (forall x, In x h -> in_container rules x) -> (exists x, In x h) ->
  mcovering rules orders -> mmissing rules h <= length orders ->
  restored rules (mrounds rules orders h).
Proof.
  induction orders as [|o rest IH]; intros h Hok Hc Hne Hcov Hlen.
  { simpl in *. apply mmissing_zero_iff. lia. }
  simpl.
  destruct (Nat.eq_dec (mmissing rules h) 0) as [Hz|Hz].
  - apply mrounds_restored; [exact Hok|]. apply mround_restored; [exact Hok|].
    apply mmissing_zero_iff. exact Hz.
  - assert (mmissing rules (mround rules o h) < mmissing rules h) as Hlt.
    { apply mround_progress; auto; [|lia].
      destruct Hne as [x Hx]. exists x. split; [exact Hx|].
      apply (Hcov o); [left; reflexivity|]. apply Hc. exact Hx. }
    destruct (mround_props rules o h Hok Hc Hne) as (P1 & P2 & _).
    apply IH; auto.
    + intros o' Ho'. apply Hcov. right. exact Ho'.
    + simpl in Hlen. lia.
Qed.

(* ---- 6. after total_R covering rounds every primary of every rule holds the object,
   and this stays so ------------------------------------------------------------------- *)
Theorem multi_restores : forall rules orders holds,
  (forall r, In r rules -> rule_ok r) ->
  (forall x, In x holds -> in_container rules x) -> (exists x, In x holds) ->
  mcovering rules orders -> total_R rules <= length orders ->
  restored rules (mrounds rules orders holds)
  /\ (forall more, restored rules (mrounds rules more (mrounds rules orders holds))).
Proof.
  intros rules orders holds Hok Hc Hne Hcov Hlen.
  assert (restored rules (mrounds rules orders holds)) as Hres.
  { apply multi_converges_missing; auto.
    pose proof (mmissing_bound rules holds). lia. }
  split; [exact Hres|]. intros more. apply mrounds_restored; auto.
Qed.

(* ---- concrete runs (vm_compute on the model) ------------------------------------------ *)
(* two rules over the same three nodes, one copy each, a single copy on node 3 *)
Example multi_example :
  mrounds [([1;2;3],1); ([2;3;1],1)] [[1;2;3];[3;2;1]] [3] = [1;2].
Proof. vm_compute. reflexivity. Qed.

Example multi_example_round1 :
  mround [([1;2;3],1); ([2;3;1],1)] [1;2;3] [3] = [3;1;2].
Proof. vm_compute. reflexivity. Qed.

(* REP 2 over nodes 1..4 and REP 1 over nodes 3..5; the only copy is on node 5 *)
Example multi_example_two :
  mrounds [([1;2;3;4],2); ([3;4;5],1)] [[1;2;3;4;5];[5;4;3;2;1];[1;2;3;4;5]] [5] = [1;2;3]
  /\ mnode_tasks [([1;2;3;4],2); ([3;4;5],1)] [5] 5 = [(2, [1;2;3;4]); (2, [3;4])]
  /\ mmissing [([1;2;3;4],2); ([3;4;5],1)] [5] = 3.
Proof. vm_compute. repeat split; reflexivity. Qed.

(* the premises of [multi_restores] are satisfiable (non-vacuity) *)
Example multi_restores_instance :
  restored [([1;2;3;4],2); ([3;4;5],1)]
           (mrounds [([1;2;3;4],2); ([3;4;5],1)] [[1;2;3;4;5];[5;4;3;2;1];[2;4;1;3;5]] [5]).
Proof.
  refine (proj1 (multi_restores [([1;2;3;4],2); ([3;4;5],1)]
                   [[1;2;3;4;5];[5;4;3;2;1];[2;4;1;3;5]] [5] _ _ _ _ _)).
  - intros r [<-|[<-|[]]]; unfold rule_ok; simpl;
      (split; [repeat constructor; simpl; intuition discriminate|lia]).
  - intros x [<-|[]]. exists ([3;4;5],1). simpl. tauto.
  - exists 5. left. reflexivity.
  - intros o Ho n [r [Hr Hn]]. simpl in Hr. destruct Hr as [<-|[<-|[]]]; simpl in Hn;
      simpl in Ho; destruct Ho as [<-|[<-|[<-|[]]]]; simpl; tauto.
  - simpl. lia.
Qed.
