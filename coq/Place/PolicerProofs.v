(* Proofs about the policer model (C26). *)
From Coq Require Import List Arith Bool Lia.
Import ListNotations.
From NV Require Import EC.NodeSeq EC.NodeSeqProofs Place.Policer.

Lemma part_seq_eq : part_seq = node_seq.
Proof. reflexivity. Qed.

(* ---- small list facts --------------------------------------------------- *)
Lemma nodup_filter {A} (f : A -> bool) (l : list A) : NoDup l -> NoDup (filter f l).
Proof.
  induction 1; simpl; [constructor|].
  destruct (f x); auto. constructor; auto.
  intro Hi. apply filter_In in Hi. tauto.
Qed.

Lemma nodup_app_single {A} (l : list A) (x : A) : NoDup l -> ~ In x l -> NoDup (l ++ [x]).
Proof.
  induction 1; simpl; intros Hx.
  - constructor; [tauto|constructor].
  - constructor.
    + rewrite in_app_iff. simpl. intros [Hi|[Hi|[]]]; [tauto|]. subst. tauto.
    + apply IHNoDup. tauto.
Qed.

(* ---- nodeCache ------------------------------------------------------------ *)
Lemma lookup_cset n m b c :
  lookup m (cset n b c) = if Nat.eqb n m then Some b else lookup m c.
Proof. reflexivity. Qed.

Lemma at_least_one_holder_ex c :
  at_least_one_holder c = true -> exists n, lookup n c = Some true.
Proof.
  unfold at_least_one_holder. rewrite existsb_exists. intros [p [_ H]].
  unfold is_holder in H. exists (fst p).
  destruct (lookup (fst p) c) as [[|]|]; congruence.
Qed.

Lemma lookup_submit_all succ : forall c m b,
  lookup m (submit_all succ c) = Some b ->
  (b = true /\ In m succ) \/ lookup m c = Some b.
Proof.
  unfold submit_all. induction succ as [|x r IH]; simpl; intros c m b H; [tauto|].
  apply IH in H. destruct H as [[Hb Hi]|H]; [tauto|].
  rewrite lookup_cset in H. destruct (Nat.eqb x m) eqn:E.
  - apply Nat.eqb_eq in E. subst. inversion H. tauto.
  - tauto.
Qed.

(* ---- replicator.HandleTask ------------------------------------------------ *)
Lemma rep_stored_true a : rep_stored a = true -> a = RStored.
Proof. destruct a; simpl; intros H; try discriminate H; reflexivity. Qed.

Lemma ht_loop_spec e : forall nodes q sends succ,
  ht_loop e q nodes = (sends, succ) ->
  length succ <= q /\ incl succ sends /\ incl sends nodes
  /\ (forall n, In n succ -> e_rep e n = RStored /\ n <> e_local e)
  /\ (NoDup nodes -> NoDup succ).
Proof.
  induction nodes as [|n r IH]; simpl; intros q sends succ H.
  { inversion H; subst. simpl. split; [lia|]. split; [apply incl_nil_l|]. split; [apply incl_nil_l|].
    split; [intros ? []|intros; constructor]. }
  destruct q as [|q'].
  { inversion H; subst. simpl. split; [lia|]. split; [apply incl_nil_l|]. split; [apply incl_nil_l|].
    split; [intros ? []|intros; constructor]. }
  destruct (Nat.eqb n (e_local e)) eqn:El.
  { apply IH in H. destruct H as (H1 & H2 & H3 & H4 & H5).
    split; [exact H1|]. split; [exact H2|]. split; [intros x Hx; right; auto|].
    split; [exact H4|]. intros Hnd. inversion Hnd; auto. }
  apply Nat.eqb_neq in El.
  destruct (rep_stored (e_rep e n)) eqn:Er; [|destruct (rep_sent (e_rep e n)) eqn:Es].
  - apply rep_stored_true in Er.
    destruct (ht_loop e q' r) as [s k] eqn:Hr. inversion H; subst.
    apply IH in Hr. destruct Hr as (H1 & H2 & H3 & H4 & H5).
    split; [simpl; lia|].
    split; [intros x [Hx|Hx]; [left; auto|right; auto]|].
    split; [intros x [Hx|Hx]; [left; auto|right; auto]|].
    split.
    + intros x [Hx|Hx]; [subst; auto|apply H4; auto].
    + intros Hnd. apply NoDup_cons_iff in Hnd. destruct Hnd as [Hn1 Hn2]. constructor; [|auto].
      intro Hi. apply Hn1. apply H3. apply H2. exact Hi.
  - destruct (ht_loop e (S q') r) as [s k] eqn:Hr. inversion H; subst.
    apply IH in Hr. destruct Hr as (H1 & H2 & H3 & H4 & H5).
    split; [exact H1|].
    split; [intros x Hx; right; auto|].
    split; [intros x [Hx|Hx]; [left; auto|right; auto]|].
    split; [exact H4|].
    intros Hnd. inversion Hnd; auto.
  - apply IH in H. destruct H as (H1 & H2 & H3 & H4 & H5).
    split; [exact H1|]. split; [exact H2|]. split; [intros x Hx; right; auto|].
    split; [exact H4|]. intros Hnd. inversion Hnd; auto.
Qed.

Lemma handle_task_spec e q nodes sends succ :
  handle_task e q nodes = (sends, succ) ->
  length succ <= q /\ incl succ sends /\ incl sends nodes
  /\ (forall n, In n succ -> e_rep e n = RStored /\ n <> e_local e)
  /\ (NoDup nodes -> NoDup succ).
Proof.
  unfold handle_task. destruct (e_readable e).
  - apply ht_loop_spec.
  - intros H; inversion H; subst. simpl. split; [lia|]. split; [apply incl_nil_l|]. split; [apply incl_nil_l|].
    split; [intros ? []|intros; constructor].
Qed.

(* ---- processNodes: the loop ------------------------------------------------ *)
Ltac step_cases :=
  unfold pn_step, l_maint, l_headed; simpl;
  repeat match goal with
         | |- context [if ?b then _ else _] => destruct b eqn:?; simpl
         | |- context [match lookup ?n ?c with _ => _ end] => destruct (lookup n c) as [[|]|] eqn:?; simpl
         | |- context [match e_head ?e ?n with _ => _ end] => destruct (e_head e n) eqn:?; simpl
         end.

Section Loop.
Variable fx : bool.
Variable e : env.

Lemma pn_step_need_mono s n : l_need s = true -> l_need (pn_step fx e s n) = true.
Proof. intros H. step_cases; auto. Qed.

Lemma pn_loop_need_mono nodes : forall s, l_need s = true -> l_need (pn_loop fx e nodes s) = true.
Proof.
  induction nodes as [|n r IH]; simpl; intros s H; auto.
  destruct (pn_cond s); auto. apply IH. apply pn_step_need_mono; auto.
Qed.

Lemma pn_step_short0 s n : l_short s = 0 -> l_short (pn_step fx e s n) = 0.
Proof. intros H. unfold pn_step. simpl. rewrite H. reflexivity. Qed.

Lemma pn_loop_short0 nodes : forall s, l_short s = 0 -> l_short (pn_loop fx e nodes s) = 0.
Proof.
  induction nodes as [|n r IH]; simpl; intros s H; auto.
  destruct (pn_cond s); auto. apply IH. apply pn_step_short0; auto.
Qed.

(* the local node is listed and was not asked to keep its copy:
   the shortage was covered before the loop reached it *)
Lemma pn_loop_local_short0 nodes : forall s,
  In (e_local e) nodes -> l_need (pn_loop fx e nodes s) = false ->
  l_short (pn_loop fx e nodes s) = 0.
Proof.
  induction nodes as [|n r IH]; simpl; intros s Hin Hneed; [tauto|].
  destruct (pn_cond s) eqn:Hc.
  - destruct (Nat.eq_dec n (e_local e)) as [->|Hne].
    + destruct (l_short s) eqn:Hs.
      * apply pn_loop_short0. apply pn_step_short0. exact Hs.
      * exfalso.
        assert (l_need (pn_step fx e s (e_local e)) = true) as Hn.
        { unfold pn_step. simpl. rewrite Hs. simpl. rewrite Nat.eqb_refl. reflexivity. }
        rewrite (pn_loop_need_mono r _ Hn) in Hneed. discriminate.
    + destruct Hin as [Hin|Hin]; [congruence|]. apply IH; auto.
  - unfold pn_cond in Hc. apply orb_false_iff in Hc. destruct Hc as [_ Hc].
    apply Nat.ltb_ge in Hc. lia.
Qed.

(* LOCK / LINK: the shortage equals the list length, so the loop cannot cover
   it before reaching the local node *)
Lemma pn_loop_broadcast_need nodes : forall s,
  In (e_local e) nodes -> length nodes <= l_short s ->
  l_need (pn_loop fx e nodes s) = true.
Proof.
  induction nodes as [|n r IH]; simpl; intros s Hin Hlen; [tauto|].
  assert (pn_cond s = true) as Hc.
  { unfold pn_cond. apply orb_true_iff. right. apply Nat.ltb_lt. lia. }
  rewrite Hc.
  destruct (Nat.eq_dec n (e_local e)) as [->|Hne].
  - apply pn_loop_need_mono. unfold pn_step. simpl.
    destruct (Nat.eqb (l_short s) 0) eqn:E; [apply Nat.eqb_eq in E; lia|].
    rewrite Nat.eqb_refl. reflexivity.
  - destruct Hin as [Hin|Hin]; [congruence|]. apply IH; auto.
    assert (l_short s - 1 <= l_short (pn_step fx e s n)).
    { step_cases; lia. }
    lia.
Qed.

(* whether the local node was seen in a list *)
Lemma pn_loop_incnr nodes : forall s,
  l_incnr (pn_loop fx e nodes s) = true -> l_incnr s = true \/ In (e_local e) nodes.
Proof.
  induction nodes as [|n r IH]; simpl; intros s H; auto.
  destruct (pn_cond s); auto.
  apply IH in H. destruct H as [H|H]; auto.
  assert (l_incnr (pn_step fx e s n) = (if l_incnr s then true else Nat.eqb n (e_local e))) as Hi.
  { step_cases; auto. }
  rewrite Hi in H. destruct (l_incnr s); auto.
  apply Nat.eqb_eq in H. auto.
Qed.

(* HEAD calls of one loop: a duplicate-free selection of the list, never the local node *)
Lemma pn_step_heads s n :
  l_heads (pn_step fx e s n) = l_heads s
  \/ (l_heads (pn_step fx e s n) = l_heads s ++ [n] /\ n <> e_local e).
Proof.
  step_cases; auto; right; split; auto;
    match goal with H : Nat.eqb n (e_local e) = false |- _ => apply Nat.eqb_neq in H; auto end.
Qed.

Lemma pn_loop_heads nodes : forall s,
  exists hs, l_heads (pn_loop fx e nodes s) = l_heads s ++ hs
             /\ incl hs nodes /\ ~ In (e_local e) hs /\ (NoDup nodes -> NoDup hs).
Proof.
  induction nodes as [|n r IH]; simpl; intros s.
  - exists []. rewrite app_nil_r. repeat split; auto using incl_nil_l, NoDup_nil.
  - destruct (pn_cond s).
    2:{ exists []. rewrite app_nil_r. repeat split; auto using incl_nil_l, NoDup_nil. }
    destruct (IH (pn_step fx e s n)) as (hs & H1 & H2 & H3 & H4).
    destruct (pn_step_heads s n) as [Hh|[Hh Hne]].
    + exists hs. rewrite H1, Hh. repeat split; auto.
      * intros x Hx. right. auto.
      * intros Hnd. inversion Hnd; auto.
    + exists (n :: hs). rewrite H1, Hh, <- app_assoc. simpl. repeat split; auto.
      * intros x [Hx|Hx]; [left; auto|right; auto].
      * intros [Hx|Hx]; auto.
      * intros Hnd. inversion Hnd; subst. constructor; auto.
Qed.

End Loop.

(* ---- accounting and the cache invariant of the repaired loop ---------------- *)
Section Fixed.
Variable e : env.

Definition is_has (n : node) : bool := match e_head e n with Has => true | _ => false end.
Definition hasc (l : list node) : nat := length (filter is_has l).

Lemma hasc_app l1 l2 : hasc (l1 ++ l2) = hasc l1 + hasc l2.
Proof. unfold hasc. rewrite filter_app, app_length. reflexivity. Qed.

(* unless the local node took a share, every unit of the shortage that disappeared
   is a header actually read (Has) or a maintenance node (counted in unchk) *)
Lemma pn_step_account s n :
  l_need (pn_step true e s n) = false ->
  l_short s + l_unchk s + hasc (l_heads s)
  = l_short (pn_step true e s n) + l_unchk (pn_step true e s n) + hasc (l_heads (pn_step true e s n)).
Proof.
  unfold pn_step, l_maint, l_headed; simpl.
  destruct (Nat.eqb (l_short s) 0) eqn:E0; simpl; auto.
  apply Nat.eqb_neq in E0.
  destruct (Nat.eqb n (e_local e)) eqn:El; simpl; [discriminate|].
  destruct (e_mflag e n); simpl; [intros _; lia|].
  destruct (lookup n (l_cache s)) as [[|]|]; simpl; auto.
  unfold is_has.
  destruct (e_head e n) eqn:Eh; simpl; intros _; rewrite hasc_app; unfold hasc; simpl; unfold is_has; rewrite Eh; simpl; lia.
Qed.

Lemma pn_loop_account nodes : forall s,
  l_need (pn_loop true e nodes s) = false ->
  l_short s + l_unchk s + hasc (l_heads s)
  = l_short (pn_loop true e nodes s) + l_unchk (pn_loop true e nodes s)
    + hasc (l_heads (pn_loop true e nodes s)).
Proof.
  induction nodes as [|n r IH]; simpl; intros s H; auto.
  destruct (pn_cond s); auto.
  rewrite <- (IH _ H). apply pn_step_account.
  destruct (l_need (pn_step true e s n)) eqn:Hn; auto.
  rewrite (pn_loop_need_mono true e r _ Hn) in H. discriminate.
Qed.

(* confirmed holder w.r.t. the recorded HEAD calls and reported replications *)
Definition conf (heads succ : list node) (n : node) : Prop :=
  (In n heads /\ e_head e n = Has) \/ (In n succ /\ e_rep e n = RStored).

Definition cache_ok (heads succ : list node) (c : cache) : Prop :=
  forall n, lookup n c = Some true -> conf heads succ n.

Lemma conf_mono heads heads' succ succ' n :
  incl heads heads' -> incl succ succ' -> conf heads succ n -> conf heads' succ' n.
Proof. unfold conf. intros H1 H2 [[Ha Hb]|[Ha Hb]]; [left|right]; split; auto. Qed.

Lemma pn_step_cache_ok succ s n :
  cache_ok (l_heads s) succ (l_cache s) ->
  cache_ok (l_heads (pn_step true e s n)) succ (l_cache (pn_step true e s n)).
Proof.
  intros H.
  assert (forall m, conf (l_heads s) succ m -> conf (l_heads s ++ [n]) succ m) as Hm.
  { intros m. apply conf_mono; auto using incl_refl, incl_appl. }
  unfold pn_step, l_maint, l_headed; simpl.
  destruct (Nat.eqb (l_short s) 0); simpl; auto.
  destruct (Nat.eqb n (e_local e)); simpl; auto.
  destruct (e_mflag e n); simpl; auto.
  destruct (lookup n (l_cache s)) as [[|]|] eqn:El; simpl; auto.
  destruct (e_head e n) eqn:Eh; simpl; intros m; try rewrite lookup_cset;
    try (destruct (Nat.eqb n m) eqn:E); try discriminate;
    try (intros Hl; apply Hm; apply H; exact Hl).
  apply Nat.eqb_eq in E. subst. intros _. left. split; auto. apply in_or_app. right. left. auto.
Qed.

Lemma pn_loop_cache_ok succ nodes : forall s,
  cache_ok (l_heads s) succ (l_cache s) ->
  cache_ok (l_heads (pn_loop true e nodes s)) succ (l_cache (pn_loop true e nodes s)).
Proof.
  induction nodes as [|n r IH]; simpl; intros s H; auto.
  destruct (pn_cond s); auto. apply IH. apply pn_step_cache_ok. exact H.
Qed.

(* candidates of a loop are nodes of the list other than the local one *)
Lemma pn_loop_cands fx nodes : forall s,
  (forall n, In n (l_cands s) -> n <> e_local e) ->
  forall n, In n (l_cands (pn_loop fx e nodes s)) -> n <> e_local e.
Proof.
  induction nodes as [|x r IH]; simpl; intros s H; auto.
  destruct (pn_cond s); auto. apply IH.
  intros n. step_cases; auto; rewrite in_app_iff; simpl; intros [Hi|[Hi|[]]]; auto; subst;
    match goal with H : Nat.eqb _ (e_local e) = false |- _ => apply Nat.eqb_neq in H; auto end.
Qed.

(* ---- processNodes ------------------------------------------------------------ *)
Definition Inv (p : pst) : Prop := cache_ok (p_heads p) (p_succ p) (p_cache p).

Definition loop_of (ty : otype) (p : pst) (nodes : list node) (shortage : nat) : lst :=
  pn_loop true e nodes
    (mkL (if is_broadcast ty then length nodes else shortage) [] 0
         (p_incnr p) (p_need p) (p_cache p) (p_heads p)).

Lemma with_task_fields q cands need s p :
  exists sends succ,
    handle_task e q cands = (sends, succ)
    /\ with_task e q cands need s p
       = mkP (l_incnr s) need (submit_all succ (l_cache s)) (l_heads s)
             (p_tasks p ++ [(q, cands)]) (p_sends p ++ sends) (p_succ p ++ succ).
Proof.
  unfold with_task. destruct (handle_task e q cands) as [sends succ]. eauto.
Qed.

(* shape of the result of the repaired processNodes *)
Lemma process_nodes_shape ty p nodes shortage :
  let s := loop_of ty p nodes shortage in
  exists need succ,
    process_nodes true e ty p nodes shortage
    = mkP (l_incnr s) need (submit_all succ (l_cache s)) (l_heads s)
          (p_tasks (process_nodes true e ty p nodes shortage))
          (p_sends (process_nodes true e ty p nodes shortage))
          (p_succ p ++ succ)
    /\ (forall n, In n succ -> e_rep e n = RStored)
    /\ (need = false -> l_need s = false /\ (0 < l_short s \/ l_unchk s = 0))
    /\ (l_need s = true -> need = true).
Proof.
  intros s. unfold process_nodes. fold (loop_of ty p nodes shortage). fold s.
  assert (forall u n0 : bool, (if u then true else n0) = false -> n0 = false) as Hif1.
  { intros [|] n0 Hx; [discriminate|exact Hx]. }
  destruct (Nat.ltb 0 (l_short s)) eqn:Hs.
  - apply Nat.ltb_lt in Hs.
    destruct (with_task_fields (l_short s) (l_cands s) (l_need s) s p) as (sends & succ & Ht & ->).
    exists (l_need s), succ. simpl.
    split; [reflexivity|]. split; [|split].
    + intros n Hn. apply (handle_task_spec _ _ _ _ _ Ht). exact Hn.
    + intros Hx. split; [exact Hx|left; exact Hs].
    + intros Hx. exact Hx.
  - apply Nat.ltb_ge in Hs.
    destruct (l_cands s) eqn:Hc.
    + exists (if Nat.ltb 0 (l_unchk s) then true else l_need s), []. unfold without_task. simpl.
      rewrite app_nil_r.
      split; [reflexivity|]. split; [|split].
      * intros n [].
      * intros Hx. split; [eapply Hif1; exact Hx|].
        destruct (Nat.ltb 0 (l_unchk s)) eqn:Hu; [discriminate|]. apply Nat.ltb_ge in Hu. right. lia.
      * intros ->. destruct (Nat.ltb 0 (l_unchk s)); reflexivity.
    + rewrite <- Hc.
      destruct (with_task_fields (length (l_cands s)) (l_cands s)
                  (if Nat.ltb 0 (l_unchk s) then true else l_need s) s p) as (sends & succ & Ht & ->).
      exists (if Nat.ltb 0 (l_unchk s) then true else l_need s), succ. simpl.
      split; [reflexivity|]. split; [|split].
      * intros m Hm. apply (handle_task_spec _ _ _ _ _ Ht). exact Hm.
      * intros Hx. split; [eapply Hif1; exact Hx|].
        destruct (Nat.ltb 0 (l_unchk s)) eqn:Hu; [discriminate|]. apply Nat.ltb_ge in Hu. right. lia.
      * intros ->. destruct (Nat.ltb 0 (l_unchk s)); reflexivity.
Qed.

Lemma process_nodes_need_mono ty p nodes shortage :
  p_need p = true -> p_need (process_nodes true e ty p nodes shortage) = true.
Proof.
  intros H. destruct (process_nodes_shape ty p nodes shortage) as (need & succ & Heq & _ & _ & Hn).
  rewrite Heq. simpl. apply Hn. unfold loop_of. apply pn_loop_need_mono. exact H.
Qed.

Lemma process_nodes_heads ty p nodes shortage :
  exists hs, p_heads (process_nodes true e ty p nodes shortage) = p_heads p ++ hs.
Proof.
  destruct (process_nodes_shape ty p nodes shortage) as (need & succ & Heq & _).
  rewrite Heq. simpl. unfold loop_of.
  destruct (pn_loop_heads true e nodes
              (mkL (if is_broadcast ty then length nodes else shortage) [] 0
                   (p_incnr p) (p_need p) (p_cache p) (p_heads p))) as (hs & H & _).
  exists hs. exact H.
Qed.

Lemma process_nodes_succ ty p nodes shortage :
  exists k, p_succ (process_nodes true e ty p nodes shortage) = p_succ p ++ k.
Proof.
  destruct (process_nodes_shape ty p nodes shortage) as (need & succ & Heq & _).
  rewrite Heq. simpl. eauto.
Qed.

Lemma process_nodes_inv ty p nodes shortage :
  Inv p -> Inv (process_nodes true e ty p nodes shortage).
Proof.
  intros Hinv.
  destruct (process_nodes_shape ty p nodes shortage) as (need & succ & Heq & Hrep & _).
  rewrite Heq. unfold Inv. simpl.
  intros n Hl. apply lookup_submit_all in Hl. destruct Hl as [[_ Hi]|Hl].
  - right. split; [apply in_or_app; right; exact Hi|apply Hrep; exact Hi].
  - eapply conf_mono; [apply incl_refl|apply incl_appl; apply incl_refl|].
    unfold loop_of in Hl |- *.
    eapply pn_loop_cache_ok; [|exact Hl]. exact Hinv.
Qed.

Lemma process_nodes_incnr ty p nodes shortage :
  p_incnr (process_nodes true e ty p nodes shortage) = true ->
  p_incnr p = true \/ In (e_local e) nodes.
Proof.
  destruct (process_nodes_shape ty p nodes shortage) as (need & succ & Heq & _).
  rewrite Heq. simpl. unfold loop_of. intros H. apply pn_loop_incnr in H. exact H.
Qed.

(* the heart of C26 for one rule *)
Lemma process_nodes_drop_safe ty p nodes shortage :
  NoDup nodes -> In (e_local e) nodes ->
  p_need (process_nodes true e ty p nodes shortage) = false ->
  exists hs, NoDup hs /\ incl hs nodes /\ ~ In (e_local e) hs
             /\ (forall n, In n hs ->
                   In n (p_heads (process_nodes true e ty p nodes shortage)) /\ e_head e n = Has)
             /\ (if is_broadcast ty then length nodes else shortage) <= length hs.
Proof.
  intros Hnd Hin Hneed.
  destruct (process_nodes_shape ty p nodes shortage) as (need & succ & Heq & _ & Hn & _).
  rewrite Heq in Hneed |- *. simpl in Hneed |- *. subst need.
  destruct (Hn eq_refl) as [Hln Hsu]. clear Hn.
  unfold loop_of in *.
  set (s0 := mkL (if is_broadcast ty then length nodes else shortage) [] 0
                 (p_incnr p) (p_need p) (p_cache p) (p_heads p)) in *.
  pose proof (pn_loop_local_short0 true e nodes s0 Hin Hln) as Hs0.
  destruct Hsu as [Hsu|Hsu]; [lia|].
  pose proof (pn_loop_account nodes s0 Hln) as Hacc.
  destruct (pn_loop_heads true e nodes s0) as (hs & Hh & Hincl & Hnl & Hnd').
  rewrite Hs0, Hsu, Hh, hasc_app in Hacc. simpl in Hacc.
  exists (filter is_has hs). repeat split.
  - apply nodup_filter. auto.
  - intros x Hx. apply filter_In in Hx. apply Hincl. tauto.
  - intros Hx. apply filter_In in Hx. tauto.
  - rewrite Hh. apply in_or_app. right. apply filter_In in H. tauto.
  - apply filter_In in H. destruct H as [_ H]. unfold is_has in H.
    destruct (e_head e n); congruence.
  - unfold hasc in Hacc. lia.
Qed.

Lemma process_nodes_broadcast_need ty p nodes shortage :
  is_broadcast ty = true -> In (e_local e) nodes ->
  p_need (process_nodes true e ty p nodes shortage) = true.
Proof.
  intros Hb Hin.
  destruct (process_nodes_shape ty p nodes shortage) as (need & succ & Heq & _ & _ & Hn).
  rewrite Heq. simpl. apply Hn. unfold loop_of. rewrite Hb.
  apply pn_loop_broadcast_need; simpl; auto.
Qed.

(* ---- the rule loop -------------------------------------------------------------- *)
Lemma run_rules_app ty r1 r2 p :
  run_rules true e ty (r1 ++ r2) p = run_rules true e ty r2 (run_rules true e ty r1 p).
Proof. unfold run_rules. apply fold_left_app. Qed.

Lemma run_rules_need_mono ty rules : forall p,
  p_need p = true -> p_need (run_rules true e ty rules p) = true.
Proof.
  induction rules as [|r rs IH]; simpl; intros p H; auto.
  apply IH. apply process_nodes_need_mono. exact H.
Qed.

Lemma run_rules_heads ty rules : forall p,
  incl (p_heads p) (p_heads (run_rules true e ty rules p)).
Proof.
  induction rules as [|r rs IH]; simpl; intros p; [apply incl_refl|].
  eapply incl_tran; [|apply IH].
  destruct (process_nodes_heads ty p (fst r) (snd r)) as (hs & ->). apply incl_appl, incl_refl.
Qed.

Lemma run_rules_succ ty rules : forall p,
  incl (p_succ p) (p_succ (run_rules true e ty rules p)).
Proof.
  induction rules as [|r rs IH]; simpl; intros p; [apply incl_refl|].
  eapply incl_tran; [|apply IH].
  destruct (process_nodes_succ ty p (fst r) (snd r)) as (k & ->). apply incl_appl, incl_refl.
Qed.

Lemma run_rules_inv ty rules : forall p, Inv p -> Inv (run_rules true e ty rules p).
Proof.
  induction rules as [|r rs IH]; simpl; intros p H; auto.
  apply IH. apply process_nodes_inv. exact H.
Qed.

Lemma run_rules_incnr ty rules : forall p,
  p_incnr (run_rules true e ty rules p) = true ->
  p_incnr p = true \/ exists r, In r rules /\ In (e_local e) (fst r).
Proof.
  induction rules as [|r rs IH]; simpl; intros p H; auto.
  apply IH in H. destruct H as [H|[r' [H1 H2]]].
  - apply process_nodes_incnr in H. destruct H as [H|H]; auto.
    right. exists r. auto.
  - right. exists r'. auto.
Qed.

Lemma Inv_p0 : Inv p0.
Proof. unfold Inv, cache_ok, p0. simpl. intros n H. discriminate. Qed.

(* every rule that lists the local node *)
Lemma run_rules_drop_safe ty rules nodes req :
  In (nodes, req) rules -> NoDup nodes -> In (e_local e) nodes ->
  p_need (run_rules true e ty rules p0) = false ->
  exists hs, NoDup hs /\ incl hs nodes /\ ~ In (e_local e) hs
             /\ (forall n, In n hs ->
                   In n (p_heads (run_rules true e ty rules p0)) /\ e_head e n = Has)
             /\ (if is_broadcast ty then length nodes else req) <= length hs.
Proof.
  intros Hin Hnd Hl Hneed.
  apply in_split in Hin. destruct Hin as (r1 & r2 & ->).
  rewrite run_rules_app in Hneed |- *. simpl in Hneed |- *.
  set (p1 := run_rules true e ty r1 p0) in *.
  assert (p_need (process_nodes true e ty p1 nodes req) = false) as Hn1.
  { destruct (p_need (process_nodes true e ty p1 nodes req)) eqn:E; auto.
    rewrite (run_rules_need_mono ty r2 _ E) in Hneed. discriminate. }
  destruct (process_nodes_drop_safe ty p1 nodes req Hnd Hl Hn1) as (hs & H1 & H2 & H3 & H4 & H5).
  exists hs. repeat split; auto.
  - apply (run_rules_heads ty r2). apply H4. exact H.
  - apply H4. exact H.
Qed.

Lemma run_rules_broadcast_need ty rules nodes req :
  is_broadcast ty = true -> In (nodes, req) rules -> In (e_local e) nodes ->
  p_need (run_rules true e ty rules p0) = true.
Proof.
  intros Hb Hin Hl.
  apply in_split in Hin. destruct Hin as (r1 & r2 & ->).
  rewrite run_rules_app. simpl. apply run_rules_need_mono.
  apply process_nodes_broadcast_need; auto.
Qed.

End Fixed.

(* ---- processObject ---------------------------------------------------------------- *)

(* confirmed holder: the header was actually read from the node during this check,
   or a replication to it was reported and the node accepted it *)
Definition confirmed (e : env) (r : result) (n : node) : Prop :=
  (In n (r_heads r) /\ e_head e n = Has) \/ (In n (r_succ r) /\ e_rep e n = RStored).

(* the object is checked against the REP rules (not as an EC part) *)
Definition rep_path (ec : option (nat * nat)) (ecr : list (nat * nat)) : Prop :=
  ec = None \/ ecr = [].

Definition rules_of (ty : otype) (nn : list (list node)) (rep : list nat) (ecr : list (nat * nat)) :=
  combine nn (effective_rules ty nn rep ecr).

Lemma finish_rep_fields e ty shards pre p :
  r_heads (finish_rep e ty shards pre p) = p_heads p
  /\ r_succ (finish_rep e ty shards pre p) = p_succ p.
Proof.
  unfold finish_rep.
  destruct (p_need p); [|destruct (p_incnr p); [|destruct (negb (e_in_netmap e));
    [|destruct (negb (at_least_one_holder (p_cache p)))]]]; simpl; auto.
Qed.

Lemma finish_rep_redundant e ty shards pre p :
  ~ In MRedundant pre -> In MRedundant (r_dels (finish_rep e ty shards pre p)) ->
  p_need p = false
  /\ (p_incnr p = true \/ (e_in_netmap e = true /\ at_least_one_holder (p_cache p) = true)).
Proof.
  unfold finish_rep. intros Hpre.
  destruct (p_need p); simpl.
  { rewrite app_nil_r. tauto. }
  destruct (p_incnr p); simpl; [auto|].
  destruct (e_in_netmap e); simpl; [|rewrite app_nil_r; tauto].
  destruct (at_least_one_holder (p_cache p)); simpl; [auto|rewrite app_nil_r; tauto].
Qed.

Lemma finish_rep_need e ty shards pre p :
  p_need p = true -> r_dels (finish_rep e ty shards pre p) = pre.
Proof. unfold finish_rep. intros ->. simpl. apply app_nil_r. Qed.

Lemma effective_rules_nil ty nn rep : effective_rules ty nn rep [] = rep.
Proof. reflexivity. Qed.

Lemma process_object_rep_path e ty ec shards nn rep ecr :
  rep_path ec ecr ->
  process_object true e ty ec shards (NetOk nn rep ecr) = res_empty [MDefault]
  \/ exists pre, ~ In MRedundant pre /\ (ec = None -> pre = [])
       /\ process_object true e ty ec shards (NetOk nn rep ecr)
          = finish_rep e ty shards pre (run_rules true e ty (rules_of ty nn rep ecr) p0).
Proof.
  unfold rules_of. intros [->| ->]; simpl.
  - destruct ecr as [|x xs]; [|destruct ty; [destruct rep|..]]; auto;
      right; exists []; (split; [intros []|split; [reflexivity|reflexivity]]).
  - destruct ec as [[ri pi]|].
    + right. exists [MDefault]. split; [intros [H|[]]; discriminate|]. split; [discriminate|reflexivity].
    + right. exists []. split; [intros []|]. split; reflexivity.
Qed.

Lemma res_empty_default_no_redundant : ~ In MRedundant (r_dels (res_empty [MDefault])).
Proof. simpl. intros [H|[]]. discriminate. Qed.

(* C26, replication rules: redundant-mark removal => every rule that lists the
   local node has its required number of other nodes whose header was read *)
Theorem drop_safe e ty ec shards nn rep ecr :
  rep_path ec ecr ->
  let r := process_object true e ty ec shards (NetOk nn rep ecr) in
  In MRedundant (r_dels r) ->
  forall nodes req,
    In (nodes, req) (rules_of ty nn rep ecr) -> NoDup nodes -> In (e_local e) nodes ->
    exists hs, NoDup hs /\ incl hs nodes /\ ~ In (e_local e) hs
               /\ (forall n, In n hs -> confirmed e r n)
               /\ (if is_broadcast ty then length nodes else req) <= length hs.
Proof.
  intros Hp r Hdel nodes req Hin Hnd Hl. subst r.
  destruct (process_object_rep_path e ty ec shards nn rep ecr Hp) as [Heq|(pre & Hpre & _ & Heq)];
    rewrite Heq in Hdel |- *.
  { exfalso. apply res_empty_default_no_redundant. exact Hdel. }
  apply finish_rep_redundant in Hdel; auto. destruct Hdel as [Hneed _].
  destruct (run_rules_drop_safe e ty _ nodes req Hin Hnd Hl Hneed) as (hs & H1 & H2 & H3 & H4 & H5).
  exists hs. repeat (split; auto).
  intros n Hn. left. destruct (finish_rep_fields e ty shards pre
                                 (run_rules true e ty (rules_of ty nn rep ecr) p0)) as [-> _].
  apply H4. exact Hn.
Qed.

(* C26, node outside the container *)
Theorem outside_drop_safe e ty ec shards nn rep ecr :
  rep_path ec ecr ->
  let r := process_object true e ty ec shards (NetOk nn rep ecr) in
  In MRedundant (r_dels r) ->
  (forall nodes req, In (nodes, req) (rules_of ty nn rep ecr) -> ~ In (e_local e) nodes) ->
  e_in_netmap e = true /\ exists n, confirmed e r n.
Proof.
  intros Hp r Hdel Hout. subst r.
  destruct (process_object_rep_path e ty ec shards nn rep ecr Hp) as [Heq|(pre & Hpre & _ & Heq)];
    rewrite Heq in Hdel |- *.
  { exfalso. apply res_empty_default_no_redundant. exact Hdel. }
  apply finish_rep_redundant in Hdel; auto. destruct Hdel as [_ [Hin|[Hnm Hal]]].
  - exfalso. apply run_rules_incnr in Hin. destruct Hin as [Hin|[[nodes req] [H1 H2]]].
    + discriminate.
    + exact (Hout nodes req H1 H2).
  - split; auto.
    apply at_least_one_holder_ex in Hal. destruct Hal as [n Hn].
    exists n. unfold confirmed.
    destruct (finish_rep_fields e ty shards pre
                (run_rules true e ty (rules_of ty nn rep ecr) p0)) as [-> ->].
    apply (run_rules_inv e ty _ p0 (Inv_p0 e)). exact Hn.
Qed.

(* C26: LOCK and LINK objects are never removed from container nodes *)
Theorem lock_link_never_dropped e ty shards nn rep ecr nodes req :
  is_broadcast ty = true ->
  In (nodes, req) (rules_of ty nn rep ecr) -> In (e_local e) nodes ->
  r_dels (process_object true e ty None shards (NetOk nn rep ecr)) = [].
Proof.
  intros Hb Hin Hl. unfold rules_of in Hin. simpl.
  destruct ty; try discriminate Hb; destruct ecr as [|x xs];
    (rewrite finish_rep_need; [reflexivity|]; eapply run_rules_broadcast_need; eauto).
Qed.

(* ---- EC parts ------------------------------------------------------------------------ *)
Lemma ec_loop_spec e nodes : forall idxs cands maint heads,
  (forall i, In i idxs -> i < length nodes) ->
  match ec_loop e nodes idxs cands maint heads with
  | EcReturn true hs => exists n, In n hs /\ e_head e n = Has /\ n <> e_local e /\ In n nodes
  | EcReturn false _ => True
  | EcDone cands' _ _ => forall n, In n cands' -> In n cands \/ (n <> e_local e /\ In n nodes)
  end.
Proof.
  induction idxs as [|i r IH]; simpl; intros cands maint heads Hidx; auto.
  assert (In (nth i nodes 0) nodes) as Hnth by (apply nth_In; apply Hidx; auto).
  assert (forall j, In j r -> j < length nodes) as Hr by (intros; apply Hidx; auto).
  destruct (Nat.eqb (nth i nodes 0) (e_local e)) eqn:El.
  { destruct cands; auto. }
  apply Nat.eqb_neq in El.
  destruct (e_head e (nth i nodes 0)) eqn:Eh.
  - exists (nth i nodes 0). repeat split; auto. apply in_or_app. right. left. reflexivity.
  - specialize (IH (cands ++ [nth i nodes 0]) maint (heads ++ [nth i nodes 0]) Hr).
    destruct (ec_loop e nodes r (cands ++ [nth i nodes 0]) maint (heads ++ [nth i nodes 0])) as [[|] hs|c m hs]; auto.
    intros n Hn. apply IH in Hn. rewrite in_app_iff in Hn. simpl in Hn.
    destruct Hn as [[Hn|[Hn|[]]]|Hn]; auto. subst. auto.
  - apply IH; auto.
  - apply IH; auto.
Qed.

Lemma part_seq_bound part total n i : In i (part_seq part total n) -> i < n.
Proof.
  rewrite part_seq_eq. destruct total as [|t].
  - simpl. intros [].
  - apply node_seq_in. lia.
Qed.

Lemma process_ec_part_by_rule_safe e total part nodes :
  let r := process_ec_part_by_rule e total part nodes in
  In MRedundant (r_dels r) ->
  exists n, In n nodes /\ n <> e_local e /\ confirmed e r n.
Proof.
  unfold process_ec_part_by_rule.
  pose proof (ec_loop_spec e nodes (part_seq part total (length nodes)) [] false []
                (fun i H => part_seq_bound _ _ _ _ H)) as Hs.
  destruct (ec_loop e nodes (part_seq part total (length nodes)) [] false []) as [[|] hs|cands m hs]; simpl.
  - intros _. destruct Hs as (n & H1 & H2 & H3 & H4). exists n. repeat split; auto. left. auto.
  - intros [].
  - destruct m; simpl; [intros []|].
    destruct cands as [|c cs] eqn:Hc; simpl; [intros []|]. rewrite <- Hc in *.
    destruct (handle_task e 1 cands) as [sends succ] eqn:Ht. simpl.
    destruct succ as [|n k]; simpl; [intros []|]. intros _.
    destruct (handle_task_spec _ _ _ _ _ Ht) as (_ & H2 & H3 & H4 & _).
    assert (In n (n :: k)) as Hn by (left; reflexivity).
    destruct (H4 n Hn) as [Hrep Hnl].
    destruct (Hs n (H3 n (H2 n Hn))) as [[]|[_ Hin]].
    exists n. repeat split; auto. right. split; auto.
Qed.

(* C26, EC part: dropped only with a confirmed other holder in the rule's list *)
Theorem ec_drop_safe fx e ty shards nn rep ecr ri pi :
  ecr <> [] ->
  let r := process_object fx e ty (Some (ri, pi)) shards (NetOk nn rep ecr) in
  In MRedundant (r_dels r) ->
  exists n, In n (nth ri (skipn (length rep) nn) []) /\ n <> e_local e /\ confirmed e r n.
Proof.
  intros Hne. simpl. destruct ecr as [|x xs]; [congruence|].
  unfold process_ec_part. destruct (nth_error (x :: xs) ri) as [[d pr]|].
  - destruct (Nat.leb (d + pr) pi).
    + simpl. intros [H|[]]. discriminate.
    + apply process_ec_part_by_rule_safe.
  - simpl. intros [H|[]]. discriminate.
Qed.

(* removals with the default mark: the container is gone or the object's EC
   attributes do not fit the policy *)
Definition policy_mismatch (ty : otype) (ec : option (nat * nat)) (rep : list nat) (ecr : list (nat * nat)) : bool :=
  match ec with
  | Some (ri, pi) => match nth_error ecr ri with
                     | None => true
                     | Some (d, pr) => Nat.leb (d + pr) pi
                     end
  | None => match ty, rep, ecr with
            | Regular, [], _ :: _ => true
            | _, _, _ => false
            end
  end.

Theorem default_deletions_classified fx e ty ec shards net :
  In MDefault (r_dels (process_object fx e ty ec shards net)) ->
  net = NetNotFound
  \/ exists nn rep ecr, net = NetOk nn rep ecr /\ policy_mismatch ty ec rep ecr = true.
Proof.
  destruct net as [| |nn rep ecr]; simpl; auto.
  - intros [].
  - intros H. right. exists nn, rep, ecr. split; auto.
    destruct ec as [[ri pi]|]; simpl.
    + destruct ecr as [|x xs].
      * destruct ri; reflexivity.
      * unfold process_ec_part in H. destruct (nth_error (x :: xs) ri) as [[d pr]|]; auto.
        destruct (Nat.leb (d + pr) pi) eqn:E; auto.
        exfalso. unfold process_ec_part_by_rule in H.
        destruct (ec_loop e (nth ri (skipn (length rep) nn) [])
                    (part_seq pi (d + pr) (length (nth ri (skipn (length rep) nn) []))) [] false [])
          as [[|] hs|cands m hs]; simpl in H.
        -- destruct H as [H|[]]. discriminate.
        -- destruct H.
        -- destruct m; simpl in H; [destruct H|].
           destruct cands; simpl in H; [destruct H|].
           destruct (handle_task e 1 (n :: cands)) as [sends succ]. simpl in H.
           destruct succ; simpl in H; [destruct H|destruct H as [H|[]]; discriminate].
    + assert (forall rules, ~ In MDefault (r_dels (finish_rep e ty shards [] (run_rules fx e ty rules p0)))) as Hf.
      { intros rules. unfold finish_rep.
        destruct (p_need _); [|destruct (p_incnr _); [|destruct (negb (e_in_netmap e));
          [|destruct (negb (at_least_one_holder _))]]]; simpl; intros Hx;
          repeat (destruct Hx as [Hx|Hx]; try discriminate); auto. }
      destruct ecr as [|x xs]; [exfalso; eapply Hf; exact H|].
      destruct ty; try (exfalso; eapply Hf; exact H).
      destruct rep; [reflexivity|exfalso; eapply Hf; exact H].
Qed.

(* the code before the repair violates C26: [A: not found; M: maintenance; Local],
   REP 1, replication to A fails -> the local copy is removed with no confirmed holder *)
Definition refute_env : env :=
  mkEnv 3 true (fun _ => false)
        (fun n => match n with 1 => NotFound | 2 => Maint | _ => Err end)
        (fun _ => RFail) true.

Theorem unrepaired_refuted :
  let r := process_object false refute_env Regular None 1 (NetOk [[1; 2; 3]] [1] []) in
  In MRedundant (r_dels r)
  /\ In (e_local refute_env) [1; 2; 3]
  /\ forall n, ~ confirmed refute_env r n.
Proof.
  cbv zeta. split; [|split].
  - vm_compute. left. reflexivity.
  - vm_compute. right. right. left. reflexivity.
  - intros n [[H1 H2]|[H1 H2]].
    + vm_compute in H1. destruct H1 as [<-|[<-|[]]]; vm_compute in H2; discriminate.
    + vm_compute in H1. destruct H1.
Qed.

(* the same input on the repaired code keeps the copy *)
Lemma repaired_keeps_refute_input :
  r_dels (process_object true refute_env Regular None 1 (NetOk [[1; 2; 3]] [1] [])) = [].
Proof. vm_compute. reflexivity. Qed.
