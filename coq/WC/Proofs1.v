(* Proofs about the write-cache model, part 1: maps, counters arithmetic, size exactness. *)
From Coq Require Import List NArith Arith Bool Lia Permutation.
Import ListNotations.
From NV Require Import Base.U64 WC.Model.

Ltac inv H := inversion H; subst; clear H.
Ltac dmatch H :=
  repeat match type of H with
         | context [match ?x with _ => _ end] => let E := fresh "E" in destruct x eqn:E; try discriminate H
         | context [if ?x then _ else _] => let E := fresh "E" in destruct x eqn:E; try discriminate H
         end.

(* ------------------------------------------------------------------ maps *)
Lemma mem_In a l : mem a l = true <-> In a l.
Proof.
  unfold mem. rewrite existsb_exists. split.
  - intros [x [Hin He]]. apply Nat.eqb_eq in He. subst. exact Hin.
  - intros H. exists a. split; [exact H | apply Nat.eqb_refl].
Qed.

Lemma mem_false a l : mem a l = false <-> ~ In a l.
Proof. rewrite <- mem_In. destruct (mem a l); split; congruence. Qed.

Lemma nodupb_NoDup l : nodupb l = true <-> NoDup l.
Proof.
  induction l as [|a r IH]; simpl.
  - split; [constructor | reflexivity].
  - rewrite andb_true_iff, negb_true_iff, mem_false, IH. split.
    + intros [H1 H2]. constructor; assumption.
    + intros H. inv H. split; assumption.
Qed.

Lemma lookup_In_keys a m : lookup a m <> None <-> In a (keys m).
Proof.
  induction m as [|[b v] r IH]; simpl.
  - split; [congruence | tauto].
  - destruct (Nat.eqb a b) eqn:E.
    + apply Nat.eqb_eq in E. subst. split; [auto | intros _; discriminate].
    + apply Nat.eqb_neq in E. rewrite IH. split; [auto | intros [H|H]; [symmetry in H; contradiction | exact H]].
Qed.

Lemma lookup_None_keys a m : lookup a m = None <-> ~ In a (keys m).
Proof.
  rewrite <- lookup_In_keys. destruct (lookup a m); split; intros H.
  - discriminate.
  - exfalso. apply H. discriminate.
  - intros H'. apply H'. reflexivity.
  - reflexivity.
Qed.

Lemma keys_mset a v m : forall x, In x (keys (mset a v m)) <-> x = a \/ In x (keys m).
Proof.
  induction m as [|[b w] r IH]; simpl; intros x.
  - intuition.
  - destruct (Nat.eqb a b) eqn:E; simpl.
    + apply Nat.eqb_eq in E. subst. intuition.
    + rewrite IH. intuition.
Qed.

Lemma keys_mdel a m : forall x, In x (keys (mdel a m)) <-> x <> a /\ In x (keys m).
Proof.
  induction m as [|[b w] r IH]; simpl; intros x.
  - intuition.
  - destruct (Nat.eqb a b) eqn:E; simpl.
    + apply Nat.eqb_eq in E. subst. rewrite IH. intuition congruence.
    + apply Nat.eqb_neq in E. rewrite IH. intuition congruence.
Qed.

Lemma NoDup_keys_mset a v m : NoDup (keys m) -> NoDup (keys (mset a v m)).
Proof.
  induction m as [|[b w] r IH]; simpl; intros H.
  - constructor; [tauto | constructor].
  - inv H. destruct (Nat.eqb a b) eqn:E; simpl.
    + apply Nat.eqb_eq in E. subst. constructor; assumption.
    + apply Nat.eqb_neq in E. constructor; [| auto].
      rewrite keys_mset. intros [H|H]; [congruence | tauto].
Qed.

Lemma NoDup_keys_mdel a m : NoDup (keys m) -> NoDup (keys (mdel a m)).
Proof.
  induction m as [|[b w] r IH]; simpl; intros H.
  - constructor.
  - inv H. destruct (Nat.eqb a b); simpl; [auto|].
    constructor; [| auto]. rewrite keys_mdel. tauto.
Qed.

Lemma msum_mset a v m : (msum (mset a v m) + oz (lookup a m) = msum m + v)%N.
Proof.
  induction m as [|[b w] r IH]; simpl.
  - lia.
  - destruct (Nat.eqb a b); simpl; lia.
Qed.

Lemma msum_mdel a m : NoDup (keys m) -> (msum (mdel a m) + oz (lookup a m) = msum m)%N.
Proof.
  induction m as [|[b w] r IH]; simpl; intros H.
  - reflexivity.
  - inv H. destruct (Nat.eqb a b) eqn:E; simpl.
    + apply Nat.eqb_eq in E. subst.
      assert (Hn : lookup b r = None) by (apply lookup_None_keys; assumption).
      specialize (IH H3). rewrite Hn in IH. simpl in IH. lia.
    + specialize (IH H3). lia.
Qed.

Lemma lookup_le_msum a m : (oz (lookup a m) <= msum m)%N.
Proof.
  induction m as [|[b w] r IH]; simpl; [lia|].
  destruct (Nat.eqb a b); simpl; lia.
Qed.

Definition sizes_ok (m : amap) : Prop := forall e, In e m -> (snd e < two64)%N.

Lemma sizes_ok_lookup a m v : sizes_ok m -> lookup a m = Some v -> (v < two64)%N.
Proof.
  induction m as [|[b w] r IH]; simpl; intros H E; [discriminate|].
  destruct (Nat.eqb a b).
  - inv E. apply (H (b, v)). left. reflexivity.
  - apply IH; [| exact E]. intros e He. apply H. right. exact He.
Qed.

Lemma sizes_ok_mset a v m : (v < two64)%N -> sizes_ok m -> sizes_ok (mset a v m).
Proof.
  induction m as [|[b w] r IH]; simpl; intros Hv H e He.
  - destruct He as [He|[]]. subst. exact Hv.
  - destruct (Nat.eqb a b).
    + destruct He as [He|He]; [subst; exact Hv | apply H; right; exact He].
    + destruct He as [He|He]; [apply H; left; exact He |].
      apply IH; auto. intros e' He'. apply H. right. exact He'.
Qed.

Lemma sizes_ok_mdel a m : sizes_ok m -> sizes_ok (mdel a m).
Proof.
  induction m as [|[b w] r IH]; simpl; intros H e He; [destruct He|].
  assert (Hr : sizes_ok r) by (intros e' He'; apply H; right; exact He').
  destruct (Nat.eqb a b).
  - apply IH; assumption.
  - destruct He as [He|He]; [apply H; left; exact He | apply IH; assumption].
Qed.

(* ------------------------------------------------------------------ uint64 arithmetic of the counters *)
Lemma two64_pos : (two64 <> 0)%N. Proof. discriminate. Qed.

Lemma add64_wrap_l a b : add64 (wrap64 a) b = wrap64 (a + b).
Proof. unfold add64, wrap64. rewrite N.add_mod_idemp_l by exact two64_pos. reflexivity. Qed.

Lemma add64_wrap_r a b : add64 a (wrap64 b) = wrap64 (a + b).
Proof. unfold add64, wrap64. rewrite N.add_mod_idemp_r by exact two64_pos. reflexivity. Qed.

(* Add of the repaired code keeps  size = sum  (mod 2^64) *)
Lemma cnt_add_sum S sz old :
  (old <= S)%N -> (old < two64)%N ->
  add64 (wrap64 S) (sub64 sz old) = wrap64 (S + sz - old).
Proof.
  intros Hle Hold. unfold sub64. rewrite (wrap64_small old) by exact Hold.
  unfold add64, wrap64.
  rewrite N.add_mod_idemp_l, N.add_mod_idemp_r by exact two64_pos.
  replace (S + (sz + two64 - old))%N with ((S + sz - old) + 1 * two64)%N by lia.
  rewrite N.mod_add by exact two64_pos. reflexivity.
Qed.

Lemma cnt_del_sum S old :
  (old <= S)%N -> (old < two64)%N -> sub64 (wrap64 S) old = wrap64 (S - old).
Proof.
  intros Hle Hold. unfold sub64. rewrite (wrap64_small old) by exact Hold.
  unfold wrap64. rewrite <- N.add_sub_assoc by lia. rewrite N.add_mod_idemp_l by exact two64_pos.
  replace (S + (two64 - old))%N with ((S - old) + 1 * two64)%N by lia.
  rewrite N.mod_add by exact two64_pos. reflexivity.
Qed.

Lemma oz_lt m a : sizes_ok m -> (oz (lookup a m) < two64)%N.
Proof.
  intros H. destruct (lookup a m) eqn:E; simpl.
  - eapply sizes_ok_lookup; eauto.
  - reflexivity.
Qed.

(* ------------------------------------------------------------------ INV1: accounting is exact *)
Definition inv1 (s : st) : Prop :=
  cmap s = fs s /\ csize s = wrap64 (msum (cmap s)) /\ NoDup (keys (cmap s)) /\ sizes_ok (cmap s).

Lemma inv1_init : inv1 init.
Proof. repeat split; simpl; try constructor. intros e []. Qed.

Lemma inv1_cache_delete a s : inv1 s -> inv1 (cache_delete a s).
Proof.
  intros (Hm & Hs & Hn & Hz). unfold cache_delete.
  destruct (lookup a (fs s)) eqn:E; [| repeat split; assumption].
  simpl. repeat split; simpl.
  - rewrite Hm. reflexivity.
  - rewrite Hs. rewrite cnt_del_sum.
    + f_equal. pose proof (msum_mdel a (cmap s) Hn). lia.
    + apply lookup_le_msum.
    + apply oz_lt. exact Hz.
  - apply NoDup_keys_mdel. exact Hn.
  - apply sizes_ok_mdel. exact Hz.
Qed.

Lemma inv1_step p l s s' : inv1 s -> step p l s = Some s' -> inv1 s'.
Proof.
  intros I H. pose proof I as (Hm & Hs & Hn & Hz).
  destruct l; simpl in H.
  - (* LPut *)
    destruct (N.ltb sz two64) eqn:Esz; [| discriminate]. apply N.ltb_lt in Esz.
    inv H. repeat split; simpl.
    + rewrite Hm. reflexivity.
    + rewrite Hs. rewrite cnt_add_sum.
      * f_equal. pose proof (msum_mset a sz (cmap s)). lia.
      * apply lookup_le_msum.
      * apply oz_lt. exact Hz.
    + apply NoDup_keys_mset. exact Hn.
    + apply sizes_ok_mset; assumption.
  - inv H. apply inv1_cache_delete. exact I.
  - dmatch H. inv H. exact I.
  - dmatch H; inv H; exact I.
  - dmatch H; inv H; exact I.
  - dmatch H; inv H; exact I.
  - dmatch H. inv H. subst. pose proof (inv1_cache_delete a s I) as I'. exact I'.
  - dmatch H; inv H; exact I.
  - dmatch H. inv H. exact I.
  - dmatch H. inv H. repeat split; simpl.
    + rewrite <- Hm. exact Hn.
    + rewrite <- Hm. exact Hz.
Qed.

Lemma inv1_run p ls : forall s s', inv1 s -> run p ls s = Some s' -> inv1 s'.
Proof.
  induction ls as [|l r IH]; simpl; intros s s' I H.
  - inv H. exact I.
  - destruct (step p l s) eqn:E; [| discriminate]. eapply IH; [| exact H]. eapply inv1_step; eauto.
Qed.

Theorem size_exact_mod p s : reachable p s ->
  cmap s = fs s /\ csize s = wrap64 (msum (fs s)).
Proof.
  intros [ls H]. pose proof (inv1_run p ls init s inv1_init H) as (Hm & Hs & _). rewrite <- Hm. auto.
Qed.

(* the statement of the property: reported size = total size of the cached objects (no uint64 overflow
   of the total: it is bounded by the capacity of the disk) *)
Theorem size_exact p s : reachable p s -> (msum (fs s) < two64)%N -> csize s = msum (fs s).
Proof.
  intros R Hb. destruct (size_exact_mod p s R) as [_ H]. rewrite H. apply wrap64_small. exact Hb.
Qed.

(* the code before the repair of counters.Add: putting one object twice *)
Definition old_put (a : addr) (sz : N) (s : st) : st :=
  let '(m, z) := cnt_add_old a sz (cmap s) (csize s) in
  mkSt (mset a sz (fs s)) m z (infl s) (blob s) (sch s) (work s) (tok s).

Lemma old_add_inflates :
  let s := old_put 0 211%N (old_put 0 211%N init) in msum (fs s) = 211%N /\ csize s = 422%N.
Proof. vm_compute. split; reflexivity. Qed.
