(* C16 model: one address of a shard with a write-cache, all threads that can touch it.
   Definitions only.

   Threads are counted per program point (threads at the same point are indistinguishable):
     put    (shard.Put using the cache, writecache/put.go):  fsTree.Put -> objCounters.Add -> ack
     flush  (flushWorker / Flush / SetMode's flush, flush.go: flushSingle, flushBatch):
            read from cache -> storage.Put (ok | fail) -> fsTree.Delete -> objCounters.Delete
     read   (shard.fetchObjectData + writecache Get*/Head*, get.go):
            objCounters.HasAddress -> cache read -> on any miss: blob read
   plus read-only switches, re-Open on the same object (initCounters adds missing entries) and a restart
   of the process (threads die, counters are rebuilt from the directory).
   Values are presence bits: every writer writes the object's bytes and the flusher passes the bytes it
   read unchanged to the storage, so "identical bytes" is checked by the correspondence run, not here.
   Only reads that START after a successful put was acknowledged are counted (rhas/rno), and the object is
   never deleted by the user in these histories (the property ends at the delete). *)
From Coq Require Import List Arith Bool.
Import ListNotations.

Record s16 := mk16 {
  cfile : bool;   (* file in the cache directory *)
  ccnt : bool;    (* address in objCounters.objMap *)
  blobv : bool;   (* object in the main storage *)
  acked : bool;   (* some put through the cache returned success *)
  ro : bool;      (* cache in read-only mode *)
  p1 : nat;       (* puts after fsTree.Put, before objCounters.Add *)
  p2 : nat;       (* puts after objCounters.Add, before returning *)
  fgot : nat;     (* flushers that read the object from the cache *)
  fsto : nat;     (* flushers after a successful storage.Put *)
  fdel : nat;     (* flushers after fsTree.Delete, before objCounters.Delete *)
  rhas : nat;     (* counted readers after HasAddress = true *)
  rno : nat;      (* counted readers on their way to the blob storage *)
  rok : bool      (* every counted read completed so far returned the object *)
}.

Inductive l16 :=
| PutFile | PutCnt | PutAck
| FRead | FStore (ok : bool) | FDelFile | FDelCnt
| RStart | RCacheHit | RCacheMiss | RBlob
| SetRO (b : bool) | Reopen | Restart.

Definition init16 := mk16 false false false false false 0 0 0 0 0 0 0 true.

Definition step16 (l : l16) (s : s16) : option s16 :=
  let '(mk16 cf cc bl ak r a b g st d h n k) := s in
  match l with
  | PutFile => if r then None else Some (mk16 true cc bl ak r (S a) b g st d h n k)
  | PutCnt => match a with 0 => None | S a' => Some (mk16 cf true bl ak r a' (S b) g st d h n k) end
  | PutAck => match b with 0 => None | S b' => Some (mk16 cf cc bl true r a b' g st d h n k) end
  | FRead => if cf then Some (mk16 cf cc bl ak r a b (S g) st d h n k) else Some s
  | FStore ok => match g with 0 => None | S g' =>
                   if ok then Some (mk16 cf cc true ak r a b g' (S st) d h n k)
                   else Some (mk16 cf cc bl ak r a b g' st d h n k) end
  | FDelFile => match st with 0 => None | S st' =>
                   if r then Some (mk16 cf cc bl ak r a b g st' d h n k)          (* Delete refused: read-only *)
                   else if cf then Some (mk16 false cc bl ak r a b g st' (S d) h n k)
                   else Some (mk16 cf cc bl ak r a b g st' d h n k) end           (* not found: counters untouched *)
  | FDelCnt => match d with 0 => None | S d' => Some (mk16 cf false bl ak r a b g st d' h n k) end
  | RStart => if ak then (if cc then Some (mk16 cf cc bl ak r a b g st d (S h) n k)
                          else Some (mk16 cf cc bl ak r a b g st d h (S n) k))
              else None
  | RCacheHit => match h with 0 => None | S h' => if cf then Some (mk16 cf cc bl ak r a b g st d h' n k) else None end
  | RCacheMiss => match h with 0 => None | S h' => if cf then None else Some (mk16 cf cc bl ak r a b g st d h' (S n) k) end
  | RBlob => match n with 0 => None | S n' => Some (mk16 cf cc bl ak r a b g st d h n' (k && bl)) end
  | SetRO x => Some (mk16 cf cc bl ak x a b g st d h n k)
  | Reopen => Some (mk16 cf (cc || cf) bl ak r a b g st d h n k)
  | Restart => Some (mk16 cf cf bl ak false 0 0 0 0 0 0 0 k)
  end.

Fixpoint run16 (ls : list l16) (s : s16) : option s16 :=
  match ls with
  | [] => Some s
  | l :: r => match step16 l s with Some s' => run16 r s' | None => None end
  end.

(* the mutated orders, for the documentation lemmas: a flusher that removes the file before the
   storage write, a reader that asks the blob storage first *)
Definition bad_flush_first_delete : list l16 :=
  [PutFile; PutCnt; PutAck; FRead].
