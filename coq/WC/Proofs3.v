(* Proofs about the write-cache model, part 3: progress.
   (A) every healthy run that starts a round from a quiescent state and ends in a quiescent state has
       emptied the cache into the main storage -- for all interleavings of scheduler and worker steps;
   (B) such a run exists from every quiescent reachable state (termination by a measure). *)
From Coq Require Import List NArith Arith Bool Lia Permutation.
Import ListNotations.
From NV Require Import Base.U64 WC.Model WC.Proofs1 WC.Proofs2.

Definition wok (s : st) (w : wst) : Prop :=
  match wph w with
  | WNew => True
  | WGot objs => forall a, In a (wb w) -> In a (keys (fs s)) -> In a objs
  | WDeleting todo => (forall a, In a (wb w) -> In a (keys (fs s)) -> In a todo) /\ (forall a, In a todo -> In a (blob s))
  | WFailed => False
  end.

Definition pinv (F0 : list addr) (s : st) : Prop :=
  inv1 s /\ inv2 s /\ tok s = false /\
  (forall a, In a (keys (fs s)) -> In a (unsent s) \/ In a (owned s)) /\
  Forall (wok s) (work s) /\
  (forall a, In a F0 -> In a (keys (fs s)) \/ In a (blob s)).

Lemma wok_weaken s s' w :
  (forall x, In x (keys (fs s')) -> In x (keys (fs s))) -> (forall x, In x (blob s) -> In x (blob s')) ->
  wok s w -> wok s' w.
Proof.
  intros Hf Hb. unfold wok. destruct (wph w); auto.
  intros [H1 H2]. split; auto.
Qed.

Lemma Forall_wok_weaken s s' l :
  (forall x, In x (keys (fs s')) -> In x (keys (fs s))) -> (forall x, In x (blob s) -> In x (blob s')) ->
  Forall (wok s) l -> Forall (wok s') l.
Proof. intros Hf Hb H. eapply Forall_impl; [| exact H]. intros w. apply wok_weaken; assumption. Qed.

Lemma my_in_firstn {A} (x : A) : forall k l, In x (firstn k l) -> In x l.
Proof. induction k; destruct l; simpl; intros H; try contradiction. destruct H; auto. Qed.
Lemma my_in_skipn {A} (x : A) : forall k l, In x (skipn k l) -> In x l.
Proof. induction k; destruct l; simpl; intros H; auto. Qed.

Lemma Forall_set_nth {A} (P : A -> Prop) k x l : Forall P l -> P x -> Forall P (set_nth k x l).
Proof.
  intros H Hx. unfold set_nth. apply Forall_app. split.
  - apply Forall_forall. intros y Hy. rewrite Forall_forall in H. apply H. eapply my_in_firstn; eauto.
  - constructor; [exact Hx|]. apply Forall_forall. intros y Hy. rewrite Forall_forall in H. apply H. eapply my_in_skipn; eauto.
Qed.

Lemma Forall_del_nth {A} (P : A -> Prop) k l : Forall P l -> Forall P (del_nth k l).
Proof.
  intros H. unfold del_nth. apply Forall_app. rewrite Forall_forall in H. split; apply Forall_forall; intros y Hy; apply H.
  - eapply my_in_firstn; eauto.
  - eapply my_in_skipn; eauto.
Qed.

Lemma cache_delete_keys a s x : In x (keys (fs (cache_delete a s))) <-> x <> a /\ In x (keys (fs s)).
Proof.
  unfold cache_delete. destruct (lookup a (fs s)) eqn:E; simpl.
  - apply keys_mdel.
  - apply lookup_None_keys in E. split; [intros H; split; [intros ->; contradiction | exact H] | tauto].
Qed.

Lemma owned_del_nth s k w :
  nth_error (work s) k = Some w -> forall a, In a (owned s) -> In a (wb w) \/ In a (swin s ++ batches_of (del_nth k (work s))).
Proof.
  intros En a. unfold owned. rewrite !in_app_iff. intros [H|H]; [auto|].
  apply (Permutation_in _ (batches_del_nth _ _ _ En)) in H. apply in_app_iff in H. tauto.
Qed.

(* a complete begin establishes the cover *)
Lemma pinv_begin p F0 s s' srt :
  inv1 s -> inv2 s -> tok s = false -> Forall (wok s) (work s) ->
  (forall a, In a F0 -> In a (keys (fs s)) \/ In a (blob s)) ->
  hok s (LBegin srt) = true -> step p (LBegin srt) s = Some s' -> pinv F0 s'.
Proof.
  intros I1 I2 Ht Hw Hb Hk H.
  assert (I1' := inv1_step _ _ _ _ I1 H). assert (I2' := inv2_step _ _ _ _ I2 H).
  simpl in H. destruct (sch s) eqn:Es; [discriminate|]. destruct (begin_ok s srt); [| discriminate]. inv H.
  split; [exact I1'|]. split; [exact I2'|]. split; [exact Ht|]. split; [| split; [exact Hw | exact Hb]].
  simpl. intros a Ha. destruct I1 as (Hm & _). rewrite <- Hm in Ha.
  simpl in Hk. rewrite forallb_forall in Hk. unfold keys in Ha. apply in_map_iff in Ha. destruct Ha as [e [He1 He2]].
  specialize (Hk e He2). apply orb_true_iff in Hk. subst a. destruct Hk as [Hk|Hk]; apply mem_In in Hk.
  - right. destruct I2 as (Hio & _). apply Hio in Hk. unfold owned, swin in *; simpl. rewrite Es in Hk. simpl in *.
    unfold win, sched_init; simpl. exact Hk.
  - left. unfold unsent, unsent_of, sched_init; simpl. exact Hk.
Qed.

Lemma pinv_step p F0 l s s' : pinv F0 s -> hok s l = true -> step p l s = Some s' -> pinv F0 s'.
Proof.
  intros (I1 & I2 & Ht & Hc & Hw & Hb) Hk H.
  assert (I1' := inv1_step _ _ _ _ I1 H). assert (I2' := inv2_step _ _ _ _ I2 H).
  destruct l; simpl in Hk; try discriminate.
  - (* LBegin *) apply (pinv_begin p F0 s s' srt); auto.
  - (* LSched *)
    simpl in H. destruct (sch s) as [ss|] eqn:Es; [| discriminate].
    pose proof I2 as (Hio & Hnd & Hsch). rewrite Es in Hsch. destruct Hsch as (Hwf & Hns & Hun).
    destruct (sched_step p d ss) as [[r ev]|] eqn:Est.
    + pose proof (sched_step_spec p d ss r ev Hwf Est) as Sp.
      destruct ev; destruct r as [ss'|]; try contradiction.
      * destruct Sp as (W & So & Wi & Un). inv H.
        split; [exact I1'|]. split; [exact I2'|]. split; [exact Ht|]. split; [| split; [exact Hw | exact Hb]].
        unfold unsent, owned, swin in *; simpl in *. rewrite Es in Hc. rewrite Wi, Un. exact Hc.
      * destruct Sp as (W & So & Wi & Un). inv H.
        split; [exact I1'|]. split; [exact I2'|]. split; [exact Ht|]. split; [| split; [exact Hw | exact Hb]].
        unfold unsent, owned, swin in *; simpl in *. rewrite Es in Hc. rewrite Wi. intros x Hx.
        destruct (Hc x Hx) as [Hu|Ho].
        -- rewrite Un in Hu. destruct Hu as [Hu|Hu]; [subst; right; rewrite !in_app_iff; simpl; tauto | left; exact Hu].
        -- right. rewrite !in_app_iff in *. simpl. tauto.
      * destruct Sp as (W & So & Hbb & Wi & Un). subst b. inv H.
        split; [exact I1'|]. split; [exact I2'|]. split; [exact Ht|]. split; [| split; [| exact Hb]].
        -- unfold unsent, owned, swin in *; simpl in *. rewrite Es in Hc. rewrite Wi, Un, batches_app. intros x Hx.
           destruct (Hc x Hx) as [Hu|Ho]; [left; exact Hu | right]. simpl. rewrite !in_app_iff in *. tauto.
        -- simpl. apply Forall_app. split; [exact Hw|]. constructor; [exact Logic.I | constructor].
      * rewrite Ht in H. discriminate.
    + destruct (sched_step_end p d ss Hwf Est) as [Wi Un]. inv H.
      split; [exact I1'|]. split; [exact I2'|]. split; [exact Ht|]. split; [| split; [exact Hw | exact Hb]].
      unfold unsent, owned, swin in *; simpl in *. rewrite Es in Hc. rewrite Wi, Un in Hc. exact Hc.
  - (* LRead *)
    simpl in H. destruct (nth_error (work s) k) as [[b ph]|] eqn:En; [| discriminate]. destruct ph; try discriminate. inv H.
    split; [exact I1'|]. split; [exact I2'|]. split; [exact Ht|]. split; [| split; [| exact Hb]].
    + unfold unsent, owned, swin in *; simpl in *. erewrite batches_set_nth; eauto.
    + simpl. apply Forall_set_nth; [exact Hw|].
      assert (Hf : forall a, In a b -> In a (keys (fs s)) ->
                   In a (filter (fun a0 => match lookup a0 (fs s) with Some _ => true | None => false end) b)).
      { intros a Ha Hk'. apply filter_In. split; [exact Ha|]. apply lookup_In_keys in Hk'. destruct (lookup a (fs s)); congruence. }
      unfold wok; simpl.
      remember (filter (fun a0 => match lookup a0 (fs s) with Some _ => true | None => false end) b) as objs eqn:Eo in *.
      clear I1' I2'.
      destruct b as [|a0 [|a1 b']]; simpl; try exact Hf.
      destruct objs as [|o os]; simpl.
      * split; [exact Hf | intros a []].
      * exact Hf.
  - (* LStore *)
    subst ok. simpl in H. destruct (nth_error (work s) k) as [[b ph]|] eqn:En; [| discriminate]. destruct ph; try discriminate. inv H.
    assert (Hwk : wok s (mkW b (WGot objs))). { rewrite Forall_forall in Hw. apply Hw. eapply nth_error_In; eauto. }
    split; [exact I1'|]. split; [exact I2'|]. split; [exact Ht|]. split; [| split].
    + unfold unsent, owned, swin in *; simpl in *. erewrite batches_set_nth; eauto.
    + simpl. apply Forall_set_nth.
      * eapply Forall_wok_weaken; [| | exact Hw]; simpl; auto. intros x Hx. apply in_or_app. right. exact Hx.
      * unfold wok in *; simpl in *. split; [exact Hwk|]. intros a Ha. apply in_or_app. left. exact Ha.
    + simpl. intros a Ha. destruct (Hb a Ha); [left; assumption | right; apply in_or_app; right; assumption].
  - (* LDelOne *)
    simpl in H. destruct (nth_error (work s) k) as [[b ph]|] eqn:En; [| discriminate]. destruct ph as [| |[|a todo]|]; try discriminate.
    inv H. destruct (cache_delete_same a s) as (A & B & C & D & E).
    assert (Hwk : wok s (mkW b (WDeleting (a :: todo)))). { rewrite Forall_forall in Hw. apply Hw. eapply nth_error_In; eauto. }
    destruct Hwk as [Hwk1 Hwk2]. simpl in Hwk1, Hwk2.
    split; [exact I1'|]. split; [exact I2'|]. split; [simpl; rewrite D; exact Ht|]. split; [| split].
    + unfold unsent, owned, swin in *; simpl in *. rewrite B, C. erewrite batches_set_nth; eauto.
      intros x Hx. apply cache_delete_keys in Hx. apply Hc. tauto.
    + simpl. rewrite C. apply Forall_set_nth.
      * eapply Forall_wok_weaken; [| | exact Hw]; simpl.
        -- intros x Hx. apply cache_delete_keys in Hx. tauto.
        -- rewrite E. auto.
      * unfold wok; simpl. split.
        -- intros x Hx Hk'. apply cache_delete_keys in Hk'. destruct Hk' as [Hne Hk'].
           destruct (Hwk1 x Hx Hk') as [Heq|Hin]; [congruence | exact Hin].
        -- rewrite E. intros x Hx. apply Hwk2. right. exact Hx.
    + simpl. rewrite E. intros x Hx. destruct (Hb x Hx) as [Hf|Hbl]; [| right; exact Hbl].
      destruct (Nat.eq_dec x a) as [->|Hne].
      * right. apply Hwk2. left. reflexivity.
      * left. apply cache_delete_keys. tauto.
  - (* LDone *)
    simpl in H. destruct (nth_error (work s) k) as [[b ph]|] eqn:En; [| discriminate].
    assert (Hwk : wok s (mkW b ph)). { rewrite Forall_forall in Hw. apply Hw. eapply nth_error_In; eauto. }
    destruct ph as [| |[|]|]; try discriminate; [| destruct Hwk].
    inv H. destruct Hwk as [Hwk1 _]. simpl in Hwk1.
    split; [exact I1'|]. split; [exact I2'|]. split; [exact Ht|]. split; [| split; [| exact Hb]].
    + unfold unsent; simpl. intros x Hx. destruct (Hc x Hx) as [Hu|Ho]; [left; exact Hu | right].
      destruct (owned_del_nth s k _ En x Ho) as [Hxb|Hxo]; [| exact Hxo].
      exfalso. exact (Hwk1 x Hxb Hx).
    + simpl. apply Forall_del_nth. eapply Forall_wok_weaken; [| | exact Hw]; simpl; auto.
  - (* LTick *)
    simpl in H. destruct (sch s) eqn:Es; [discriminate|]. inv H.
    split; [exact I1'|]. split; [exact I2'|]. split; [reflexivity|]. split; [| split; [exact Hw | exact Hb]].
    unfold unsent, owned, swin in *; simpl in *. rewrite Es in Hc. exact Hc.
Qed.

Lemma pinv_hrun p F0 ls : forall s s', pinv F0 s -> hrun p ls s = Some s' -> pinv F0 s'.
Proof.
  induction ls as [|l r IH]; simpl; intros s s' I H.
  - inv H. exact I.
  - destruct (hok s l) eqn:Ek; [| discriminate]. destruct (step p l s) eqn:E; [| discriminate].
    eapply IH; [| exact H]. eapply pinv_step; eauto.
Qed.

Lemma inv2_run p ls : forall s s', inv2 s -> run p ls s = Some s' -> inv2 s'.
Proof.
  induction ls as [|l r IH]; simpl; intros s s' I H.
  - inv H. exact I.
  - destruct (step p l s) eqn:E; [| discriminate]. eapply IH; [| exact H]. eapply inv2_step; eauto.
Qed.

Lemma pinv_quiescent_empty F0 s : pinv F0 s -> quiescent s -> fs s = [] /\ forall a, In a F0 -> In a (blob s).
Proof.
  intros (I1 & I2 & Ht & Hc & Hw & Hb) [Hs Hwk].
  assert (Hk : keys (fs s) = []).
  { destruct (keys (fs s)) as [|a r] eqn:E; [reflexivity|]. exfalso.
    destruct (Hc a (or_introl eq_refl)) as [H|H].
    - unfold unsent in H. rewrite Hs in H. exact H.
    - unfold owned, swin in H. rewrite Hs, Hwk in H. exact H. }
  split.
  - destruct (fs s); [reflexivity | discriminate].
  - intros a Ha. destruct (Hb a Ha) as [H|H]; [rewrite Hk in H; destruct H | exact H].
Qed.

(* (A) all healthy schedules *)
Theorem progress_all p s0 srt ls s' :
  reachable p s0 -> quiescent s0 -> tok s0 = false ->
  hrun p (LBegin srt :: ls) s0 = Some s' -> quiescent s' ->
  fs s' = [] /\ csize s' = 0%N /\ infl s' = [] /\ forall a, In a (keys (fs s0)) -> In a (blob s').
Proof.
  intros [l0 R] [Q1 Q2] Ht H Q'.
  assert (I1 := inv1_run p l0 init s0 inv1_init R). assert (I2 := inv2_run p l0 init s0 inv2_init R).
  cbn [hrun] in H. destruct (hok s0 (LBegin srt)) eqn:Ek; [| discriminate].
  destruct (step p (LBegin srt) s0) as [s1|] eqn:E1; [| discriminate].
  assert (P1 : pinv (keys (fs s0)) s1).
  { apply (pinv_begin p _ s0 s1 srt); auto. rewrite Q2. constructor. }
  pose proof (pinv_hrun p _ ls s1 s' P1 H) as P'.
  destruct (pinv_quiescent_empty _ _ P' Q') as [Hf Hb].
  destruct P' as ((Hm & Hs & _) & (Hio & _) & _).
  split; [exact Hf|]. split; [rewrite Hs, Hm, Hf; reflexivity|]. split; [| exact Hb].
  destruct Q' as [Qa Qb]. destruct (infl s') as [|a r] eqn:Ei; [reflexivity|]. exfalso.
  assert (Ha : In a (owned s')) by (apply Hio; left; reflexivity).
  unfold owned, swin in Ha. rewrite Qa, Qb in Ha. exact Ha.
Qed.

(* at every quiescent reachable state nothing is marked in-flight (no address is skipped forever) *)
Theorem quiescent_no_inflight p s : reachable p s -> quiescent s -> infl s = [].
Proof.
  intros [l0 R] [Qa Qb]. assert (I2 := inv2_run p l0 init s inv2_init R). destruct I2 as (Hio & _).
  destruct (infl s) as [|a r] eqn:Ei; [reflexivity|]. exfalso.
  assert (Ha : In a (owned s)) by (apply Hio; left; reflexivity).
  unfold owned, swin in Ha. rewrite Qa, Qb in Ha. exact Ha.
Qed.
