(* Proofs about the write-cache model, part 4: a healthy run to quiescence exists (termination measure),
   the snapshot of a quiescent state is a legal and complete round start; scheduler coverage. *)
From Coq Require Import List NArith Arith Bool Lia Permutation.
Import ListNotations.
From NV Require Import Base.U64 WC.Model WC.Proofs1 WC.Proofs2 WC.Proofs3.

(* ------------------------------------------------------------------ sorting keeps the entries *)
Lemma ins_sorted_perm x l : Permutation (ins_sorted x l) (x :: l).
Proof.
  induction l as [|y r IH]; simpl; [reflexivity|].
  destruct (entry_le x y); [reflexivity|]. rewrite IH. apply perm_swap.
Qed.

Lemma sort_entries_perm l : Permutation (sort_entries l) l.
Proof.
  induction l as [|x r IH]; simpl; [reflexivity|]. rewrite ins_sorted_perm. constructor. exact IH.
Qed.

Lemma In_lookup a v m : NoDup (keys m) -> In (a, v) m -> lookup a m = Some v.
Proof.
  induction m as [|[b w] r IH]; simpl; intros Hn H; [contradiction|]. inv Hn.
  destruct H as [H|H].
  - inv H. rewrite Nat.eqb_refl. reflexivity.
  - destruct (Nat.eqb a b) eqn:E.
    + apply Nat.eqb_eq in E. subst. exfalso. apply H2. unfold keys. apply in_map_iff. exists (b, v). auto.
    + auto.
Qed.

Lemma NoDup_keys_filter (f : addr * N -> bool) m : NoDup (keys m) -> NoDup (keys (filter f m)).
Proof.
  induction m as [|[b w] r IH]; simpl; intros Hn; [constructor|]. inv Hn.
  destruct (f (b, w)); simpl; [| auto].
  constructor; [| auto]. intros H. apply H1. unfold keys in *. apply in_map_iff in H. destruct H as [e [He1 He2]].
  apply filter_In in He2. apply in_map_iff. exists e. tauto.
Qed.

Lemma snapshot_begin_ok s : inv1 s -> begin_ok s (snapshot s) = true /\ hok s (LBegin (snapshot s)) = true.
Proof.
  intros (Hm & Hs & Hn & Hz). unfold begin_ok, snapshot.
  set (flt := filter (fun e => negb (mem (fst e) (infl s))) (cmap s)).
  assert (P : Permutation (sort_entries flt) flt) by apply sort_entries_perm.
  assert (Hin : forall e, In e (sort_entries flt) <-> In e (cmap s) /\ mem (fst e) (infl s) = false).
  { intros e. rewrite (perm_in_iff _ _ e P). unfold flt. rewrite filter_In, negb_true_iff. tauto. }
  split.
  - rewrite !andb_true_iff. repeat split.
    + apply nodupb_NoDup. apply (Permutation_NoDup (l := keys flt)).
      * unfold keys. apply Permutation_map. symmetry. exact P.
      * unfold flt. apply NoDup_keys_filter. exact Hn.
    + apply forallb_forall. intros [a v] He. apply Hin in He. destruct He as [He _]. simpl.
      rewrite (In_lookup a v _ Hn He). apply N.eqb_refl.
    + apply forallb_forall. intros e He. apply Hin in He. destruct He as [_ He]. rewrite He. reflexivity.
  - simpl. apply forallb_forall. intros e He. destruct (mem (fst e) (infl s)) eqn:E; [reflexivity|]. simpl.
    apply mem_In. unfold keys. apply in_map. apply Hin. tauto.
Qed.

(* ------------------------------------------------------------------ the scheduler finishes its round *)
Definition msched (ss : sst) : nat :=
  3 * (length (sorted ss) - si ss) + 1 - match pc ss with PTop => 0 | PAppend => 1 | PPost => 2 end.

Lemma sched_step_send_decreases p ss r ev :
  sched_step p DSend ss = Some (r, ev) ->
  exists ss', r = Some ss' /\ msched ss' < msched ss /\ (forall b, ev <> SAbort b).
Proof.
  unfold sched_step, sched_step_gen. destruct (finished ss) eqn:Ef; [discriminate|]. apply finished_false in Ef.
  unfold msched. destruct (pc ss) eqn:Epc.
  - destruct (pre_flush p ss); intros H; inv H; eexists; (split; [reflexivity|]); simpl; (split; [lia | discriminate]).
  - intros H; inv H; eexists; (split; [reflexivity|]); simpl; (split; [lia | discriminate]).
  - destruct (post_flush p ss); intros H; inv H; eexists; (split; [reflexivity|]); simpl; (split; [lia | discriminate]).
Qed.

Lemma sched_finish p : forall n s ss, sch s = Some ss -> msched ss <= n ->
  exists ls s', hrun p ls s = Some s' /\ sch s' = None.
Proof.
  induction n as [|n IH]; intros s ss Es Hm;
  (destruct (sched_step p DSend ss) as [[r ev]|] eqn:Est;
   [ destruct (sched_step_send_decreases p ss r ev Est) as (ss' & -> & Hlt & Hna)
   | exists [LSched DSend]; eexists; split;
     [ cbn [hrun]; change (hok s (LSched DSend)) with true; cbv iota; cbn [step]; rewrite Es, Est; reflexivity
     | reflexivity ] ]).
  - lia.
  - assert (Hst : exists s1, step p (LSched DSend) s = Some s1 /\ sch s1 = Some ss').
    { simpl. rewrite Es, Est. destruct ev; try (eexists; split; reflexivity). exfalso. eapply Hna; reflexivity. }
    destruct Hst as (s1 & Hs1 & Es1).
    destruct (IH s1 ss' Es1 ltac:(lia)) as (ls & s' & Hr & Hn).
    exists (LSched DSend :: ls), s'. split; [| exact Hn].
    cbn [hrun]. change (hok s (LSched DSend)) with true. cbv iota. rewrite Hs1. exact Hr.
Qed.

(* ------------------------------------------------------------------ the workers finish their batches *)
Definition mwork (w : wst) : nat :=
  match wph w with
  | WNew => length (wb w) + 3
  | WGot objs => length objs + 2
  | WDeleting todo => length todo + 1
  | WFailed => 1
  end.
Definition mworks (l : list wst) : nat := fold_right (fun w acc => mwork w + acc) 0 l.

Lemma filter_length_le {A} (f : A -> bool) l : length (filter f l) <= length l.
Proof. induction l as [|x r IH]; simpl; [lia|]. destruct (f x); simpl; lia. Qed.

Lemma work_finish p : forall n s, sch s = None -> mworks (work s) <= n ->
  exists ls s', hrun p ls s = Some s' /\ sch s' = None /\ work s' = [].
Proof.
  induction n as [|n IH]; intros s Es Hm.
  - destruct (work s) as [|w r] eqn:Ew.
    + exists [], s. simpl. auto.
    + simpl in Hm. unfold mwork in Hm. destruct (wph w); lia.
  - destruct (work s) as [|[b ph] r] eqn:Ew.
    + exists [], s. simpl. auto.
    + assert (Hnext : exists l s1, hok s l = true /\ step p l s = Some s1 /\ sch s1 = None /\ mworks (work s1) <= n).
      { simpl in Hm. unfold mwork in Hm; simpl in Hm. destruct ph as [|objs|[|a todo]|].
        - exists (LRead 0). eexists. split; [reflexivity|]. simpl. rewrite Ew. simpl. split; [reflexivity|]. split; [exact Es|].
          unfold set_nth; simpl.
          pose proof (filter_length_le (fun a => match lookup a (fs s) with Some _ => true | None => false end) b) as Hfl.
          destruct b as [|a0 [|a1 b']]; simpl in *; unfold mwork; simpl.
          + lia.
          + destruct (lookup a0 (fs s)); simpl; lia.
          + simpl in Hfl. lia.
        - exists (LStore 0 true). eexists. split; [reflexivity|]. simpl. rewrite Ew. simpl. split; [reflexivity|]. split; [exact Es|].
          unfold set_nth, mworks, mwork in *; simpl in *; lia.
        - exists (LDone 0). eexists. split; [reflexivity|]. simpl. rewrite Ew. simpl. split; [reflexivity|]. split; [exact Es|].
          unfold del_nth, mworks, mwork in *; simpl in *; lia.
        - exists (LDelOne 0). eexists. split; [reflexivity|]. simpl. rewrite Ew. simpl. split; [reflexivity|].
          destruct (cache_delete_same a s) as (A & B & C & _). simpl. rewrite B, C, Ew. split; [exact Es|].
          unfold set_nth, mworks, mwork in *; simpl in *; lia.
        - exists (LDone 0). eexists. split; [reflexivity|]. simpl. rewrite Ew. simpl. split; [reflexivity|]. split; [exact Es|].
          unfold del_nth, mworks, mwork in *; simpl in *; lia. }
      destruct Hnext as (l & s1 & Hk & Hs1 & Es1 & Hm1).
      destruct (IH s1 Es1 Hm1) as (ls & s' & Hr & Hn & Hw).
      exists (l :: ls), s'. split; [| auto]. cbn [hrun]. rewrite Hk, Hs1. exact Hr.
Qed.

Lemma hrun_app p l1 : forall l2 s s1 s2, hrun p l1 s = Some s1 -> hrun p l2 s1 = Some s2 -> hrun p (l1 ++ l2) s = Some s2.
Proof.
  induction l1 as [|l r IH]; simpl; intros l2 s s1 s2 H1 H2.
  - inv H1. exact H2.
  - destruct (hok s l); [| discriminate]. destruct (step p l s); [| discriminate]. eapply IH; eauto.
Qed.

Lemma hrun_run p ls : forall s s', hrun p ls s = Some s' -> run p ls s = Some s'.
Proof.
  induction ls as [|l r IH]; simpl; intros s s' H; [exact H|].
  destruct (hok s l); [| discriminate]. destruct (step p l s); [| discriminate]. auto.
Qed.

(* (B) from every quiescent reachable state some healthy schedule of one round reaches quiescence
   (and by (A) every such schedule empties the cache) *)
Theorem progress_exists p s0 :
  reachable p s0 -> quiescent s0 ->
  exists ls s', hrun p (LTick :: LBegin (snapshot s0) :: ls) s0 = Some s' /\ quiescent s' /\
                fs s' = [] /\ csize s' = 0%N /\ infl s' = [] /\ forall a, In a (keys (fs s0)) -> In a (blob s').
Proof.
  intros R Q. pose proof R as [l0 R0]. pose proof Q as [Q1 Q2].
  assert (I1 := inv1_run p l0 init s0 inv1_init R0).
  set (s0' := mkSt (fs s0) (cmap s0) (csize s0) (infl s0) (blob s0) None (work s0) false).
  assert (Ht : step p LTick s0 = Some s0') by (simpl; rewrite Q1; reflexivity).
  assert (R' : reachable p s0').
  { exists (l0 ++ [LTick]). clear I1. revert R0 Ht. generalize init. induction l0 as [|l r IH]; simpl; intros i R0 Ht.
    - inv R0. rewrite Ht. reflexivity.
    - destruct (step p l i); [| discriminate]. auto. }
  assert (Q' : quiescent s0') by (split; [reflexivity | exact Q2]).
  assert (I1' : inv1 s0') by exact I1.
  destruct (snapshot_begin_ok s0' I1') as [Hb Hk].
  assert (Hsn : snapshot s0' = snapshot s0) by reflexivity.
  destruct (step p (LBegin (snapshot s0')) s0') as [s1|] eqn:E1.
  2:{ simpl in E1. rewrite Hb in E1. discriminate. }
  assert (Es1 : exists ss, sch s1 = Some ss).
  { simpl in E1. rewrite Hb in E1. inv E1. eexists. reflexivity. }
  destruct Es1 as [ss Es1].
  destruct (sched_finish p (msched ss) s1 ss Es1 (le_n _)) as (la & s2 & Ha & Es2).
  destruct (work_finish p (mworks (work s2)) s2 Es2 (le_n _)) as (lb & s3 & Hb3 & Es3 & Ew3).
  assert (Hrun : hrun p (LBegin (snapshot s0') :: la ++ lb) s0' = Some s3).
  { cbn [hrun]. rewrite Hk, E1. eapply hrun_app; eauto. }
  assert (Q3 : quiescent s3) by (split; assumption).
  destruct (progress_all p s0' (snapshot s0') (la ++ lb) s3 R' Q' eq_refl Hrun Q3) as (F & C & I & B).
  exists (la ++ lb), s3. split.
  - cbn [hrun]. change (hok s0 LTick) with true. cbv iota. rewrite Ht. rewrite <- Hsn. exact Hrun.
  - repeat split; auto.
Qed.

(* ------------------------------------------------------------------ coverage by an undisturbed round *)
(* Every address of the snapshot is handed to a worker exactly once, in order.  (The code before the
   repair sent [[0];[0];[1]] for three objects above the threshold: see old_round_loses_last.) *)
Lemma round_cover_aux p : forall fuel ss,
  swf ss -> msched ss <= fuel ->
  concat (round_batches_gen false fuel p ss) = win ss ++ unsent_of ss.
Proof.
  induction fuel as [|f IH]; intros ss Hwf Hm.
  - exfalso. destruct Hwf as [Hle Hpc]. unfold msched in Hm. destruct (pc ss); lia.
  - simpl. fold (sched_step p DSend ss). destruct (sched_step p DSend ss) as [[r ev]|] eqn:Est.
    + destruct (sched_step_send_decreases p ss r ev Est) as (ss' & -> & Hlt & Hna).
      pose proof (sched_step_spec p DSend ss _ _ Hwf Est) as Sp.
      destruct ev.
      * destruct Sp as (W & So & Wi & Un). rewrite IH by (auto; lia). rewrite Wi, Un. reflexivity.
      * destruct Sp as (W & So & Wi & Un). rewrite IH by (auto; lia). rewrite Wi, Un. rewrite <- app_assoc. reflexivity.
      * destruct Sp as (W & So & Hb & Wi & Un). subst b. simpl. rewrite IH by (auto; lia). rewrite Wi, Un. reflexivity.
      * exfalso. eapply Hna. reflexivity.
    + destruct (sched_step_end p DSend ss Hwf Est) as [Wi Un]. rewrite Wi, Un. reflexivity.
Qed.

Theorem round_batches_cover p srt : concat (round_batches p srt) = keys srt.
Proof.
  unfold round_batches. rewrite round_cover_aux.
  - unfold win, unsent_of, sched_init; simpl. reflexivity.
  - apply swf_init.
  - unfold msched, sched_init; simpl. lia.
Qed.

Lemma old_round_loses_last :
  round_batches_old (mkP 300 128 8388608) [(0, 1012%N); (1, 1022%N); (2, 1032%N)] = [[0]; [0]; [1]].
Proof. vm_compute. reflexivity. Qed.
