(* C16 proofs: every read that starts after an acknowledged put returns the object, under every
   interleaving with flushes (succeeding or failing), further puts, mode switches, reopen and restart. *)
From Coq Require Import List Arith Bool Lia.
Import ListNotations.
From NV Require Import WC.Model16.

Definition inv16 (s : s16) : Prop :=
  (fsto s + fdel s > 0 -> blobv s = true) /\
  (acked s = true \/ p1 s + p2 s > 0 -> cfile s = true \/ blobv s = true) /\
  ((acked s = true \/ p2 s > 0) -> ccnt s = false -> blobv s = true) /\
  (rno s > 0 -> blobv s = true) /\
  (rhas s + rno s > 0 -> acked s = true) /\
  rok s = true.

Lemma inv16_init : inv16 init16.
Proof. unfold inv16, init16; simpl. repeat split; intros; try lia; try discriminate; intuition (try lia; try discriminate). Qed.

Ltac bools :=
  repeat match goal with
         | b : bool |- _ => destruct b
         end.

Ltac fwd :=
  repeat match goal with
         | J : ?P -> ?Q |- _ =>
             let X := fresh in
             assert (X : P) by (first [lia | reflexivity | assumption | left; reflexivity | left; lia | right; lia]);
             specialize (J X); clear X
         end.

Ltac done16 :=
  fwd; repeat match goal with H : _ \/ _ |- _ => destruct H end;
  try discriminate; try lia; try reflexivity; try assumption;
  try (left; reflexivity); try (right; reflexivity); try (left; assumption); try (right; assumption).

Lemma inv16_step l s s' : inv16 s -> step16 l s = Some s' -> inv16 s'.
Proof.
  intros (J1 & J2 & J3 & J4 & J5 & J6) H.
  destruct s as [cf cc bl ak r a b g st d h n k]. simpl in *. subst k.
  destruct l; simpl in H;
    repeat match type of H with
           | context [match ?x with _ => _ end] => destruct x eqn:?; try discriminate H
           end;
    inversion H; subst; clear H; unfold inv16; simpl; bools; simpl in *;
    repeat split; intros; done16.
Qed.

Lemma inv16_run ls : forall s s', inv16 s -> run16 ls s = Some s' -> inv16 s'.
Proof.
  induction ls as [|l r IH]; simpl; intros s s' I H.
  - inversion H; subst. exact I.
  - destruct (step16 l s) eqn:E; [| discriminate]. eapply IH; [| exact H]. eapply inv16_step; eauto.
Qed.

(* every counted read returned the object; a counted reader on its way to the blob will find it *)
Theorem read_found ls s : run16 ls init16 = Some s -> rok s = true /\ (rno s > 0 -> blobv s = true).
Proof.
  intros H. destruct (inv16_run ls init16 s inv16_init H) as (_ & _ & _ & J4 & _ & J6). auto.
Qed.

(* at every point after the acknowledgement the bytes are in the cache or in the blob storage *)
Theorem cache_or_blob ls s : run16 ls init16 = Some s -> acked s = true -> cfile s = true \/ blobv s = true.
Proof.
  intros H A. destruct (inv16_run ls init16 s inv16_init H) as (_ & J2 & _). auto.
Qed.

(* a flusher that got past storage.Put (in particular one that finished and removed the object from the
   cache) has left the object in the blob storage; the blob storage never loses it *)
Theorem after_flush_in_blob ls s : run16 ls init16 = Some s -> fsto s + fdel s > 0 -> blobv s = true.
Proof.
  intros H A. destruct (inv16_run ls init16 s inv16_init H) as (J1 & _). auto.
Qed.

Lemma blob_monotone l s s' : step16 l s = Some s' -> blobv s = true -> blobv s' = true.
Proof.
  destruct s as [cf cc bl ak r a b g st d h n k]. simpl. intros H E. subst bl.
  destruct l; simpl in H;
    repeat match type of H with
           | context [match ?x with _ => _ end] => destruct x eqn:?; try discriminate H
           end; inversion H; subst; reflexivity.
Qed.

(* acknowledged object, flushed completely (not in the cache any more): it is in the blob storage *)
Theorem flushed_means_in_blob ls s : run16 ls init16 = Some s -> acked s = true -> cfile s = false -> blobv s = true.
Proof.
  intros H A C. destruct (cache_or_blob ls s H A) as [X|X]; [congruence | exact X].
Qed.
