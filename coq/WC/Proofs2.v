(* Proofs about the write-cache model, part 2: the scheduler window and the in-flight set (INV2):
   at every reachable state  flushObjs = (addresses of the batch under construction) + (batches held by
   workers), without repetition.  Hence nothing is ever left marked without an owner that unmarks it. *)
From Coq Require Import List NArith Arith Bool Lia Permutation.
Import ListNotations.
From NV Require Import Base.U64 WC.Model WC.Proofs1.

(* ------------------------------------------------------------------ lists *)
Lemma firstn_S_nth {A} (d : A) : forall (l : list A) k, k < length l -> firstn (S k) l = firstn k l ++ [nth k l d].
Proof.
  induction l as [|x r IH]; intros k H; simpl in H; [lia|].
  destruct k; simpl; [reflexivity|]. f_equal. apply IH. lia.
Qed.

Lemma skipn_nth_cons {A} (d : A) : forall (l : list A) k, k < length l -> skipn k l = nth k l d :: skipn (S k) l.
Proof.
  induction l as [|x r IH]; intros k H; simpl in H; [lia|].
  destruct k; simpl; [reflexivity|]. apply IH. lia.
Qed.

Lemma nth_skipn {A} (d : A) : forall (l : list A) s k, nth k (skipn s l) d = nth (s + k) l d.
Proof.
  induction l as [|x r IH]; intros s k.
  - rewrite skipn_nil. destruct k, s; reflexivity.
  - destruct s; simpl; [reflexivity|]. apply IH.
Qed.

Lemma NoDup_app_r {A} (l1 l2 : list A) : NoDup (l1 ++ l2) -> NoDup l2.
Proof. induction l1 as [|x r IH]; simpl; intros H; [exact H|]. inv H. auto. Qed.

Lemma NoDup_app_disj {A} (l1 l2 : list A) x : NoDup (l1 ++ l2) -> In x l1 -> In x l2 -> False.
Proof.
  induction l1 as [|y r IH]; simpl; intros H H1 H2; [contradiction|]. inv H.
  destruct H1 as [H1|H1]; [subst; apply H4; apply in_or_app; right; exact H2 | eauto].
Qed.

Lemma perm_in_iff {A} (l1 l2 : list A) x : Permutation l1 l2 -> (In x l1 <-> In x l2).
Proof. intros P. split; [apply Permutation_in; exact P | apply Permutation_in; symmetry; exact P]. Qed.

Lemma NoDup_skipn {A} (l : list A) k : NoDup l -> NoDup (skipn k l).
Proof.
  intros H. rewrite <- (firstn_skipn k l) in H. apply NoDup_app_r in H. exact H.
Qed.

Lemma nth_split_at {A} (l : list A) k w : nth_error l k = Some w -> l = firstn k l ++ w :: skipn (S k) l.
Proof.
  revert k. induction l as [|x r IH]; intros k H; destruct k; simpl in *; try discriminate.
  - inv H. reflexivity.
  - f_equal. apply IH. exact H.
Qed.

Lemma infl_add_In a l x : In x (infl_add a l) <-> x = a \/ In x l.
Proof.
  unfold infl_add. destruct (mem a l) eqn:E; simpl.
  - apply mem_In in E. split; [auto | intros [H|H]; [subst; exact E | exact H]].
  - split; intros [H|H]; auto.
Qed.

Lemma infl_del_In a l x : In x (infl_del a l) <-> In x l /\ x <> a.
Proof.
  unfold infl_del. rewrite filter_In, negb_true_iff, Nat.eqb_neq. intuition congruence.
Qed.

Lemma infl_del_all_In b l x : In x (infl_del_all b l) <-> In x l /\ ~ In x b.
Proof.
  induction b as [|a r IH]; simpl.
  - tauto.
  - rewrite infl_del_In, IH. intuition congruence.
Qed.

(* ------------------------------------------------------------------ scheduler window *)
Definition swf (ss : sst) : Prop :=
  si ss <= length (sorted ss) /\
  match pc ss with
  | PTop => ws ss + wl ss = si ss /\ (si ss = length (sorted ss) -> wl ss = 0)
  | PAppend => ws ss + wl ss = si ss /\ si ss < length (sorted ss)
  | PPost => ws ss + wl ss = S (si ss) /\ si ss < length (sorted ss)
  end.

Definition unsent_of (ss : sst) : list addr := keys (skipn (ws ss + wl ss) (sorted ss)).

Lemma finished_false ss : finished ss = false -> si ss < length (sorted ss).
Proof. unfold finished. intros H. apply Nat.leb_gt in H. exact H. Qed.

Lemma swf_init srt : swf (sched_init srt).
Proof. unfold swf, sched_init; simpl. split; [lia|]. split; [reflexivity | intros _; reflexivity]. Qed.

Lemma win_append ss :
  ws ss + wl ss = si ss -> si ss < length (sorted ss) ->
  keys (firstn (S (wl ss)) (skipn (ws ss) (sorted ss))) = win ss ++ [fst (cur ss)].
Proof.
  intros H1 H2. unfold win, cur, keys.
  rewrite (firstn_S_nth (0, 0%N)).
  - rewrite map_app. simpl. rewrite nth_skipn, H1. reflexivity.
  - rewrite skipn_length. lia.
Qed.

Lemma unsent_cons ss :
  ws ss + wl ss = si ss -> si ss < length (sorted ss) ->
  unsent_of ss = fst (cur ss) :: keys (skipn (S (si ss)) (sorted ss)).
Proof.
  intros H1 H2. unfold unsent_of, cur, keys. rewrite H1.
  rewrite (skipn_nth_cons (0, 0%N)) by exact H2. reflexivity.
Qed.

(* what one scheduler step does to (window, unsent suffix), for the current code *)
Lemma sched_step_spec p d ss r ev :
  swf ss -> sched_step p d ss = Some (r, ev) ->
  match ev, r with
  | SNone, Some ss' => swf ss' /\ sorted ss' = sorted ss /\ win ss' = win ss /\ unsent_of ss' = unsent_of ss
  | SMark a, Some ss' => swf ss' /\ sorted ss' = sorted ss /\ win ss' = win ss ++ [a] /\ unsent_of ss = a :: unsent_of ss'
  | SSend b, Some ss' => swf ss' /\ sorted ss' = sorted ss /\ b = win ss /\ win ss' = [] /\ unsent_of ss' = unsent_of ss
  | SAbort b, None => b = win ss /\ d = DAbort
  | _, _ => False
  end.
Proof.
  intros (Hle & Hpc) H. unfold sched_step, sched_step_gen in H.
  destruct (finished ss) eqn:Ef; [discriminate|]. apply finished_false in Ef.
  destruct (pc ss) eqn:Epc.
  - destruct Hpc as [Hw Hz]. destruct (pre_flush p ss) eqn:Epf.
    + destruct d; inv H.
      * unfold swf, win, unsent_of; simpl. rewrite Nat.add_0_r. repeat split; try lia; try reflexivity.
      * split; reflexivity.
    + inv H. unfold swf, win, unsent_of; simpl. repeat split; try lia; try reflexivity.
  - destruct Hpc as [Hw Hlt]. inv H. unfold swf; simpl. repeat split; try lia.
    + unfold win at 1; simpl. apply win_append; assumption.
    + rewrite (unsent_cons ss Hw Hlt). unfold unsent_of; simpl.
      replace (ws ss + S (wl ss)) with (S (si ss)) by lia. reflexivity.
  - destruct Hpc as [Hw Hlt]. destruct (post_flush p ss) eqn:Epf.
    + destruct d; inv H.
      * unfold swf, win, unsent_of; simpl. rewrite Nat.add_0_r. repeat split; try lia; try reflexivity.
      * split; reflexivity.
    + inv H. unfold swf, win, unsent_of; simpl. repeat split; try lia; try reflexivity.
      intros Hn. exfalso. unfold post_flush in Epf. repeat rewrite orb_false_iff in Epf.
      destruct Epf as [_ Hne]. apply Nat.eqb_neq in Hne. lia.
Qed.

Lemma sched_step_end p d ss : swf ss -> sched_step p d ss = None -> win ss = [] /\ unsent_of ss = [].
Proof.
  intros (Hle & Hpc) H. unfold sched_step, sched_step_gen in H.
  destruct (finished ss) eqn:Ef.
  - unfold finished in Ef. apply Nat.leb_le in Ef.
    assert (Hn : si ss = length (sorted ss)) by lia.
    destruct (pc ss) eqn:Epc.
    + destruct Hpc as [Hw Hz]. specialize (Hz Hn). unfold win, unsent_of. rewrite Hz. simpl.
      split; [reflexivity|]. replace (ws ss + 0) with (length (sorted ss)) by lia. rewrite skipn_all. reflexivity.
    + lia.
    + lia.
  - destruct (pc ss); [destruct (pre_flush p ss); destruct d | | destruct (post_flush p ss); destruct d]; discriminate.
Qed.

(* ------------------------------------------------------------------ INV2 *)
Definition swin (s : st) : list addr := match sch s with Some ss => win ss | None => [] end.
Definition batches_of (w : list wst) : list addr := concat (map wb w).
Definition owned (s : st) : list addr := swin s ++ batches_of (work s).
Definition unsent (s : st) : list addr := match sch s with Some ss => unsent_of ss | None => [] end.

Definition inv2 (s : st) : Prop :=
  (forall a, In a (infl s) <-> In a (owned s)) /\ NoDup (owned s) /\
  match sch s with
  | None => True
  | Some ss => swf ss /\ NoDup (keys (sorted ss)) /\ (forall a, In a (unsent_of ss) -> ~ In a (infl s))
  end.

Lemma batches_set_nth w k x y :
  nth_error w k = Some x -> wb y = wb x -> batches_of (set_nth k y w) = batches_of w.
Proof.
  intros H E. unfold batches_of, set_nth. rewrite (nth_split_at w k x H) at 3.
  rewrite !map_app. simpl. rewrite E. reflexivity.
Qed.

Lemma batches_del_nth w k x :
  nth_error w k = Some x ->
  Permutation (batches_of w) (wb x ++ batches_of (del_nth k w)).
Proof.
  intros H. unfold batches_of, del_nth. rewrite (nth_split_at w k x H) at 1.
  rewrite !map_app, !concat_app. simpl.
  rewrite app_assoc. rewrite (Permutation_app_comm (concat (map wb (firstn k w))) (wb x)).
  rewrite <- app_assoc. reflexivity.
Qed.

Lemma batches_app w b : batches_of (w ++ [mkW b WNew]) = batches_of w ++ b.
Proof. unfold batches_of. rewrite map_app, concat_app. simpl. rewrite app_nil_r. reflexivity. Qed.

Lemma inv2_init : inv2 init.
Proof. unfold inv2, owned, swin; simpl. repeat split; try tauto. constructor. Qed.

(* steps that touch neither the scheduler, the in-flight set nor the composition of the batches *)
Lemma inv2_same s s' :
  infl s' = infl s -> sch s' = sch s -> batches_of (work s') = batches_of (work s) -> inv2 s -> inv2 s'.
Proof.
  intros Hi Hs Hb (H1 & H2 & H3). unfold inv2, owned, swin in *. rewrite Hi, Hs, Hb. auto.
Qed.

Lemma cache_delete_same a s :
  infl (cache_delete a s) = infl s /\ sch (cache_delete a s) = sch s /\ work (cache_delete a s) = work s
  /\ tok (cache_delete a s) = tok s /\ blob (cache_delete a s) = blob s.
Proof. unfold cache_delete. destruct (lookup a (fs s)); simpl; auto. Qed.

Lemma inv2_step p l s s' : inv2 s -> step p l s = Some s' -> inv2 s'.
Proof.
  intros I H. pose proof I as (Hio & Hnd & Hsch).
  destruct l; simpl in H.
  - (* LPut *) dmatch H. inv H. apply (inv2_same s); [reflexivity | reflexivity | reflexivity | exact I].
  - (* LDel *) inv H. destruct (cache_delete_same a s) as (A & B & C & _).
    apply (inv2_same s); [exact A | exact B | rewrite C; reflexivity | exact I].
  - (* LBegin *)
    destruct (sch s) eqn:Es; [discriminate|]. destruct (begin_ok s srt) eqn:Eb; [| discriminate]. inv H.
    unfold begin_ok in Eb. rewrite !andb_true_iff in Eb. destruct Eb as [[Hn _] Hf].
    unfold inv2, owned, swin in *; simpl. rewrite Es in *. simpl in *.
    split; [exact Hio|]. split; [exact Hnd|]. split; [apply swf_init|]. split; [apply nodupb_NoDup; exact Hn|].
    intros a Ha. unfold unsent_of, sched_init in Ha; simpl in Ha.
    rewrite forallb_forall in Hf. unfold keys in Ha. apply in_map_iff in Ha. destruct Ha as [e [He1 He2]].
    specialize (Hf e He2). rewrite negb_true_iff in Hf. apply mem_false in Hf. subst. exact Hf.
  - (* LSched *)
    destruct (sch s) as [ss|] eqn:Es; [| discriminate]. destruct Hsch as (Hwf & Hns & Hun).
    destruct (sched_step p d ss) as [[r ev]|] eqn:Est.
    + pose proof (sched_step_spec p d ss r ev Hwf Est) as Sp.
      destruct ev; destruct r as [ss'|]; try contradiction.
      * (* SNone *) destruct Sp as (W & So & Wi & Un). inv H.
        unfold inv2, owned, swin in *; simpl. rewrite Es in *. rewrite Wi, So, Un. auto.
      * (* SMark *) destruct Sp as (W & So & Wi & Un). inv H.
        assert (Hna : ~ In a (infl s)) by (apply Hun; rewrite Un; left; reflexivity).
        assert (Hno : ~ In a (owned s)) by (rewrite <- Hio; exact Hna).
        unfold inv2, owned, swin in *; simpl. rewrite Es in *. rewrite Wi, So.
        split; [| split; [| split; [exact W | split; [exact Hns |]]]].
        -- intros x. rewrite infl_add_In, Hio. rewrite !in_app_iff. simpl. intuition congruence.
        -- rewrite <- app_assoc. simpl.
           apply (Permutation_NoDup (l := a :: (win ss ++ batches_of (work s)))).
           ++ apply Permutation_middle.
           ++ constructor; assumption.
        -- intros x Hx. rewrite infl_add_In. intros [Hxa | Hxi].
           ++ subst x. rewrite Un in *.
              assert (Hnd' : NoDup (unsent_of ss)).
              { unfold unsent_of, keys. rewrite <- skipn_map. apply NoDup_skipn. exact Hns. }
              rewrite Un in Hnd'. inv Hnd'. contradiction.
           ++ apply (Hun x); [rewrite Un; right; exact Hx | exact Hxi].
      * (* SSend *) destruct Sp as (W & So & Hb & Wi & Un). subst b. inv H.
        unfold inv2, owned, swin in *; simpl. rewrite Es in *. rewrite Wi, So, Un, batches_app. simpl.
        split; [| split; [| auto]].
        -- intros x. rewrite Hio, !in_app_iff. tauto.
        -- apply (Permutation_NoDup (l := win ss ++ batches_of (work s))); [apply Permutation_app_comm | exact Hnd].
      * (* SAbort *) destruct Sp as (Hb & _). subst b. destruct (tok s); [| discriminate]. inv H.
        unfold inv2, owned, swin in *; simpl. rewrite Es in *.
        split; [| split; [| exact Logic.I]].
        -- intros x. rewrite infl_del_all_In, Hio, in_app_iff. split.
           ++ tauto.
           ++ intros Hx. split; [auto|]. intros Hw.
              exact (NoDup_app_disj _ _ x Hnd Hw Hx).
        -- apply NoDup_app_r in Hnd. exact Hnd.
    + (* round over *)
      destruct (sched_step_end p d ss Hwf Est) as [Wi _]. inv H.
      unfold inv2, owned, swin in *; simpl. rewrite Es in *. rewrite Wi in *. auto.
  - (* LRead *)
    destruct (nth_error (work s) k) as [[b ph]|] eqn:En; [| discriminate]. destruct ph; try discriminate. inv H.
    apply (inv2_same s); [reflexivity | reflexivity | simpl; eapply batches_set_nth; eauto | exact I].
  - (* LStore *)
    destruct (nth_error (work s) k) as [[b ph]|] eqn:En; [| discriminate]. destruct ph; try discriminate.
    destruct ok; inv H; (apply (inv2_same s); [reflexivity | reflexivity | simpl; eapply batches_set_nth; eauto | exact I]).
  - (* LDelOne *)
    destruct (nth_error (work s) k) as [[b ph]|] eqn:En; [| discriminate]. destruct ph as [| |[|a todo]|]; try discriminate.
    inv H. destruct (cache_delete_same a s) as (A & B & C & _).
    apply (inv2_same s); [exact A | exact B | simpl; rewrite C; eapply batches_set_nth; eauto | exact I].
  - (* LDone *)
    destruct (nth_error (work s) k) as [[b ph]|] eqn:En; [| discriminate].
    pose proof (batches_del_nth (work s) k _ En) as Pm. simpl in Pm.
    assert (Hgoal : forall t, inv2 (mkSt (fs s) (cmap s) (csize s) (infl_del_all b (infl s)) (blob s) (sch s) (del_nth k (work s)) t)).
    { intros t. unfold inv2, owned, swin in *; simpl.
      assert (Pm2 : Permutation (match sch s with Some ss => win ss | None => [] end ++ batches_of (work s))
                                (b ++ (match sch s with Some ss => win ss | None => [] end ++ batches_of (del_nth k (work s))))).
      { rewrite Pm. rewrite !app_assoc. apply Permutation_app_tail. apply Permutation_app_comm. }
      pose proof (Permutation_NoDup Pm2 Hnd) as Hnd2.
      split; [| split].
      - intros x. rewrite infl_del_all_In, Hio. rewrite (perm_in_iff _ _ x Pm2). rewrite in_app_iff. split.
        + tauto.
        + intros Hx. split; [auto|]. intros Hxb. exact (NoDup_app_disj _ _ x Hnd2 Hxb Hx).
      - apply NoDup_app_r in Hnd2. exact Hnd2.
      - destruct (sch s); [| exact Logic.I]. destruct Hsch as (A & B & C). split; [exact A | split; [exact B|]].
        intros x Hx. rewrite infl_del_all_In. intros [Hxi _]. exact (C x Hx Hxi). }
    destruct ph as [| |[|]|]; try discriminate; inv H; apply Hgoal.
  - (* LTick *) dmatch H. inv H. unfold inv2, owned, swin in *; simpl. rewrite E in *. auto.
  - (* LRestart *) dmatch H. inv H. unfold inv2, owned, swin; simpl. repeat split; try tauto. constructor.
Qed.
