(* Fine-grained view of one address: cache.put = fsTree.Put ; objCounters.Add and
   cache.delete = fsTree.Delete ; objCounters.Delete are two steps each (nothing in the code makes the
   pairs atomic).  The main model (Model.v) takes the pairs as atomic; this file says exactly when that
   is justified:  if a put and a delete of the SAME address never overlap between their two steps the
   counters agree with the directory at every quiescent point (race_partial); if they may overlap they
   can disagree for good (race_refuted: put of an object that is being removed by a flush). *)
From Coq Require Import List Arith Bool Lia.
Import ListNotations.

Record rst := mkR { file : bool; cnt : bool; padd : nat; pdel : nat }.
Inductive rlabel := RPutFs | RPutAdd | RDelFs | RDelCnt.

(* excl = true: the schedule keeps put and delete of this address apart *)
Definition rstep (excl : bool) (l : rlabel) (s : rst) : option rst :=
  match l with
  | RPutFs => if excl && negb (Nat.eqb (pdel s) 0) then None
              else Some (mkR true (cnt s) (S (padd s)) (pdel s))
  | RPutAdd => match padd s with 0 => None | S n => Some (mkR (file s) true n (pdel s)) end
  | RDelFs => if file s then
                if excl && negb (Nat.eqb (padd s) 0) then None
                else Some (mkR false (cnt s) (padd s) (S (pdel s)))
              else Some s                       (* ObjectNotFound: the counters are not touched *)
  | RDelCnt => match pdel s with 0 => None | S n => Some (mkR (file s) false (padd s) n) end
  end.

Fixpoint rrun (excl : bool) (ls : list rlabel) (s : rst) : option rst :=
  match ls with
  | [] => Some s
  | l :: r => match rstep excl l s with Some s' => rrun excl r s' | None => None end
  end.

Definition rinit := mkR false false 0 0.
Definition rquiet (s : rst) : Prop := padd s = 0 /\ pdel s = 0.

Definition rinv (s : rst) : Prop :=
  (padd s > 0 -> file s = true /\ pdel s = 0) /\
  (pdel s > 0 -> file s = false /\ padd s = 0) /\
  (padd s = 0 -> pdel s = 0 -> cnt s = file s).

Lemma rinv_step l s s' : rinv s -> rstep true l s = Some s' -> rinv s'.
Proof.
  intros (A & B & C) H. destruct s as [f c pa pd]. unfold rinv in *. simpl in *.
  destruct l; simpl in H.
  - destruct (Nat.eqb pd 0) eqn:E; simpl in H; [| discriminate]. apply Nat.eqb_eq in E. subst.
    inversion H; subst; clear H. simpl. repeat split; try lia; intros; try lia.
  - destruct pa as [|n]; [discriminate|]. inversion H; subst; clear H. simpl.
    destruct (A ltac:(lia)) as [Hf Hp]. subst. repeat split; try lia; intros; try lia; auto.
  - destruct f.
    + destruct (Nat.eqb pa 0) eqn:E; simpl in H; [| discriminate]. apply Nat.eqb_eq in E. subst.
      inversion H; subst; clear H. simpl. repeat split; try lia; intros; try lia.
    + inversion H; subst; clear H. simpl. auto.
  - destruct pd as [|n]; [discriminate|]. inversion H; subst; clear H. simpl.
    destruct (B ltac:(lia)) as [Hf Hp]. subst. repeat split; try lia; intros; try lia; auto.
Qed.

Theorem race_partial ls s : rrun true ls rinit = Some s -> rquiet s -> cnt s = file s.
Proof.
  assert (G : forall ls s0 s, rinv s0 -> rrun true ls s0 = Some s -> rinv s).
  { induction ls0 as [|l r IH]; simpl; intros s0 s1 I H.
    - inversion H; subst. exact I.
    - destruct (rstep true l s0) eqn:E; [| discriminate]. eapply IH; [| exact H]. eapply rinv_step; eauto. }
  intros H [Q1 Q2]. assert (I : rinv rinit) by (unfold rinv, rinit; simpl; repeat split; lia).
  destruct (G ls rinit s I H) as (_ & _ & C). auto.
Qed.

(* put #1 completes; put #2 writes the file; a flush removes file and counter; put #2 adds the counter *)
Theorem race_refuted : exists ls s, rrun false ls rinit = Some s /\ rquiet s /\ cnt s = true /\ file s = false.
Proof.
  exists [RPutFs; RPutAdd; RPutFs; RDelFs; RDelCnt; RPutAdd]. eexists. vm_compute. repeat split.
Qed.
