(* Executable comparison for C17: the harness script is interpreted on the model (sequential schedule of
   Model.seq_round) and the observations are compared; the reference check evaluates the right-hand sides
   of the C17 theorems on the implementation's observations only. *)
From Coq Require Import List NArith Arith Bool.
Import ListNotations.
From NV Require Import Base.U64 WC.Model.

Inductive sop :=
| OPut (a : addr) (sz : N) | ODel (a : addr)
| OPoison (a : addr) | OFailAll | OHeal
| ORound          (* one scheduler round at the current storage oracle, run to quiescence *)
| ORecover        (* error back-off elapsed: drain, round, and the round of the buffered tick *)
| ORestart
| OObs.

(* what the harness records at a quiescent point *)
Record iobs := mkO {
  o_calls : list call; o_size : N; o_cmap : list addr; o_csum : N;
  o_dir : list addr; o_dsum : N; o_infl : list addr; o_blob : list addr }.

Record case17 := mkC {
  c_p : params; c_ordered : bool; c_model : bool;   (* c_model: compare with the model (deterministic kinds) *)
  c_script : list sop; c_obs : list iobs; c_must : list addr }.

Fixpoint ninsert (x : nat) (l : list nat) : list nat :=
  match l with [] => [x] | y :: r => if Nat.leb x y then (if Nat.eqb x y then l else x :: l) else y :: ninsert x r end.
Definition nsort (l : list nat) : list nat := fold_right ninsert [] l.   (* sorted, duplicates removed *)

Definition list_eqb (a b : list nat) : bool := if list_eq_dec Nat.eq_dec a b then true else false.
Definition call_eqb (x y : call) : bool := list_eqb (fst x) (fst y) && Bool.eqb (snd x) (snd y).
Fixpoint calls_eqb (a b : list call) : bool :=
  match a, b with
  | [], [] => true
  | x :: r, y :: t => call_eqb x y && calls_eqb r t
  | _, _ => false
  end.
Fixpoint remove_call (x : call) (l : list call) : option (list call) :=
  match l with
  | [] => None
  | y :: r => if call_eqb x y then Some r else option_map (cons y) (remove_call x r)
  end.
Fixpoint calls_permb (a b : list call) : bool :=
  match a with
  | [] => match b with [] => true | _ => false end
  | x :: r => match remove_call x b with Some b' => calls_permb r b' | None => false end
  end.

Record mstate := mkM { m_st : st; m_poison : list addr; m_failall : bool; m_calls : list call }.

Definition oracle (m : mstate) (objs : list addr) : bool :=
  m_failall m || existsb (fun a => mem a (m_poison m)) objs.

Definition do_round (p : params) (m : mstate) : option mstate :=
  match seq_round p (oracle m) (m_st m) with
  | Some (s', cs) => Some (mkM s' (m_poison m) (m_failall m) (m_calls m ++ cs))
  | None => None
  end.

Definition obs_ok (ordered : bool) (m : mstate) (o : iobs) : bool :=
  let s := m_st m in
  (if ordered then calls_eqb (m_calls m) (o_calls o) else calls_permb (m_calls m) (o_calls o))
  && N.eqb (csize s) (o_size o)
  && list_eqb (nsort (keys (cmap s))) (o_cmap o)
  && list_eqb (nsort (keys (fs s))) (o_dir o)
  && list_eqb (nsort (infl s)) (o_infl o)
  && list_eqb (nsort (blob s)) (o_blob o)
  && N.eqb (msum (cmap s)) (o_csum o) && N.eqb (msum (fs s)) (o_dsum o)
  && quiescentb s.

(* returns false on the first disagreement *)
Fixpoint interp (p : params) (ordered : bool) (ops : list sop) (m : mstate) (obs : list iobs) : bool :=
  match ops with
  | [] => match obs with [] => true | _ => false end
  | op :: r =>
      match op with
      | OPut a sz => match step p (LPut a sz) (m_st m) with
                     | Some s' => interp p ordered r (mkM s' (m_poison m) (m_failall m) (m_calls m)) obs
                     | None => false end
      | ODel a => match step p (LDel a) (m_st m) with
                  | Some s' => interp p ordered r (mkM s' (m_poison m) (m_failall m) (m_calls m)) obs
                  | None => false end
      | OPoison a => interp p ordered r (mkM (m_st m) (a :: m_poison m) (m_failall m) (m_calls m)) obs
      | OFailAll => interp p ordered r (mkM (m_st m) (m_poison m) true (m_calls m)) obs
      | OHeal => interp p ordered r (mkM (m_st m) [] false (m_calls m)) obs
      | ORound => match do_round p m with Some m' => interp p ordered r m' obs | None => false end
      | ORecover =>
          let m1 := if tok (m_st m)
                    then match step p LTick (m_st m) with
                         | Some s' => Some (mkM s' (m_poison m) (m_failall m) (m_calls m)) | None => None end
                    else Some m in
          match m1 with
          | None => false
          | Some m1 => match do_round p m1 with
                       | None => false
                       | Some m2 => match do_round p m2 with Some m3 => interp p ordered r m3 obs | None => false end
                       end
          end
      | ORestart => match step p LRestart (m_st m) with
                    | Some s' => interp p ordered r (mkM s' (m_poison m) (m_failall m) (m_calls m)) obs
                    | None => false end
      | OObs => match obs with
                | [] => false
                | o :: t => obs_ok ordered m o && interp p ordered r (mkM (m_st m) (m_poison m) (m_failall m) []) t
                end
      end
  end.

Definition model_ok (c : case17) : bool :=
  if c_model c then interp (c_p c) (c_ordered c) (c_script c) (mkM init [] false []) (c_obs c) else true.

(* reference: right-hand sides of C17_size_exact / C17_no_inflight_leak at every quiescent point, and of
   C17_progress at the end of the script (storage healed, writes stopped, >= 3 rounds later) *)
Definition ref_obs_ok (o : iobs) : bool :=
  N.eqb (o_size o) (o_dsum o) && N.eqb (o_csum o) (o_dsum o) && list_eqb (o_cmap o) (o_dir o)
  && match o_infl o with [] => true | _ => false end.
Definition ref_final_ok (must : list addr) (o : iobs) : bool :=
  match o_dir o with [] => true | _ => false end && N.eqb (o_size o) 0
  && forallb (fun a => mem a (o_blob o)) must.
Definition ref_ok (c : case17) : bool :=
  forallb ref_obs_ok (c_obs c) &&
  match rev (c_obs c) with [] => true | o :: _ => ref_final_ok (c_must c) o end.

Fixpoint mism_from (i : nat) (f : case17 -> bool) (cs : list case17) : list nat :=
  match cs with
  | [] => []
  | c :: r => if f c then mism_from (S i) f r else i :: mism_from (S i) f r
  end.
Definition model_mismatches := mism_from 0 model_ok.
Definition ref_mismatches := mism_from 0 ref_ok.
