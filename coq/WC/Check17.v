(* Executable comparison for C17: the harness script is interpreted on the model (sequential schedule of
   Model.seq_round) and the observations are compared; the reference check evaluates the right-hand sides
   of the C17 theorems on the implementation's observations only. *)
From Coq Require Import List NArith Arith Bool.
Import ListNotations.
From NV Require Import Base.U64 WC.Model.

Inductive sop :=
| OPut (a : addr) (sz : N) | ODel (a : addr)
| OPoison (a : addr) | OFailAll | OHeal
| ORound          (* one scheduler round at the current storage oracle, run to quiescence *)
| ORecover        (* error back-off elapsed: drain, round, and the round of the buffered tick *)
| ORestart
| OHold           (* the main storage stops answering: every storage call blocks from now on *)
| ORelease        (* it answers again: blocked calls finish, a stuck round goes on, then the buffered tick's round *)
| OObs.

(* what the harness records at a quiescent point *)
Record iobs := mkO {
  o_calls : list call; o_size : N; o_cmap : list addr; o_csum : N;
  o_dir : list addr; o_dsum : N; o_infl : list addr; o_blob : list addr;
  o_held : bool;                 (* observed while the main storage is blocked: not a quiescent point *)
  o_pend : list (list addr) }.   (* batches of the storage calls in progress *)

Record case17 := mkC {
  c_p : params; c_workers : nat; c_ordered : bool; c_model : bool;   (* c_model: compare with the model (deterministic kinds) *)
  c_script : list sop; c_obs : list iobs; c_must : list addr }.

Fixpoint ninsert (x : nat) (l : list nat) : list nat :=
  match l with [] => [x] | y :: r => if Nat.leb x y then (if Nat.eqb x y then l else x :: l) else y :: ninsert x r end.
Definition nsort (l : list nat) : list nat := fold_right ninsert [] l.   (* sorted, duplicates removed *)

Definition list_eqb (a b : list nat) : bool := if list_eq_dec Nat.eq_dec a b then true else false.
Definition call_eqb (x y : call) : bool := list_eqb (fst x) (fst y) && Bool.eqb (snd x) (snd y).
Fixpoint calls_eqb (a b : list call) : bool :=
  match a, b with
  | [], [] => true
  | x :: r, y :: t => call_eqb x y && calls_eqb r t
  | _, _ => false
  end.
Fixpoint remove_call (x : call) (l : list call) : option (list call) :=
  match l with
  | [] => None
  | y :: r => if call_eqb x y then Some r else option_map (cons y) (remove_call x r)
  end.
Fixpoint calls_permb (a b : list call) : bool :=
  match a with
  | [] => match b with [] => true | _ => false end
  | x :: r => match remove_call x b with Some b' => calls_permb r b' | None => false end
  end.

(* m_held: storage calls block.  m_tickbuf: a tick fired while the scheduler was stuck inside a round (the
   ticker's channel holds one tick; the scheduler takes it as soon as the round is over). *)
Record mstate := mkM { m_st : st; m_poison : list addr; m_failall : bool; m_calls : list call;
                       m_held : bool; m_tickbuf : bool }.
Definition with_st (m : mstate) (s : st) : mstate :=
  mkM s (m_poison m) (m_failall m) (m_calls m) (m_held m) (m_tickbuf m).

Definition oracle (m : mstate) (objs : list addr) : bool :=
  m_failall m || existsb (fun a => mem a (m_poison m)) objs.

Definition do_round (p : params) (m : mstate) : option mstate :=
  match seq_round p (oracle m) (m_st m) with
  | Some (s', cs) => Some (mkM s' (m_poison m) (m_failall m) (m_calls m ++ cs) (m_held m) (m_tickbuf m))
  | None => None
  end.

(* ---- schedules with a blocked main storage (all built from Model.step labels, so every state they reach
        is covered by the C17 theorems) ----
   W flush workers; a worker that receives a batch reads its objects and blocks in the storage call
   (phase WGot) until the release.  The scheduler goes on until the round is over or it has a batch to hand
   over and no worker is free (flushCh is unbuffered): it then stays at that flush point. *)
Fixpoint held_loop (fuel : nat) (p : params) (W : nat) (s : st) : option st :=
  match fuel with
  | 0 => None
  | S f =>
      match sch s with
      | None => Some s
      | Some ss =>
          if at_flush p ss then
            if tok s then
              match step p (LSched DAbort) s with Some s' => held_loop f p W s' | None => None end
            else if Nat.ltb (length (work s)) W then
              match step p (LSched DSend) s with
              | None => None
              | Some s1 =>
                  let k := length (work s1) - 1 in
                  match step p (LRead k) s1 with
                  | None => None
                  | Some s2 =>
                      match nth_error (work s2) k with
                      | Some (mkW b (WDeleting [])) =>      (* flushSingle, object gone: no storage call *)
                          match step p (LDone k) s2 with Some s3 => held_loop f p W s3 | None => None end
                      | Some _ => held_loop f p W s2
                      | None => None
                      end
                  end
              end
            else Some s
          else
            match step p (LSched DSend) s with Some s' => held_loop f p W s' | None => None end
      end
  end.

(* a tick while the storage is blocked *)
Definition held_tick (p : params) (W : nat) (m : mstate) : option mstate :=
  let s := m_st m in
  match sch s with
  | Some _ => Some (mkM s (m_poison m) (m_failall m) (m_calls m) (m_held m) true)
  | None =>
      match csize s with
      | 0%N => Some m
      | _ =>
          let srt := snapshot s in
          match step p (LBegin srt) s with
          | None => None
          | Some s1 => option_map (with_st m) (held_loop (4 * length srt + 4) p W s1)
          end
      end
  end.

(* the blocked storage calls finish (oldest batch first) *)
Fixpoint finish_held (fuel : nat) (p : params) (fails : list addr -> bool) (s : st) (calls : list call)
  : option (st * list call) :=
  match fuel with
  | 0 => None
  | S f =>
      match work s with
      | [] => Some (s, calls)
      | mkW b (WGot objs) :: _ =>
          let bad := fails objs in
          match run p (if bad then [LStore 0 false; LDone 0]
                       else [LStore 0 true] ++ repeat (LDelOne 0) (length objs) ++ [LDone 0]) s with
          | Some s' => finish_held f p fails s' (calls ++ [(objs, negb bad)])
          | None => None
          end
      | _ => None
      end
  end.

Definition release (p : params) (m : mstate) : option mstate :=
  let fails := oracle m in
  let s := m_st m in
  match finish_held (S (length (work s))) p fails s [] with
  | None => None
  | Some (s1, cs1) =>
      (* a round stuck at a hand-over goes on, one batch after the other *)
      match (match sch s1 with
             | None => Some (s1, cs1)
             | Some ss => seq_round_loop (4 * length (sorted ss) + 4) p fails s1 cs1
             end) with
      | None => None
      | Some (s2, cs2) =>
          let m2 := mkM s2 (m_poison m) (m_failall m) (m_calls m ++ cs2) false false in
          if m_tickbuf m then do_round p m2 else Some m2
      end
  end.

Definition pending (s : st) : list call :=
  flat_map (fun w => match wph w with WGot objs => [(objs, true)] | _ => [] end) (work s).

Definition obs_ok (ordered : bool) (m : mstate) (o : iobs) : bool :=
  let s := m_st m in
  (if ordered then calls_eqb (m_calls m) (o_calls o) else calls_permb (m_calls m) (o_calls o))
  && N.eqb (csize s) (o_size o)
  && list_eqb (nsort (keys (cmap s))) (o_cmap o)
  && list_eqb (nsort (keys (fs s))) (o_dir o)
  && list_eqb (nsort (infl s)) (o_infl o)
  && list_eqb (nsort (blob s)) (o_blob o)
  && N.eqb (msum (cmap s)) (o_csum o) && N.eqb (msum (fs s)) (o_dsum o)
  && Bool.eqb (m_held m) (o_held o)
  && calls_permb (pending s) (map (fun b => (b, true)) (o_pend o))
  && (m_held m || quiescentb s).

(* returns false on the first disagreement *)
Fixpoint interp (p : params) (W : nat) (ordered : bool) (ops : list sop) (m : mstate) (obs : list iobs) : bool :=
  match ops with
  | [] => match obs with [] => true | _ => false end
  | op :: r =>
      match op with
      | OPut a sz => match step p (LPut a sz) (m_st m) with
                     | Some s' => interp p W ordered r (with_st m s') obs
                     | None => false end
      | ODel a => match step p (LDel a) (m_st m) with
                  | Some s' => interp p W ordered r (with_st m s') obs
                  | None => false end
      | OPoison a => interp p W ordered r (mkM (m_st m) (a :: m_poison m) (m_failall m) (m_calls m) (m_held m) (m_tickbuf m)) obs
      | OFailAll => interp p W ordered r (mkM (m_st m) (m_poison m) true (m_calls m) (m_held m) (m_tickbuf m)) obs
      | OHeal => interp p W ordered r (mkM (m_st m) [] false (m_calls m) (m_held m) (m_tickbuf m)) obs
      | OHold => interp p W ordered r (mkM (m_st m) (m_poison m) (m_failall m) (m_calls m) true (m_tickbuf m)) obs
      | ORelease => if m_held m
                    then match release p m with Some m' => interp p W ordered r m' obs | None => false end
                    else interp p W ordered r m obs
      | ORound => match (if m_held m then held_tick p W m else do_round p m) with
                  | Some m' => interp p W ordered r m' obs | None => false end
      | ORecover =>
          let m1 := if tok (m_st m)
                    then match step p LTick (m_st m) with
                         | Some s' => Some (with_st m s') | None => None end
                    else Some m in
          match m1 with
          | None => false
          | Some m1 => match do_round p m1 with
                       | None => false
                       | Some m2 => match do_round p m2 with Some m3 => interp p W ordered r m3 obs | None => false end
                       end
          end
      | ORestart => match step p LRestart (m_st m) with
                    | Some s' => interp p W ordered r (with_st m s') obs
                    | None => false end
      | OObs => match obs with
                | [] => false
                | o :: t => obs_ok ordered m o
                            && interp p W ordered r (mkM (m_st m) (m_poison m) (m_failall m) [] (m_held m) (m_tickbuf m)) t
                end
      end
  end.

Definition model_ok (c : case17) : bool :=
  if c_model c then interp (c_p c) (c_workers c) (c_ordered c) (c_script c) (mkM init [] false [] false false) (c_obs c)
  else true.

(* reference: right-hand sides of C17_size_exact / C17_no_inflight_leak at every quiescent point, and of
   C17_progress at the end of the script (storage healed, writes stopped, >= 3 rounds later) *)
(* while the storage is blocked the point is not quiescent: the batches held by the workers must be marked
   in flight (C17_no_inflight_leak: in-flight = scheduler window + worker batches); otherwise it is empty *)
Definition ref_obs_ok (o : iobs) : bool :=
  N.eqb (o_size o) (o_dsum o) && N.eqb (o_csum o) (o_dsum o) && list_eqb (o_cmap o) (o_dir o)
  && (if o_held o then forallb (fun b => forallb (fun a => mem a (o_infl o)) b) (o_pend o)
      else match o_infl o, o_pend o with [], [] => true | _, _ => false end).
Definition ref_final_ok (must : list addr) (o : iobs) : bool :=
  match o_dir o with [] => true | _ => false end && N.eqb (o_size o) 0
  && forallb (fun a => mem a (o_blob o)) must.
Definition ref_ok (c : case17) : bool :=
  forallb ref_obs_ok (c_obs c) &&
  match rev (c_obs c) with [] => true | o :: _ => ref_final_ok (c_must c) o end.

Fixpoint mism_from (i : nat) (f : case17 -> bool) (cs : list case17) : list nat :=
  match cs with
  | [] => []
  | c :: r => if f c then mism_from (S i) f r else i :: mism_from (S i) f r
  end.
Definition model_mismatches := mism_from 0 model_ok.
Definition ref_mismatches := mism_from 0 ref_ok.
