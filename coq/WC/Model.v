(* Write-cache model (C17; the scheduler/worker part is shared with C16).
   Definitions only -- no proofs in this file.

   Transcribed from pkg/local_object_storage/writecache:
     state.go   counters.Add / Delete / Size / Map
     put.go     cache.put      = [fsTree.Put ; objCounters.Add]
     delete.go  cache.delete   = [fsTree.Delete ; objCounters.Delete]  (counter only if the file existed)
     flush.go   flushScheduler (sched_step: the slice manipulation, literally, as an index window
                                into the sorted array), flushWorker / flushSingle / flushBatch
   Addresses are naturals (the harness maps object k to k); sizes are uint64 values (N, wrap-around
   arithmetic of Base/U64). *)
From Coq Require Import List NArith Arith Bool.
Import ListNotations.
From NV Require Import Base.U64.

Definition addr := nat.

(* ---------------------------------------------------------------- finite maps as association lists *)
Definition amap := list (addr * N).

Fixpoint lookup (a : addr) (m : amap) : option N :=
  match m with
  | [] => None
  | (b, v) :: r => if Nat.eqb a b then Some v else lookup a r
  end.

Fixpoint mset (a : addr) (v : N) (m : amap) : amap :=
  match m with
  | [] => [(a, v)]
  | (b, w) :: r => if Nat.eqb a b then (a, v) :: r else (b, w) :: mset a v r
  end.

Fixpoint mdel (a : addr) (m : amap) : amap :=
  match m with
  | [] => []
  | (b, w) :: r => if Nat.eqb a b then mdel a r else (b, w) :: mdel a r
  end.

Definition keys (m : amap) : list addr := map fst m.
Definition msum (m : amap) : N := fold_right (fun x acc => (snd x + acc)%N) 0%N m.
Definition mem (a : addr) (l : list addr) : bool := existsb (Nat.eqb a) l.
Definition oz (o : option N) : N := match o with Some v => v | None => 0%N end.

(* ---------------------------------------------------------------- counters (state.go) *)
(* x.size += size - x.objMap[addr]; x.objMap[addr] = size        (uint64 arithmetic) *)
Definition cnt_add (a : addr) (sz : N) (m : amap) (size : N) : amap * N :=
  (mset a sz m, add64 size (sub64 sz (oz (lookup a m)))).
(* x.size -= x.objMap[addr]; delete(x.objMap, addr) *)
Definition cnt_del (a : addr) (m : amap) (size : N) : amap * N :=
  (mdel a m, sub64 size (oz (lookup a m))).

(* the code before commit "do not inflate the cache size on repeated put": x.size += size *)
Definition cnt_add_old (a : addr) (sz : N) (m : amap) (size : N) : amap * N :=
  (mset a sz m, add64 size sz).

(* ---------------------------------------------------------------- scheduler (flush.go) *)
Record params := mkP { thr : N; maxcnt : nat; maxsz : N }.

Inductive spc := PTop | PAppend | PPost.
(* b = sortedAddrs[ws : ws+wl]; bs; loop index i; position inside the loop body *)
Record sst := mkS { sorted : amap; si : nat; ws : nat; wl : nat; bs : N; pc : spc }.

Inductive dec := DSend | DAbort.
Inductive sev := SNone | SMark (a : addr) | SSend (b : list addr) | SAbort (b : list addr).

Definition win (s : sst) : list addr := keys (firstn (wl s) (skipn (ws s) (sorted s))).
Definition cur (s : sst) : addr * N := nth (si s) (sorted s) (0, 0%N).

(* `variant` selects the code before the two scheduler repairs, for the documentation lemmas only:
   old_reset : after a send  b = sortedAddrs[i:i]  instead of  b = b[len(b):]
   The theorems are about the current code (old_reset = false). *)
Definition reset_ws (old_reset : bool) (s : sst) : nat := if old_reset then si s else ws s + wl s.

Definition pre_flush (p : params) (s : sst) : bool :=
  N.ltb (thr p) (snd (cur s)) && negb (Nat.eqb (wl s) 0).
Definition post_flush (p : params) (s : sst) : bool :=
  N.ltb (thr p) (snd (cur s)) || Nat.leb (maxcnt p) (wl s) || N.ltb (maxsz p) (bs s)
  || Nat.eqb (si s) (length (sorted s) - 1).

Definition finished (s : sst) : bool := Nat.leb (length (sorted s)) (si s).
Definition at_flush (p : params) (s : sst) : bool :=
  negb (finished s) &&
  match pc s with PTop => pre_flush p s | PAppend => false | PPost => post_flush p s end.

(* one step of the loop; None = the round is over. d is consulted at flush points only. *)
Definition sched_step_gen (old_reset : bool) (p : params) (d : dec) (s : sst) : option (option sst * sev) :=
  if finished s then None else
  match pc s with
  | PTop =>
      if pre_flush p s then
        match d with
        | DSend => Some (Some (mkS (sorted s) (si s) (reset_ws old_reset s) 0 0%N PAppend), SSend (win s))
        | DAbort => Some (None, SAbort (win s))
        end
      else Some (Some (mkS (sorted s) (si s) (ws s) (wl s) (bs s) PAppend), SNone)
  | PAppend =>
      (* c.flushObjs.Store(addr); b = b[:len(b)+1]; bs += addrs[addr] *)
      Some (Some (mkS (sorted s) (si s) (ws s) (S (wl s)) (add64 (bs s) (snd (cur s))) PPost), SMark (fst (cur s)))
  | PPost =>
      if post_flush p s then
        match d with
        | DSend => Some (Some (mkS (sorted s) (S (si s)) (reset_ws old_reset s) 0 0%N PTop), SSend (win s))
        | DAbort => Some (None, SAbort (win s))
        end
      else Some (Some (mkS (sorted s) (S (si s)) (ws s) (wl s) (bs s) PTop), SNone)
  end.
Definition sched_step := sched_step_gen false.

Definition sched_init (sorted : amap) : sst := mkS sorted 0 0 0 0%N PTop.

(* all batches of an undisturbed round (every flush point sends) *)
Fixpoint round_batches_gen (old_reset : bool) (fuel : nat) (p : params) (s : sst) : list (list addr) :=
  match fuel with
  | 0 => []
  | S f =>
      match sched_step_gen old_reset p DSend s with
      | None => []
      | Some (None, _) => []
      | Some (Some s', SSend b) => b :: round_batches_gen old_reset f p s'
      | Some (Some s', _) => round_batches_gen old_reset f p s'
      end
  end.
Definition round_batches (p : params) (sorted : amap) : list (list addr) :=
  round_batches_gen false (3 * length sorted + 1) p (sched_init sorted).
Definition round_batches_old (p : params) (sorted : amap) : list (list addr) :=
  round_batches_gen true (3 * length sorted + 1) p (sched_init sorted).

(* ---------------------------------------------------------------- whole cache *)
Inductive wphase := WNew | WGot (objs : list addr) | WDeleting (todo : list addr) | WFailed.
Record wst := mkW { wb : list addr; wph : wphase }.

Record st := mkSt {
  fs : amap;            (* files in the cache directory, with their sizes *)
  cmap : amap;          (* objCounters.objMap *)
  csize : N;            (* objCounters.size *)
  infl : list addr;     (* flushObjs *)
  blob : list addr;     (* objects written to the main storage *)
  sch : option sst;     (* None: the scheduler waits in its top-level select *)
  work : list wst;      (* batches handed to workers and not finished yet *)
  tok : bool            (* len(flushErrCh) = 1 *)
}.

Definition init : st := mkSt [] [] 0%N [] [] None [] false.

Definition infl_add (a : addr) (l : list addr) : list addr := if mem a l then l else a :: l.
Definition infl_del (a : addr) (l : list addr) : list addr := filter (fun x => negb (Nat.eqb a x)) l.
Definition infl_del_all (b : list addr) (l : list addr) : list addr := fold_right infl_del l b.

Fixpoint nodupb (l : list addr) : bool :=
  match l with [] => true | a :: r => negb (mem a r) && nodupb r end.

(* snapshot condition of a round: distinct addresses known to the counters, none of them in flight *)
Definition begin_ok (s : st) (srt : amap) : bool :=
  nodupb (keys srt)
  && forallb (fun e => match lookup (fst e) (cmap s) with Some v => N.eqb v (snd e) | None => false end) srt
  && forallb (fun e => negb (mem (fst e) (infl s))) srt.

Definition del_nth {A} (k : nat) (l : list A) : list A := firstn k l ++ skipn (S k) l.
Definition set_nth {A} (k : nat) (x : A) (l : list A) : list A := firstn k l ++ x :: skipn (S k) l.

(* cache.delete: fsTree.Delete; on success objCounters.Delete *)
Definition cache_delete (a : addr) (s : st) : st :=
  match lookup a (fs s) with
  | None => s
  | Some _ =>
      let '(m, z) := cnt_del a (cmap s) (csize s) in
      mkSt (mdel a (fs s)) m z (infl s) (blob s) (sch s) (work s) (tok s)
  end.

Inductive label :=
| LPut (a : addr) (sz : N)       (* cache.put succeeded (a refused put changes nothing) *)
| LDel (a : addr)                (* cache.Delete *)
| LBegin (srt : amap)            (* scheduler: tick, snapshot of the counters minus in-flight, sort *)
| LSched (d : dec)               (* scheduler: one step of the loop body *)
| LRead (k : nat)                (* worker k: read its objects from the cache *)
| LStore (k : nat) (ok : bool)   (* worker k: storage.Put / PutBatch *)
| LDelOne (k : nat)              (* worker k: cache.delete of the next flushed object *)
| LDone (k : nat)                (* worker k: unmark the batch, report the error *)
| LTick                          (* scheduler: took the error branch, slept, drained the channel *)
| LRestart.                      (* Close + new process + Open: recount *)

Definition step (p : params) (l : label) (s : st) : option st :=
  match l with
  | LPut a sz =>
      if N.ltb sz two64 then
        let '(m, z) := cnt_add a sz (cmap s) (csize s) in
        Some (mkSt (mset a sz (fs s)) m z (infl s) (blob s) (sch s) (work s) (tok s))
      else None
  | LDel a => Some (cache_delete a s)
  | LBegin srt =>
      match sch s with
      | Some _ => None
      | None => if begin_ok s srt
                then Some (mkSt (fs s) (cmap s) (csize s) (infl s) (blob s) (Some (sched_init srt)) (work s) (tok s))
                else None
      end
  | LSched d =>
      match sch s with
      | None => None
      | Some ss =>
          match sched_step p d ss with
          | None => Some (mkSt (fs s) (cmap s) (csize s) (infl s) (blob s) None (work s) (tok s))
          | Some (ss', SNone) => Some (mkSt (fs s) (cmap s) (csize s) (infl s) (blob s) ss' (work s) (tok s))
          | Some (ss', SMark a) => Some (mkSt (fs s) (cmap s) (csize s) (infl_add a (infl s)) (blob s) ss' (work s) (tok s))
          | Some (ss', SSend b) => Some (mkSt (fs s) (cmap s) (csize s) (infl s) (blob s) ss' (work s ++ [mkW b WNew]) (tok s))
          | Some (ss', SAbort b) =>
              (* only with a pending error; queued addresses are unmarked, the error is re-signalled *)
              if tok s then Some (mkSt (fs s) (cmap s) (csize s) (infl_del_all b (infl s)) (blob s) None (work s) true)
              else None
          end
      end
  | LRead k =>
      match nth_error (work s) k with
      | Some (mkW b WNew) =>
          let objs := filter (fun a => match lookup a (fs s) with Some _ => true | None => false end) b in
          let ph := match b, objs with
                    | [_], [] => WDeleting []     (* flushSingle: object is gone, nothing to do *)
                    | _, _ => WGot objs
                    end in
          Some (mkSt (fs s) (cmap s) (csize s) (infl s) (blob s) (sch s) (set_nth k (mkW b ph) (work s)) (tok s))
      | _ => None
      end
  | LStore k ok =>
      match nth_error (work s) k with
      | Some (mkW b (WGot objs)) =>
          if ok then Some (mkSt (fs s) (cmap s) (csize s) (infl s) (objs ++ blob s) (sch s)
                                (set_nth k (mkW b (WDeleting objs)) (work s)) (tok s))
          else Some (mkSt (fs s) (cmap s) (csize s) (infl s) (blob s) (sch s)
                          (set_nth k (mkW b WFailed) (work s)) (tok s))
      | _ => None
      end
  | LDelOne k =>
      match nth_error (work s) k with
      | Some (mkW b (WDeleting (a :: todo))) =>
          let s1 := cache_delete a s in
          Some (mkSt (fs s1) (cmap s1) (csize s1) (infl s1) (blob s1) (sch s1)
                     (set_nth k (mkW b (WDeleting todo)) (work s1)) (tok s1))
      | _ => None
      end
  | LDone k =>
      match nth_error (work s) k with
      | Some (mkW b (WDeleting [])) =>
          Some (mkSt (fs s) (cmap s) (csize s) (infl_del_all b (infl s)) (blob s) (sch s) (del_nth k (work s)) (tok s))
      | Some (mkW b WFailed) =>
          Some (mkSt (fs s) (cmap s) (csize s) (infl_del_all b (infl s)) (blob s) (sch s) (del_nth k (work s)) true)
      | _ => None
      end
  | LTick => match sch s with None => Some (mkSt (fs s) (cmap s) (csize s) (infl s) (blob s) None (work s) false) | Some _ => None end
  | LRestart =>
      match sch s, work s with
      | None, [] => Some (mkSt (fs s) (fs s) (wrap64 (msum (fs s))) [] (blob s) None [] false)
      | _, _ => None
      end
  end.

Fixpoint run (p : params) (ls : list label) (s : st) : option st :=
  match ls with
  | [] => Some s
  | l :: r => match step p l s with Some s' => run p r s' | None => None end
  end.

Definition reachable (p : params) (s : st) : Prop := exists ls, run p ls init = Some s.
Definition quiescent (s : st) : Prop := sch s = None /\ work s = [].
Definition quiescentb (s : st) : bool :=
  match sch s, work s with None, [] => true | _, _ => false end.

(* ---------------------------------------------------------------- a whole round, run to quiescence *)
(* insertion sort by size (ties: by address) of the counters' entries that are not in flight *)
Definition entry_le (x y : addr * N) : bool :=
  N.ltb (snd x) (snd y) || (N.eqb (snd x) (snd y) && Nat.leb (fst x) (fst y)).
Fixpoint ins_sorted (x : addr * N) (l : amap) : amap :=
  match l with
  | [] => [x]
  | y :: r => if entry_le x y then x :: y :: r else y :: ins_sorted x r
  end.
Definition sort_entries (l : amap) : amap := fold_right ins_sorted [] l.
Definition snapshot (s : st) : amap :=
  sort_entries (filter (fun e => negb (mem (fst e) (infl s))) (cmap s)).

(* the worker that received the youngest batch processes it to the end; `fails b` is the storage oracle *)
Definition worker_labels (k : nat) (b : list addr) (fails : bool) : list label :=
  if fails then [LRead k; LStore k false; LDone k]
  else [LRead k; LStore k true] ++ repeat (LDelOne k) (length b) ++ [LDone k].

Definition orun (p : params) (ls : list label) (s : option st) : option st :=
  match s with Some s => run p ls s | None => None end.

(* Sequential schedule (one worker, storage calls take time): at a flush point the scheduler aborts iff an
   error is pending, otherwise hands the batch over and the worker finishes it before the next flush
   point.  Returns the state and the storage calls (objects given to the storage, outcome). *)
Definition call := (list addr * bool)%type.
Fixpoint seq_round_loop (fuel : nat) (p : params) (fails : list addr -> bool) (s : st) (calls : list call)
  : option (st * list call) :=
  match fuel with
  | 0 => None
  | S f =>
      match sch s with
      | None => Some (s, calls)
      | Some ss =>
          if at_flush p ss then
            if tok s then
              match step p (LSched DAbort) s with Some s' => seq_round_loop f p fails s' calls | None => None end
            else
              match step p (LSched DSend) s with
              | None => None
              | Some s1 =>
                  let k := length (work s1) - 1 in
                  match nth_error (work s1) k with
                  | None => None
                  | Some w =>
                      match step p (LRead k) s1 with
                      | None => None
                      | Some s2 =>
                          match nth_error (work s2) k with
                          | Some (mkW b (WGot objs)) =>
                              let bad := fails objs in
                              match run p (if bad then [LStore k false; LDone k]
                                           else [LStore k true] ++ repeat (LDelOne k) (length objs) ++ [LDone k]) s2 with
                              | Some s3 => seq_round_loop f p fails s3 (calls ++ [(objs, negb bad)])
                              | None => None
                              end
                          | Some (mkW b (WDeleting [])) =>
                              match step p (LDone k) s2 with
                              | Some s3 => seq_round_loop f p fails s3 calls
                              | None => None
                              end
                          | _ => None
                          end
                      end
                  end
              end
          else
            match step p (LSched DSend) s with Some s' => seq_round_loop f p fails s' calls | None => None end
      end
  end.

Definition seq_round (p : params) (fails : list addr -> bool) (s : st) : option (st * list call) :=
  let srt := snapshot s in
  match csize s with
  | 0%N => Some (s, [])          (* if c.objCounters.Size() == 0 { continue } *)
  | _ =>
      match step p (LBegin srt) s with
      | None => None
      | Some s1 => seq_round_loop (4 * length srt + 4) p fails s1 []
      end
  end.

(* ---------------------------------------------------------------- healthy runs (progress statement) *)
(* Writes have stopped and the main storage accepts writes: no put / delete / restart, every storage call
   succeeds, and every round starts from a complete snapshot (all counted addresses not in flight). *)
Definition hok (s : st) (l : label) : bool :=
  match l with
  | LPut _ _ | LDel _ | LRestart => false
  | LStore _ ok => ok
  | LBegin srt => forallb (fun e => mem (fst e) (infl s) || mem (fst e) (keys srt)) (cmap s)
  | _ => true
  end.

Fixpoint hrun (p : params) (ls : list label) (s : st) : option st :=
  match ls with
  | [] => Some s
  | l :: r => if hok s l then match step p l s with Some s' => hrun p r s' | None => None end else None
  end.
