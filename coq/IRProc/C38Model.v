(* C38 — model of netmap admission (processAddNode + CompositeValidator) and of epoch ticks
   (processNewEpoch / processNewEpochTick) of the inner ring
   (pkg/innerring/processors/netmap: process_peers.go, process_epoch.go, nodevalidation/validator.go).
   Definitions only. *)
From Coq Require Import List Bool Arith NArith.
Import ListNotations.
From NV Require Import Gen.IRProcConsts38.

(* ---- admission ---- *)

(* a configured validator: the real state / structure validators, or any other validator,
   represented by its verdict on the node (fact #i of the request) *)
Inductive vkind := VState | VStruct | VFact (i : nat).

Record areq := mkareq {
  a_alphabet : bool;
  a_script : nat;          (* outcome of the test invocation of the main tx script (IsValidScript): 0 HALT, 1 FAULT,
                              >= 2 no verdict: the invocation itself failed (2 RPC error answer, 3 undecodable answer,
                              4 connection dropped). Only 0 shows the transaction to be valid. *)
  a_parsed : bool;         (* the notary parser produced an AddNode event *)
  a_state : nat;           (* announced node state *)
  a_addr_ok : bool;        (* announced addresses are acceptable (structure validator) *)
  a_verdicts : list bool;  (* verdicts of the other validators *)
}.

Definition state_known (s : nat) : bool := Nat.eqb s state_online || Nat.eqb s state_maintenance.

Definition verdict (r : areq) (v : vkind) : bool :=
  match v with
  | VState => state_known (a_state r)
  | VStruct => a_addr_ok r
  | VFact i => nth i (a_verdicts r) false
  end.

(* CompositeValidator.Verify: first error wins, i.e. all must accept *)
Definition composite (cfg : list vkind) (r : areq) : bool := forallb (verdict r) cfg.

(* processAddNode: true = NotarySignAndInvokeTX(main tx) is reached *)
Definition accepts (cfg : list vkind) (r : areq) : bool :=
  a_alphabet r && a_parsed r && Nat.eqb (a_script r) 0
  && state_known (a_state r)      (* Node2Info: only ONLINE / MAINTENANCE convert *)
  && composite cfg r.

(* reference *)
Definition tx_valid (r : areq) : Prop := a_script r = 0.
Definition may_accept (cfg : list vkind) (r : areq) : bool :=
  a_alphabet r && Nat.eqb (a_script r) 0 && forallb (verdict r) cfg.

(* ---- epoch ticks ---- *)

(* Notif n env: the new-epoch notification of epoch n, handled while the chain behaves as env says:
   2 bits per RPC call of processNewEpoch (epoch duration, transaction height, network map listing,
   iterator traversal, container listing; 0 = answered, otherwise the request fails), the same for the reset of
   the local epoch timer, and the snapshot served.
   Tick: the epoch timer fires (whatever the chain answers to the NewEpoch invocation).
   SetAlpha b: the node becomes / ceases to be an alphabet member. *)
Inductive hev := Notif (n : N) (env : N) | Tick | SetAlpha (b : bool).
Record hst := mkhst { h_counter : N; h_alpha : bool }.

(* processNewEpoch: SetEpochCounter(epoch of the notification) happens before every step that can fail or
   return early (transaction height, timer reset, network map snapshot, placement update), so no failure of
   the chain while the handler runs (env) keeps the counter from following the notification *)
Definition on_notif (s : hst) (n env : N) : hst := mkhst n (h_alpha s).

(* uint64 increment of EpochCounter()+1 *)
Definition next (c : N) : N := ((c + 1) mod 18446744073709551616)%N.

(* output: for every Tick of the history, the list of epochs NewEpoch was invoked with *)
Fixpoint run (s : hst) (h : list hev) : list (list N) :=
  match h with
  | [] => []
  | Notif n env :: r => run (on_notif s n env) r
  | Tick :: r => (if h_alpha s then [next (h_counter s)] else []) :: run s r
  | SetAlpha b :: r => run (mkhst (h_counter s) b) r
  end.

(* reference, by prefixes: the latest notified epoch (or the initial counter) and the alphabet
   membership at the moment of a tick *)
Definition latest (init : N) (pre : list hev) : N :=
  fold_left (fun c e => match e with Notif n _ => n | _ => c end) pre init.
Definition alpha_at (a0 : bool) (pre : list hev) : bool :=
  fold_left (fun a e => match e with SetAlpha b => b | _ => a end) pre a0.
Definition ticks (h : list hev) : nat := length (filter (fun e => match e with Tick => true | _ => false end) h).
Definition expected_at (init : N) (a0 : bool) (pre : list hev) : list N :=
  if alpha_at a0 pre then [next (latest init pre)] else [].

(* executable reference for whole histories: walk the positions, recompute from the prefix *)
Fixpoint spec_from (init : N) (a0 : bool) (pre rest : list hev) : list (list N) :=
  match rest with
  | [] => []
  | Tick :: r => expected_at init a0 pre :: spec_from init a0 (pre ++ [Tick]) r
  | e :: r => spec_from init a0 (pre ++ [e]) r
  end.
Definition spec (init : N) (a0 : bool) (h : list hev) := spec_from init a0 [] h.

(* ---- correspondence ---- *)
Definition acase := (nat * areq * bool)%type.      (* configuration index, request, observed approval *)
Definition hcase := (N * bool * list hev * list (list N))%type.

Definition cfg_of (i : nat) : list vkind :=
  map (fun k => match k with 0 => VState | 1 => VStruct | S (S j) => VFact j end) (nth i configs []).

Fixpoint idx_from {A} (i : nat) (f : A -> bool) (cs : list A) : list nat :=
  match cs with
  | [] => []
  | c :: r => if f c then i :: idx_from (S i) f r else idx_from (S i) f r
  end.

Definition lists_eqb (a b : list (list N)) : bool :=
  Nat.eqb (length a) (length b)
  && forallb (fun p => Nat.eqb (length (fst p)) (length (snd p)) && forallb (fun q => N.eqb (fst q) (snd q)) (combine (fst p) (snd p))) (combine a b).

Definition accept_mismatch (c : acase) : bool := let '(i, r, obs) := c in negb (Bool.eqb obs (accepts (cfg_of i) r)).
Definition accept_violation (c : acase) : bool := let '(i, r, obs) := c in obs && negb (may_accept (cfg_of i) r).
Definition hist_mismatch (c : hcase) : bool := let '(init, a0, h, calls) := c in negb (lists_eqb calls (run (mkhst init a0) h)).
Definition hist_violation (c : hcase) : bool := let '(init, a0, h, calls) := c in negb (lists_eqb calls (spec init a0 h)).
Definition accept_mismatches := idx_from 0 accept_mismatch.
Definition accept_violations := idx_from 0 accept_violation.
Definition hist_mismatches := idx_from 0 hist_mismatch.
Definition hist_violations := idx_from 0 hist_violation.
