(* C34 — model of the notary request pipeline of the inner ring: preparator
   (pkg/morph/event/notary_preparator.go: structure checks in source order, allow-filter on the
   first call), listener dispatch (listener.go: parser and handler chosen by the first call,
   acceptOnlySingleCall), the container createV2 parser with its optional second call
   (event/container/notary_requests.go) and the handlers' validation as one boolean per call
   (properties C37 / C38 are about that validation). Definitions only. *)
From Coq Require Import List Bool Arith NArith String.
Import ListNotations.
From NV Require Import Gen.IRProcConsts34.
Open Scope string_scope.

(* what the arguments of a call really are (the harness builds them that way) *)
Definition ct_create := 1.  Definition ct_create_v2 := 2.  Definition ct_remove := 3.
Definition ct_put_eacl := 4.  Definition ct_set_attr := 5.  Definition ct_remove_attr := 6.
Definition ct_add_node := 7.  Definition ct_update_state := 8.
Definition ct_eacl_new := 9.   (* eACL of the container created by the preceding createV2 call *)

Record call := mkcall {
  k_contract : nat;    (* 0 container, 1 netmap, 2 any other contract *)
  k_method : string;
  k_content : nat;
  k_ok : bool;         (* the content passes the checks of the handler it is meant for *)
}.

Record nreq := mkreq {
  q_seen : bool;             (* main tx hash is in the handled cache *)
  q_nwit : nat;              (* witnesses of the main tx *)
  q_fb_local : bool;         (* fallback signed by this node *)
  q_nsigners : nat;
  q_alpha_signer : bool;     (* signer #1 is the alphabet multisignature account *)
  q_nattrs : nat;
  q_attr_notary : bool;      (* attribute #0 is NotaryAssisted *)
  q_nkeys : nat;
  q_w0_empty : bool;         (* proxy witness empty *)
  q_w1_alpha : bool;         (* witness #1 verification script = alphabet multisignature script *)
  q_w2_nonempty : bool;      (* invoker witness (4-witness form) *)
  q_wlast_ok : bool;         (* notary placeholder: invocation empty or the 64-zero dummy, verification empty *)
  q_fb_nattrs : nat;
  q_fb_nvb_count : nat;
  q_nvb : N;
  q_script_ok : bool;        (* the script is a sequence of System.Contract.Call calls *)
  q_calls : list call;
}.

Record env := mkenv { e_alphabet : bool; e_block : N; e_nalpha : nat }.

Definition registered_call (c : call) : bool :=
  existsb (fun p => Nat.eqb (fst p) (k_contract c) && String.eqb (snd p) (k_method c)) registered.

(* preparator.Prepare: 0 = prepared, otherwise the class of the first failing check *)
Definition prepare_class (e : env) (q : nreq) : nat :=
  if q_seen q then 1 else
  if negb (Nat.eqb (q_nwit q) 3 || Nat.eqb (q_nwit q) 4) then 2 else
  if q_fb_local q then 1 else
  if negb (Nat.eqb (q_nsigners q) (q_nwit q)) then 3 else
  if negb (q_alpha_signer q) then 4 else
  if negb (Nat.eqb (q_nattrs q) 1) then 5 else
  if negb (q_attr_notary q && Nat.eqb (q_nkeys q) (e_nalpha e + (if Nat.eqb (q_nwit q) 4 then 1 else 0))) then 6 else
  if negb (q_w0_empty q) then 7 else
  if negb (q_w1_alpha q) then 8 else
  if Nat.eqb (q_nwit q) 4 && negb (q_w2_nonempty q) then 9 else
  if negb (q_wlast_ok q) then 10 else
  if negb (Nat.eqb (q_fb_nattrs q) 3) then 11 else
  if negb (Nat.eqb (q_fb_nvb_count q) 1) then 12 else
  if (q_nvb q <=? e_block e)%N then 13 else
  if negb (q_script_ok q) then 99 else
  match q_calls q with
  | [] => 14
  | c0 :: _ => if registered_call c0 then 0 else 15
  end.

(* which content the parser + handler registered for a method accept *)
Definition content_for (m : string) : nat :=
  if String.eqb m "create" then ct_create else
  if String.eqb m create_v2_method then ct_create_v2 else
  if String.eqb m "remove" then ct_remove else
  if String.eqb m put_eacl_method then ct_put_eacl else
  if String.eqb m "setAttribute" then ct_set_attr else
  if String.eqb m "removeAttribute" then ct_remove_attr else
  if String.eqb m "addNode" then ct_add_node else
  if String.eqb m "updateState" then ct_update_state else
  if String.eqb m "put" then 10 else if String.eqb m "putNamed" then 11 else
  if String.eqb m "delete" then 12 else if String.eqb m "setEACL" then 13 else
  if String.eqb m "putReport" then 14 else 1000.

(* the old-style methods `put` and `setEACL` take the same arguments as `create` / `putEACL` and
   are served by the same handlers *)
Definition accepts (m : string) (ct : nat) : bool :=
  Nat.eqb ct (content_for m)
  || (String.eqb m "put" && Nat.eqb ct ct_create)
  || (String.eqb m "setEACL" && Nat.eqb ct ct_put_eacl).

Definition handler_ok (c : call) : bool := accepts (k_method c) (k_content c) && k_ok c.

(* RestoreCreateContainerV2Request + processCreateContainerRequest on the optional second call *)
(* (repaired: before the fix the second call's contract and method were not looked at) *)
Definition second_ok (c0 c1 : call) : bool :=
  Nat.eqb (k_contract c1) (k_contract c0) && String.eqb (k_method c1) put_eacl_method
  && Nat.eqb (k_content c1) ct_eacl_new && k_ok c1.

(* parseAndHandleNotary + processor: true = NotarySignAndInvokeTX(main tx) is reached *)
Definition sign (e : env) (q : nreq) : bool :=
  Nat.eqb (prepare_class e q) 0 && e_alphabet e &&
  match q_calls q with
  | [] => false
  | c0 :: rest =>
      if String.eqb (k_method c0) create_v2_method
      then handler_ok c0 && match rest with [] => true | [c1] => second_ok c0 c1 | _ => false end
      else match rest with [] => handler_ok c0 | _ => false end
  end.

(* ======================================================================================
   Reference: the property text *)

Definition structure_ok (e : env) (q : nreq) : Prop :=
  q_seen q = false /\ q_fb_local q = false
  /\ (q_nwit q = 3 \/ q_nwit q = 4) /\ q_nsigners q = q_nwit q /\ q_alpha_signer q = true
  /\ q_nattrs q = 1 /\ q_attr_notary q = true /\ q_nkeys q = e_nalpha e + (if Nat.eqb (q_nwit q) 4 then 1 else 0)
  /\ q_w0_empty q = true /\ q_w1_alpha q = true /\ (q_nwit q = 4 -> q_w2_nonempty q = true) /\ q_wlast_ok q = true
  /\ q_fb_nattrs q = 3 /\ q_fb_nvb_count q = 1 /\ (e_block e < q_nvb q)%N
  /\ q_script_ok q = true.

(* an expected call: a (contract, method) pair some processor registered *)
Definition expected (c : call) : Prop := registered_call c = true.
(* validated by the matching handler: the content is what that method's handler checks, and it passed *)
Definition validated (c : call) : Prop :=
  k_ok c = true /\ (accepts (k_method c) (k_content c) = true \/ (k_method c = put_eacl_method /\ k_content c = ct_eacl_new)).

Definition structure_ok_b (e : env) (q : nreq) : bool :=
  negb (q_seen q) && negb (q_fb_local q) && (Nat.eqb (q_nwit q) 3 || Nat.eqb (q_nwit q) 4)
  && Nat.eqb (q_nsigners q) (q_nwit q) && q_alpha_signer q && Nat.eqb (q_nattrs q) 1 && q_attr_notary q
  && Nat.eqb (q_nkeys q) (e_nalpha e + (if Nat.eqb (q_nwit q) 4 then 1 else 0))
  && q_w0_empty q && q_w1_alpha q && (negb (Nat.eqb (q_nwit q) 4) || q_w2_nonempty q) && q_wlast_ok q
  && Nat.eqb (q_fb_nattrs q) 3 && Nat.eqb (q_fb_nvb_count q) 1 && (e_block e <? q_nvb q)%N && q_script_ok q.

Definition call_ok_b (c : call) : bool :=
  registered_call c && k_ok c
  && (accepts (k_method c) (k_content c) || (String.eqb (k_method c) put_eacl_method && Nat.eqb (k_content c) ct_eacl_new)).

Definition may_sign (e : env) (q : nreq) : bool :=
  structure_ok_b e q && e_alphabet e && negb (match q_calls q with [] => true | _ => false end) && forallb call_ok_b (q_calls q).

(* ======================================================================================
   Correspondence: (environment, request, observed preparator class, observed signing) *)
Definition case := (env * nreq * nat * bool)%type.

Fixpoint idx_from {A} (i : nat) (f : A -> bool) (cs : list A) : list nat :=
  match cs with
  | [] => []
  | c :: r => if f c then i :: idx_from (S i) f r else idx_from (S i) f r
  end.

Definition prepare_mismatch (c : case) : bool := let '(e, q, cls, _) := c in negb (Nat.eqb cls (prepare_class e q)).
Definition sign_mismatch (c : case) : bool := let '(e, q, _, s) := c in negb (Bool.eqb s (sign e q)).
Definition ref_violation (c : case) : bool := let '(e, q, _, s) := c in s && negb (may_sign e q).
Definition prepare_mismatches := idx_from 0 prepare_mismatch.
Definition sign_mismatches := idx_from 0 sign_mismatch.
Definition ref_violations := idx_from 0 ref_violation.
