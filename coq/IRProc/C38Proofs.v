(* C38 — proofs. *)
From Coq Require Import List Bool Arith NArith Lia.
Import ListNotations.
From NV Require Import Gen.IRProcConsts38 IRProc.C38Model.

Lemma admit_implies : forall cfg r,
  admits cfg r = true ->
  a_alphabet r = true /\ tx_valid r /\ forall v, In v cfg -> verdict r v = true.
Proof.
  intros cfg r H. unfold admits, composite in H.
  repeat (apply andb_true_iff in H; destruct H as [H ?]).
  split; [assumption|]. split; [unfold tx_valid; apply Nat.eqb_eq; assumption|].
  intros v Hin. match goal with Hf : forallb _ cfg = true |- _ => rewrite forallb_forall in Hf; exact (Hf v Hin) end.
Qed.

Lemma admit_ref : forall cfg r, admits cfg r = true -> may_admit cfg r = true.
Proof.
  intros cfg r H. unfold admits, composite in H. unfold may_admit.
  repeat (apply andb_true_iff in H; destruct H as [H ?]).
  repeat (apply andb_true_iff; split); assumption.
Qed.

Lemma may_admit_sound : forall cfg r,
  may_admit cfg r = true -> a_alphabet r = true /\ tx_valid r /\ forall v, In v cfg -> verdict r v = true.
Proof.
  intros cfg r H. unfold may_admit in H.
  repeat (apply andb_true_iff in H; destruct H as [H ?]).
  split; [assumption|]. split; [unfold tx_valid; apply Nat.eqb_eq; assumption|].
  intros v Hin. match goal with Hf : forallb _ cfg = true |- _ => rewrite forallb_forall in Hf; exact (Hf v Hin) end.
Qed.

Lemma non_alphabet_never_admits : forall cfg r, a_alphabet r = false -> admits cfg r = false.
Proof. intros cfg r H. unfold admits. rewrite H. reflexivity. Qed.

(* ---- histories ---- *)

Lemma ticks_cons : forall e h,
  ticks (e :: h) = match e with Tick => S (ticks h) | _ => ticks h end.
Proof. intros e h. unfold ticks. destruct e; reflexivity. Qed.

(* the k-th tick of a history (k = number of ticks before it) asks for the epoch after the latest
   notified one, iff the node is an alphabet member at that moment *)
Lemma tick_calls : forall pre s post,
  nth (ticks pre) (run s (pre ++ Tick :: post)) [] = expected_at (h_counter s) (h_alpha s) pre.
Proof.
  induction pre as [|e pre IH]; intros s post.
  - cbn. destruct s as [c a]. reflexivity.
  - rewrite ticks_cons. destruct e as [n| |b]; cbn [app run].
    + rewrite IH. cbn. reflexivity.
    + cbn [nth]. rewrite IH. destruct s as [c a]. reflexivity.
    + rewrite IH. cbn. reflexivity.
Qed.

Lemma run_length : forall h s, length (run s h) = ticks h.
Proof.
  induction h as [|e h IH]; intros s; [reflexivity|].
  rewrite ticks_cons. destruct e; cbn [run length]; rewrite ?IH; reflexivity.
Qed.

Lemma expected_at_snoc_notif : forall init a0 pre n,
  latest init (pre ++ [Notif n]) = n /\ alpha_at a0 (pre ++ [Notif n]) = alpha_at a0 pre.
Proof. intros. unfold latest, alpha_at. rewrite !fold_left_app. cbn. split; reflexivity. Qed.

(* the model (one pass with a state) equals the prefix-based reference *)
Lemma run_spec_gen : forall rest pre init a0,
  run (mkhst (latest init pre) (alpha_at a0 pre)) rest = spec_from init a0 pre rest.
Proof.
  induction rest as [|e rest IH]; intros pre init a0; [reflexivity|].
  destruct e as [n| |b]; cbn [run spec_from h_alpha h_counter].
  - rewrite <- IH. unfold latest, alpha_at. rewrite !fold_left_app. cbn. reflexivity.
  - f_equal. rewrite <- IH. unfold latest, alpha_at. rewrite !fold_left_app. cbn. reflexivity.
  - rewrite <- IH. unfold latest, alpha_at. rewrite !fold_left_app. cbn. reflexivity.
Qed.

Lemma run_spec : forall init a0 h, run (mkhst init a0) h = spec init a0 h.
Proof. intros. unfold spec. rewrite <- run_spec_gen. reflexivity. Qed.

Lemma next_is_succ : forall c, (c < 18446744073709551615)%N -> next c = (c + 1)%N.
Proof. intros c H. unfold next. apply N.mod_small. lia. Qed.
