(* C38 — proofs. *)
From Coq Require Import List Bool Arith NArith Lia.
Import ListNotations.
From NV Require Import Gen.IRProcConsts38 IRProc.C38Model.

Lemma accept_implies : forall cfg r,
  accepts cfg r = true ->
  a_alphabet r = true /\ tx_valid r /\ forall v, In v cfg -> verdict r v = true.
Proof.
  intros cfg r H. unfold accepts, composite in H.
  repeat (apply andb_true_iff in H; destruct H as [H ?]).
  split; [assumption|]. split; [unfold tx_valid; apply Nat.eqb_eq; assumption|].
  intros v Hin. match goal with Hf : forallb _ cfg = true |- _ => rewrite forallb_forall in Hf; exact (Hf v Hin) end.
Qed.

Lemma accept_ref : forall cfg r, accepts cfg r = true -> may_accept cfg r = true.
Proof.
  intros cfg r H. unfold accepts, composite in H. unfold may_accept.
  repeat (apply andb_true_iff in H; destruct H as [H ?]).
  repeat (apply andb_true_iff; split); assumption.
Qed.

Lemma may_accept_sound : forall cfg r,
  may_accept cfg r = true -> a_alphabet r = true /\ tx_valid r /\ forall v, In v cfg -> verdict r v = true.
Proof.
  intros cfg r H. unfold may_accept in H.
  repeat (apply andb_true_iff in H; destruct H as [H ?]).
  split; [assumption|]. split; [unfold tx_valid; apply Nat.eqb_eq; assumption|].
  intros v Hin. match goal with Hf : forallb _ cfg = true |- _ => rewrite forallb_forall in Hf; exact (Hf v Hin) end.
Qed.

Lemma non_alphabet_never_accepts : forall cfg r, a_alphabet r = false -> accepts cfg r = false.
Proof. intros cfg r H. unfold accepts. rewrite H. reflexivity. Qed.

(* ---- histories ---- *)

Lemma ticks_cons : forall e h,
  ticks (e :: h) = match e with Tick => S (ticks h) | _ => ticks h end.
Proof. intros e h. unfold ticks. destruct e; reflexivity. Qed.

(* the k-th tick of a history (k = number of ticks before it) asks for the epoch after the latest
   notified one, iff the node is an alphabet member at that moment *)
Lemma tick_calls : forall pre s post,
  nth (ticks pre) (run s (pre ++ Tick :: post)) [] = expected_at (h_counter s) (h_alpha s) pre.
Proof.
  induction pre as [|e pre IH]; intros s post.
  - cbn. destruct s as [c a]. reflexivity.
  - rewrite ticks_cons. destruct e as [n env| |b]; cbn [app run]; unfold on_notif.
    + rewrite IH. cbn. reflexivity.
    + cbn [nth]. rewrite IH. destruct s as [c a]. reflexivity.
    + rewrite IH. cbn. reflexivity.
Qed.

Lemma run_length : forall h s, length (run s h) = ticks h.
Proof.
  induction h as [|e h IH]; intros s; [reflexivity|].
  rewrite ticks_cons. destruct e; cbn [run length]; rewrite ?IH; reflexivity.
Qed.

Lemma expected_at_snoc_notif : forall init a0 pre n env,
  latest init (pre ++ [Notif n env]) = n /\ alpha_at a0 (pre ++ [Notif n env]) = alpha_at a0 pre.
Proof. intros. unfold latest, alpha_at. rewrite !fold_left_app. cbn. split; reflexivity. Qed.

(* the model (one pass with a state) equals the prefix-based reference *)
Lemma run_spec_gen : forall rest pre init a0,
  run (mkhst (latest init pre) (alpha_at a0 pre)) rest = spec_from init a0 pre rest.
Proof.
  induction rest as [|e rest IH]; intros pre init a0; [reflexivity|].
  destruct e as [n env| |b]; cbn [run spec_from h_alpha h_counter]; unfold on_notif.
  - rewrite <- IH. unfold latest, alpha_at. rewrite !fold_left_app. cbn. reflexivity.
  - f_equal. rewrite <- IH. unfold latest, alpha_at. rewrite !fold_left_app. cbn. reflexivity.
  - rewrite <- IH. unfold latest, alpha_at. rewrite !fold_left_app. cbn. reflexivity.
Qed.

Lemma run_spec : forall init a0 h, run (mkhst init a0) h = spec init a0 h.
Proof. intros. unfold spec. rewrite <- run_spec_gen. reflexivity. Qed.

Lemma next_is_succ : forall c, (c < 18446744073709551615)%N -> next c = (c + 1)%N.
Proof. intros c H. unfold next. apply N.mod_small. lia. Qed.

(* the counter follows the notification, whatever fails in the handler afterwards *)
Lemma notif_sets_counter : forall s n env, h_counter (on_notif s n env) = n /\ h_alpha (on_notif s n env) = h_alpha s.
Proof. intros. split; reflexivity. Qed.

Lemma latest_after_notif : forall init pre n env mid,
  (forall e, In e mid -> match e with Notif _ _ => False | _ => True end) ->
  latest init (pre ++ Notif n env :: mid) = n.
Proof.
  intros init pre n env mid H. unfold latest. rewrite fold_left_app. cbn [fold_left].
  generalize dependent n. induction mid as [|e mid IH]; intros n; [reflexivity|].
  cbn [fold_left]. destruct e as [m env'| |b].
  - exfalso. exact (H (Notif m env') (or_introl eq_refl)).
  - apply IH. intros e He. apply H. right. exact He.
  - apply IH. intros e He. apply H. right. exact He.
Qed.
