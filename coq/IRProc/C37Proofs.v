(* C37 — proofs: an approval by the modelled checks implies the property's conditions. *)
From Coq Require Import List Bool Arith NArith ZArith String Lia.
Import ListNotations.
From NV Require Import Gen.IRProcConsts IRProc.C37Model.

Ltac bsplit :=
  repeat match goal with
         | H : (_ && _) = true |- _ => apply andb_true_iff in H; destruct H
         end.

Lemma existsb_eqb_In : forall v l, existsb (Nat.eqb v) l = true -> In v l.
Proof.
  intros v l H. apply existsb_exists in H. destruct H as [x [Hin Heq]].
  apply Nat.eqb_eq in Heq. subst. exact Hin.
Qed.

Lemma mem_str_In : forall k l, mem_str k l = true -> In k l.
Proof.
  intros k l H. unfold mem_str in H. apply existsb_exists in H. destruct H as [x [Hin Heq]].
  apply String.eqb_eq in Heq. subst. exact Hin.
Qed.

Lemma In_mem_str : forall k l, In k l -> mem_str k l = true.
Proof.
  intros k l H. unfold mem_str. apply existsb_exists. exists k. split; [exact H|apply String.eqb_refl].
Qed.

(* ---- the boolean reference reflects the Prop reference ---- *)

Lemma authorised_b_sound : forall e o owner id a,
  authorised_b e o owner id a = true -> authorised e o owner id a.
Proof.
  intros e o owner id a H. unfold authorised_b in H. unfold authorised, owner_sig_ok.
  destruct (a_tok a) as [| |t|t] eqn:Ht.
  - left. split; [reflexivity|].
    destruct (a_n3 a).
    + left. split; [reflexivity|exact H].
    + right. bsplit. split; [reflexivity|]. split; [assumption|]. apply Nat.eqb_eq. assumption.
  - discriminate.
  - right. cbn. bsplit.
    repeat match goal with
           | H : Nat.eqb _ _ = true |- _ => apply Nat.eqb_eq in H
           | H : N.leb _ _ = true |- _ => apply N.leb_le in H
           end.
    repeat split; try assumption.
    intros i Hi. subst id. destruct (t1_cnr t) as [k|]; [|left; reflexivity].
    right. match goal with H : Nat.eqb k i = true |- _ => apply Nat.eqb_eq in H; subst; reflexivity end.
  - right. cbn. bsplit.
    repeat match goal with
           | H : Nat.eqb _ _ = true |- _ => apply Nat.eqb_eq in H
           | H : Z.leb _ _ = true |- _ => apply Z.leb_le in H
           end.
    repeat split; try assumption.
    match goal with H : existsb _ (t2_ctxs t) = true |- _ => apply existsb_exists in H; destruct H as [c [Hin Hc]] end.
    exists c. bsplit. split; [exact Hin|]. split; [apply existsb_eqb_In; assumption|].
    destruct (cx_cnr c) as [k|]; [|left; reflexivity].
    right. destruct id as [i|]; [|discriminate].
    exists i. split; [reflexivity|].
    match goal with H : Nat.eqb k i = true |- _ => apply Nat.eqb_eq in H; subst; reflexivity end.
Qed.

Lemma creation_ok_b_sound : forall e c,
  creation_ok_b e c = true -> policy_valid e c /\ attrs_permitted e (c_attrs c).
Proof.
  intros e c H. unfold creation_ok_b in H.
  apply andb_true_iff in H. destruct H as [H Hattr].
  apply andb_true_iff in H. destruct H as [H Hinit].
  apply andb_true_iff in H. destruct H as [Hver Hec].
  split.
  - unfold policy_valid. split; [exact Hver|]. split.
    + intros Hpos. apply orb_true_iff in Hec. destruct Hec as [Hz|Hz].
      * apply Nat.eqb_eq in Hz. lia.
      * apply andb_true_iff in Hz. destruct Hz as [Hal Hrep]. split; [exact Hal|]. apply Nat.eqb_eq. exact Hrep.
    + intros Hin. apply In_mem_str in Hin. rewrite Hin in Hinit. cbn in Hinit.
      destruct (c_initial c); [discriminate|reflexivity].
  - intros k Hin Hsys. unfold sys_attr in Hsys.
    rewrite forallb_forall in Hattr. specialize (Hattr k Hin). cbn beta in Hattr.
    rewrite Hsys in Hattr. cbn in Hattr.
    apply andb_true_iff in Hattr. destruct Hattr as [Hmem Hmeta].
    split; [apply mem_str_In; exact Hmem|].
    intros Hk. subst k. rewrite String.eqb_refl in Hmeta. cbn in Hmeta. exact Hmeta.
Qed.

Lemma eacl_ok_b_sound : forall ext t, eacl_ok_b ext t = true -> eacl_rules_ok ext t.
Proof.
  intros ext t H. unfold eacl_ok_b in H. apply andb_true_iff in H. destruct H as [Hext Hall].
  split; [exact Hext|].
  intros r Hin Hsys. rewrite forallb_forall in Hall. specialize (Hall r Hin). cbn beta in Hall.
  apply negb_true_iff in Hall.
  assert (existsb (Nat.eqb role_system) (r_roles r) = true) as Hx.
  { apply existsb_exists. exists role_system. split; [exact Hsys|apply Nat.eqb_refl]. }
  congruence.
Qed.

Lemma may_approve_sound : forall e r, may_approve e r = true -> spec e r.
Proof.
  intros e r H. destruct r as [o c a e2|idok ex owner cnr a|t ex owner cnr ext a|o idok ne ex owner cnr a]; cbn in H |- *.
  - bsplit.
    match goal with H : creation_ok_b e c = true |- _ => apply creation_ok_b_sound in H; destruct H as [Hp Ha] end.
    split; [apply authorised_b_sound; assumption|]. split; [exact Hp|]. split; [exact Ha|].
    destruct o; try exact I. destruct e2 as [[t a2]|]; [|exact I].
    bsplit. split; [apply eacl_ok_b_sound; assumption|apply authorised_b_sound; assumption].
  - bsplit. split; [assumption|apply authorised_b_sound; assumption].
  - bsplit. split; [assumption|]. split; [apply eacl_ok_b_sound; assumption|apply authorised_b_sound; assumption].
  - bsplit. split; [assumption|apply authorised_b_sound; assumption].
Qed.

(* ---- the modelled checks imply the boolean reference ---- *)

Lemma verify_signature_ref : forall e o owner id a,
  verify_signature e o owner id a = true -> authorised_b e o owner id a = true.
Proof.
  intros e o owner id a H. unfold verify_signature in H. unfold authorised_b.
  destruct (a_tok a) as [| |t|t].
  - exact H.
  - discriminate.
  - unfold verify_session_v1, check_token_lifetime in H. bsplit.
    repeat (apply andb_true_iff; split); try assumption.
    all: destruct id as [i|]; [|reflexivity]; unfold applied_to in *; destruct (t1_cnr t); [assumption|reflexivity].
  - unfold verify_session_v2, v2_valid_at, assert_container in H. bsplit.
    repeat (apply andb_true_iff; split); try assumption.
    match goal with H : existsb _ (t2_ctxs t) = true |- _ => apply existsb_exists in H; destruct H as [c [Hin Hc]] end.
    apply existsb_exists. exists c. split; [exact Hin|].
    unfold ctx_allows in Hc. destruct (cx_cnr c) as [k|].
    + destruct id as [i|]; [|discriminate]. bsplit. apply andb_true_iff. split; assumption.
    + rewrite Hc. reflexivity.
Qed.

Lemma attrs_ref : forall m l,
  forallb (attr_ok m) l = true ->
  forallb (fun k => negb (String.prefix sys_prefix k) || (mem_str k allowed_sys && (negb (String.eqb k chain_meta) || m))) l = true.
Proof.
  intros m l H. rewrite forallb_forall in *. intros k Hin. specialize (H k Hin).
  unfold attr_ok in H. destruct (String.prefix sys_prefix k); cbn; [|reflexivity].
  bsplit. apply andb_true_iff. split; [assumption|].
  destruct (String.eqb k chain_meta); cbn; [assumption|reflexivity].
Qed.

Lemma check_put_ref : forall e o c a,
  check_put_container e o c a = true ->
  authorised_b e o (c_owner c) None a = true /\ creation_ok_b e c = true.
Proof.
  intros e o c a H. unfold check_put_container, policy_shape_ok in H. bsplit.
  split; [apply verify_signature_ref; assumption|].
  unfold creation_ok_b. repeat (apply andb_true_iff; split).
  - assumption.
  - destruct (c_nec c) as [|n]; [reflexivity|]. cbn in *.
    destruct (e_allow_ec e); cbn in *; [|discriminate].
    destruct (c_nrep c); [reflexivity|discriminate].
  - destruct (mem_str chain_meta (c_attrs c)); cbn in *; [|reflexivity].
    destruct (c_initial c); [discriminate|reflexivity].
  - apply attrs_ref. assumption.
Qed.

Lemma check_set_eacl_ref : forall e owner id ext t a,
  check_set_eacl e owner id ext t a = true ->
  eacl_ok_b ext t = true /\ authorised_b e OpSetEACL owner (Some id) a = true.
Proof.
  intros e owner id ext t a H. unfold check_set_eacl, validate_eacl in H. bsplit.
  split; [|apply verify_signature_ref; assumption].
  unfold eacl_ok_b. apply andb_true_iff. split; [assumption|].
  rewrite forallb_forall in *. intros r Hin.
  match goal with H : forall x, In x _ -> record_ok x = true |- _ => specialize (H r Hin); unfold record_ok in H end.
  bsplit. assumption.
Qed.

Lemma process_ref : forall e r, process e r = true -> e_alphabet e = true /\ may_approve e r = true.
Proof.
  intros e r H. unfold process in H. apply andb_true_iff in H. destruct H as [Ha H]. split; [exact Ha|].
  destruct r as [o c a e2|idok ex owner cnr a|t ex owner cnr ext a|o idok ne ex owner cnr a]; cbn.
  - apply andb_true_iff in H. destruct H as [H He2].
    apply andb_true_iff in H. destruct H as [_ Hput].
    apply check_put_ref in Hput. destruct Hput as [H1 H2]. rewrite H1, H2. cbn.
    destruct o; try reflexivity. destruct e2 as [[t a2]|]; [|reflexivity].
    cbv beta iota in He2. bsplit.
    match goal with H : check_set_eacl _ _ _ _ _ _ = true |- _ => apply check_set_eacl_ref in H; destruct H as [Hx3 Hx4] end.
    rewrite Hx3, Hx4. reflexivity.
  - bsplit. apply andb_true_iff. split; [assumption|apply verify_signature_ref; assumption].
  - bsplit.
    match goal with H : check_set_eacl _ _ _ _ _ _ = true |- _ => apply check_set_eacl_ref in H; destruct H as [Hx3 Hx4] end.
    rewrite Hx3, Hx4.
    match goal with H : ex = true |- _ => rewrite H end. reflexivity.
  - bsplit. apply andb_true_iff. split; [assumption|apply verify_signature_ref; assumption].
Qed.

Lemma approve_implies : forall e r, process e r = true -> e_alphabet e = true /\ spec e r.
Proof.
  intros e r H. apply process_ref in H. destruct H as [Ha Hm]. split; [exact Ha|apply may_approve_sound; exact Hm].
Qed.

(* the repaired hole, spelled out: a V2 token authorises a creation only through a wildcard
   context that carries the container-creation verb *)
Lemma v2_creation_needs_put_verb : forall e o c a e2 t,
  process e (RCreate o c a e2) = true -> a_tok a = TokV2 t ->
  exists cx, In cx (t2_ctxs t) /\ cx_cnr cx = None /\ In (v2_verb o) (cx_verbs cx).
Proof.
  intros e o c a e2 t H Ht. apply approve_implies in H. destruct H as [_ H]. cbn in H.
  destruct H as [Hau _]. unfold authorised in Hau. destruct Hau as [[Hno _]|Hs].
  - rewrite Ht in Hno. discriminate.
  - rewrite Ht in Hs. cbn in Hs. destruct Hs as [_ [_ [_ [[cx [Hin [Hv Hc]]] _]]]].
    exists cx. split; [exact Hin|]. split.
    + destruct Hc as [Hc|[i [Hi _]]]; [exact Hc|discriminate].
    + exact Hv.
Qed.

Lemma no_system_role : forall e t ex owner cnr ext a r,
  process e (RSetEACL t ex owner cnr ext a) = true -> In r (ea_records t) -> ~ In role_system (r_roles r).
Proof.
  intros e t ex owner cnr ext a r H Hin. apply approve_implies in H. destruct H as [_ H]. cbn in H.
  destruct H as [_ [[_ Hr] _]]. apply Hr. exact Hin.
Qed.
