(* C34 — proofs: a signature implies a structurally valid request all of whose calls are
   registered and validated. *)
From Coq Require Import List Bool Arith NArith String Lia.
Import ListNotations.
From NV Require Import Gen.IRProcConsts34 IRProc.C34Model.
Open Scope string_scope.

Ltac bsplit :=
  repeat match goal with
         | H : (_ && _) = true |- _ => apply andb_true_iff in H; destruct H
         end.

(* the preparator's verdict 0 is exactly the boolean structure predicate plus a registered first call *)
Lemma prepare_zero : forall e q,
  prepare_class e q = 0 ->
  structure_ok_b e q = true /\ exists c0 rest, q_calls q = c0 :: rest /\ registered_call c0 = true.
Proof.
  intros e q H. unfold prepare_class in H.
  repeat match type of H with
         | (if ?b then _ else _) = 0 => let E := fresh "E" in destruct b eqn:E; [discriminate H|]
         end.
  destruct (q_calls q) as [|c0 rest] eqn:Hq; [discriminate H|].
  destruct (registered_call c0) eqn:Hr; [|discriminate H].
  split; [|exists c0, rest; split; [reflexivity|exact Hr]].
  unfold structure_ok_b.
  repeat match goal with E : negb _ = false |- _ => apply negb_false_iff in E end.
  match goal with E : (q_attr_notary q && _) = true |- _ => apply andb_true_iff in E; destruct E as [En Ek] end.
  match goal with E : N.leb _ _ = false |- _ => apply N.leb_gt in E; apply N.ltb_lt in E; rename E into Env end.
  match goal with E : (Nat.eqb (q_nwit q) 4 && negb (q_w2_nonempty q)) = false |- _ => rename E into Ew2 end.
  assert ((negb (Nat.eqb (q_nwit q) 4) || q_w2_nonempty q) = true) as Hw2.
  { destruct (Nat.eqb (q_nwit q) 4), (q_w2_nonempty q); cbn in *; congruence. }
  rewrite Hw2, Env, En, Ek.
  repeat match goal with E : _ = true |- _ => rewrite E; clear E end.
  repeat match goal with E : _ = false |- _ => rewrite E; clear E end.
  reflexivity.
Qed.

Lemma structure_ok_b_sound : forall e q, structure_ok_b e q = true -> structure_ok e q.
Proof.
  intros e q H. unfold structure_ok_b in H. bsplit. unfold structure_ok.
  repeat match goal with
         | H : negb _ = true |- _ => apply negb_true_iff in H
         | H : Nat.eqb _ _ = true |- _ => apply Nat.eqb_eq in H
         | H : N.ltb _ _ = true |- _ => apply N.ltb_lt in H
         end.
  repeat split; try assumption.
  - match goal with H : (_ || _) = true |- _ \/ _ => apply orb_true_iff in H; destruct H as [H|H]; apply Nat.eqb_eq in H; [left|right]; exact H end.
  - intros Hfour.
    match goal with H : (negb (Nat.eqb (q_nwit q) 4) || q_w2_nonempty q) = true |- _ => rewrite Hfour in H; cbn in H; exact H end.
Qed.

Lemma handler_ok_call : forall c, registered_call c = true -> handler_ok c = true -> call_ok_b c = true.
Proof.
  intros c Hr H. unfold handler_ok in H. apply andb_true_iff in H. destruct H as [Ha Hk]. unfold call_ok_b.
  rewrite Hr, Hk, Ha. reflexivity.
Qed.

Lemma create_v2_registered : registered_call (mkcall 0 create_v2_method 0 false) = true.
Proof. vm_compute. reflexivity. Qed.
Lemma put_eacl_registered : registered_call (mkcall 0 put_eacl_method 0 false) = true.
Proof. vm_compute. reflexivity. Qed.
(* createV2 is registered for the container contract only *)
Lemma create_v2_only_container : forall c,
  registered_call c = true -> String.eqb (k_method c) create_v2_method = true -> k_contract c = 0.
Proof.
  intros c Hr Hm. apply String.eqb_eq in Hm. unfold registered_call in Hr.
  apply existsb_exists in Hr. destruct Hr as [[ci m] [Hin Hp]]. cbn in Hp.
  apply andb_true_iff in Hp. destruct Hp as [Hc Hs]. apply Nat.eqb_eq in Hc. apply String.eqb_eq in Hs.
  rewrite Hm in Hs. subst m. rewrite <- Hc.
  revert Hin. unfold registered.
  repeat (intros [Heq|Hin]; [inversion Heq; subst; try reflexivity; try discriminate|revert Hin]).
  intros [].
Qed.

Lemma sign_ref : forall e q, sign e q = true -> may_sign e q = true.
Proof.
  intros e q H. unfold sign in H.
  apply andb_true_iff in H. destruct H as [H Hcalls].
  apply andb_true_iff in H. destruct H as [Hp Ha].
  apply Nat.eqb_eq in Hp. apply prepare_zero in Hp. destruct Hp as [Hs [c0 [rest [Hq Hr]]]].
  unfold may_sign. rewrite Hs, Ha, Hq. rewrite Hq in Hcalls. cbn [andb negb].
  destruct (String.eqb (k_method c0) create_v2_method) eqn:Hm.
  - apply andb_true_iff in Hcalls. destruct Hcalls as [H0 Hrest].
    pose proof (handler_ok_call c0 Hr H0) as Hc0.
    destruct rest as [|c1 [|c2 rest']].
    + cbn. rewrite Hc0. reflexivity.
    + cbn. rewrite Hc0. cbn. unfold second_ok in Hrest. bsplit.
      unfold call_ok_b.
      repeat match goal with
             | H : Nat.eqb _ _ = true |- _ => apply Nat.eqb_eq in H
             end.
      assert (registered_call c1 = true) as Hr1.
      { pose proof (create_v2_only_container c0 Hr Hm) as Hz.
        match goal with H : String.eqb (k_method c1) put_eacl_method = true |- _ => apply String.eqb_eq in H; rename H into Hm1 end.
        match goal with H : k_contract c1 = k_contract c0 |- _ => rename H into Hc1 end.
        unfold registered_call. rewrite Hc1, Hz, Hm1. exact put_eacl_registered. }
      rewrite Hr1.
      match goal with H : k_ok c1 = true |- _ => rewrite H end.
      match goal with H : k_content c1 = ct_eacl_new |- _ => rewrite H end.
      match goal with H : String.eqb (k_method c1) put_eacl_method = true |- _ => rewrite H end.
      cbn. rewrite orb_true_r. reflexivity.
    + discriminate.
  - destruct rest; [|discriminate]. cbn. rewrite (handler_ok_call c0 Hr Hcalls). reflexivity.
Qed.

Lemma call_ok_b_sound : forall c, call_ok_b c = true -> expected c /\ validated c.
Proof.
  intros c H. unfold call_ok_b in H. bsplit. split; [assumption|].
  split; [assumption|].
  match goal with H : (_ || _) = true |- _ => apply orb_true_iff in H; destruct H as [H|H] end.
  - left. assumption.
  - right. bsplit. split; [apply String.eqb_eq; assumption|apply Nat.eqb_eq; assumption].
Qed.

Lemma may_sign_sound : forall e q,
  may_sign e q = true ->
  e_alphabet e = true /\ structure_ok e q /\ q_calls q <> [] /\ forall c, In c (q_calls q) -> expected c /\ validated c.
Proof.
  intros e q H. unfold may_sign in H. bsplit.
  split; [assumption|]. split; [apply structure_ok_b_sound; assumption|]. split.
  - intros Hn. rewrite Hn in *. discriminate.
  - intros c Hin. match goal with H : forallb _ _ = true |- _ => rewrite forallb_forall in H; specialize (H c Hin) end.
    apply call_ok_b_sound. assumption.
Qed.

Lemma sign_implies : forall e q,
  sign e q = true ->
  e_alphabet e = true /\ structure_ok e q /\ q_calls q <> [] /\ forall c, In c (q_calls q) -> expected c /\ validated c.
Proof. intros e q H. apply may_sign_sound. apply sign_ref. exact H. Qed.

Lemma prepared_implies_structure : forall e q, prepare_class e q = 0 -> structure_ok e q.
Proof. intros e q H. apply prepare_zero in H. destruct H as [H _]. apply structure_ok_b_sound. exact H. Qed.

Lemma second_call_is_put_eacl : forall e q c0 c1,
  sign e q = true -> q_calls q = [c0; c1] ->
  k_method c0 = create_v2_method /\ k_contract c1 = k_contract c0 /\ k_method c1 = put_eacl_method.
Proof.
  intros e q c0 c1 H Hq. unfold sign in H. rewrite Hq in H.
  apply andb_true_iff in H. destruct H as [_ H].
  destruct (String.eqb (k_method c0) create_v2_method) eqn:Hm; [|discriminate].
  apply andb_true_iff in H. destruct H as [_ H]. unfold second_ok in H. bsplit.
  split; [apply String.eqb_eq; exact Hm|]. split; [apply Nat.eqb_eq; assumption|apply String.eqb_eq; assumption].
Qed.
