(* C37 — model of the container request checks of the inner ring
   (pkg/innerring/processors/container: process_container.go, process_eacl.go, common.go)
   over abstract facts about the request: which key signed what, what the session token says,
   which attributes / policy / eACL records the container carries. Definitions only.

   Signatures are not computed: a request carries booleans saying whether the relevant
   signature verifies (the harness builds each request from these facts with real keys). *)
From Coq Require Import List Bool Arith NArith ZArith String.
Import ListNotations.
From NV Require Import Gen.IRProcConsts.

Inductive op := OpPut | OpPutNamed | OpCreateV2 | OpDelete | OpSetEACL | OpSetAttr | OpRemoveAttr.

(* verb the processor asks the token for (signatureVerificationData.verb / verbV2) *)
Definition v1_verb (o : op) : nat :=
  match o with
  | OpPut | OpPutNamed | OpCreateV2 => v1_verb_put
  | OpDelete => v1_verb_delete
  | OpSetEACL => v1_verb_seteacl
  | OpSetAttr => v1_verb_setattr
  | OpRemoveAttr => v1_verb_removeattr
  end.
Definition v2_verb (o : op) : nat :=
  match o with
  | OpPut | OpPutNamed | OpCreateV2 => v2_verb_put
  | OpDelete => v2_verb_delete
  | OpSetEACL => v2_verb_seteacl
  | OpSetAttr => v2_verb_setattr
  | OpRemoveAttr => v2_verb_removeattr
  end.

(* V1 session token (session.Container) *)
Record v1tok := mkv1 {
  t1_sig_ok : bool;         (* AuthenticateToken: body signature verifies and its key is the issuer's *)
  t1_issuer : nat;
  t1_verb : nat;
  t1_cnr : option nat;      (* None = applies to any container *)
  t1_iat : N; t1_nbf : N; t1_exp : N;   (* epochs *)
  t1_data_sig_ok : bool;    (* VerifySessionDataSignature: request data signed by the session key *)
}.

(* V2 session token (session/v2.Token) *)
Record ctx := mkctx { cx_cnr : option nat (* None = wildcard *); cx_verbs : list nat }.
Record v2tok := mkv2 {
  t2_valid : bool;          (* Token.Validate (fields, delegation chain) *)
  t2_sig_ok : bool;         (* AuthenticateTokenV2 over the whole chain *)
  t2_orig : nat;            (* OriginalIssuer *)
  t2_ctxs : list ctx;
  t2_iat : Z; t2_nbf : Z; t2_exp : Z;   (* seconds *)
}.

Inductive token := NoTok | BadTok | TokV1 (t : v1tok) | TokV2 (t : v2tok).

Record auth := mkauth {
  a_tok : token;
  a_n3 : bool;              (* witness is an N3 script pair, verified by the chain for the owner's account *)
  a_n3_ok : bool;
  a_sig_valid : bool;       (* public-key form: signature verifies for (key, signed data) *)
  a_sig_key : nat;          (* ... and whose key it is *)
}.

Record env := mkenv { e_alphabet : bool; e_epoch : N; e_now : Z; e_meta : bool; e_allow_ec : bool }.

(* -- common.go ----------------------------------------------------------------------- *)

Definition applied_to (tc : option nat) (id : nat) : bool :=
  match tc with None => true | Some k => Nat.eqb k id end.

Definition check_token_lifetime (e : env) (t : v1tok) : bool :=
  (t1_nbf t <=? e_epoch e)%N && (t1_iat t <=? e_epoch e)%N && (e_epoch e <=? t1_exp t)%N.

(* sessionv2.Token.AssertContainer(verb, id): id = None is the zero ID, matched by wildcard
   contexts only *)
Definition ctx_allows (verb : nat) (id : option nat) (c : ctx) : bool :=
  match cx_cnr c with
  | None => existsb (Nat.eqb verb) (cx_verbs c)
  | Some k => match id with
              | Some i => Nat.eqb k i && existsb (Nat.eqb verb) (cx_verbs c)
              | None => false
              end
  end.
Definition assert_container (verb : nat) (id : option nat) (t : v2tok) : bool :=
  existsb (ctx_allows verb id) (t2_ctxs t).

Definition v2_valid_at (e : env) (t : v2tok) : bool :=
  (t2_iat t <=? e_now e)%Z && (e_now e <=? t2_exp t)%Z && (t2_nbf t <=? e_now e)%Z.

(* verifySessionV2. `id` is Some for idContainerSet; for creation it is None and the verb is
   asserted against wildcard contexts (repaired: before the fix nothing was asserted then). *)
Definition verify_session_v2 (e : env) (o : op) (owner : nat) (id : option nat) (t : v2tok) : bool :=
  t2_valid t && t2_sig_ok t && assert_container (v2_verb o) id t
  && Nat.eqb (t2_orig t) owner && v2_valid_at e t.

Definition verify_session_v1 (e : env) (o : op) (owner : nat) (id : option nat) (t : v1tok) : bool :=
  t1_sig_ok t && Nat.eqb (t1_verb t) (v1_verb o)
  && (match id with Some i => applied_to (t1_cnr t) i | None => true end)
  && Nat.eqb (t1_issuer t) owner && check_token_lifetime e t && t1_data_sig_ok t.

Definition direct_ok (owner : nat) (a : auth) : bool :=
  if a_n3 a then a_n3_ok a else a_sig_valid a && Nat.eqb (a_sig_key a) owner.

Definition verify_signature (e : env) (o : op) (owner : nat) (id : option nat) (a : auth) : bool :=
  match a_tok a with
  | NoTok => direct_ok owner a
  | BadTok => false
  | TokV1 t => verify_session_v1 e o owner id t
  | TokV2 t => verify_session_v2 e o owner id t
  end.

(* -- container creation ---------------------------------------------------------------- *)

Definition mem_str (k : string) (l : list string) : bool := existsb (String.eqb k) l.

Definition attr_ok (meta_enabled : bool) (k : string) : bool :=
  if String.prefix sys_prefix k
  then mem_str k allowed_sys && (if String.eqb k chain_meta then meta_enabled else true)
  else true.

Record creation := mkcre {
  c_decodes : bool;
  c_owner : nat;
  c_attrs : list string;      (* attribute keys *)
  c_nrep : nat; c_nec : nat;  (* REP / EC rule counts *)
  c_initial : bool;           (* has an initial placement policy *)
  c_pol_verify : bool;        (* netmap.PlacementPolicy.Verify() *)
  c_name_match : bool;        (* named put: name/zone arguments equal the container's *)
  c_extendable : bool;
}.

Definition policy_shape_ok (e : env) (c : creation) : bool :=
  let meta_on := mem_str chain_meta (c_attrs c) in
  negb (negb (e_allow_ec e) && Nat.ltb 0 (c_nec c))
  && negb (Nat.ltb 0 (c_nec c) && Nat.ltb 0 (c_nrep c))
  && negb (meta_on && c_initial c).

Definition check_put_container (e : env) (o : op) (c : creation) (a : auth) : bool :=
  forallb (attr_ok (e_meta e)) (c_attrs c)
  && policy_shape_ok e c
  && verify_signature e o (c_owner c) None a
  && c_pol_verify c
  && (match o with OpPutNamed => c_name_match c | _ => true end).

(* -- eACL ------------------------------------------------------------------------------- *)

Inductive matcher := MOther | MNotPresent | MNum.
Inductive fvalue := VEmpty | VDecimal | VNonDecimal.
Record erecord := mkrec { r_roles : list nat; r_filters : list (matcher * fvalue) }.

Definition filter_ok (f : matcher * fvalue) : bool :=
  match f with
  | (MNotPresent, VEmpty) => true
  | (MNotPresent, _) => false
  | (MNum, VDecimal) => true
  | (MNum, _) => false
  | (MOther, _) => true
  end.

Definition record_ok (r : erecord) : bool :=
  negb (existsb (Nat.eqb role_system) (r_roles r)) && forallb filter_ok (r_filters r).

Definition validate_eacl (rs : list erecord) : bool := forallb record_ok rs.

Record eacl := mkeacl {
  ea_decodes : bool;
  ea_cid_set : bool;
  ea_cid_same : bool;       (* table's container = the container the request is about *)
  ea_records : list erecord;
}.

Definition check_set_eacl (e : env) (owner : nat) (id : nat) (extendable : bool) (t : eacl) (a : auth) : bool :=
  validate_eacl (ea_records t) && extendable && verify_signature e OpSetEACL owner (Some id) a.

(* -- requests ---------------------------------------------------------------------------- *)

(* container index used for a container being created (never one of the stored ones) *)
Definition new_cnr : nat := 100.

Inductive request :=
| RCreate (o : op) (c : creation) (a : auth) (e2 : option (eacl * auth))   (* OpPut / OpPutNamed / OpCreateV2; eACL only with V2 *)
| RDelete (id_ok : bool) (exists_ : bool) (owner cnr : nat) (a : auth)
| RSetEACL (t : eacl) (exists_ : bool) (owner cnr : nat) (extendable : bool) (a : auth)
| RAttr (o : op) (id_ok : bool) (not_expired : bool) (exists_ : bool) (owner cnr : nat) (a : auth).

(* process*: true = NotarySignAndInvokeTX is reached *)
Definition process (e : env) (r : request) : bool :=
  e_alphabet e &&
  match r with
  | RCreate o c a e2 =>
      c_decodes c && check_put_container e o c a
      && match o, e2 with
         | OpCreateV2, Some (t, a2) =>
             ea_decodes t && ea_cid_set t && ea_cid_same t
             && check_set_eacl e (c_owner c) new_cnr (c_extendable c) t a2
         | _, _ => true
         end
  | RDelete id_ok ex owner cnr a => id_ok && ex && verify_signature e OpDelete owner (Some cnr) a
  | RSetEACL t ex owner cnr ext a =>
      ea_decodes t && ea_cid_set t && ex && check_set_eacl e owner cnr ext t a
  | RAttr o id_ok ne ex owner cnr a => id_ok && ne && ex && verify_signature e o owner (Some cnr) a
  end.

(* ======================================================================================
   Reference: the property text *)

Definition v1_in_lifetime (e : env) (t : v1tok) : Prop :=
  (t1_nbf t <= e_epoch e)%N /\ (t1_iat t <= e_epoch e)%N /\ (e_epoch e <= t1_exp t)%N.
Definition v2_in_lifetime (e : env) (t : v2tok) : Prop :=
  (t2_iat t <= e_now e)%Z /\ (t2_nbf t <= e_now e)%Z /\ (e_now e <= t2_exp t)%Z.

(* a valid, unexpired session token from the owner for that verb and container *)
Definition session_ok (e : env) (o : op) (owner : nat) (id : option nat) (tk : token) : Prop :=
  match tk with
  | TokV1 t =>
      t1_sig_ok t = true /\ t1_data_sig_ok t = true /\ t1_issuer t = owner /\ t1_verb t = v1_verb o
      /\ (forall i, id = Some i -> t1_cnr t = None \/ t1_cnr t = Some i) /\ v1_in_lifetime e t
  | TokV2 t =>
      t2_valid t = true /\ t2_sig_ok t = true /\ t2_orig t = owner
      /\ (exists c, In c (t2_ctxs t) /\ In (v2_verb o) (cx_verbs c)
                    /\ (cx_cnr c = None \/ exists i, id = Some i /\ cx_cnr c = Some i))
      /\ v2_in_lifetime e t
  | _ => False
  end.

Definition owner_sig_ok (owner : nat) (a : auth) : Prop :=
  a_tok a = NoTok /\
  ((a_n3 a = true /\ a_n3_ok a = true) \/ (a_n3 a = false /\ a_sig_valid a = true /\ a_sig_key a = owner)).

Definition authorised (e : env) (o : op) (owner : nat) (id : option nat) (a : auth) : Prop :=
  owner_sig_ok owner a \/ session_ok e o owner id (a_tok a).

Definition sys_attr (k : string) : Prop := String.prefix sys_prefix k = true.
Definition attrs_permitted (e : env) (attrs : list string) : Prop :=
  forall k, In k attrs -> sys_attr k -> In k allowed_sys /\ (k = chain_meta -> e_meta e = true).

Definition policy_valid (e : env) (c : creation) : Prop :=
  c_pol_verify c = true
  /\ (0 < c_nec c -> e_allow_ec e = true /\ c_nrep c = 0)
  /\ (In chain_meta (c_attrs c) -> c_initial c = false).

Definition eacl_rules_ok (extendable : bool) (t : eacl) : Prop :=
  extendable = true /\ forall r, In r (ea_records t) -> ~ In role_system (r_roles r).

(* what an approval must imply, per request kind *)
Definition spec (e : env) (r : request) : Prop :=
  match r with
  | RCreate o c a e2 =>
      authorised e o (c_owner c) None a /\ policy_valid e c /\ attrs_permitted e (c_attrs c)
      /\ match o, e2 with
         | OpCreateV2, Some (t, a2) =>
             eacl_rules_ok (c_extendable c) t /\ authorised e OpSetEACL (c_owner c) (Some new_cnr) a2
         | _, _ => True
         end
  | RDelete _ ex owner cnr a => ex = true /\ authorised e OpDelete owner (Some cnr) a
  | RSetEACL t ex owner cnr ext a => ex = true /\ eacl_rules_ok ext t /\ authorised e OpSetEACL owner (Some cnr) a
  | RAttr o _ _ ex owner cnr a => ex = true /\ authorised e o owner (Some cnr) a
  end.

(* boolean form of the reference, for evaluating the implementation's outcomes directly *)
Definition authorised_b (e : env) (o : op) (owner : nat) (id : option nat) (a : auth) : bool :=
  match a_tok a with
  | NoTok => if a_n3 a then a_n3_ok a else a_sig_valid a && Nat.eqb (a_sig_key a) owner
  | BadTok => false
  | TokV1 t =>
      t1_sig_ok t && t1_data_sig_ok t && Nat.eqb (t1_issuer t) owner && Nat.eqb (t1_verb t) (v1_verb o)
      && (match id, t1_cnr t with Some i, Some k => Nat.eqb k i | _, _ => true end)
      && (t1_nbf t <=? e_epoch e)%N && (t1_iat t <=? e_epoch e)%N && (e_epoch e <=? t1_exp t)%N
  | TokV2 t =>
      t2_valid t && t2_sig_ok t && Nat.eqb (t2_orig t) owner
      && existsb (fun c => existsb (Nat.eqb (v2_verb o)) (cx_verbs c)
                           && match cx_cnr c, id with None, _ => true | Some k, Some i => Nat.eqb k i | Some _, None => false end)
                 (t2_ctxs t)
      && (t2_iat t <=? e_now e)%Z && (t2_nbf t <=? e_now e)%Z && (e_now e <=? t2_exp t)%Z
  end.

Definition creation_ok_b (e : env) (c : creation) : bool :=
  c_pol_verify c
  && (Nat.eqb (c_nec c) 0 || (e_allow_ec e && Nat.eqb (c_nrep c) 0))
  && (negb (mem_str chain_meta (c_attrs c)) || negb (c_initial c))
  && forallb (fun k => negb (String.prefix sys_prefix k)
                       || (mem_str k allowed_sys && (negb (String.eqb k chain_meta) || e_meta e))) (c_attrs c).

Definition eacl_ok_b (extendable : bool) (t : eacl) : bool :=
  extendable && forallb (fun r => negb (existsb (Nat.eqb role_system) (r_roles r))) (ea_records t).

(* may the request be approved according to the property? *)
Definition may_approve (e : env) (r : request) : bool :=
  match r with
  | RCreate o c a e2 =>
      authorised_b e o (c_owner c) None a && creation_ok_b e c
      && match o, e2 with
         | OpCreateV2, Some (t, a2) => eacl_ok_b (c_extendable c) t && authorised_b e OpSetEACL (c_owner c) (Some new_cnr) a2
         | _, _ => true
         end
  | RDelete _ ex owner cnr a => ex && authorised_b e OpDelete owner (Some cnr) a
  | RSetEACL t ex owner cnr ext a => ex && eacl_ok_b ext t && authorised_b e OpSetEACL owner (Some cnr) a
  | RAttr o _ _ ex owner cnr a => ex && authorised_b e o owner (Some cnr) a
  end.

(* ======================================================================================
   Correspondence: (environment, request, observed approval) *)
Definition case := (env * request * bool)%type.

Fixpoint idx_from {A} (i : nat) (f : A -> bool) (cs : list A) : list nat :=
  match cs with
  | [] => []
  | c :: r => if f c then i :: idx_from (S i) f r else idx_from (S i) f r
  end.

Definition model_mismatch (c : case) : bool := let '(e, r, obs) := c in negb (Bool.eqb obs (process e r)).
Definition ref_violation (c : case) : bool := let '(e, r, obs) := c in obs && negb (may_approve e r).
Definition model_mismatches := idx_from 0 model_mismatch.
Definition ref_violations := idx_from 0 ref_violation.
