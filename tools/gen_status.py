#!/usr/bin/env python3
"""Regenerate the 'as built' status table inside DESIGN.md (between the STATUS markers)
from props/*.py META, known_findings.txt, seeded/*/meta.json and notes/."""
import glob, importlib.util, json, os, re, sys
HERE = os.path.dirname(os.path.dirname(os.path.abspath(__file__)))
sys.path.insert(0, os.path.join(HERE, "lib"))

def load(pid):
    spec = importlib.util.spec_from_file_location("prop_" + pid, os.path.join(HERE, "props", pid + ".py"))
    m = importlib.util.module_from_spec(spec); spec.loader.exec_module(m); return m.META

ids = [json.loads(l)["id"] for l in open(os.path.join(HERE, "properties.jsonl")) if l.strip()]
titles = {json.loads(l)["id"]: json.loads(l)["title"] for l in open(os.path.join(HERE, "properties.jsonl")) if l.strip()}
kf = open(os.path.join(HERE, "known_findings.txt")).read().splitlines()
out = ["| id | claimed | theorems (Props/Properties_Cxx.v) | tie | partial? | findings / fixes | seeded changes caught |", "|---|---|---|---|---|---|---|"]
for pid in ids:
    pp = os.path.join(HERE, "props", pid + ".py")
    seeds = sorted(glob.glob(os.path.join(HERE, "seeded", pid + "*", "meta.json")))
    sd = []
    for s in seeds:
        try:
            m = json.load(open(s)); sd.append("%s: %s" % (os.path.basename(os.path.dirname(s)), m.get("detected_by", "?")))
        except Exception:
            pass
    f = [l for l in kf if ("property=%s " % pid) in l]
    fx = "; ".join(("FIXED " if l.startswith("fixed") else "KNOWN ") + l.split(None, 3)[2] for l in f)
    if not os.path.exists(pp):
        out.append("| %s | no | — | — | — | %s | %s |" % (pid, fx, "<br>".join(sd)))
        continue
    m = load(pid)
    tie = []
    if "xlate" in m.get("technique", "") or "translator" in m.get("technique", ""):
        tie.append("T (xlate)")
    if m.get("engine"):
        tie.append("D (harness/cmd/%s)" % m["engine"])
    if os.path.exists(os.path.join(HERE, "coq", "Gen")) and re.search(r"Gen/", " ".join(m.get("coq_files", []) + m.get("coq_targets", []))):
        tie.append("Gen consts")
    out.append("| %s | yes | %s | %s | %s | %s | %s |" % (
        pid, ", ".join(m.get("theorems", [])), " + ".join(tie) or "—",
        "partial" if "partial" in m.get("level_note", "").lower() else "", fx, "<br>".join(sd)))
text = "\n".join(out)
p = os.path.join(HERE, "DESIGN.md")
s = open(p).read()
a, b = "<!-- STATUS:BEGIN -->", "<!-- STATUS:END -->"
if a in s:
    s = s[:s.index(a) + len(a)] + "\n" + text + "\n" + s[s.index(b):]
    open(p, "w").write(s)
print(text)
