#!/usr/bin/env python3
"""Print the prompt for an independent mutation-seeding agent (gets only the property text)."""
import json, sys
pid = sys.argv[1]
wt = "/tmp/seed-" + pid
for l in open('/verif/properties.jsonl'):
    p = json.loads(l)
    if p['id'] == pid:
        break
print(f"""You are helping to evaluate a verification tool. You work ONLY inside the git worktree {wt} (a scratch copy of the Go project nspcc-dev/neofs-node; already created for you). Do not read or touch /verif or /repo or any other /tmp directory. No network. For every go command use: export GOFLAGS=-mod=mod GOPROXY=off (set nothing else; do not set GOSUMDB or GOTOOLCHAIN). First build of a package tree can take a few minutes; the machine is shared, be patient and test only the packages you touch.

The project is supposed to satisfy this semantic property ({pid}):

TITLE: {p['title']}
STATEMENT: {p['statement']}
QUANTIFIED OVER: {', '.join(p['quantifier']['over'])} — {p['quantifier']['text']}
CODE ANCHORS: {json.dumps(p['anchors'].get('files'))}; mechanisms: {json.dumps(p['anchors'].get('mechanism'))}

Your task: produce TWO different realistic code changes (mutations) to the non-test Go sources, each of which BREAKS this property while the project still compiles and the EXISTING tests of the touched packages still pass (run them: `go build ./... ` for the touched packages and `go test -count=1 ./<touched pkg>/...`). Prefer bugs that a reviewer could plausibly miss and that need something specific to manifest — a particular input or boundary value, a multi-step sequence, a particular interleaving / fault / crash point, an unusual configuration, or two cooperating sites that each look fine alone — NOT ones that ordinary use would expose at once, and not merely deleting a whole feature. The two mutations must use different mechanisms / code sites. Do not edit or delete existing tests.

For each mutation i in (1, 2) deliver in {wt}/_seed/m<i>/ :
  * patch.diff  — `git diff` of the mutation alone against the worktree's HEAD (apply one mutation at a time; `git checkout -- .` between them, keep _seed/ untracked),
  * demo_test.go (or a small main program) — a demonstration that FAILS with the mutation applied and PASSES without it (say in a comment where to place it / how to run it, e.g. copy into the package dir and `go test -run TestSeedDemo ./pkg/...`); verify both directions yourself,
  * meta.json — {{"property": "{pid}", "summary": "...", "needs_to_manifest": "...", "files_touched": [...], "tests_run": ["..."], "demo_cmd": "..."}}.
Never use `git stash` (the stash is shared between all worktrees of the repository; use `git diff > file`, `git checkout -- .`, `git apply file` instead). Leave the worktree clean (no mutation applied) at the end, with only the untracked _seed/ directory added. Final message: a short description of both mutations and confirmation of what you ran.""")
