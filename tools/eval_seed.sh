#!/bin/bash
# usage: tools/eval_seed.sh <Cxx> <mN> <check ids...>
# runs the quick checks against the seeded change and keeps it under /verif/seeded with the outcome
id=$1; m=$2; shift 2
src=/tmp/seed-$id/_seed/$m
out=$(/verif/tools/run_seeded.sh $src/patch.diff "$@" 2>&1 | grep -v "^WARNING")
echo "$out" | grep "==\|OK \|VIOLATION\|BROKEN"
caught=""
for c in "$@"; do
  line=$(echo "$out" | grep -A3 "== $c on" | grep "VIOLATION property=$c" | head -1)
  if [ -n "$line" ]; then
    if echo "$line" | grep -q "no-failing-input-found"; then caught="$caught $c(broken obligation/tie, no-failing-input-found)"; else caught="$caught $c(concrete failing input)"; fi
  fi
done
if [ -n "$caught" ]; then det="quick tier: caught by$caught"; else det="MISSED by quick tier of: $* (as of $(git -C /verif rev-parse --short HEAD))"; fi
echo "RESULT $id-$m: $det"
/verif/tools/keep_seed.py $src $id-$m --detected "$det" 2>&1 | grep "CONFIRMED"
