#!/bin/bash
# usage: tools/run_seeded.sh <patch.diff> <Cxx> [<Cyy> ...]
# applies the patch in a scratch worktree of /repo HEAD and runs the quick checks against it (VERIF_REPO)
set -u
patch=$(realpath "$1"); shift
W=/tmp/wt-seedrun-$$
git -C /repo worktree add -f $W HEAD -q || exit 2
if ! git -C $W apply "$patch"; then echo "PATCH DOES NOT APPLY"; git -C /repo worktree remove --force $W; exit 2; fi
cd /verif
for p in "$@"; do
  echo "== $p on $(basename $(dirname $patch))"
  VERIF_REPO=$W timeout 1500 ./check $p 2>&1 | tail -3
done
git -C /repo worktree remove --force $W
h=$(python3 -c "import hashlib;print(hashlib.sha1('$W'.encode()).hexdigest()[:10])")
# keep replay and evidence files of this run for inspection
keep=/tmp/seedreplays/$(basename $(dirname $patch))_$(basename $(dirname $(dirname $(dirname $patch))))
mkdir -p $keep; cp -r /verif/build/alt_$h/replays /verif/build/alt_$h/evidence $keep/ 2>/dev/null
rm -rf /verif/build/alt_$h
