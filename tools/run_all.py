#!/usr/bin/env python3
"""Run every registered quick check once, validate evidence against the schema, print a table."""
import json, os, subprocess, sys, time
HERE = os.path.dirname(os.path.dirname(os.path.abspath(__file__)))
man = json.load(open(os.path.join(HERE, "MANIFEST.json")))
only = sys.argv[1:]
try:
    import jsonschema
    schema = json.load(open("/root/.vp/EVIDENCE.schema.json"))
except Exception:
    jsonschema = None
rows = []
for c in man["checks"]:
    pid = c["property_id"]
    if only and pid not in only:
        continue
    ev = c["evidence_file"]
    try:
        os.remove(ev)
    except OSError:
        pass
    t = time.time()
    p = subprocess.run(c["quick_cmd"], shell=True, cwd=HERE, stdout=subprocess.PIPE, stderr=subprocess.STDOUT, text=True)
    dt = time.time() - t
    evok = "missing"
    if os.path.exists(ev):
        try:
            e = json.load(open(ev))
            if jsonschema:
                jsonschema.validate(e, schema)
            evok = "valid obl=%s/%s" % (e["coverage"].get("discharged"), e["coverage"].get("obligations"))
        except Exception as ex:
            evok = "INVALID " + str(ex)[:80]
    last = [l for l in p.stdout.splitlines() if l.strip()][-1:] or [""]
    rows.append((pid, p.returncode, round(dt), evok, last[0][:110]))
    print(*rows[-1], flush=True)
