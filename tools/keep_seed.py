#!/usr/bin/env python3
"""usage: tools/keep_seed.py <seed_src_dir> <name e.g. C32-m1> [--detected "text"]
Confirms an independently produced seeded change in a scratch worktree of /repo HEAD:
 (1) patch applies and the touched packages build, (2) the existing tests of the touched
 packages pass with it, (3) the demonstration fails with it and (4) passes without it.
Then stores it as /verif/seeded/<name>/ (patch.diff, demo, meta.json incl. what was run)."""
import json, os, re, shutil, subprocess, sys
src, name = sys.argv[1], sys.argv[2]
detected = sys.argv[sys.argv.index("--detected") + 1] if "--detected" in sys.argv else None
meta = json.load(open(os.path.join(src, "meta.json")))
W = "/tmp/wt-keep-%d" % os.getpid()
env = dict(os.environ, GOFLAGS="-mod=mod", GOPROXY="off")
def sh(cmd, cwd=W, timeout=2400):
    p = subprocess.run(cmd, shell=True, cwd=cwd, env=env, stdout=subprocess.PIPE, stderr=subprocess.STDOUT, text=True, timeout=timeout)
    return p.returncode, p.stdout
subprocess.run(["git", "-C", "/repo", "worktree", "add", "-f", W, "HEAD", "-q"], check=True)
ran = []
try:
    patch = os.path.abspath(os.path.join(src, "patch.diff"))
    rc, o = sh("git apply %s" % patch)
    assert rc == 0, "patch does not apply: " + o
    pkgs = sorted({"./" + os.path.dirname(f) + "/..." for f in meta["files_touched"] if f.endswith(".go")})
    rc, o = sh("go build %s" % " ".join(pkgs)); ran.append("go build " + " ".join(pkgs)); assert rc == 0, "build fails: " + o[-2000:]
    def failing(o):
        return sorted({l.split()[2] for l in o.splitlines() if l.startswith("--- FAIL") and len(l.split()) > 2})
    rc, o = sh("go test -count=1 %s" % " ".join(pkgs)); ran.append("go test -count=1 %s (with patch): rc=%d" % (" ".join(pkgs), rc))
    fails = failing(o)
    tests_pass = rc == 0
    if not tests_pass:
        # some packages have tests that always fail in this sandbox (they need a non-root user);
        # the seeded change must not change the set of failing tests
        sh("git apply -R %s" % patch)
        rcb, ob = sh("go test -count=1 %s" % " ".join(pkgs))
        sh("git apply %s" % patch)
        base = failing(ob)
        ran.append("baseline failing tests (no patch): %s; with patch: %s" % (base, fails))
        tests_pass = (base == fails) and ("build failed" not in o)
    # demo: the cp + go test command recorded by the seeding agent (paths relative to the worktree, _seed/ -> src)
    demo = meta["demo_cmd"].split("#")[0].strip()
    demo = re.sub(r"_seed/m\d+/", src.rstrip("/") + "/", demo)
    def failed(rc, o):
        return 1 if (rc != 0 or re.search(r"^(--- FAIL|FAIL\b|panic:)", o, re.M)) else 0
    rc1, o1 = sh(demo); rc1 = failed(rc1, o1); ran.append("demo with patch: failed=%d" % rc1)
    sh("git apply -R %s" % patch)
    rc2, o2 = sh(demo); rc2 = failed(rc2, o2); ran.append("demo without patch: failed=%d" % rc2)
    ok = tests_pass and rc1 != 0 and rc2 == 0
    print("tests_pass=%s demo_with_patch_rc=%d demo_without_rc=%d => %s" % (tests_pass, rc1, rc2, "CONFIRMED" if ok else "NOT CONFIRMED"))
    if not tests_pass:
        print("\n".join(fails[:20]))
    if not ok:
        print(o1[-1500:]); print(o2[-1500:])
        sys.exit(1)
    dst = os.path.join("/verif/seeded", name)
    os.makedirs(dst, exist_ok=True)
    for f in os.listdir(src):
        shutil.copy(os.path.join(src, f), dst)
    meta["confirmed_by_lead"] = ran
    meta["repo_head"] = subprocess.run(["git", "-C", "/repo", "rev-parse", "--short", "HEAD"], stdout=subprocess.PIPE, text=True).stdout.strip()
    if detected:
        meta["detected_by"] = detected
    json.dump(meta, open(os.path.join(dst, "meta.json"), "w"), indent=1)
finally:
    subprocess.run(["git", "-C", "/repo", "worktree", "remove", "--force", W])
