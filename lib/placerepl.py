"""Tie of the real Replicator.HandleTask on directly given tasks (shared by C26 and C27).

Tasks of every kind the node builds: address only (policer) or carrying the object (Task.SetObject), the LOCAL node
anywhere among the targets, every quantity from 0 to one more than the targets.  Compared with the model
Place/Repl.v [handle_task_any] and with the right-hand side of C27_replicator_bounded_any (no model)."""
import json
import vlib


def hist(items, f):
    h = {}
    for x in items:
        k = f(x)
        h[k] = h.get(k, 0) + 1
    return h


REPL_PRELUDE = ("From NV Require Import Place.Policer Place.PolicerCheck Place.Repl Place.ReplCheck.\n"
                "From Coq Require Import List. Import ListNotations.\n")


def coq_repl_case(c):
    pair = lambda a: "(%d, %d)" % (a[0], a[1])
    return "(mkPL %d %s %s %s %s %s %d %s %s %s)" % (
        c["local"], vlib.coq_list(c["rep"], pair), vlib.coq_bool(c["readable"]), vlib.coq_bool(c["given"]),
        vlib.coq_bool(not c["big"]), vlib.coq_bool(c["lput"]), c["q"], vlib.coq_list(c["nodes"]),
        vlib.coq_list(c["sends"]), vlib.coq_list(c["succ"]))


def evaluate_repl(ctx, cases):
    """direct replicator tasks: (bad_model, bad_ref) index sets, or None when coqc failed"""
    bad_model, bad_ref = set(), set()
    CH = max(200, min(1200, -(-len(cases) // vlib.NCPU)))
    jobs, offs = [], []
    for off in range(0, len(cases), CH):
        lit = ";\n".join(coq_repl_case(c) for c in cases[off:off + CH])
        jobs.append(("repl", REPL_PRELUDE + "Definition cases : list plcase := [\n%s].\n" % lit,
                     {"model": "pl_model_mismatches cases", "ref": "pl_ref_mismatches cases"}))
        offs.append(off)
    for off, res in zip(offs, ctx.coq_eval_many(jobs)):
        if res is None:
            return None
        bad_model |= {off + i for i in res["model"]}
        bad_ref |= {off + i for i in res["ref"]}
    return bad_model, bad_ref


def strip_repl(c):
    return {k: v for k, v in c.items() if k not in ("sends", "succ", "src")}


def repl_tie(ctx, binp, replay_cases=None):
    """Tie of Replicator.HandleTask on tasks of every kind (address only / object carried, local node among the
    targets) against Place/Repl.v handle_task_any + the right-hand side of the bound. Shared by C26 and C27."""
    if replay_cases is not None:
        inp = "".join(json.dumps(strip_repl(c)) + "\n" for c in replay_cases)
        cases = ctx.run_json([binp, "repl-replay"], input=inp) if replay_cases else []
    else:
        cases = ctx.run_json([binp, "repl"])
    res = evaluate_repl(ctx, cases) if cases else (set(), set())
    if res is None:
        ctx.tie(False)
        ctx.tie(False)
        return cases
    bad_model, bad_ref = res
    ctx.tie(not bad_model)   # real HandleTask = handle_task_any (sends and reported nodes, in order)
    ctx.tie(not bad_ref)     # reported successes <= quantity, only nodes that stored
    order = sorted(bad_ref, key=lambda i: len(cases[i]["nodes"])) + sorted(bad_model - bad_ref, key=lambda i: len(cases[i]["nodes"]))
    for i in order[:3]:
        c = cases[i]
        ctx.violation({"repl_case": strip_repl(c), "impl_sends": c["sends"], "impl_reported_successes": c["succ"],
                       "disagrees_with": "reference: more reported successes than the requested quantity / a reported node that did "
                                         "not store the object (C27_replicator_bounded_any)" if i in bad_ref
                       else "model Place/Repl.v (handle_task_any)",
                       "theorems": ["C27_replicator_bounded_any", "C27_replicator_bounded", "C26_replicator_bounded"]})
    ctx.cov.update({
        "replicator_tasks_executed": len(cases),
        "replicator_hist_task_kind": hist(cases, lambda c: ("object-carried" + ("/oversized-header" if c["big"] else "") +
                                                            ("" if c["lput"] else "/local-storage-read-only")) if c["given"]
                                          else ("address" if c["readable"] else "address/unreadable")),
        "replicator_hist_local_node": hist(cases, lambda c: "local-among-targets" if c["local"] in c["nodes"] else "remote-only"),
        "replicator_tasks_local_node_reported": sum(1 for c in cases if c["local"] in c["succ"]),
        "replicator_tasks_quota_exhausted_before_last_target": sum(
            1 for c in cases if c["q"] > 0 and len(c["succ"]) == c["q"] and c["nodes"] and c["succ"][-1] != c["nodes"][-1]),
        "replicator_hist_quantity_vs_targets": hist(cases, lambda c: "q=0" if c["q"] == 0 else "q<targets" if c["q"] < len(c["nodes"])
                                                    else "q=targets" if c["q"] == len(c["nodes"]) else "q>targets"),
    })
    return cases


