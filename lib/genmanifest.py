"""Regenerate MANIFEST.json from props/*.py META + properties.jsonl."""
import importlib.util
import json
import os

HERE = os.path.dirname(os.path.dirname(os.path.abspath(__file__)))

NA_DEFAULT = "check not built yet in this round (the property is modellable; see DESIGN.md section 5); not claimed until its Coq theorems and correspondence check exist"


def load(pid):
    spec = importlib.util.spec_from_file_location("prop_" + pid, os.path.join(HERE, "props", pid + ".py"))
    mod = importlib.util.module_from_spec(spec)
    spec.loader.exec_module(mod)
    return mod.META


def main():
    ids = [json.loads(l)["id"] for l in open(os.path.join(HERE, "properties.jsonl")) if l.strip()]
    checks, na, engines = [], [], {}
    na_reasons = {}
    nap = os.path.join(HERE, "not_applicable.json")
    if os.path.exists(nap):
        na_reasons = json.load(open(nap))
    for pid in ids:
        if not os.path.exists(os.path.join(HERE, "props", pid + ".py")):
            na.append({"property_id": pid, "reason": na_reasons.get(pid, NA_DEFAULT)})
            continue
        m = load(pid)
        checks.append({
            "property_id": pid,
            "quick_cmd": "./check %s --tier quick" % pid,
            "thorough_cmd": "./check %s --tier thorough" % pid,
            "evidence_file": "/verif/evidence/%s.json" % pid,
            "replay_cmd_template": "./check %s --replay {path}" % pid,
            "engine": m.get("engine", "coq"),
            "level_claimed": {"category": "proof", "text": m["level_text"], "design_ref": m.get("design_ref", "5/" + pid)},
            "level_note": m["level_note"],
            "technique": m["technique"],
        })
        engines.setdefault(m.get("engine", "coq"), []).append(pid)
    man = {
        "version": 1,
        "setup_cmd": "./check --setup",
        "hooks": {
            "guard": "verif",
            "enable": "harness sources and add-only in-package accessor files (all `//go:build verif`) live under /verif/harness and are compiled inside /repo's module with `go build -tags verif -overlay build/overlay_<engine>.json ./internal/zzverif/<engine>`; nothing is committed to /repo for instrumentation",
            "baseline_off_cmd": "cd /repo && GOFLAGS=-mod=mod GOPROXY=off go test -json -vet=off -count=1 -timeout 25m ./...",
            "source_commits": [],
            "add_only": True,
        },
        "engines": [{"name": "coq", "path": "coq", "serves_properties": [c["property_id"] for c in checks],
                     "kind_free_text": "Coq 8.16.1 development: models, proofs, Props/Properties_Cxx.v; per-run cases evaluated with vm_compute"}] +
                   [{"name": "harness-" + e, "path": "harness/cmd/" + e, "serves_properties": ps,
                     "kind_free_text": "Go differential harness compiled inside /repo's module via -overlay, tag verif"} for e, ps in sorted(engines.items())],
        "checks": checks,
        "not_applicable": na,
        "notes": "Technique family: machine-checked proof in Coq 8.16.1; model tied to /repo by generated constants (coq/Gen) and differential correspondence on every run. See DESIGN.md.",
    }
    with open(os.path.join(HERE, "MANIFEST.json"), "w") as f:
        json.dump(man, f, indent=1)
    print("MANIFEST.json: %d checks, %d not_applicable" % (len(checks), len(na)))
    return 0


if __name__ == "__main__":
    main()
