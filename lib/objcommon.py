"""Shared pieces of the C29 / C45 / C31 plug-ins (object service handlers)."""
import os
import vlib

GUARDS = r"VerifyRequestSignatures[A-Za-z0-9]*$|LocalNodeUnderMaintenance$|handleRequestMetaHeader$|RequestToInfo$|CheckBasicACL$|CheckEACL$|ValidateHeader$"


def regen(ctx, which=("svc", "repl")):
    xl = vlib.xlate_build()
    gen = os.path.join(vlib.COQ, "Gen")
    d = "objsvc=" + os.path.join(vlib.REPO, "pkg/services/object")
    jobs = []
    if "svc" in which:
        jobs.append([xl, "-dir", d, "-guards", GUARDS, "-out", os.path.join(gen, "Prog_ObjSvc.v")])
    if "repl" in which:
        jobs.append([xl, "-dir", d, "-guards", r"pubKey\.Verify$|objectFromMessage$", "-varguards", "serverInCnr|clientInCnr",
                     "-out", os.path.join(gen, "Prog_ObjRepl.v")])
    for j in jobs:
        rc, o, e = vlib.sh(j)
        if rc != 0:
            ctx.notes.append("xlate failed: " + e[-2000:])
            return False
    return True


def translate_and_prove(ctx, which):
    ok = regen(ctx, which)
    ctx.tie(ok)
    if ok:
        ctx.prove()
    else:
        ctx.proof_ok = False
        ctx.proof_log = "translation failed: " + "\n".join(ctx.notes[-1:])
    return ok


def diagnose(ctx, expr, imports="Prog.Tables_Obj"):
    text = ("From Coq Require Import String List Bool. Import ListNotations.\nFrom NV Require Import Prog.IR %s.\n"
            "From NV Require Gen.Prog_ObjSvc Gen.Prog_ObjRepl.\nEval vm_compute in (%s).\n" % (imports, expr))
    vlib.coq_make(["Gen/Prog_ObjSvc.vo", "Gen/Prog_ObjRepl.vo", "Prog/Tables_Obj.vo"])
    rc, out = ctx.coq_run("diag", text)
    ctx.notes.append("static obligation diagnosis: " + " ".join(out.split())[:3000])


FAILING = {"unsigned", "badsig", "maintenance", "bad_token", "info_err", "basic_deny", "eacl_deny"}


def handler_cases(rs):
    return [r for r in rs if "scenario" in r]


def case_term(r):
    return "(%s, %s, %d%%N, %d, %d)" % (vlib.coq_bool(r["base"] in FAILING), vlib.coq_bool(r["base"] == "maintenance"),
                                       r["code"] if not r["rpc_err"] else 1024, len(r["effects"]), r["data_msgs"])
