"""Shared machinery of the /verif checks (see DESIGN.md section 1.1 and 3).

Every property plug-in (props/Cxx.py) gets a Ctx and uses it to
  * rebuild the Coq obligations serving the property (ctx.prove),
  * build the Go harness inside /repo's module from the working tree
    (ctx.go_build, `go build -tags verif -overlay`),
  * evaluate the executable Coq model on the cases the implementation ran
    (ctx.coq_eval),
  * report (ctx.violation / ctx.known / ctx.finish) and write evidence.
"""
import fcntl
import glob
import hashlib
import json
import os
import re
import subprocess
import sys
import time

VERIF = os.path.dirname(os.path.dirname(os.path.abspath(__file__)))
REPO = os.environ.get("VERIF_REPO", "/repo")
COQ = os.path.join(VERIF, "coq")
BUILD = os.path.join(VERIF, "build")
NCPU = os.cpu_count() or 4

FORBIDDEN = re.compile(
    r"\b(Admitted|admit|Axiom|Axioms|Parameter|Parameters|Conjecture|Conjectures|"
    r"Admit\s+Obligations|bypass_check|Unset\s+Guard\s+Checking|Unset\s+Positivity\s+Checking|"
    r"Unset\s+Universe\s+Checking|type-in-type|impredicative-set)\b")


class Broken(Exception):
    """The check itself cannot run (infrastructure), not a verdict."""


def go_env():
    env = dict(os.environ)
    env["GOFLAGS"] = "-mod=mod"
    env["GOPROXY"] = "off"
    env.pop("GOSUMDB", None)
    env.pop("GOTOOLCHAIN", None)
    return env


def sh(cmd, cwd=None, env=None, timeout=None, input=None):
    p = subprocess.run(cmd, cwd=cwd, env=env, timeout=timeout, input=input,
                       stdout=subprocess.PIPE, stderr=subprocess.PIPE, text=True)
    return p.returncode, p.stdout, p.stderr


class Lock:
    def __init__(self, name):
        os.makedirs(BUILD, exist_ok=True)
        self.path = os.path.join(BUILD, "." + name + ".lock")

    def __enter__(self):
        self.f = open(self.path, "w")
        fcntl.flock(self.f, fcntl.LOCK_EX)
        return self

    def __exit__(self, *a):
        fcntl.flock(self.f, fcntl.LOCK_UN)
        self.f.close()


# --------------------------------------------------------------------------
# Coq side

def strip_comments(s):
    out, depth, i = [], 0, 0
    while i < len(s):
        if s.startswith("(*", i):
            depth += 1
            i += 2
        elif s.startswith("*)", i) and depth:
            depth -= 1
            i += 2
        else:
            if not depth:
                out.append(s[i])
            i += 1
    return "".join(out)


def coq_sources():
    res = []
    for root, dirs, files in os.walk(COQ):
        rel = os.path.relpath(root, COQ)
        if rel.split(os.sep)[0] == "Cases":
            dirs[:] = []
            continue
        if os.path.exists(os.path.join(root, "WIP")):
            dirs[:] = []
            continue
        for f in sorted(files):
            if f.endswith(".v"):
                res.append(os.path.normpath(os.path.join(rel, f)))
    return sorted(res)


def gate(files=None):
    """grep gate: no forbidden vernacular, no Variable/Hypothesis outside a Section."""
    bad = []
    for rel in (files or coq_sources()):
        p = os.path.join(COQ, rel)
        if not os.path.exists(p):
            continue
        src = strip_comments(open(p).read())
        for m in FORBIDDEN.finditer(src):
            bad.append("%s: forbidden `%s`" % (rel, m.group(0)))
        depth = 0
        for sent in re.split(r"\.\s", src):
            s = sent.strip()
            if re.match(r"(Section|Module\s+Type)\s", s):
                depth += 1
            elif re.match(r"End\s", s) and depth:
                depth -= 1
            elif depth == 0 and re.match(r"(Local\s+|Global\s+)?(Variable|Variables|Hypothesis|Hypotheses|Context)\b", s):
                bad.append("%s: `%s` outside a Section" % (rel, s[:40]))
    return bad


def coq_project():
    """(Re)generate _CoqProject + Makefile when the file list changed."""
    srcs = coq_sources()
    text = "-Q . NV\n-arg -w -arg -notation-overridden,-deprecated-hint-without-locality,-deprecated-instance-without-locality\n" + "\n".join(srcs) + "\n"
    cp = os.path.join(COQ, "_CoqProject")
    old = open(cp).read() if os.path.exists(cp) else None
    if old != text or not os.path.exists(os.path.join(COQ, "Makefile")):
        open(cp, "w").write(text)
        rc, o, e = sh(["coq_makefile", "-f", "_CoqProject", "-o", "Makefile"], cwd=COQ)
        if rc != 0:
            raise Broken("coq_makefile failed: " + e)
    return srcs


def coq_make(targets=None, timeout=3000, keep_going=False):
    """Full .vo build (never -vos) of the given targets (default: everything)."""
    with Lock("coq"):
        coq_project()
        cmd = ["make", "-j%d" % NCPU]
        if keep_going:
            cmd.append("-k")
        cmd += (targets or [])
        try:
            rc, o, e = sh(["timeout", str(timeout)] + cmd, cwd=COQ)
        except subprocess.TimeoutExpired:
            return False, "make timed out"
        return rc == 0, (o + e)


def write_if_changed(path, text):
    old = open(path).read() if os.path.exists(path) else None
    if old != text:
        os.makedirs(os.path.dirname(path), exist_ok=True)
        open(path, "w").write(text)
        return True
    return False


def coq_list(xs, f=str):
    return "[" + "; ".join(f(x) for x in xs) + "]"


def coq_Z(n):
    return "(%d)%%Z" % n


def coq_N(n):
    return "%d%%N" % n


def coq_bool(b):
    return "true" if b else "false"


def coq_opt(x, f=str):
    return "None" if x is None else "(Some %s)" % f(x)


def coq_bytes(bs):
    """list of N literal for a bytes object"""
    return "[" + "; ".join("%d" % b for b in bs) + "]%N"


def coq_string(s):
    return '"' + s.replace('"', '""') + '"'


# --------------------------------------------------------------------------
# Go side

def overlay_map(engine):
    """virtual file in /repo -> real file under /verif/harness"""
    m = {}
    hdir = os.path.join(VERIF, "harness")
    for f in glob.glob(os.path.join(hdir, "cmd", engine, "*.go")):
        m[os.path.join(REPO, "internal", "zzverif", engine, os.path.basename(f))] = f
    for root, _, files in os.walk(os.path.join(hdir, "lib")):
        for f in files:
            if f.endswith(".go"):
                rel = os.path.relpath(os.path.join(root, f), os.path.join(hdir, "lib"))
                m[os.path.join(REPO, "internal", "zzverif", "lib", rel)] = os.path.join(root, f)
    for root, _, files in os.walk(os.path.join(hdir, "hooks")):
        for f in files:
            if f.endswith(".go"):
                rel = os.path.relpath(os.path.join(root, f), os.path.join(hdir, "hooks"))
                m[os.path.join(REPO, rel)] = os.path.join(root, f)
    return m


def go_build(engine, race=False, timeout=1500):
    os.makedirs(os.path.join(BUILD, "bin"), exist_ok=True)
    ov = os.path.join(BUILD, "overlay_%s.json" % engine)
    with open(ov, "w") as f:
        json.dump({"Replace": overlay_map(engine)}, f, indent=1)
    out = os.path.join(BUILD, "bin", engine + ("_race" if race else ""))
    cmd = ["go", "build", "-tags", "verif", "-overlay", ov, "-o", out]
    if race:
        cmd.append("-race")
    cmd.append("./internal/zzverif/" + engine)
    with Lock("go_" + engine):
        rc, o, e = sh(cmd, cwd=REPO, env=go_env(), timeout=timeout)
    if rc != 0:
        raise Broken("harness build failed (tree does not compile with hooks):\n" + (o + e)[-4000:])
    return out


# --------------------------------------------------------------------------
# known findings

def load_known():
    res = []
    p = os.path.join(VERIF, "known_findings.txt")
    if os.path.exists(p):
        for line in open(p):
            line = line.strip()
            m = re.match(r"finding:\s+property=(\S+)\s+key=(\S+)\s+(.*)", line)
            if m:
                res.append((m.group(1), m.group(2), m.group(3)))
    return res


# --------------------------------------------------------------------------

class Ctx:
    def __init__(self, meta, tier, seed, replay=None):
        self.meta = meta
        self.pid = meta["id"]
        self.tier = tier
        self.seed = seed
        self.replay = replay
        self.t0 = time.time()
        self.violations = []      # (replay_obj, has_input)
        self.known_hits = {}      # key -> text
        self.proof_ok = None
        self.proof_log = ""
        self.ties_total = 0
        self.ties_ok = 0
        self.cov = {}
        self.assumptions_out = ""
        self.notes = []
        self.known = [(k, t) for (p, k, t) in load_known() if p == self.pid]
        self._n = 0
        self._lock = __import__('threading').Lock()

    # -- Coq ---------------------------------------------------------------
    def prove(self):
        """Rebuild (full .vo) the theorems serving this property; on failure remember it."""
        bad = gate(self.meta.get("coq_files"))
        if bad:
            self.proof_ok = False
            self.proof_log = "forbidden vernacular:\n" + "\n".join(bad)
            return False
        ok, log = coq_make(self.meta["coq_targets"])
        self.proof_ok = ok
        self.proof_log = log[-6000:]
        if ok:
            self.assumptions()
        return ok

    def model_ready(self, targets):
        """Build only model/check files (they contain no proofs), so cases can still be
        evaluated when a proof obligation broke."""
        ok, log = coq_make(targets)
        if not ok:
            self.notes.append("model build failed: " + log[-2000:])
        return ok

    def assumptions(self):
        thms = self.meta.get("theorems", [])
        mods = self.meta.get("prop_modules") or ["Props.Properties_" + self.pid]
        text = "".join("From NV Require Import %s.\n" % m for m in mods)
        for t in thms:
            text += 'Print Assumptions %s.\n' % t
        rc, out = self.coq_run("assum", text)
        self.assumptions_out = out.strip()
        return out

    def coq_run(self, name, text, timeout=1800):
        d = os.path.join(COQ, "Cases")
        os.makedirs(d, exist_ok=True)
        with self._lock:
            self._n += 1
            n = self._n
        base = "%s_%s_%d_%d" % (self.pid, name, os.getpid(), n)
        path = os.path.join(d, base + ".v")
        open(path, "w").write(text)
        try:
            rc, o, e = sh(["timeout", str(timeout), "coqc", "-Q", COQ, "NV", "-w", "-all", path], cwd=d)
        finally:
            for ext in (".vo", ".vos", ".vok", ".glob"):
                try:
                    os.remove(os.path.join(d, base + ext))
                except OSError:
                    pass
            try:
                os.remove(os.path.join(d, "." + base + ".aux"))
            except OSError:
                pass
        if rc == 0:
            try:
                os.remove(path)
            except OSError:
                pass
        return rc, o + e

    def coq_eval_lists(self, name, prelude, exprs, timeout=1800):
        """Evaluate named closed terms of type `list nat` with vm_compute.
        Returns dict name -> list[int], or None if coqc failed."""
        text = prelude + "\n"
        for k, ex in exprs.items():
            text += "Definition res_%s := Eval vm_compute in (%s).\n" % (k, ex)
            text += 'Goal True. idtac "@@%s@@". Abort.\nPrint res_%s.\n' % (k, k)
        rc, out = self.coq_run(name, text, timeout)
        if rc != 0:
            self.notes.append("coqc failed on %s: %s" % (name, out[-3000:]))
            return None
        res = {}
        for k in exprs:
            m = re.search(r"@@%s@@\s*res_%s\s*=\s*(.*?)\s*:\s*list" % (k, k), out, re.S)
            if not m:
                self.notes.append("cannot parse result %s: %s" % (k, out[-2000:]))
                return None
            body = m.group(1)
            res[k] = [int(x) for x in re.findall(r"-?\d+", body)]
        return res

    def coq_eval_many(self, jobs, timeout=1800, workers=None):
        """jobs: list of (name, prelude, exprs); evaluated concurrently (one coqc each).
        Returns list of dicts (or None entries on failure)."""
        from concurrent.futures import ThreadPoolExecutor
        with ThreadPoolExecutor(max_workers=workers or NCPU) as ex:
            futs = [ex.submit(self.coq_eval_lists, "%s%d" % (n, i), p, e, timeout) for i, (n, p, e) in enumerate(jobs)]
            return [f.result() for f in futs]

    # -- Go ----------------------------------------------------------------
    def go_build(self, engine=None, race=False):
        return go_build(engine or self.meta["engine"], race=race)

    def run_json(self, cmd, timeout=1800, input=None, env=None):
        """Run a harness command that prints one JSON object per line."""
        e = go_env()
        e["VERIF_SEED"] = str(self.seed)
        e["VERIF_TIER"] = self.tier
        if env:
            e.update(env)
        rc, o, err = sh(cmd, env=e, timeout=timeout, input=input)
        if rc != 0:
            raise Broken("harness failed rc=%d: %s" % (rc, (err or o)[-3000:]))
        res = []
        for line in o.splitlines():
            line = line.strip()
            if line.startswith("{") or line.startswith("["):
                res.append(json.loads(line))
        return res

    # -- verdicts ------------------------------------------------------------
    def tie(self, ok):
        self.ties_total += 1
        if ok:
            self.ties_ok += 1

    def violation(self, obj, key=None):
        """A concrete failing input. If `key` names a listed known finding it is
        printed as KNOWN-FINDING instead."""
        if key is not None:
            for (k, text) in self.known:
                if k == key:
                    self.known_hits[k] = text
                    return False
        self.violations.append((obj, True))
        return True

    def replay_path(self):
        d = os.path.join(VERIF, "replays", self.pid)
        os.makedirs(d, exist_ok=True)
        return os.path.join(d, "%s_%d_%d.json" % (self.tier, self.seed, int(time.time() * 1000) % 10**9))

    def finish(self):
        wall = time.time() - self.t0
        lines = []
        for k, text in self.known_hits.items():
            lines.append("KNOWN-FINDING: property=%s %s (key=%s)" % (self.pid, text, k))
        nviol = 0
        if self.violations:
            path = self.replay_path()
            obj = {"property": self.pid, "seed": self.seed, "tier": self.tier,
                   "violations": [v for (v, _) in self.violations[:20]],
                   "proof_ok": self.proof_ok}
            if self.proof_ok is False:
                obj["broken_obligation"] = self.proof_log[-3000:]
            json.dump(obj, open(path, "w"), indent=1, default=str)
            lines.append("VIOLATION property=%s replay=%s" % (self.pid, path))
            nviol = len(self.violations)
        elif self.proof_ok is False or self.ties_ok < self.ties_total:
            path = self.replay_path()
            what = "proof obligation" if self.proof_ok is False else "correspondence"
            obj = {"property": self.pid, "seed": self.seed, "tier": self.tier,
                   "no_failing_input_found": True,
                   "broken": what,
                   "theorems": self.meta.get("theorems", []),
                   "coq_targets": self.meta.get("coq_targets", []),
                   "log": self.proof_log[-6000:], "notes": self.notes[-10:]}
            json.dump(obj, open(path, "w"), indent=1, default=str)
            lines.append("VIOLATION property=%s replay=%s no-failing-input-found" % (self.pid, path))
            nviol = 1
        self.write_evidence(wall, nviol)
        for l in lines:
            print(l)
        sys.stdout.flush()
        return 1 if nviol else 0

    def count_obligations(self):
        n = 0
        for rel in self.meta.get("coq_files", []):
            p = os.path.join(COQ, rel)
            if os.path.exists(p):
                n += len(re.findall(r"\bQed\.", strip_comments(open(p).read())))
        return n

    def write_evidence(self, wall, nviol):
        nq = self.count_obligations()
        obligations = nq + self.ties_total
        discharged = (nq if self.proof_ok else 0) + self.ties_ok
        cov = {
            "obligations": obligations,
            "discharged": discharged,
            "checker_cmd": "cd /verif/coq && make -j%d %s  (coq_makefile, full .vo build, coqc 8.16.1); "
                           "correspondence: coqc -Q /verif/coq NV Cases/<generated>.v (vm_compute)" % (
                               NCPU, " ".join(self.meta.get("coq_targets", []))),
            "trusted_base": self.meta.get("trusted_base", []) + [
                "Print Assumptions: " + (self.assumptions_out or "(not available: proof build failed)")],
            "theorems": self.meta.get("theorems", []),
            "coq_files": self.meta.get("coq_files", []),
            "qed_count": nq,
            "ties": {"total": self.ties_total, "passed": self.ties_ok},
            "proof_build_ok": bool(self.proof_ok),
        }
        cov.update(self.cov)
        cov.setdefault("evaluations", 0)
        cov.setdefault("distinct_nontrivial", 0)
        cov.setdefault("samples", [])
        ev = {
            "property_id": self.pid,
            "tier": self.tier,
            "seed": self.seed,
            "level": "proof",
            "coverage": cov,
            "assumptions": self.meta.get("assumptions", []),
            "wall_s": round(wall, 2),
            "violations": nviol,
            "known_findings": sorted(self.known_hits),
            "notes": self.notes[-10:],
        }
        os.makedirs(os.path.join(VERIF, "evidence"), exist_ok=True)
        with open(os.path.join(VERIF, "evidence", self.pid + ".json"), "w") as f:
            json.dump(ev, f, indent=1, default=str)


def distinct_count(items):
    return len({hashlib.sha1(json.dumps(i, sort_keys=True, default=str).encode()).hexdigest() for i in items})
