#!/usr/bin/env python3
"""Mutation runner for the engine family: run_mut.py <prop> <name>... ; mutations are (file, old, new) replacements
applied in the scratch worktree /tmp/wt-engine, check run with VERIF_REPO, then reverted."""
import subprocess, sys, os, json, glob, time
WT = "/tmp/wt-engine"
E = "pkg/local_object_storage/engine/"
S = "pkg/local_object_storage/shard/"
M = "pkg/local_object_storage/metabase/"
MUT = {
 "expired_continue": (E+"get.go", """			case shard.IsErrObjectExpired(err):
				// object is found but should not
				// be returned
				return apistatus.ObjectNotFound{}
			default:
				e.reportShardError(sh, "could not get object from shard", err)""", """			case shard.IsErrObjectExpired(err):
				continue
			default:
				e.reportShardError(sh, "could not get object from shard", err)"""),
 "scan2_no_meta_check": (E+"get.go", """		if _, err := sh.Exists(addr, false); err != nil {
			continue
		}
""", ""),
 "threshold_off_by_one": (E+"engine.go", "errCount < e.errorsThreshold", "errCount <= e.errorsThreshold"),
 "ec_placement_by_own_id": (E+"put.go", "	if iec.ObjectWithAttributes(*obj) {\n		shs = e.sortedShards(obj.GetParentID())", "	if iec.ObjectWithAttributes(*obj) && false {\n		shs = e.sortedShards(obj.GetParentID())"),
 "exists_removed_continue": (E+"exists.go", """			if errors.Is(err, apistatus.ErrObjectAlreadyRemoved) ||
				errors.Is(err, ierrors.ErrParentObject) ||""", """			if errors.Is(err, ierrors.ErrParentObject) ||"""),
 "head_removed_continue": (E+"head.go", """			case errors.Is(err, apistatus.ErrObjectAlreadyRemoved):
				return err // stop, return it back""", """			case errors.Is(err, apistatus.ErrObjectAlreadyRemoved):
				continue"""),
 "delete_stops_at_first": (E+"inhume.go", """		err = deleteFunc(sh.Shard, addr.Container(), []oid.ID{addr.Object()})
		if err != nil {
			if !errors.Is(err, logicerr.Error) {
				e.reportShardError(sh, "could not inhume object in shard", err, zap.Stringer("addr", addr))
			}
			return err
		}
	}""", """		err = deleteFunc(sh.Shard, addr.Container(), []oid.ID{addr.Object()})
		if err != nil {
			if !errors.Is(err, logicerr.Error) {
				e.reportShardError(sh, "could not inhume object in shard", err, zap.Stringer("addr", addr))
			}
			return err
		}
		break
	}"""),
 "get_degraded_not_flagged": (E+"get.go", "hasDegraded = hasDegraded || noMeta", "hasDegraded = hasDegraded && noMeta"),
 # harmless: a different but valid visiting order (the order is an input of the theorems)
 "harmless_reverse_order": (E+"shards.go", """	hrw.Sort(shards, hrwOIDWrapper(id))
""", """	hrw.Sort(shards, hrwOIDWrapper(id))
	slices.Reverse(shards)
"""),
 # harmless: refactor of the first-scan switch
 "harmless_refactor_notfound": (E+"get.go", """			switch {
			case errors.Is(err, apistatus.ErrObjectNotFound):
				continue // ignore, go to next shard
			case errors.As(err, &siErr):""", """			if errors.Is(err, apistatus.ErrObjectNotFound) {
				continue
			}
			switch {
			case errors.As(err, &siErr):"""),
 # --- C08
 "rollback_dropped": (E+"put.go", "if isFatal && len(goodShards) > 0 {", "if false && isFatal && len(goodShards) > 0 {"),
 "locked_not_fatal": (E+"put.go", """			errors.Is(err, apistatus.ErrObjectLocked) ||
""", ""),
 "rollback_first_only": (E+"put.go", "		for _, sh := range goodShards {\n			var err = sh.Delete(", "		for _, sh := range goodShards[:1] {\n			var err = sh.Delete("),
 "gc_ignores_mode": (S+"gc.go", """	if s.info.Mode != mode.ReadWrite {
		return
	}

	s.collectExpiredObjects()""", """	if s.info.Mode.NoMetabase() {
		return
	}

	s.collectExpiredObjects()"""),
 "expired_skip_lock_check": (E+"inhume.go", """		} else if locked {
			e.log.Warn("skip an expired object with lock",
				zap.Stringer("addr", addr))
			continue
		}""", """		} else if locked {
			e.log.Warn("skip an expired object with lock",
				zap.Stringer("addr", addr))
		}"""),
 "ts_ignores_lock": (M+"put.go", """		if objectLocked(currEpoch, metaCursor, target) {
			return apistatus.ErrObjectLocked
		}
""", ""),
 "lock_expiry_boundary": (M+"exists.go", "return (err == nil) && (currEpoch > objExpiration)", "return (err == nil) && (currEpoch >= objExpiration)"),
}
def main():
    prop = sys.argv[1]
    for name in sys.argv[2:]:
        f, old, new = MUT[name]
        p = os.path.join(WT, f)
        src = open(p).read()
        if old not in src:
            print("MUT %s: pattern not found" % name); continue
        open(p, "w").write(src.replace(old, new, 1))
        t = time.time()
        try:
            r = subprocess.run(["./check", prop], cwd="/verif", env=dict(os.environ, VERIF_REPO=WT), capture_output=True, text=True, timeout=3000)
            out = (r.stdout + r.stderr).strip().splitlines()
            last = [l for l in out if l.startswith(("VIOLATION", "OK ", "CHECK-BROKEN"))]
            ev = glob.glob("/verif/build/alt_*/evidence/%s.json" % prop)
            ties = None
            if ev:
                e = json.load(open(ev[0])); ties = e["coverage"]["ties"], e["coverage"].get("proof_build_ok")
            print("MUT %s: rc=%d %s ties=%s wall=%.0fs" % (name, r.returncode, last[-1:] , ties, time.time() - t), flush=True)
        finally:
            open(p, "w").write(src)
main()
