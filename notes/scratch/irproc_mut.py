#!/usr/bin/env python3
"""mutation runner for the irproc properties: apply one textual mutation to the scratch worktree,
run the quick check against it, record the verdict, restore the file."""
import subprocess, sys, os, json, time
WT = "/tmp/wt-irproc"
def run(pid, name, path, old, new, out):
    p = os.path.join(WT, path)
    s = open(p).read()
    assert s.count(old) == 1, (name, s.count(old))
    open(p, "w").write(s.replace(old, new))
    t = time.time()
    try:
        r = subprocess.run(["./check", pid], cwd="/verif", env=dict(os.environ, VERIF_REPO=WT), capture_output=True, text=True, timeout=1500)
        lines = [l for l in (r.stdout + r.stderr).splitlines() if l.startswith(("OK", "VIOLATION", "KNOWN", "CHECK-BROKEN"))]
        res = {"mutation": name, "rc": r.returncode, "lines": lines, "wall": round(time.time() - t)}
        ev = "/verif/build/alt_%s/evidence/%s.json" % (__import__("hashlib").sha1(WT.encode()).hexdigest()[:10], pid)
        if os.path.exists(ev):
            d = json.load(open(ev)); res["ties"] = d["coverage"]["ties"]; res["proof_ok"] = d["coverage"]["proof_build_ok"]; res["notes"] = [n[:300] for n in d["notes"][-2:]]
    finally:
        open(p, "w").write(s)
    open(out, "a").write(json.dumps(res) + "\n")
    print(res, flush=True)

if __name__ == "__main__":
    import importlib.util
    spec = importlib.util.spec_from_file_location("m", sys.argv[1]); m = importlib.util.module_from_spec(spec); spec.loader.exec_module(m)
    for mu in m.MUTS:
        run(m.PID, *mu, out=sys.argv[2])
