import json,sys
from collections import Counter
def spec(c):
    objs=c['objs']; garb={g[0]:g[1] for g in c['garb']}
    tomb={o['as'] for o in objs if o['t']==1 and o['as']>0}
    if c['cgc']: return [0,0,0,0,0,0,0]
    phy=sum(1 for o in objs if o['phy']); root=sum(1 for o in objs if o['root'])
    ts=sum(1 for o in objs if o['t']==1); lk=sum(1 for o in objs if o['t']==2); ln=sum(1 for o in objs if o['t']==3)
    live=[o for o in objs if o['phy'] and o['id'] not in tomb and o['id'] not in garb]
    return [phy,root,ts,lk,ln,len(live),sum(o['sz'] for o in live)]
def impl(c):
    return c['cnt'][:5]+list(reversed(c['info']))
names=['phy','root','ts','lock','link','n','size']
hist=Counter(); ex={}
for line in open(sys.argv[1]):
    h=json.loads(line)
    prev={1:[0]*7,2:[0]*7,3:[0]*7}
    for k,st in enumerate(h['steps']):
        o=st['obs']
        if o is None: continue
        for c in o['cnrs']:
            d=[a-b for a,b in zip(impl(c),spec(c))]
            if d!=prev[c['c']]:
                ch=tuple(n for n,x,y in zip(names,d,prev[c['c']]) if x!=y)
                op=h['ops'][k]
                key=(op['k'],ch)
                hist[key]+=1
                if key not in ex or k<ex[key][1]:
                    ex[key]=(h['i'],k,d,prev[c['c']],c['c'])
                prev[c['c']]=d
for k,v in hist.most_common(): print(v,k,ex[k])
