import sys, json, importlib.util, time
sys.path.insert(0,'/verif/lib'); sys.path.insert(0,'/verif/props')
import vlib, _meta
from collections import Counter
profile=sys.argv[1]; n=int(sys.argv[2]); ln=int(sys.argv[3])
ctx=vlib.Ctx({"id":"C01","engine":"meta","coq_targets":[]}, "quick", int(sys.argv[4]) if len(sys.argv)>4 else 1)
binp=ctx.go_build()
t=time.time(); hs=_meta.run_harness(ctx,binp,n,ln,profile,1); print('harness',time.time()-t)
ok,log=vlib.coq_make(_meta.MODEL_VO); print(ok, log[-1500:] if not ok else '')
t=time.time(); res=_meta.evaluate(ctx,hs); print('coq',time.time()-t)
if res is None: print(ctx.notes[-1][-3000:]); sys.exit(1)
for name in ('model','ref'):
    s=res[name]
    first={}
    for (h,k,sec) in sorted(s):
        first.setdefault(h,(k,sec))
    print(name,'bad hist',len(first),'by section',Counter(_meta.SECTIONS[sec] for (_,_,sec) in s).most_common())
    print('  first-fail sections',Counter(_meta.SECTIONS[v[1]] for v in first.values()).most_common())
json.dump({"hs":hs,"model":sorted(res['model']),"ref":sorted(res['ref'])},open('/tmp/try_%s.json'%profile,'w'))
