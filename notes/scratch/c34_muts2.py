PID = "C34"
PE = "pkg/innerring/processors/netmap/process_peers.go"
L = "pkg/morph/event/listener.go"
MUTS = [
 ("addnode-fault-script-accepted", PE, "\tif err != nil || !ok {\n", "\tif err != nil && !ok {\n"),
 ("dispatch-by-last-call", L, "\ttyp := notaryEvent[0].Type()\n\tsh := notaryEvent[0].ScriptHash()\n", "\ttyp := notaryEvent[len(notaryEvent)-1].Type()\n\tsh := notaryEvent[len(notaryEvent)-1].ScriptHash()\n"),
]
