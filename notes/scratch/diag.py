import sys, json
sys.path.insert(0,'/verif/lib'); sys.path.insert(0,'/verif/props')
import vlib, _meta
d=json.load(open(sys.argv[1])); hs=d['hs']
which=sys.argv[2]  # model|ref
ctx=vlib.Ctx({"id":"C01","engine":"meta","coq_targets":[]}, "quick", 1)
seen=set()
for (h,k,sec) in d[which]:
    if h in seen: continue
    seen.add(h)
    H=hs[h]
    print('=== hist',h,'step',k,'section',_meta.SECTIONS.get(sec,sec))
    for j in range(k+1):
        print('  ',json.dumps(H['ops'][j]),' res',H['steps'][j]['res'])
    ops="[%s]" % "; ".join(_meta.coq_op(op) for op in H['ops'][:k+1])
    pre=_meta.PRELUDE+"Definition ops := %s.\n"%ops
    rc,out=ctx.coq_run("dbg",pre+"Eval vm_compute in (snd (step (run (removelast ops)) (last ops (OEpoch 0)))).\nEval vm_compute in (enc_state (run ops)).\n")
    print(out[-1500:])
    o=H['steps'][k]['obs']
    print('impl state',_meta.enc_state(o))
    r=_meta.evaluate_full(ctx,[(H,k)])
    print('full: model secs',[ _meta.SECTIONS[x] for x in r[0][0]],'ref secs',[_meta.SECTIONS[x] for x in r[0][1]])
    if len(seen)>=int(sys.argv[3]) if len(sys.argv)>3 else 3: break
