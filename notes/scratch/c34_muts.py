PID = "C34"
NP = "pkg/morph/event/notary_preparator.go"
L = "pkg/morph/event/listener.go"
NR = "pkg/morph/event/container/notary_requests.go"
PR = "pkg/innerring/processors/container/processor.go"
PE = "pkg/innerring/processors/netmap/process_peers.go"
MUTS = [
 ("expiry-boundary-flip", NP, "\tif currBlock >= nvb.Height {", "\tif currBlock > nvb.Height {"),
 ("drop-invoker-witness-check", NP, "\t\tif len(w[2].VerificationScript)+len(w[2].InvocationScript) == 0 {\n\t\t\treturn errIncorrectInvokerWitnesses\n\t\t}\n", ""),
 ("nkeys-not-incremented-for-invoker", NP, "\tif invokerWitness {\n\t\texpectedN++\n\t}\n", "\t_ = invokerWitness\n"),
 ("alphabet-signer-index-0", NP, "\tif !s[1].Account.Equals(hash.Hash160(alphaVerificationScript)) {", "\tif !s[1].Account.Equals(hash.Hash160(alphaVerificationScript)) && !s[0].Account.Equals(hash.Hash160(alphaVerificationScript)) && len(s) != 4 {"),
 ("single-call-parser-accepts-more", L, "\t\tif len(events) != 1 {", "\t\tif len(events) < 1 {"),
 ("revert-second-call-fix", NR, "\t\tif !eaclCall.ScriptHash().Equals(cnrCall.ScriptHash()) || eaclCall.Type().String() != fschaincontracts.PutContainerEACLMethod {", "\t\tif false {"),
 ("second-call-only-method-checked", NR, "\t\tif !eaclCall.ScriptHash().Equals(cnrCall.ScriptHash()) || eaclCall.Type().String() != fschaincontracts.PutContainerEACLMethod {", "\t\tif eaclCall.Type().String() != fschaincontracts.PutContainerEACLMethod {"),
 ("remove-registered-as-multi-call", PR, "\tp.SetRequestType(fschaincontracts.RemoveContainerMethod)\n\tp.SetUnaryParser(containerEvent.RestoreRemoveContainerRequest)", "\tp.SetRequestType(fschaincontracts.RemoveContainerMethod)\n\tp.SetParser(func(ee []event.NotaryEvent) (event.Event, error) { return containerEvent.RestoreRemoveContainerRequest(ee[0]) })"),
 ("addnode-skip-script-validity", PE, "\tif err != nil || !ok {\n\t\tnp.log.Warn(\"non-halt notary transaction\",", "\tif err != nil {\n\t\tnp.log.Warn(\"non-halt notary transaction\","),
 ("handled-cache-before-allow-filter", NP, "\tif !allowed {\n\t\treturn nil, ErrUnknownEvent\n\t}\n\n\tp.alreadyHandledTXs.Add(nr.MainTransaction.Hash(), struct{}{})\n", "\tp.alreadyHandledTXs.Add(nr.MainTransaction.Hash(), struct{}{})\n\tif !allowed {\n\t\treturn nil, ErrUnknownEvent\n\t}\n"),
 ("REFACTOR-validate-attributes-after-witnesses", NP, "\t// validate main TX's notary attribute\n\terr = p.validateAttributes(nr.MainTransaction.Attributes, currentAlphabet, invokerWitness)\n\tif err != nil {\n\t\treturn nil, err\n\t}\n\n\t// validate main TX's witnesses\n\terr = p.validateWitnesses(nr.MainTransaction.Scripts, currentAlphabet, invokerWitness)\n\tif err != nil {\n\t\treturn nil, err\n\t}\n",
  "\tif err = p.validateAttributes(nr.MainTransaction.Attributes, currentAlphabet, invokerWitness); err != nil {\n\t\treturn nil, err\n\t}\n\tif err = p.validateWitnesses(nr.MainTransaction.Scripts, currentAlphabet, invokerWitness); err != nil {\n\t\treturn nil, err\n\t}\n"),
]
