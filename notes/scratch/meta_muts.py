#!/usr/bin/env python3
"""Mutation self-test of the metabase family checks (C01, C02, C06).

usage: meta_muts.py <worktree> <results file> <id> [<id> ...]
Applies one textual mutation at a time to the scratch worktree, runs
`VERIF_REPO=<worktree> ./check <prop>` (quick tier), records rc / verdict lines /
time, and restores the file.  Never touches /repo."""
import json
import os
import subprocess
import sys
import time

MB = "pkg/local_object_storage/metabase/"
ENG = "pkg/local_object_storage/engine/"
MUTS = {
    # ---- C01
    "M1": ("C01", MB + "exists.go", "(currEpoch > objExpiration)", "(currEpoch >= objExpiration)"),
    "M2": ("C01", MB + "exists.go", "if garbageStatus != statusAvailable && objectLocked(currEpoch, metaCursor, oID) {",
           "if garbageStatus == statusTombstoned && objectLocked(currEpoch, metaCursor, oID) {"),
    "M3": ("C01", MB + "exists.go", "if bytes.Equal(k, garbageMark) && !bytes.Equal(v, redundantGarbageMark) {",
           "if bytes.Equal(k, garbageMark) && len(v) >= 0 {"),
    "M6": ("C01", MB + "iterators.go", "for ; expEpoch < curEpoch && !id.IsZero();", "for ; expEpoch <= curEpoch && !id.IsZero();"),
    "R1": ("C01", MB + "exists.go",
           """	if isExpired(metaCursor, oID, currEpoch) {
		if objectLocked(currEpoch, metaCursor, oID) {
			return statusAvailable
		}

		return statusExpired
	}

	garbageStatus := inGarbage(metaCursor, oID)
	if garbageStatus != statusAvailable && objectLocked(currEpoch, metaCursor, oID) {
		return statusAvailable
	}

	return garbageStatus
""",
           """	locked := func() bool { return objectLocked(currEpoch, metaCursor, oID) }
	st := uint8(statusExpired)
	if !isExpired(metaCursor, oID, currEpoch) {
		st = inGarbage(metaCursor, oID)
	}
	if st == statusAvailable || locked() {
		return statusAvailable
	}
	return st
"""),
    # ---- C02
    "N1": ("C02", MB + "counter.go", "counter -= min(counter, uint64(-delta))", "counter -= uint64(-delta)"),
    "N2": ("C02", MB + "put.go", "	if !obj.HasParent() {\n		diff.Root++", "	if obj.Parent() == nil {\n		diff.Root++"),
    "N4": ("C02", MB + "metadata.go", "	if !nonPhy && !garbage {\n		diff.Payload -= int64(size)", "	if !nonPhy {\n		diff.Payload -= int64(size)"),
    "N5": ("C02", MB + "revive.go", "err = updateCounter(metaBucket, gcCounter, -1)", "err = updateCounter(metaBucket, gcCounter, 0)"),
    "R2": ("C02", MB + "counter.go", "	if diff.Phy != 0 {\n		err := updateCounter(metaBkt, phyCounter", "	if true {\n		err := updateCounter(metaBkt, phyCounter"),
}


def load_extra():
    p = os.path.join(os.path.dirname(os.path.abspath(__file__)), "meta_muts_c06.json")
    if os.path.exists(p):
        for k, v in json.load(open(p), strict=False).items():
            MUTS[k] = tuple(v)


def main():
    load_extra()
    wt, out = sys.argv[1], sys.argv[2]
    for mid in sys.argv[3:]:
        prop, rel, old, new = MUTS[mid]
        path = os.path.join(wt, rel)
        src = open(path).read()
        if src.count(old) != 1:
            open(out, "a").write("%s %s NOT-APPLIED (%d matches)\n" % (prop, mid, src.count(old)))
            continue
        open(path, "w").write(src.replace(old, new))
        t = time.time()
        try:
            env = dict(os.environ, VERIF_REPO=wt)
            p = subprocess.run(["./check", prop], cwd="/verif", env=env, stdout=subprocess.PIPE, stderr=subprocess.STDOUT, text=True, timeout=3600)
            lines = [l[:230] for l in p.stdout.splitlines() if l.startswith(("VIOLATION", "OK", "BROKEN")) or "Error" in l]
            detail = ""
            for l in lines:
                if l.startswith("VIOLATION") and "replay=" in l:
                    rp = l.split("replay=")[1].split()[0]
                    try:
                        r = json.load(open(rp))
                        v = (r.get("violations") or [{}])[0]
                        detail = json.dumps({k: v.get(k) for k in ("model_disagrees_on", "reference_disagrees_on", "kind", "what") if k in v})
                        detail += " nops=%s" % len((v.get("case") or {}).get("ops", []))
                        if r.get("no_failing_input_found"):
                            detail = "no-failing-input-found broken=%s" % r.get("broken")
                    except Exception as ex:
                        detail = "replay unreadable %r" % (ex,)
            open(out, "a").write("%s %s rc=%d %ds %s | %s\n" % (prop, mid, p.returncode, time.time() - t, lines, detail))
        finally:
            open(path, "w").write(src)


main()
