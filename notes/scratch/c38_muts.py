PID = "C38"
PE = "pkg/innerring/processors/netmap/process_peers.go"
EP = "pkg/innerring/processors/netmap/process_epoch.go"
V = "pkg/innerring/processors/netmap/nodevalidation/validator.go"
MUTS = [
 ("epoch-counter-not-updated-on-notification", EP, "\tnp.epochState.SetEpochCounter(epoch)\n", ""),
 ("epoch-counter-only-grows", EP, "\tnp.epochState.SetEpochCounter(epoch)\n", "\tif epoch > np.epochState.EpochCounter() {\n\t\tnp.epochState.SetEpochCounter(epoch)\n\t}\n"),
 ("tick-without-alphabet-guard", EP, "\tif !np.alphabetState.IsAlphabet() {\n\t\tnp.log.Info(\"non alphabet mode, ignore new epoch tick\")\n\t\treturn\n\t}\n", ""),
 ("tick-asks-current-epoch", EP, "\tnextEpoch := np.epochState.EpochCounter() + 1\n", "\tnextEpoch := np.epochState.EpochCounter()\n\tif nextEpoch == 0 {\n\t\tnextEpoch = 1\n\t}\n"),
 ("composite-skips-last-validator", V, "\tfor _, v := range c.validators {\n", "\tfor i, v := range c.validators {\n\t\tif i > 0 && i == len(c.validators)-1 {\n\t\t\tbreak\n\t\t}\n"),
 ("addnode-fault-script-accepted", PE, "\tif err != nil || !ok {\n", "\tif err != nil && !ok {\n"),
 ("addnode-without-alphabet-guard", PE, "\tif !np.alphabetState.IsAlphabet() {\n\t\tnp.log.Info(\"non alphabet mode, ignore new node notification\")\n\t\treturn\n\t}\n", ""),
 ("REFACTOR-parse-node-before-script-check", PE, "\t// check if notary transaction is valid, see #976\n\toriginalRequest := ev.NotaryRequest()\n\ttx := originalRequest.MainTransaction\n",
  "\tif _, err := netmapEvent.Node2Info(&ev.Node); err != nil {\n\t\tnp.log.Warn(\"can't parse network map candidate\")\n\t\treturn\n\t}\n\toriginalRequest := ev.NotaryRequest()\n\ttx := originalRequest.MainTransaction\n"),
]
