import importlib.util
spec = importlib.util.spec_from_file_location("m", "/verif/notes/scratch/c37_muts.py"); m = importlib.util.module_from_spec(spec); spec.loader.exec_module(m)
PID = "C37"
want = {"v1-drop-verb-check", "v2-issuer-instead-of-original-issuer", "eacl-system-role-first-target-only", "delete-token-not-bound-to-container"}
MUTS = [x for x in m.MUTS if x[0] in want]
