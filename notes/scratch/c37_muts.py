PID = "C37"
C = "pkg/innerring/processors/container/common.go"
P = "pkg/innerring/processors/container/process_container.go"
E_ = "pkg/innerring/processors/container/process_eacl.go"
MUTS = [
 ("v1-drop-verb-check", C, "\t\tif !tok.AssertVerb(v.verb) {\n\t\t\treturn errWrongSessionVerb\n\t\t}\n", ""),
 ("v1-lifetime-off-by-one", C, "if !token.ValidAt(curEpoch) {", "if curEpoch > 0 && !token.ValidAt(curEpoch-1) {"),
 ("v2-issuer-instead-of-original-issuer", C, "if tok.OriginalIssuer() != v.ownerContainer {", "if tok.Issuer() != v.ownerContainer && tok.OriginalIssuer() != v.ownerContainer {"),
 ("v2-revert-fix", C, "\tif !tok.AssertContainer(v.verbV2, v.idContainer) {\n\t\tif !v.idContainerSet {", "\tif v.idContainerSet && !tok.AssertContainer(v.verbV2, v.idContainer) {\n\t\tif !v.idContainerSet {"),
 ("meta-attr-without-meta-enabled", P, "\t\t\t\tif !cp.metaEnabled {\n\t\t\t\t\treturn errors.New(\"chain meta data attribute is not allowed\")\n\t\t\t\t}\n", ""),
 ("eacl-drop-extendable", E_, "\tif !cnr.BasicACL().Extendable() {\n\t\treturn errors.New(\"ACL extension disabled by container basic ACL\")\n\t}\n", ""),
 ("eacl-system-role-first-target-only", E_, "\t\tfor _, target := range record.Targets() {\n\t\t\tif target.Role() == eacl.RoleSystem {", "\t\tfor i, target := range record.Targets() {\n\t\t\tif i == 0 && target.Role() == eacl.RoleSystem {"),
 ("createv2-skip-eacl-auth", P, "\t\terr = cp.checkSetEACL(*req.EACLTable, table, id, cnr)\n", "\t\terr = validateEACL(table)\n"),
 ("delete-token-not-bound-to-container", P, "\t\tverbV2:          sessionv2.VerbContainerDelete,\n\t\tidContainerSet:  true,\n", "\t\tverbV2:          sessionv2.VerbContainerDelete,\n\t\tidContainerSet:  len(req.SessionToken) == 0,\n"),
 ("verdict-cache-by-token", C, "func (cp *Processor) verifySignature(v signatureVerificationData) error {\n\tvar err error\n",
  "var verifSeen = map[string]bool{}\n\nfunc (cp *Processor) verifySignature(v signatureVerificationData) (err error) {\n\tif len(v.binTokenSession) > 0 {\n\t\tk := string(v.binTokenSession) + string(v.signedData)\n\t\tif verifSeen[k] {\n\t\t\treturn nil\n\t\t}\n\t\tdefer func() {\n\t\t\tif err == nil {\n\t\t\t\tverifSeen[k] = true\n\t\t\t}\n\t\t}()\n\t}\n"),
 ("REFACTOR-policy-verify-before-signature", P, "\terr := cp.verifySignature(signatureVerificationData{\n\t\townerContainer:  cnr.Owner(),\n\t\tverb:            session.VerbContainerPut,",
  "\tif err := cnr.PlacementPolicy().Verify(); err != nil {\n\t\treturn fmt.Errorf(\"invalid storage policy: %w\", err)\n\t}\n\n\terr := cp.verifySignature(signatureVerificationData{\n\t\townerContainer:  cnr.Owner(),\n\t\tverb:            session.VerbContainerPut,"),
]
