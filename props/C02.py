"""C02 — reported object counts and container sizes match what the shard stores."""
import importlib.util
import os

_spec = importlib.util.spec_from_file_location("prop_C01_shared", os.path.join(os.path.dirname(os.path.abspath(__file__)), "C01.py"))
C01 = importlib.util.module_from_spec(_spec)
_spec.loader.exec_module(C01)
M = C01.M

REASONS = {2: "c02-relations", 3: "c02-put-on-marked-id", 4: "c02-tombstone-target", 5: "c02-mark-unstored",
           6: "c02-revive-multi-tombstone"}

META = {
    "id": "C02",
    "engine": "meta",
    "design_ref": "5/C02",
    "coq_targets": ["Props/Properties_C02.vo", "Meta/Check.vo", "Meta/CheckFast.vo"],
    "coq_files": ["Gen/MetaConsts.v", "Meta/SMap.v", "Meta/Model.v", "Meta/Spec.v", "Meta/Check.v", "Meta/CheckFast.v", "Meta/SMapProofs.v",
                  "Meta/StatusProofs.v", "Meta/WfProofs.v", "Meta/CounterProofs.v", "Meta/TypedProofs.v", "Props/Properties_C02.v"],
    "theorems": ["C02_typed_counters_exact_partial", "C02_counters_refuted_put_on_marked_id", "C02_counters_refuted_tombstone_target",
                 "C02_counters_refuted_tombstone_unstored", "C02_counters_refuted_mark_unstored", "C02_counters_refuted_relations"],
    "technique": "Coq proof by invariant over all histories of the clean fragment + refutation witnesses for every drift class + "
                 "differential correspondence of the executable model (all seven counters, CountersDiff results, container info, forced "
                 "recount) with a real meta.DB after every operation + declarative recount evaluated on the dumped bucket content",
    "level_text": "C02_typed_counters_exact_partial: for every finite history (puts of regular/tombstone/lock/link objects, garbage marks default "
                  "and redundant, container inhume/delete, deletes, revivals, epoch changes) inside the clean fragment `clean_hist` of Meta/Spec.v, "
                  "the five per-type counters (physical, root, tombstone, lock, link) of every container of the Gallina model of the metabase equal "
                  "the number of such objects its metadata indexes (zero for a removed container), by an invariant proved for every operation "
                  "(Meta/TypedProofs.v); the premise includes that the state fits 64-bit counters, so no counter has wrapped. The full-strength "
                  "statement (all histories, including container info = number and payload of stored physical objects not marked for removal) is "
                  "REFUTED for the faithful model by five witness histories (C02_counters_refuted_*), one per drift class, each class being a boolean "
                  "predicate on the operation (Spec.unclean_op). The model (all seven raw counters, CountersDiff results of every operation, "
                  "GetContainerInfo, the forced recount of syncContainerCounters) is tied to the Go code on every run by differential comparison after "
                  "every operation, and the implementation's counters are compared with the declarative recount of the dumped bucket content.",
    "level_note": "partial: (1) the exactness THEOREM covers the per-type counters on the clean fragment without PutBatch; exactness of the container "
                  "info (objects number, storage size) on the clean fragment is checked on every run against the reference (0 mismatches inside the "
                  "fragment, any mismatch there is reported as a violation) but is not proved in Coq; (2) outside the fragment the counters do drift "
                  "in the real code (known findings c02-put-on-marked-id, c02-tombstone-target, c02-mark-unstored, c02-relations, "
                  "c02-revive-multi-tombstone), the garbage counter has no consistent meaning there (number of garbage keys vs number of marked "
                  "stored objects) and GetContainerInfo = phy - gc inherits that; (3) the reference treats a redundant mark as 'marked for removal' "
                  "for size estimation (as MarkGarbage does) while syncContainerCounters still counts its payload (the recount itself deviates, "
                  "modelled and tied as sync_counters); objects of a removed container count as zero. Shard.ContainerInfo (shard level) is not "
                  "exercised. Modelled, not verified: bbolt as an ordered map, int64 conversion of sizes >= 2^63. Trusted: Coq kernel + vm_compute, "
                  "hand-written model (tied), harness, driver; per-step 61-bit digest comparison (full comparison on mismatch).",
    "trusted_base": ["Coq 8.16.1 kernel, vm_compute", "model Meta/Model.v hand-written, tied by differential check (state incl. raw counters, results, views)",
                     "harness/cmd/meta, hooks zz_verif_meta.go, props/_meta.py, lib/vlib.py", "bbolt modelled as an ordered map"],
    "assumptions": ["object headers are a function of the object ID; parent relation acyclic", "payload sizes < 2^63 (int64 conversion not modelled)"],
}


def tiers(ctx):
    return C01.tiers(ctx)


def run(ctx):
    def classify(x, res):
        h, k, sec = x
        first = [(kk, r) for (hh, kk, r) in res["unclean"] if hh == h]
        if first and first[0][0] <= k:
            return REASONS.get(first[0][1])
        return None
    out = C01.run_family(ctx, "C02", {0}, classify)
    if out is None:
        return
    hs, res, known, unknown, model_bad = out
    clean = len(hs) - len({h for (h, k, r) in res["unclean"]})
    reasons = {}
    for (h, k, r) in res["unclean"]:
        reasons[REASONS.get(r, str(r))] = reasons.get(REASONS.get(r, str(r)), 0) + 1
    C01.coverage(ctx, hs, res, known, {0},
                 rule_extra="; C02 compares the five per-type counters of ObjectCounters and GetContainerInfo of every container "
                            "with the declarative recount of the dumped bucket content after every operation")
    ctx.cov["clean_fragment_histories"] = clean
    ctx.cov["first_unclean_reason_histogram"] = reasons
    steps_clean = 0
    unclean_at = {h: k for (h, k, r) in res["unclean"]}
    for i, h in enumerate(hs):
        n = sum(1 for s in h["steps"] if s.get("obs"))
        steps_clean += min(n, unclean_at.get(i, n))
    ctx.cov["steps_inside_clean_fragment"] = steps_clean
