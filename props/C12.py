"""C12 — a crash during a blob write never exposes partial or wrong object bytes."""
import collections
import json
import os
import re
import shutil
import subprocess
import tempfile
from concurrent.futures import ThreadPoolExecutor
import vlib
import importlib.util
_spec = importlib.util.spec_from_file_location("_c10", os.path.join(os.path.dirname(__file__), "C10.py"))
_c10 = importlib.util.module_from_spec(_spec)
_spec.loader.exec_module(_c10)
_fs = _c10._fs

META = {
    "id": "C12",
    "engine": "fstree",
    "design_ref": "5/C12",
    "coq_targets": ["Props/Properties_C12.vo", "FSTree/FSCheck.vo"],
    "coq_files": ["Gen/FSTreeConsts.v", "Gen/FSTreeNames.v", "FSTree/Wire.v", "FSTree/Range.v", "FSTree/Combined.v", "FSTree/ObjGen.v", "FSTree/FS.v",
                  "FSTree/FSCheck.v", "FSTree/WireProofs.v", "FSTree/CombinedProofs.v", "FSTree/FSProofs.v", "FSTree/FSExample.v",
                  "Props/Properties_C12.v"],
    "theorems": ["C12_prefix_safe", "C12_reads_after_crash", "C12_iterate_after_crash", "C12_any_safe_trace", "C12_cleanup"],
    "technique": "Coq proof over syscall traces: every writer of the file tree is a generator of open/write/linkat/rename/unlink/sync/close "
                 "calls on a file-system model; a link discipline (a name appears only for a complete file or record; only unnamed, temporary or "
                 "record files are appended to) is proved invariant under every safe call, hence under every crashed prefix with a torn last "
                 "write; tied to the Go code by SIGKILL injection (strace) at every syscall of real writes",
    "level_text": "C12_prefix_safe: from every state a history can reach, for every operation (Put through the O_TMPFILE single-file writer, the "
                  "combined-record writer with open batch or new batch, with or without reaching a limit; PutBatch of any number of objects of any "
                  "sizes; the generic tmp-file+rename writer; Delete; timer), every number k of completed syscalls and every torn length of the "
                  "interrupted write (process-crash model: completed calls persist, any prefix of the interrupted write reaches the inode): the "
                  "state found after the restart satisfies the link discipline, so (C12_reads_after_crash, C12_iterate_after_crash) every address "
                  "reads not-found or exactly its object through every read API and iteration lists exactly the readable addresses, never a "
                  "temporary name; everything readable before the operation stays readable with identical bytes unless the operation deletes it. "
                  "C12_cleanup: CleanUpTmp keeps that. The model is tied to the Go code on every run: a child process performs real writes under "
                  "`strace -f -e inject=<syscall>:signal=SIGKILL:when=<n>` for every syscall of the operation (single, combined with sync in the "
                  "caller and with the timer, batches of 1-8 objects of mixed sizes and compressed forms, re-put of a stored address = EEXIST, "
                  "generic writer, Delete of a batch member; depths 0/2/4); the parent compares the syscall kinds the implementation made with the "
                  "model's trace, reopens the tree and compares GetBytes of every address, Iterate and the number of temporary files with the "
                  "model state after k calls, and with the property directly; CleanUpTmp must remove every temporary file and change no answer.",
    "level_note": "partial: durability across power loss (page cache, directory entries not yet on disk, fdatasync ordering) is outside the stated "
                  "process-crash model and outside the proof. Torn writes are covered by the theorem for every length but cannot be produced "
                  "deterministically by a SIGKILL (the kill lands between syscalls), so the tie exercises syscall boundaries only. Kernel VFS "
                  "semantics (linkat/rename/unlink atomic, O_TMPFILE inodes unnamed, appends) are the model's assumptions. Acknowledged = "
                  "readable before the interrupted operation (a combined Put is acknowledged only after its batch is synced, i.e. after its trace). "
                  "Concurrent writers at the crash: the theorem is per operation from any reachable state including an open combined batch; "
                  "interleaved traces of several writers are covered by C12_any_safe_trace only if each step is safe where it runs (not proved for "
                  "arbitrary interleavings). Batch members are written in Go map order: the tie compares their count, not their identity.",
    "trusted_base": ["Coq 8.16.1 kernel, vm_compute", "hand-written model FSTree/FS.v tied by differential check under strace SIGKILL injection",
                     "strace 6.1 syscall tampering", "harness/cmd/fstree (c12.go, c10.go), lib/vlib.py"],
    "assumptions": ["process-crash model: completed syscalls persist, the interrupted write leaves any prefix",
                    "zstd: dec(stored form) = Some(object binary) (Section function dec; premise op_ok)",
                    "format guard: stored bytes do not begin with 0x7f 0x00 (premise op_ok)",
                    "addresses are content hashes; object IDs of different addresses differ (hypothesis oid_inj)",
                    "address strings never contain '#' (hypothesis parse_hash): temporary names never parse as addresses",
                    "kernel VFS: linkat/rename/unlink atomic, O_TMPFILE inodes have no name, write appends"],
}

PRELUDE = _c10.PRELUDE
NAMES = "openat,write,writev,pwrite64,linkat,fdatasync,fsync,close,rename,renameat,renameat2,unlink,unlinkat"


def spec(i, plen):
    return {"sigk": 3 + i, "attrk": 2 + i, "plen": plen, "seed": 256 * (i + 3) + i, "pf": True}


def scenarios(tier):
    sizes = [300, 450, 3000, 320, 700, 380, 5000, 410, 360, 640]
    objs = [spec(i, sizes[i]) for i in range(10)]
    res = []

    def add(name, cfg, pre, kind, items, timer=False):
        res.append({"name": name, "cfg": dict(cfg, chunk=65536), "objs": objs, "pre": pre, "kind": kind, "items": items, "naddr": 10, "timer": timer})
    single = {"depth": 2, "threshold": 100, "climit": 128, "slimit": 8 << 20, "generic": False}
    comb = {"depth": 0, "threshold": 100000, "climit": 128, "slimit": 100, "generic": False}
    timer = {"depth": 4, "threshold": 100000, "climit": 128, "slimit": 100000, "generic": False}
    gen = {"depth": 2, "threshold": 100, "climit": 128, "slimit": 100, "generic": True}
    P = lambda a, z=0: ["P", [[a, a, z]]]
    add("single", single, [P(0), P(1)], 0, [[2, 2, 0]])
    add("single-reput", single, [P(0), P(1)], 0, [[0, 0, 0]])
    add("combined-size", comb, [P(0), P(1, 1)], 0, [[2, 2, 0]])
    add("combined-reput", comb, [P(0)], 0, [[0, 0, 0]])
    add("combined-timer", timer, [P(0)], 0, [[3, 3, 0]], timer=True)
    ns = [1, 3, 8] if tier == "quick" else [1, 2, 3, 4, 5, 6, 7, 8]
    for n in ns:
        its = [[a, a, (1 if a % 3 == 0 else 0)] for a in range(1, n + 1)]
        add("batch%d" % n, dict(comb, depth=[0, 2, 4][n % 3]), [P(0)], 1, its)
    add("batch-reput", comb, [P(1), P(2)], 1, [[1, 1, 0], [2, 2, 0], [3, 3, 0]])
    add("generic", gen, [P(0)], 0, [[1, 1, 0]])
    add("generic-reput", gen, [P(0)], 0, [[0, 0, 1]])
    add("generic-batch", dict(gen, depth=0), [P(0)], 1, [[1, 1, 0], [2, 2, 1], [3, 3, 0]])
    add("delete-member", comb, [P(0), ["B", [[1, 1, 0], [2, 2, 0], [3, 3, 0]]]], 2, [[2, 2, 0]])
    add("delete-single", single, [P(0), P(1)], 2, [[1, 1, 0]])
    add("delete-generic", gen, [P(0), P(1)], 2, [[0, 0, 0]])
    if tier == "thorough":
        for d in (0, 1, 3, 4):
            add("single-d%d" % d, dict(single, depth=d), [P(0)], 0, [[6, 6, 0]])
            add("generic-d%d" % d, dict(gen, depth=d), [P(0)], 0, [[6, 6, 1]])
    # compressed stored forms need their real length (z = 1 is a flag here)
    return res


def run_child(binp, scn_path, inject=None, trace=None, tmo=60):
    d = tempfile.mkdtemp(prefix="verif-c12-")
    env = vlib.go_env()
    env["GOMAXPROCS"] = "1"
    cmd = ["strace", "-f", "-o", trace or "/dev/null", "-e", "trace=" + (NAMES if trace else (inject[0] if inject else "linkat"))]
    if inject:
        cmd += ["-e", "inject=%s:signal=SIGKILL:when=%d" % inject]
    cmd += [binp, "c12child", scn_path, os.path.join(d, "t")]
    try:
        p = subprocess.run(cmd, env=env, stdout=subprocess.PIPE, stderr=subprocess.PIPE, text=True, timeout=tmo)
        rc, out = p.returncode, p.stdout
    except subprocess.TimeoutExpired:
        rc, out = -99, ""
    markers = [json.loads(l) for l in out.splitlines() if l.startswith("{")]
    return d, rc, markers


def read_tree(binp, scn_path, d):
    env = vlib.go_env()
    env["VERIF_SEED"] = "1"
    p = subprocess.run([binp, "c12read", scn_path, os.path.join(d, "t")], env=env, stdout=subprocess.PIPE, stderr=subprocess.PIPE, text=True, timeout=60)
    for l in p.stdout.splitlines():
        if l.startswith("{"):
            return json.loads(l)
    return None


def parse_trace(path):
    """modelled syscalls of the interrupted operation on the main thread: [(kind, name, ordinal)]"""
    lines = open(path).read().splitlines()
    if not lines:
        return None
    main = lines[0].split()[0]
    counts = collections.Counter()
    res, phase, fds = [], 0, set()
    for l in lines:
        m = re.match(r"(\d+)\s+(\w+)\((.*)", l)
        if not m or m.group(1) != main:
            continue
        name, rest = m.group(2), m.group(3)
        counts[name] += 1
        if name == "write" and rest.startswith("1,") and "marker" in rest:
            phase = 1 if "ready" in rest else 2
            continue
        if phase != 1:
            continue
        kind = None
        if name == "openat" and ("O_TMPFILE" in rest or "O_EXCL" in rest):
            kind = 1
            fd = re.search(r"=\s*(\d+)\s*$", l)
            if fd:
                fds.add(fd.group(1))
        elif name in ("writev", "pwrite64") or (name == "write" and not re.match(r"[12],", rest)):
            kind = 2
        elif name == "linkat":
            kind = 3
        elif name in ("rename", "renameat", "renameat2"):
            kind = 4
        elif name in ("unlink", "unlinkat") and "AT_REMOVEDIR" not in rest:
            kind = 5
        elif name in ("fdatasync", "fsync"):
            kind = 6
        elif name == "close":
            fd = re.match(r"(\d+)\)", rest)
            if fd and fd.group(1) in fds:
                fds.discard(fd.group(1))
                kind = 7
        if kind:
            res.append((kind, name, counts[name]))
    return res if phase == 2 else None


def case_lit(c):
    s = c["scn"]

    def pre_lit(p):
        if p[0] == "P":
            return "; ".join("CPuts %s [0]" % _c10.items_lit([it]) for it in p[1])
        if p[0] == "B":
            return "CBatch %s 0" % _c10.items_lit(p[1])
        return "CDel %d 0" % p[1]
    return ("{| z_cfg := %s; z_objs := %s; z_pre := [%s]; z_kind := %d; z_items := %s; z_k := %d; z_kinds := %s; z_naddr := %d; "
            "z_obs := [%s]; z_iter := [%s]; z_tmp := %d |}" % (
                _c10.cfg_lit(s["cfg"]), _c10.objs_lit(s["objs"]), "; ".join(pre_lit(p) for p in s["pre"]), s["kind"], _c10.items_lit(s["items"]),
                c["k"], vlib.coq_list(c["kinds"]), s["naddr"],
                "; ".join("(%d, %s)" % (a, _c10.nat(b)) for a, b in c["obs"]), "; ".join("(%d, %s)" % (a, _c10.nat(b)) for a, b in c["iter"]), c["tmp"]))


def run(ctx):
    binp = ctx.go_build()
    _fs.gen_consts(ctx, binp)
    ctx.prove()
    nm = ctx.run_json([binp, "c10names"])
    vlib.write_if_changed(os.path.join(vlib.COQ, "Gen", "FSTreeNames.v"),
                          "(* GENERATED by props/C10.py / C12.py from `fstree c10names`: stringifyAddress of the harness' addresses. *)\n"
                          "From Coq Require Import List NArith.\nImport ListNotations.\n" + _c10.names_def(nm[0]["names"]))
    model = ctx.model_ready(["Gen/FSTreeNames.vo", "FSTree/FSCheck.vo"])
    scns = scenarios(ctx.tier)
    if ctx.replay:
        rp = json.load(open(ctx.replay))
        want = {v["case"]["scenario"] for v in rp.get("violations", []) if "case" in v}
        scns = [s for s in scns if s["name"] in want] or scns
    work = tempfile.mkdtemp(prefix="verif-c12w-")
    cases, broken = [], []
    try:
        # real compressed lengths: ask the harness through a dry probe of every object is not needed: the child
        # stores objs[o].z itself; the model only needs the length, taken from a one-off listing
        zl = {}
        for s in scns:
            for it in s["items"] + [it for p in s["pre"] if p[0] != "D" for it in p[1]]:
                if it[2]:
                    zl[it[1]] = None
        probe = ctx.run_json([binp, "c12zlen"], input=json.dumps(scns[0]["objs"]))[0]["zlen"]
        for s in scns:
            for it in s["items"] + [it for p in s["pre"] if p[0] != "D" for it in p[1]]:
                if it[2]:
                    it[2] = probe[it[1]]

        def prepare(s):
            sp = os.path.join(work, s["name"] + ".json")
            json.dump(s, open(sp, "w"))
            tf = os.path.join(work, s["name"] + ".trace")
            d, rc, markers = run_child(binp, sp, trace=tf)
            shutil.rmtree(d, ignore_errors=True)
            tr = parse_trace(tf) if os.path.exists(tf) else None
            return sp, tr, rc

        with ThreadPoolExecutor(max_workers=8) as ex:
            prepared = list(ex.map(prepare, scns))
        plans = []
        for s, (sp, tr, rc) in zip(scns, prepared):
            if not tr:
                broken.append("dry run of %s failed (rc=%s)" % (s["name"], rc))
                continue
            kinds = [k for (k, _, _) in tr]
            for j in range(len(tr) + 1):
                plans.append((s, sp, kinds, j, (tr[j][1], tr[j][2]) if j < len(tr) else None))

        def one(pl):
            s, sp, kinds, j, inj = pl
            d, rc, markers = run_child(binp, sp, inject=inj)
            try:
                done = any(m.get("marker") == "done" for m in markers)
                ready = any(m.get("marker") == "ready" for m in markers)
                rd = read_tree(binp, sp, d)
            finally:
                shutil.rmtree(d, ignore_errors=True)
            return {"scn": s, "scenario": s["name"], "k": j, "kinds": kinds, "rc": rc, "ready": ready, "done": done, "read": rd}

        with ThreadPoolExecutor(max_workers=8) as ex:
            runs = list(ex.map(one, plans))
    finally:
        shutil.rmtree(work, ignore_errors=True)
    if broken:
        raise vlib.Broken("; ".join(broken))
    bad_ref = []
    for i, r in enumerate(runs):
        rd = r["read"]
        why = None
        killed = r["k"] < len(r["kinds"])
        if rd is None:
            why = "tree cannot be reopened / read after the crash"
        elif not r["ready"] or (killed and (r["done"] or r["rc"] == 0)) or (not killed and not r["done"]):
            why = "harness: kill point not hit as planned (rc=%s ready=%s done=%s)" % (r["rc"], r["ready"], r["done"])
        elif rd["iter_st"] != 0:
            why = "iteration fails after the crash"
        elif rd["tmp_after"] != 0:
            why = "CleanUpTmp left temporary files"
        elif not rd["same_after_cleanup"]:
            why = "CleanUpTmp changed what is readable"
        if rd is not None:
            r.update(obs=rd["obs"], iter=rd["iter"], tmp=rd["tmp"])
        else:
            r.update(obs=[[3, 0]] * r["scn"]["naddr"], iter=[], tmp=0)
        if why:
            bad_ref.append((i, why))
    bad_model, bad_ref2 = [], []
    if model:
        lit = "[" + ";\n ".join(case_lit(r) for r in runs) + "]"
        NJ = 4
        chunks = [list(range(len(runs)))[i::NJ] for i in range(NJ)]
        jobs = [("c12", PRELUDE + "Definition cases : list c12_case := [%s].\n" % ";\n ".join(case_lit(runs[i]) for i in ch),
                 {"model": "c12_model_mismatches names cases", "ref": "c12_ref_mismatches cases"}) for ch in chunks if ch]
        results = ctx.coq_eval_many(jobs)
        if any(x is None for x in results):
            ctx.tie(False)
        else:
            for ch, x in zip([c for c in chunks if c], results):
                bad_model += [ch[i] for i in x["model"]]
                bad_ref2 += [ch[i] for i in x["ref"]]
            ctx.tie(not bad_model)      # syscall kinds and state after k calls = model
    else:
        ctx.tie(False)
    for i in bad_ref2:
        bad_ref.append((i, "an address reads foreign/partial bytes, an acknowledged object is lost, or iteration differs from the readable set"))
    ctx.tie(not bad_ref)                # the property itself on the observations
    shown = set()
    for i, why in bad_ref[:8]:
        r = runs[i]
        shown.add(i)
        ctx.violation({"case": {"scenario": r["scenario"], "k": r["k"], "kinds": r["kinds"], "op_kind": r["scn"]["kind"], "items": r["scn"]["items"],
                                "pre": r["scn"]["pre"], "cfg": r["scn"]["cfg"]},
                       "impl": {"obs": r["obs"], "iter": r["iter"], "tmp": r["tmp"], "rc": r["rc"]},
                       "disagrees_with": "property (reference oracle): " + why})
    for i in bad_model[:8]:
        if i not in shown:
            r = runs[i]
            ctx.violation({"case": {"scenario": r["scenario"], "k": r["k"], "kinds": r["kinds"], "op_kind": r["scn"]["kind"], "items": r["scn"]["items"],
                                    "pre": r["scn"]["pre"], "cfg": r["scn"]["cfg"]},
                           "impl": {"obs": r["obs"], "iter": r["iter"], "tmp": r["tmp"], "rc": r["rc"]},
                           "disagrees_with": "model state after k syscalls of the trace (FSTree/FS.v crash)"})
    ctx.cov.update({
        "evaluations": len(runs),
        "distinct_nontrivial": len({(r["scenario"], r["k"]) for r in runs if r["k"] < len(r["kinds"])}),
        "rule": "scenarios (single file, combined with sync in the caller / by the timer, PutBatch of 1,3,8 (thorough 1..8) objects of mixed sizes and "
                "compressed forms, re-put of a stored address, generic writer put / batch, Delete of a batch member / single file / generic) x "
                "SIGKILL before every syscall of the operation (+ the complete run); non-trivial = the process was killed inside the operation; "
                "distinct by (scenario, crash point)",
        "samples": [{k: r[k] for k in ("scenario", "k", "kinds", "obs", "iter", "tmp")} for r in runs[1:4]],
        "traces_validated_against_impl": len(runs),
        "hist_scenario": dict(collections.Counter(r["scenario"] for r in runs)),
        "hist_killed_before_kind": dict(collections.Counter(str(r["kinds"][r["k"]]) if r["k"] < len(r["kinds"]) else "complete" for r in runs)),
        "runs_with_temporary_files": sum(1 for r in runs if r["tmp"]),
    })
