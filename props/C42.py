"""C42 — upgrading an older metadata database preserves every object's status."""
import importlib.util
import json
import os

import vlib


def _load(name):
    spec = importlib.util.spec_from_file_location(name, os.path.join(os.path.dirname(os.path.abspath(__file__)), name + ".py"))
    m = importlib.util.module_from_spec(spec)
    spec.loader.exec_module(m)
    return m


R = _load("_resync")

META = {
    "id": "C42",
    "engine": "resync",
    "design_ref": "5/C42",
    "coq_targets": ["Props/Properties_C42.vo", "Resync/Upgrade.vo"],
    "coq_files": ["Gen/ResyncConsts.v", "Resync/Upgrade.v", "Resync/UpgradeProofs.v", "Props/Properties_C42.v"],
    "theorems": ["C42_supported_versions", "C42_batch_preserves", "C42_tx_preserves", "C42_preserves", "C42_batch_idempotent",
                 "C42_scan_complete", "C42_bucket_resumable", "C42_resumable_partial"],
    "technique": "Coq proof (induction over the entries of a bucket, the buckets of a transaction and the transactions of a run) about a "
                 "key-level model of the migrations of version.go + differential correspondence: older-format databases written directly with "
                 "bbolt, opened by the current code with and without cancelling the init context at every poll",
    "level_text": "C42_preserves: for every list of container buckets, every batch limit and every number of completed transactions (interruption "
                  "after any batch) of the 10->11 migration (drop homomorphic-hash index entries, rewrite associate values base58 -> raw ID in batches "
                  "with a resume key) the abstraction of every bucket that the current code reads (object -> associated ID pairs, every other key) is "
                  "unchanged, so statuses, attributes and search results, which are functions of it, are unchanged. C42_batch_idempotent / "
                  "C42_bucket_resumable: a batch never un-converts, re-running a batch function on its own result from the start changes nothing more "
                  "than the uninterrupted run, and a scan that ends below the limit leaves no base58 value behind (C42_scan_complete); "
                  "C42_resumable_partial: any interrupted state followed by a finished re-run equals the uninterrupted result, for single-transaction "
                  "re-runs (the multi-transaction re-run is tied only). The model is tied on every run: random histories written by the current code, "
                  "downgraded to version 10 / 9 with bbolt, upgraded undisturbed and with the init context cancelled at every poll, comparing "
                  "Exists, IsLocked, the associate relation, three Select queries, counters (= recount), stored version, left-over old-format keys, "
                  "index consistency, and the per-transaction entry counts of a database with 2900 objects against the model's batch arithmetic.",
    "level_note": "partial: C42_resumable is proved per bucket and for re-runs that finish in one transaction; completion of a multi-transaction "
                  "re-run over several buckets is checked by the differential tie only (batch arithmetic compared per transaction on 2200 associate "
                  "and 2900 homomorphic entries). The 9->10 migration is one transaction (atomic by bbolt) that only resyncs counters and deletes "
                  "obsolete keys: tied, not modelled beyond 'keys of a bucket unchanged'. Counters after the upgrade equal a recount (that is the "
                  "migration's purpose for version 11), they equal the counters before only when those were exact (C02). Modelled, not verified: bbolt "
                  "(ordered map, atomic transactions), the byte encoding of keys (the model works on logical entries; mirrored index pairs are one entry, "
                  "their consistency is checked on every dump), base58 never parsing as a raw ID (harness IDs start with a non-zero byte; an ID with >= 9 "
                  "leading zero bytes can have a 32-character base58 form that the migration would skip). Runtime behaviour not modelled: containers "
                  "disappearing between two transactions (Containers.Exists), process death inside a bbolt transaction.",
    "trusted_base": ["Coq 8.16.1 kernel, vm_compute", "model Resync/Upgrade.v hand-written, tied by differential check (observables and batch counts)",
                     "harness/cmd/resync, hooks zz_verif_meta.go zz_verif_resync.go, lib/vlib.py", "bbolt modelled as an ordered map with atomic transactions"],
    "assumptions": ["the base58 form of a stored object ID is not 32 bytes long (never parses as a raw ID)",
                    "every container of the database still exists during the upgrade"],
}

PRELUDE = ("From Coq Require Import List NArith.\nImport ListNotations.\nFrom NV Require Import Resync.Upgrade.\n")

VIEWS = ["exists", "locked", "assoc", "all", "bya", "bytrap"]


def check_obs(consts, before, o):
    """-> list of reasons why observation o (after an upgrade) does not preserve `before`"""
    bad = []
    if not o.get("ok"):
        return ["Init failed"]
    if o["version"] != consts["current_meta_version"]:
        bad.append("stored version %d" % o["version"])
    if o["oldkeys"]:
        bad.append("old-format keys left (old counters / container volume bucket)")
    if any(o["homo"]):
        bad.append("homomorphic index entries left")
    if any(o["b58"]):
        bad.append("base58 associate values left")
    if o["bad"]:
        bad.append("attribute->ID and ID->attribute indexes disagree")
    for v in VIEWS:
        if o[v] != before[v]:
            bad.append(v + " changed")
    if o["cnt"] != before["recount"]:
        bad.append("counters are not the recount")
    if before["cnt"] == before["recount"] and o["total"] != before["total"]:
        bad.append("ObjectCounters changed")
    return bad


def run(ctx):
    binp = ctx.go_build()
    consts, _ = R.gen_consts(ctx, binp)
    ctx.prove()
    if not ctx.model_ready(["Resync/Upgrade.vo"]):
        ctx.tie(False)
        return
    n, big = (10, 2200) if ctx.tier == "quick" else (120, 3300)
    cases = ctx.run_json([binp, "c42", str(n), str(big)], timeout=3000)

    # supported versions as the model assumes them
    ctx.tie(consts["migrations"] == [9, 10] and consts["current_meta_version"] == 11)

    pres_bad, res_bad, vac_bad = [], [], []
    for c in cases:
        if not any(c["homo0"]) or c["polls"] < 2:
            vac_bad.append(c["i"])           # the downgrade did not produce an old-format database
        r = check_obs(consts, c["before"], c["after"])
        if r:
            pres_bad.append((c, "undisturbed upgrade", r, c["after"]))
        for s in c["resumed"]:
            rr = []
            if not s["err1"]:
                rr.append("interrupted Init did not fail")
            if s["version"] >= consts["current_meta_version"]:
                rr.append("version advanced by an interrupted upgrade")
            rr += check_obs(consts, c["before"], s["obs"])
            if rr:
                res_bad.append((c, "upgrade interrupted at poll %d, then resumed" % s["k"], rr, s["obs"]))
    ctx.tie(not vac_bad)
    ctx.tie(not pres_bad)    # implementation satisfies C42_preserves' right-hand side
    ctx.tie(not res_bad)     # ... and C42_resumable's

    # batch arithmetic against the model
    jobs = []
    for i, c in enumerate(cases):
        cs = "; ".join("(%d, %d)%%nat" % (c["homo0"][k], c["b580"][k]) for k in range(3))
        jobs.append((i, "model_counts [%s] %d" % (cs, c["polls"])))
    model_bad = []
    text = PRELUDE
    exprs = {"c%d" % i: e for i, e in jobs}
    res = ctx.coq_eval_lists("c42", text, exprs)
    if res is None:
        ctx.tie(False)
    else:
        for i, _ in jobs:
            c = cases[i]
            m = res["c%d" % i]
            rows = [m[k * 10:(k + 1) * 10] for k in range(c["polls"] + 1)]
            want = []
            for s in c["resumed"]:
                want.append((s["k"] - 1, [0] + [x for k in range(3) for x in (s["homo"][k], s["b58"][k], s["raw"][k])]))
            fin = rows[c["polls"]] if len(rows) > c["polls"] else None
            ok = fin is not None and fin[0] == 1 and all(fin[1 + 3 * k] == 0 and fin[2 + 3 * k] == 0 for k in range(3))
            ok = ok and all(r[0] == 0 for r in rows[:c["polls"]])       # the model needs exactly as many transactions
            for k, w in want:
                if k < len(rows) and rows[k] != w:
                    ok = False
            if not ok:
                model_bad.append((c, rows, want))
        ctx.tie(not model_bad)   # correspondence: per-transaction entry counts and number of transactions

    for (c, what, reasons, obs) in (pres_bad + res_bad)[:6]:
        ctx.violation({"case": {"ver": c["ver"], "perturb": c["perturb"], "objs": c.get("objs"), "nobjs": c["nobjs"]}, "what": what,
                       "violated": reasons,
                       "before": {v: c["before"][v] for v in VIEWS + ["cnt", "recount", "total"]},
                       "after": {v: obs.get(v) for v in VIEWS + ["cnt", "total", "version", "homo", "b58", "bad"]}})
    for (c, rows, want) in model_bad[:3]:
        ctx.violation({"case": {"ver": c["ver"], "homo0": c["homo0"], "b580": c["b580"], "polls": c["polls"], "nobjs": c["nobjs"]},
                       "what": "entry counts after the k-th transaction differ from the model's batch arithmetic",
                       "model_rows(fin,homo,b58,raw per bucket)": rows, "impl_rows": want})

    steps = sum(1 + len(c["resumed"]) for c in cases)
    dist = set()
    for c in cases:
        dist.add(json.dumps([c["before"][v] for v in VIEWS]))
    th = {}
    for c in cases:
        for o in c.get("objs") or []:
            k = ["regular", "tombstone", "lock", "link"][o["t"]] + ("+trapattr" if "$Object:homomorphicHashX" in (o.get("attrs") or {}) else "") + (
                "+marked" if o.get("mark") else "")
            th[k] = th.get(k, 0) + 1
    small = next((c for c in cases if c.get("objs")), None)
    ctx.cov.update({
        "evaluations": steps,
        "distinct_nontrivial": len(dist),
        "rule": "one evaluation = one upgrade of an older-format database by the current code (undisturbed, or interrupted at the k-th poll of "
                "the init context and resumed), observed and compared with the observation of the database before the downgrade; histories from one "
                "splitmix64 stream (VERIF_SEED): 3-14 objects over 3 containers x 16 IDs (regular with user attributes incl. one whose key starts with "
                "the homomorphic-hash filter name, locks, tombstones, garbage marks, expirations), written by the current code, downgraded with bbolt "
                "to version 10 (40% with a too-high garbage counter) or 9; plus one database with 700 regular objects and 2200 locks/tombstones "
                "in two containers (three transactions per phase); distinct = distinct pre-upgrade observations",
        "cases": len(cases),
        "version_histogram": {str(v): sum(1 for c in cases if c["ver"] == v) for v in (9, 10)},
        "polls_histogram": {str(k): sum(1 for c in cases if c["polls"] == k) for k in sorted({c["polls"] for c in cases})},
        "object_histogram": th,
        "interruption_points": sum(len(c["resumed"]) for c in cases),
        "traces_validated_against_impl": steps,
        "samples": [{"ver": small["ver"], "objs": small["objs"][:5], "before_exists": small["before"]["exists"],
                     "after_exists": small["after"]["exists"], "polls": small["polls"]}] if small else [],
    })
