"""C10 — file-tree blob storage behaves as a map from address to bytes."""
import collections
import json
import os
import time
import vlib
import importlib.util
_spec = importlib.util.spec_from_file_location("_fstree", os.path.join(os.path.dirname(__file__), "_fstree.py"))
_fs = importlib.util.module_from_spec(_spec)
_spec.loader.exec_module(_fs)

META = {
    "id": "C10",
    "engine": "fstree",
    "design_ref": "5/C10",
    "coq_targets": ["Props/Properties_C10.vo", "FSTree/FSCheck.vo"],
    "coq_files": ["Gen/FSTreeConsts.v", "Gen/FSTreeNames.v", "FSTree/Wire.v", "FSTree/Range.v", "FSTree/Combined.v", "FSTree/ObjGen.v", "FSTree/FS.v",
                  "FSTree/FSCheck.v", "FSTree/WireProofs.v", "FSTree/CombinedProofs.v", "FSTree/FSProofs.v", "FSTree/FSExample.v",
                  "Props/Properties_C10.v"],
    "theorems": ["C10_refines_map", "C10_initial", "C10_scan_finds_own_record", "C10_unlink_one_keeps_others", "C10_iterate_once",
                 "C10_guard_from_first_byte", "C10_reput_other_bytes_refuted"],
    "technique": "Coq refinement proof: a file-system model (paths -> inode, inode -> bytes) with the fstree writers as syscall traces and the "
                 "readers transcribed from the Go code (combined scan, sliding head window, zstd as a section function) is proved to answer every "
                 "history like a finite map; model tied to the Go code by differential runs of random histories on real trees",
    "level_text": "C10_refines_map: for every tree depth, combined threshold / count / size limits, writer (O_TMPFILE single file, combined records, "
                  "PutBatch, generic tmp+rename) and EVERY history of Put critical sections, batch-timer expiries, PutBatch, Delete, Get/GetBytes, "
                  "Head/GetStream, ReadObject/ReadHeader, Exists and Iterate, each result equals the result of the same operation on a map "
                  "address -> bytes; iteration lists every stored address exactly once with its bytes (C10_iterate_once). The readers are proved, "
                  "not assumed: extractCombinedObject and readHeader (sliding 2x20480-byte window, seek past long records, window shift) find the "
                  "first record with the asked ID whatever follows it (C10_scan_finds_own_record), preprocessStreamHead/readObject deliver exactly "
                  "the (decompressed) stored bytes. Premises, all checked by the tie: the format guard (stored bytes do not begin with 0x7f 0x00: "
                  "protobuf tag of an object field or zstd magic, C10_guard_from_first_byte), addresses are content hashes (every stored form "
                  "put under an address decompresses to the same object; without it the O_TMPFILE writer keeps the FIRST bytes because EEXIST on "
                  "linkat is success: C10_reput_other_bytes_refuted, known finding), object IDs of different addresses differ, caller buffers of "
                  "ReadObject have >= 40960 bytes. The model is tied to the Go code on every run: random histories over 20 addresses (single, "
                  "concurrent and batched puts, empty values, zstd-compressed stored forms, deletes of batch members, every read API with random "
                  "read chunking and buffer sizes, depths 0-4, thresholds around the object sizes and the real 128 KiB, limits 1..128) on real "
                  "trees, every observation compared with the model run and with the map; treePath compared on real address strings for depths 0-8.",
    "level_note": "partial: zstd is a section function (stored form -> object binary) and the kernel VFS is the model's assumption (atomic linkat / "
                  "rename / unlink, append-only writes, names resolve to inodes); Get/Head parse the delivered bytes with the SDK (outside the model: "
                  "the model returns the bytes, the tie compares the parsed object). Put's error paths (ENOSPC, failing syscalls) are C13. "
                  "Empty values: Put rejects them, PutBatch skips them silently (modelled as such, the reference map does the same). Concurrency: "
                  "histories are sequences of the writers' critical sections (they run under batchLock / sb.lock), which covers all interleavings of "
                  "concurrent Puts; reads are not interleaved with half-finished writes here (that is C12's theorem). Directories are implicit in "
                  "the model (a path is its list of components).",
    "trusted_base": ["Coq 8.16.1 kernel, vm_compute", "hand-written models FSTree/FS.v, Combined.v tied by differential check",
                     "harness/cmd/fstree (c10.go), harness/hooks/.../fstree/zz_verif_fstree.go, lib/vlib.py"],
    "assumptions": ["zstd: dec(stored form) = Some(object binary) for every stored form (Section function dec; premise good/op_ok)",
                    "format guard: stored bytes do not begin with 0x7f 0x00 (premise no_prefix in op_ok; checked on every stored form by the harness)",
                    "addresses are content hashes: all stored forms put under one address decompress to the same binary (premise op_ok)",
                    "object IDs of different addresses differ (SHA-256 collision freedom; hypothesis oid_inj) and have 32 bytes",
                    "address strings parse back to their address and never contain '#' (base58 + '.'; hypotheses parse_str, parse_hash)",
                    "kernel VFS: linkat/rename/unlink atomic, write appends, a name resolves to one inode (file-system model FS.v)"],
}

PRELUDE = ("From Coq Require Import List NArith Arith Bool.\nImport ListNotations.\n"
           "From NV Require Import FSTree.FS FSTree.FSCheck Gen.FSTreeNames.\n")
KNOWN_KEY = "reput-other-bytes-first-wins"


def nat(n):
    n = int(n)
    if n == 9999:
        return "empty_obj"
    return _fs.nat(n)


def items_lit(l):
    return "[" + "; ".join("(%s, %s, %s)" % (nat(a), nat(o), nat(z)) for a, o, z in l) + "]"


def op_lit(o):
    k = o[0]
    if k == "P":
        return "CPuts %s %s" % (items_lit(o[1]), vlib.coq_list(o[2]))
    if k == "B":
        return "CBatch %s %d" % (items_lit(o[1]), o[2])
    if k == "D":
        return "CDel %d %d" % (o[1], o[2])
    if k == "G":
        return "CGet %d %d %s %d %s" % (o[1], o[2], nat(o[3]), o[4], nat(o[5]))
    if k == "E":
        return "CExists %d %s" % (o[1], vlib.coq_bool(o[2]))
    if k == "I":
        return "CIter %d [%s]" % (o[1], "; ".join("(%d, %s)" % (a, nat(x)) for a, x in o[2]))
    raise ValueError(k)


def cfg_lit(c):
    return ("{| depth := %d; threshold := %s; climit := %d; slimit := %s; generic := %s; chunk := %s |}" % (
        c["depth"], nat(c["threshold"]), c["climit"], nat(c["slimit"]), vlib.coq_bool(c["generic"]), nat(c["chunk"])))


def objs_lit(objs):
    return "[" + "; ".join("Build_ospec %d %d %s %s %s" % (o["sigk"], o["attrk"], nat(o["plen"]), nat(o["seed"]), vlib.coq_bool(o["pf"]))
                           for o in objs) + "]"


def case_lit(s):
    return "{| q_cfg := %s; q_objs := %s; q_ops := [%s] |}" % (cfg_lit(s["cfg"]), objs_lit(s["objs"]), "; ".join(op_lit(o) for o in s["ops"]))


def names_def(names):
    return "Definition names : list (list N) := [%s].\n" % ";\n ".join(vlib.coq_bytes(n.encode()) for n in names)


def run(ctx):
    binp = ctx.go_build()
    _fs.gen_consts(ctx, binp)
    ctx.prove()
    nm = ctx.run_json([binp, "c10names"])
    names = nm[0]["names"]
    paths = nm[1:]
    # the real address strings, compiled once (elaborating them in every evaluation job costs seconds)
    vlib.write_if_changed(os.path.join(vlib.COQ, "Gen", "FSTreeNames.v"),
                          "(* GENERATED by props/C10.py / C12.py from `fstree c10names`: stringifyAddress of the harness' addresses. *)\n"
                          "From Coq Require Import List NArith.\nImport ListNotations.\n" + names_def(names))
    model = ctx.model_ready(["Gen/FSTreeNames.vo", "FSTree/FSCheck.vo"])
    if ctx.replay:
        rp = json.load(open(ctx.replay))
        seqs = ctx.run_json([binp, "c10", "replay"], input=json.dumps([v["case"] for v in rp.get("violations", []) if "case" in v]))
    else:
        t0 = time.time()
        seqs = ctx.run_json([binp, "c10"])
        ctx.cov["t_harness_s"] = round(time.time() - t0, 1)
    if not model:
        ctx.tie(False)
        return
    # treePath on the real address strings
    plit = "[" + "; ".join("(%d, %d, [%s])" % (p["a"], p["d"], "; ".join(vlib.coq_bytes(x.encode()) for x in p["comps"])) for p in paths) + "]"
    jobs = [("paths", PRELUDE + "Definition cases := %s.\n" % plit, {"model": "path_mismatches names cases"})]
    # histories: big ones (objects up to 256 KiB) alone, the others in chunks of similar weight
    order = sorted(range(len(seqs)), key=lambda i: -sum(o["plen"] for o in seqs[i]["objs"]))
    NJ = 8 if ctx.tier == "quick" else 48
    packs = [[] for _ in range(NJ)]
    loads = [0] * NJ
    for i in order:
        k = loads.index(min(loads))
        packs[k].append(i)
        loads[k] += 2000 * len(seqs[i]["ops"]) + sum(o["plen"] for o in seqs[i]["objs"]) * 6
    packs = [p for p in packs if p]
    for p in packs:
        lit = "[" + ";\n ".join(case_lit(seqs[i]) for i in p) + "]"
        jobs.append(("seq", PRELUDE + "Definition cases : list c10_case := %s.\n" % lit,
                     {"model": "c10_model_mismatches names cases", "ref": "c10_ref_mismatches cases", "guard": "c10_guard_mismatches cases"}))
    t0 = time.time()
    results = ctx.coq_eval_many(jobs)
    ctx.cov["t_coq_eval_s"] = round(time.time() - t0, 1)
    if any(r is None for r in results):
        ctx.tie(False)
        return
    ctx.tie(not results[0]["model"])            # treePath = tree_path
    bad_model, bad_ref, bad_guard = [], [], []
    for p, r in zip(packs, results[1:]):
        bad_model += [p[i] for i in r["model"]]
        bad_ref += [p[i] for i in r["ref"]]
        bad_guard += [p[i] for i in r["guard"]]
    guard_impl = [i for i, s in enumerate(seqs) if s["guardbad"]]
    ctx.tie(not bad_model)                      # real tree = file-system model, every observation
    unexpected_ref = [i for i in bad_ref if not seqs[i]["reput"]]
    ctx.tie(not unexpected_ref)                 # real tree = map (theorem right-hand side) on content-addressed histories
    ctx.tie(not bad_guard and not guard_impl)   # format guard holds for every stored form
    for i in results[0]["model"][:3]:
        ctx.violation({"path_case": paths[i], "disagrees_with": "model tree_path"})
    shown = 0
    for i in unexpected_ref[:6]:
        ctx.violation({"case": seqs[i], "disagrees_with": "map address -> bytes (C10_refines_map right-hand side)"})
        shown += 1
    for i in bad_model[:6]:
        if i not in unexpected_ref:
            ctx.violation({"case": seqs[i], "disagrees_with": "file-system model run (FSTree/FS.v)"})
    for i in bad_ref:
        if seqs[i]["reput"]:
            ctx.violation({"case": seqs[i], "disagrees_with": "map address -> bytes: other bytes put under a stored address"}, key=KNOWN_KEY)
            break
    for i in (bad_guard + guard_impl)[:2]:
        ctx.violation({"case": seqs[i], "disagrees_with": "format guard: a stored form begins with 0x7f 0x00"})
    ops = [o for s in seqs for o in s["ops"]]
    hist_op = collections.Counter()
    for o in ops:
        if o[0] == "G":
            hist_op["read_api%d_st%d" % (o[6], o[4])] += 1
        elif o[0] == "P":
            hist_op["put_x%d" % min(len(o[1]), 3)] += 1
        elif o[0] == "B":
            hist_op["batch"] += 1
        else:
            hist_op["delete_st%d" % o[2] if o[0] == "D" else {"E": "exists", "I": "iterate"}[o[0]]] += 1
    nontrivial = {json.dumps([s["cfg"], o]) for s in seqs for o in s["ops"] if (o[0] == "G" and o[4] == 0) or (o[0] == "I" and o[2])}
    ctx.cov.update({
        "evaluations": len(ops) + len(paths),
        "distinct_nontrivial": len(nontrivial),
        "rule": "random histories over 20 addresses on real trees (8 hot addresses per history): single Put, 2-6 concurrent Puts, PutBatch of 1-8 "
                "(map order), empty values, zstd stored forms, Delete (also of one batch member), all read APIs, Exists, Iterate; object sizes "
                "around the combined threshold (threshold 210-810 bytes, and 128 KiB with objects up to 256 KiB), depths 0-4, count limit "
                "1..128, size limit 1..128/4096/100000, generic writer in 20%; a separate stream puts other bytes under stored addresses; "
                "non-trivial = a read that returns bytes or a non-empty iteration; distinct by (configuration, operation, observation)",
        "samples": [{"cfg": seqs[i]["cfg"], "ops": seqs[i]["ops"][:6]} for i in range(min(3, len(seqs)))],
        "traces_validated_against_impl": len(seqs),
        "hist_op": dict(hist_op),
        "hist_depth": dict(collections.Counter(str(s["cfg"]["depth"]) for s in seqs)),
        "hist_writer": dict(collections.Counter("generic" if s["cfg"]["generic"] else "linux" for s in seqs)),
        "hist_climit": dict(collections.Counter(str(min(s["cfg"]["climit"], 9)) for s in seqs)),
        "histories_with_objects_over_25k": sum(1 for s in seqs if s["big"]),
        "reput_histories": sum(1 for s in seqs if s["reput"]),
        "reput_histories_deviating_from_last_stored": sum(1 for i in bad_ref if seqs[i]["reput"]),
        "stored_forms_violating_guard": len(guard_impl),
        "tree_path_cases": len(paths),
    })
