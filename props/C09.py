"""C09 — a removed object never becomes readable again without a new upload."""
import json
import importlib.util
import os
import vlib
_spec = importlib.util.spec_from_file_location("_crash", os.path.join(os.path.dirname(__file__), "_crash.py"))
_crash = importlib.util.module_from_spec(_spec)
_spec.loader.exec_module(_crash)

META = {
    "id": "C09",
    "engine": "crash",
    "design_ref": "5/C09",
    "coq_targets": ["Props/Properties_C09.vo", "Crash/CheckR.vo"],
    "coq_files": ["Crash/Model.v", "Crash/Check.v", "Crash/Proofs.v", "Crash/Inter.v", "Crash/RModel.v", "Crash/Resurrect.v", "Crash/CheckR.v",
                  "Props/Properties_C09.v", "Gen/CrashConsts.v"],
    "theorems": ["C09_no_resurrection_partial", "C09_orphan_blob_resync_refuted", "C09_resync_epoch0_refuted",
                 "C09_lock_revives_removed_refuted", "C09_flush_delete_race_refuted"],
    "technique": "Coq proof (invariant over all histories with process deaths at any atomic step, restarts and resyncs in any order) of the "
                 "part that holds, vm_compute witnesses refuting the full statement, + differential tie: generated histories and the "
                 "witness histories run on one real shard (restarted / resynced / operations cut inside wrapped component calls), "
                 "Exists/Get/blob/cache of every address compared with the model after every operation",
    "level_text": "C09_no_resurrection_partial: for every universe, every history (puts, deletes, garbage marks, GC passes, epochs, flushes, "
                  "restarts, resyncs in any enumeration order with the real epoch or epoch 0, operations cut by a process death after any "
                  "number of atomic steps): once nothing of an object is left (no metabase entry, no blob, no cache file) it is not readable "
                  "until it is put anew. The full statement (removed as reported by the shard => never readable again) is refuted by four "
                  "witnesses (C09_*_refuted), three of them reproduced on the real shard on every run as known findings.",
    "level_note": "partial: the proved theorem covers complete physical removal only; states where a component still holds the object are "
                  "exactly where the known findings live. Concurrent flush-versus-delete schedules are represented by interleavings of the "
                  "model's atomic steps (C09_flush_delete_race_refuted is a model-level witness; real goroutine schedules are not driven "
                  "by this check). Modelled, not verified: bbolt transactions and FSTree calls as atomic steps, a process death as a panic "
                  "out of the wrapped component call followed by Close and reopen of the shard in the same process (the child-process "
                  "variant is exercised by C15), resync as one atomic PutBatch per object (no crash inside a resync). Universe: one "
                  "container, regular/tombstone/lock objects without split/EC parents, no container GC mark.",
    "trusted_base": ["Coq 8.16.1 kernel, vm_compute", "model Crash/Model.v + Crash/Resurrect.v hand-written, tied by differential check",
                     "harness/cmd/crash (+ hooks zz_verif_crash_*.go), lib/vlib.py, props/_crash.py"],
    "assumptions": ["component calls (bbolt transaction, FSTree put/delete) are atomic", "a crash is a process stop: completed writes survive"],
}

# witness histories of the refuted theorems (Crash/Resurrect.v), replayed on the real shard on every run
CORPUS = [
    # w1: GC pass dies before the blob delete; tombstone expires, is collected; resync
    {"wc": False, "objs": [{"k": 0, "t": 0, "x": 0}, {"k": 1, "t": 0, "x": 2}],
     "ops": [{"op": "put", "a": 0}, {"op": "put", "a": 1}, {"op": "gc", "cut": 1}, {"op": "epoch", "e": 3}, {"op": "gc"},
             {"op": "resync", "ord": [0, 1]}]},
    # w2: resync with epoch 0, expired lock first
    {"wc": False, "objs": [{"k": 0, "t": 0, "x": 0}, {"k": 2, "t": 0, "x": 1}, {"k": 1, "t": 0, "x": 9}],
     "ops": [{"op": "put", "a": 0}, {"op": "put", "a": 1}, {"op": "epoch", "e": 2}, {"op": "put", "a": 2},
             {"op": "resync", "ord": [1, 0, 2], "e0": True}]},
    # w3: lock stored for a dropped object (forced garbage mark)
    {"wc": False, "objs": [{"k": 0, "t": 0, "x": 0}, {"k": 2, "t": 0, "x": 0}],
     "ops": [{"op": "put", "a": 0}, {"op": "mark", "a": 0, "mk": 0}, {"op": "put", "a": 1}]},
]


def coq_hhop(o):
    return "(%s, %d, %s)" % (_crash.coq_op(o), o.get("cut", 0), vlib.coq_bool(o.get("cut_after", False)))


def coq_case09(c):
    items = []
    for o, h in zip(c["h"]["ops"], c["hops"]):
        obs = vlib.coq_list(h["obs"], lambda q: "(%d, %d, %d, %d)" % tuple(q))
        items.append("(%s, (%s, %s))" % (coq_hhop(o), vlib.coq_bool(h["cut"]), obs))
    return "(%s, %s)" % (_crash.coq_cfg(c["h"]), vlib.coq_list(items))


def resurrections(c):
    """reference = the property itself on the implementation's observations: an address the shard
    reported as removed (Exists: already removed / marked as garbage) is read back in full later
    although no put of it happened in between. Returns [(address, i, j, key)]."""
    ops, hops, objs = c["h"]["ops"], c["hops"], c["h"]["objs"]
    out = []
    for a in range(len(objs)):
        removed_at = None
        for j, (o, h) in enumerate(zip(ops, hops)):
            if o["op"] == "put" and o.get("a", 0) == a:
                removed_at = None
            q = h["obs"][a]
            if removed_at is not None and q[1] == 0:
                if o["op"] == "put" and objs[o.get("a", 0)]["k"] == 2 and objs[o.get("a", 0)]["t"] == a:
                    key = "lock-revives-removed"
                elif o["op"] == "resync" and o.get("e0"):
                    key = "resync-epoch0"
                elif o["op"] == "resync":
                    key = "orphan-blob-resync"
                else:
                    key = None
                out.append((a, removed_at, j, key))
                removed_at = None
            if q[0] in (2, 4):
                removed_at = j if removed_at is None else removed_at
    return out


def run(ctx):
    binp = ctx.go_build()
    _crash.gen_consts(ctx, binp)
    ctx.prove()
    model = ctx.model_ready(["Crash/CheckR.vo"])
    if ctx.replay:
        rp = json.load(open(ctx.replay))
        hs = [v["history"] for v in rp.get("violations", []) if "history" in v]
        cases = ctx.run_json([binp, "run09"], input="\n".join(json.dumps(h) for h in hs) + "\n")
        ncorpus = 0
    else:
        nh = 150 if ctx.tier == "quick" else 1500
        corpus = ctx.run_json([binp, "run09"], input="\n".join(json.dumps(h) for h in CORPUS) + "\n")
        cases = corpus + ctx.run_json([binp, "c09", str(nh)], timeout=3000)
        ncorpus = len(corpus)
    if not model:
        ctx.tie(False)
        return
    jobs, spans, CH = [], [], 40
    prelude = ("From Coq Require Import List. Import ListNotations.\n"
               "From NV Require Import Crash.Model Crash.Check Crash.RModel Crash.CheckR.\n")
    for off in range(0, len(cases), CH):
        chunk = cases[off:off + CH]
        jobs.append(("c09", prelude + "Definition cases : list case09 := %s.\n" % vlib.coq_list(chunk, coq_case09),
                     {"model": "model_mismatches09 cases"}))
        spans.append(chunk)
    bad_model = []
    for chunk, res in zip(spans, ctx.coq_eval_many(jobs, workers=8)):
        if res is None:
            ctx.tie(False)
            return
        flat = [(c, i) for c in chunk for i in range(len(c["hops"]))]
        bad_model += [flat[i] for i in res["model"]]
    ctx.tie(not bad_model)      # implementation = model after every operation (Exists, Get, blob, cache; cut or completed)
    seen = 0
    for (c, i) in bad_model:
        if seen >= 5:
            break
        seen += 1
        ctx.violation({"history": c["h"], "after_operation": i, "impl_observation(exists,get,blob,wc per address)": c["hops"][i]["obs"],
                       "disagrees_with": "model state after the same operations"})
    # the property itself on the implementation's observations
    found, unknown = {}, 0
    for c in cases:
        for (a, i, j, key) in resurrections(c):
            found[key] = found.get(key, 0) + 1
            rec = {"history": c["h"], "address": a, "reported_removed_after_operation": i, "readable_again_after_operation": j,
                   "operation": c["h"]["ops"][j], "disagrees_with": "reference: removed => never readable again without a put"}
            if ctx.violation(rec, key=key):
                unknown += 1
    ctx.tie(unknown == 0)       # no resurrection outside the listed finding classes
    # every witness of the refuted theorems must reproduce on the real shard (else model and code drifted)
    if not ctx.replay:
        want = ["orphan-blob-resync", "resync-epoch0", "lock-revives-removed"]
        got = [sorted({k for (_, _, _, k) in resurrections(c)}) for c in cases[:ncorpus]]
        ctx.tie(all(w in g for w, g in zip(want, got)))
    nhops = sum(len(c["hops"]) for c in cases)
    kinds = {}
    for c in cases:
        for o in c["h"]["ops"]:
            k = o["op"] + ("/cut" if o.get("cut") else "") + ("/e0" if o.get("e0") else "")
            kinds[k] = kinds.get(k, 0) + 1
    ctx.cov.update({
        "evaluations": nhops,
        "distinct_nontrivial": vlib.distinct_count([(c["h"]["wc"], h["obs"]) for c in cases for h in c["hops"] if any(q[0] or q[2] or q[3] for q in h["obs"])]),
        "rule": "one evaluation = the observation of all addresses after one operation of one history; non-trivial = some address is "
                "indexed or stored; distinct by (write-cache on/off, observation)",
        "histories": len(cases), "witness_histories": ncorpus,
        "really_cut_operations": sum(1 for c in cases for h in c["hops"] if h["cut"]),
        "op_histogram": kinds,
        "resurrections_by_class": {str(k): v for k, v in found.items()},
        "samples": [{"history": cases[-1]["h"], "observations": cases[-1]["hops"][-1]}] if cases else [],
    })
