"""C03 — shard search returns exactly the matching available objects, ordered, paged."""
import json
import os
import vlib

META = {
    "id": "C03",
    "engine": "search",
    "design_ref": "5/C03",
    "coq_targets": ["Props/Properties_C03.vo", "Search/SearchCheck.vo"],
    "coq_files": ["Gen/SearchConsts.v", "Gen/S256Consts.v", "S256/S256.v", "S256/DecimalProofs.v", "Search/Search.v", "Search/SearchProofs.v",
                  "Search/ChainProofs.v", "Search/SatProofs.v", "Search/MergeLoop.v", "Search/MergeLoopProofs.v", "Search/SearchCheck.v", "Props/Properties_C03.v"],
    "theorems": ["C03_page_refuted", "C03_idlist_page_partial", "C03_idlist_chain_partial", "C03_handler_is_sat_partial", "C03_listing_chain_sat_partial",
                 "C03_int_iff_decimal"],
    "technique": "executable Gallina model of PreprocessSearchQuery + MetaDataKVHandler + searchTx/searchUnfiltered over a byte-ordered key list; "
                 "Coq proofs (induction over the scanned key list / over the chain of pages) for the ID-ordered listing: one page, the whole cursor chain, and the "
                 "equality of the handler's per-object check with the reference predicate for string-matcher queries; integer-index membership via C05; a "
                 "vm_compute refutation of the full statement; differential correspondence with a real meta.DB (bbolt temp files) following cursors, "
                 "comparison of the implementation with the declarative reference ref_search (filter, sort by (primary value, ID), page), and a direct tie of "
                 "integer detection (one object per value, 900+ spellings)",
    "level_text": "partial. Proved for all inputs: (1) for ID-ordered listing queries the scan never stops early and a page is exactly the first `count` "
                  "available entries passing the handler's per-object check, `more`/cursor exact (C03_idlist_page_partial); (2) following the cursor (Seek + skip "
                  "the equal key + handler) over any strictly increasing key list with any positive page size yields every such entry exactly once, in key order, "
                  "full pages except the last, and stops (C03_idlist_chain_partial); (3) for queries without numeric matchers the handler's per-object check IS "
                  "`available && sat_all` (C03_handler_is_sat_partial), hence C03_listing_chain_sat_partial: the pages are exactly the available objects satisfying "
                  "all filters; (4) an attribute value has an integer index entry iff it is an in-range optionally signed decimal (C03_int_iff_decimal, from "
                  "C05_accept_exact); (5) the full-strength statement is false for the faithful model (C03_page_refuted: two filters on the primary attribute, "
                  "[N<=20, N>=10]). NOT proved, covered by the correspondence check only: attribute-ordered queries (requested attributes): soundness of the early "
                  "termination and seek keys for EQ / PREFIX / numeric primary filters, ordering by (primary value, ID) from key byte order, the requested attribute "
                  "values; the per-object check with numeric matchers; the cursor validation of PreprocessSearchQuery inside the chain. The model is tied to the real "
                  "code on every run (every page and every cursor of every chain must be equal) and the implementation is compared with ref_search directly; failures "
                  "inside the two listed known classes are reported as KNOWN-FINDING.",
    "level_note": "partial: early-termination/ordering theorems for attribute-ordered queries are not proved (tie only); the chain theorem is for ID-ordered listing, one "
                  "page size per chain, at the level of searchTx's loop. Modelled, not verified: bbolt as a "
                  "byte-ordered key list with Seek/Next; object availability is an input flag per object (C01 is another property; the harness builds objects whose "
                  "availability is decided by their own expiration / garbage mark and checks it against DB.Exists); base58 / hex / UUID codecs are parameters "
                  "of the model (Section variable), instantiated per run by tables dumped from the real libraries; searchIterationLimit = 0 (unlimited) only; "
                  "container GC mark and missing bucket not exercised; one value per attribute key per object.",
    "trusted_base": ["Coq 8.16.1 kernel, vm_compute", "model Search/Search.v hand-written, tied by differential check against meta.DB.Search",
                     "C05 model S256/S256.v (own tie)", "harness/cmd/search, hooks/pkg/core/object/zz_verif_search.go, lib/vlib.py"],
    "assumptions": ["text codecs (mr-tron/base58, encoding/hex, google/uuid) behave as the dumped tables on the values of the run",
                    "attribute keys and plain values contain no 0x00 byte (VerifyHeaderForMetadata)", "cursor is empty or was returned by the previous page"],
}

OPS = ["M_UNSPEC", "M_EQ", "M_NE", "M_NOT_PRESENT", "M_PREFIX", "M_GT", "M_GE", "M_LT", "M_LE"]
PRELUDE = ("From NV Require Import S256.S256Check Search.Search Search.SearchCheck.\n"
           "From Coq Require Import List NArith ZArith. Import ListNotations.\nLocal Open Scope N_scope.\n")


def lb0(h):
    return "(bs %d 0x%s)" % (len(h) // 2, h or "0")


class Intern:
    """byte strings get a name once per coqc job (keeps the literals small: elaboration of
    the case literals dominates the cost of the check)"""
    def __init__(self):
        self.names = {}

    def __call__(self, h):
        if len(h) <= 8:
            return lb0(h)
        if h not in self.names:
            self.names[h] = "b_%d" % len(self.names)
        return self.names[h]

    def defs(self):
        return "".join("Definition %s := Eval vm_compute in %s.\n" % (n, lb0(h)) for h, n in self.names.items())


lb = lb0


def gen_consts(ctx, binp):
    c = ctx.run_json([binp, "consts"])[0]

    def bl(s):
        return "[" + "; ".join(str(b) for b in s.encode()) + "]"
    txt = ("(* GENERATED by props/C03.py from /repo (pkg/core/object, SDK constants) on every run. Do not edit. *)\n"
           "From Coq Require Import List NArith.\nImport ListNotations.\nLocal Open Scope N_scope.\n")
    txt += "Definition prefix_id : N := %d.\nDefinition prefix_int : N := %d.\nDefinition prefix_plain : N := %d.\n" % (
        c["prefix_id"], c["prefix_int"], c["prefix_plain"])
    txt += "Definition delim : list N := [%s].\n" % "; ".join(str(b) for b in bytes.fromhex(c["delim"]))
    txt += "Definition int_val_len : nat := %d.\nDefinition oid_size : nat := %d.\nDefinition owner_size : nat := %d.\n" % (
        c["int_len"], c["oid_size"], c["owner_size"])
    txt += "Definition max_digits : list N := %s.\nDefinition min_digits : list N := %s.\n" % (bl(c["max_digits"]), bl(c["min_digits"]))
    for k, v in sorted(c["keys"].items()):
        txt += "Definition key_%s : list N := %s.  (* %s *)\n" % (k, bl(v), v)
    vlib.write_if_changed(os.path.join(vlib.COQ, "Gen", "SearchConsts.v"), txt)
    return c


def lit_corpus(co, lb=lb0):
    objs = vlib.coq_list(co["objs"], lambda o: "(Obj %s %s %s)" % (
        lb(o["id"]), vlib.coq_list(o["attrs"] or [], lambda a: "(%s, %s)" % (lb(a[0]), lb(a[1]))), vlib.coq_bool(o["avail"])))
    tab = lambda t: vlib.coq_list(t or [], lambda e: "(%d, %s, %s)" % (e[0], lb(e[1]), lb(e[2])))
    return "(Corpus %s %s %s)" % (objs, tab(co["enc"]), tab(co["dec"]))


def lit_item(it, lb=lb0):
    return "(Item %s %s)" % (lb(it["id"]), vlib.coq_list(it["attrs"], lb))


def obs_list(r, lb=lb0):
    res = []
    for its, cur in zip(r["pages"], r["cursors"]):
        res.append("(O_Page %s %s)" % (vlib.coq_list(its, lambda it: lit_item(it, lb)), "(Some %s)" % lb(cur) if cur else "None"))
    if r["pre"] == "err" or r["pre"] == "cursor-rejected":
        res.append("O_Rejected")
    elif r["pre"] == "unreach":
        res.append("O_Unreach")
    elif r["err"]:
        res.append("O_Error")
    return "[" + "; ".join(res) + "]"


def lit_run(r, lb=lb0):
    fs = vlib.coq_list(r["filters"], lambda f: "(Filter %s %s %s)" % (lb(f[0]), OPS[f[1]], lb(f[2])))
    return "(SCase corpus_%d %s %s %d %s)" % (r["corpus"], fs, vlib.coq_list(r["attrs"], lb), r["count"], obs_list(r, lb))


def readable(r):
    def t(h):
        b = bytes.fromhex(h)
        return b.decode("latin-1") if all(32 <= x < 127 for x in b) else "0x" + h
    return {"filters": [[t(f[0]), OPS[f[1]], t(f[2])] for f in r["filters"]], "attrs": [t(a) for a in r["attrs"]], "count": r["count"],
            "pre": r["pre"], "err": r["err"], "panic": r.get("panic", False),
            "pages": [[[it["id"][:2] + ".." + it["id"][-2:]] + [t(a) for a in it["attrs"]] for it in p] for p in r["pages"]]}


def evaluate(ctx, lines):
    """lines: corpus and run objects in harness order -> (runs, bad_model, bad_ref, multi)"""
    corpora = {l["id"]: l for l in lines if l["k"] == "corpus"}
    runs = [l for l in lines if l["k"] == "run"]
    per = {}
    for i, r in enumerate(runs):
        per.setdefault(r["corpus"], []).append(i)
    cids = sorted(per)
    njobs = max(1, min(14 if len(cids) > 12 else 6, len(cids)))
    jobs, index = [], []
    for j in range(njobs):
        mine = cids[j::njobs]
        if not mine:
            continue
        I = Intern()
        body = ""
        idx = []
        for ci in mine:
            body += "Definition corpus_%d := %s.\n" % (ci, lit_corpus(corpora[ci], I))
            idx += per[ci]
        body += "Definition cases : list scase := %s.\n" % vlib.coq_list([runs[i] for i in idx], lambda r: lit_run(r, I))
        text = PRELUDE + I.defs() + body
        jobs.append(("srch", text, {"model": "search_model_mismatches cases", "ref": "search_ref_mismatches cases",
                                    "multi": "multi_primary_cases cases", "b58": "b58_prefix_cases cases"}))
        index.append(idx)
    bad_model, bad_ref, multi, b58 = set(), set(), set(), set()
    for idx, res in zip(index, ctx.coq_eval_many(jobs)):
        if res is None:
            return runs, None, None, None
        bad_model |= {idx[j] for j in res["model"]}
        bad_ref |= {idx[j] for j in res["ref"]}
        multi |= {idx[j] for j in res["multi"]}
        b58 |= {idx[j] for j in res["b58"]}
    return runs, bad_model, bad_ref, (multi, b58)


def run(ctx):
    binp = ctx.go_build()
    gen_consts(ctx, binp)
    ctx.prove()
    model = ctx.model_ready(["Search/SearchCheck.vo"])
    nc, nq = (12, 12) if ctx.tier == "quick" else (300, 20)
    lines = ctx.run_json([binp, "gen", str(nc), str(nq)])
    if not model:
        ctx.tie(False)
        return
    bad_avail = [(l["id"], o["id"]) for l in lines if l["k"] == "corpus" for o in l["objs"] if o["avail"] != o["exists"]]
    ctx.tie(not bad_avail)        # availability by construction = DB.Exists (harness self-check)
    ints = ctx.run_json([binp, "intdetect"])
    ires = ctx.coq_eval_lists("intdet", PRELUDE + "Definition cases : list icase := %s.\n" % vlib.coq_list(
        ints, lambda c: "(ICase %s %s %s)" % (lb0(c["val"]), vlib.coq_bool(c["indexed"]), lb0(c["text"]))),
        {"imodel": "int_model_mismatches cases", "iref": "int_ref_mismatches cases"})
    if ires is None:
        ctx.tie(False)
        return
    ctx.tie(not ires["imodel"])   # integer index membership and printed form = model (set_from_decimal)
    ctx.tie(not ires["iref"])     # ... = reference: in-range optionally signed decimal (C03_int_iff_decimal)
    for i in sorted(set(ires["imodel"]) | set(ires["iref"]))[:6]:
        c = ints[i]
        ctx.violation({"kind": "integer detection", "attribute_value": bytes.fromhex(c["val"]).decode("utf-8", "replace"), "value_hex": c["val"],
                       "has_integer_index_entry": c["indexed"], "printed_as": bytes.fromhex(c["text"]).decode("latin-1"),
                       "disagrees_with": [w for w, l in (("model set_from_decimal", ires["imodel"]),
                                                         ("reference: optionally signed decimal in [-(2^256-1), 2^256-1]", ires["iref"])) if i in l]})
    runs, bad_model, bad_ref, classes = evaluate(ctx, lines)
    if bad_model is None:
        ctx.tie(False)
        return
    multi, b58 = classes
    corpora = {l["id"]: l for l in lines if l["k"] == "corpus"}
    unknown_ref = bad_ref - multi - b58
    ctx.tie(not bad_model)            # implementation = model on every page and cursor
    ctx.tie(not unknown_ref)          # implementation = reference outside the known class
    for i in sorted(bad_model | bad_ref, key=lambda i: (len(corpora[runs[i]["corpus"]]["objs"]), len(runs[i]["filters"])))[:12]:
        r = runs[i]
        key = None
        if i not in bad_model:      # the model has the same defect: a property violation of a listed class
            key = "multi-primary-filter" if i in multi else ("b58-prefix-primary" if i in b58 else None)
        ctx.violation({"run": readable(r), "corpus_objects": len(corpora[r["corpus"]]["objs"]), "raw": r,
                       "corpus": corpora[r["corpus"]] if len(corpora[r["corpus"]]["objs"]) <= 6 else "omitted (%d objects)" % len(corpora[r["corpus"]]["objs"]),
                       "disagrees_with": [w for w, s in (("model Search.v", bad_model), ("reference ref_search (filter, sort, page)", bad_ref)) if i in s]},
                      key=key)
    hist_ops, hist_n, hist_pre = {}, {}, {}
    for r in runs:
        hist_n[len(r["filters"])] = hist_n.get(len(r["filters"]), 0) + 1
        hist_pre[r["pre"] + ("+err" if r["err"] else "")] = hist_pre.get(r["pre"] + ("+err" if r["err"] else ""), 0) + 1
        for f in r["filters"]:
            hist_ops[OPS[f[1]]] = hist_ops.get(OPS[f[1]], 0) + 1
    nontriv = {json.dumps([r["corpus"], r["filters"], r["attrs"], r["count"]]) for r in runs if sum(len(p) for p in r["pages"]) > 0}
    ctx.cov.update({
        "evaluations": len(runs) + len(ints),
        "integer_detection_values": len(ints), "integer_detection_indexed": sum(1 for c in ints if c["indexed"]),
        "distinct_nontrivial": len(nontriv),
        "rule": "corpora of 3-11 objects over 11 IDs with colliding / prefix-sharing / integer (near 0, +-(2^256-1)) / system attribute values, some removed, "
                "garbage-marked or expired; 0-4 filters over all matchers (25% repeat the primary attribute), requested attributes, page sizes 1,2,3,1000, "
                "cursors followed to the end. Non-trivial = at least one item returned; distinct by (corpus, filters, attrs, count)",
        "samples": [readable(r) for r in runs if r["pages"] and len(r["pages"]) > 1][:2] + [readable(r) for r in runs[:1]],
        "histogram_filters_per_query": hist_n, "histogram_matchers": hist_ops, "histogram_outcome": hist_pre,
        "multi_page_runs": sum(1 for r in runs if len(r["pages"]) > 1),
        "items_returned": sum(len(p) for r in runs for p in r["pages"]),
        "known_class_runs": {"multi-primary-filter": len(multi), "b58-prefix-primary": len(b58)},
        "known_class_failures": {"multi-primary-filter": len(bad_ref & multi), "b58-prefix-primary": len(bad_ref & b58 - multi)},
        "traces_validated_against_impl": len(runs),
    })
