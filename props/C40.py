"""C40 — epoch timers fire each tick exactly once per epoch, at the right time."""
import json
import vlib

META = {
    "id": "C40",
    "engine": "iring",
    "design_ref": "5/C40",
    "coq_targets": ["Props/Properties_C40.vo", "IRing/TimersCheck.vo"],
    "coq_files": ["IRing/Timers.v", "IRing/TimersProofs.v", "IRing/TimersCheck.v", "Props/Properties_C40.v"],
    "theorems": ["C40_epoch_once", "C40_epoch_count", "C40_delta_once", "C40_delta_count",
                 "C40_delta_general", "C40_silent_until_reset", "C40_call_nodup"],
    "technique": "Coq proof (induction over the block-time list, arbitrary pre-history and start state) about a Gallina transcription of "
                 "EpochTimers.Reset/UpdateTime with explicit uint64 wrap + differential correspondence with pkg/timers through counting handlers",
    "level_text": "C40_epoch_once/_count, C40_delta_once/_count, C40_silent_until_reset, C40_call_nodup are proved in Coq for every history "
                  "(any ops before a Reset from any state, any list of block times after it, non-monotonic allowed, unbounded values) of the model "
                  "run/reset/update; C40_delta_general states what the code does with wrap-around and fractions above one. The model is tied to the Go "
                  "code on every run: random histories are driven through the real timers.EpochTimers with counting handlers, the per-call handler "
                  "invocations are compared with the model (vm_compute) and, independently, with the theorem right-hand sides.",
    "level_note": "Trusted: Coq 8.16.1 kernel + vm_compute; hand-written model IRing/Timers.v (tied by random differential comparison, not generated from source); "
                  "Go harness, Python driver. Not modelled: the mutex / concurrent callers (calls are modelled as atomic, as the lock makes them), panics of handlers, "
                  "handler order inside one call (observations are sorted). Premises: lastTick+dur and dur*mul do not overflow uint64, mul <= div, div != 0 "
                  "(NewTimers panics on 0); outside them C40_delta_general is the proved statement (a fraction above one is never served, see Example).",
    "trusted_base": ["Coq 8.16.1 kernel, vm_compute", "model IRing/Timers.v hand-written, tied by differential check", "harness/cmd/iring, lib/vlib.py"],
    "assumptions": ["lastTick + dur < 2^64", "dur * EpochMul < 2^64", "EpochMul <= EpochDiv (tick scheduled inside the epoch)", "EpochDiv != 0 (NewTimers panics otherwise)",
                    "Reset/UpdateTime calls are atomic (serialised by the mutex)"],
}

PRELUDE = ("From NV Require Import IRing.Timers IRing.TimersCheck.\nFrom Coq Require Import List NArith. Import ListNotations.\n"
           "Local Open Scope N_scope.\n")


def coq_case(c):
    ops = vlib.coq_list(c["ops"], lambda o: "Reset %d %d" % (o[1], o[2]) if o[0] == 0 else "Update %d" % o[1])
    deltas = vlib.coq_list(c["deltas"] or [], lambda d: "(%d, %d)" % (d[0], d[1]))
    obs = vlib.coq_list(c["fired"], lambda f: "(%s%%nat, %s%%nat)" % (vlib.coq_list(f[0]), vlib.coq_list(f[1])))
    return "(%d%%nat, %s, %s, %s)" % (c["ne"], deltas, ops, obs)


def evaluate(ctx, cases, name="cases"):
    """returns (bad_model, bad_ref) index sets or None"""
    CH = max(20, min(300, -(-len(cases) // vlib.NCPU)))
    jobs, offs = [], []
    for off in range(0, len(cases), CH):
        lit = vlib.coq_list(cases[off:off + CH], coq_case)
        jobs.append((name, PRELUDE + "Definition cases : list case := %s.\n" % lit,
                     {"model": "model_mismatches cases", "ref": "ref_mismatches cases"}))
        offs.append(off)
    bm, br = set(), set()
    for off, res in zip(offs, ctx.coq_eval_many(jobs)):
        if res is None:
            return None
        bm |= {off + i for i in res["model"]}
        br |= {off + i for i in res["ref"]}
    return bm, br


def rerun(ctx, binp, cases):
    inp = "".join(json.dumps({"ne": c["ne"], "deltas": c["deltas"] or [], "ops": c["ops"], "kind": c.get("kind", "")}) + "\n" for c in cases)
    return ctx.run_json([binp, "timers-run"], input=inp)


def _smallest_failing(ctx, binp, cands):
    if not cands:
        return None
    out = rerun(ctx, binp, cands)
    r = evaluate(ctx, out, "min")
    if r is None:
        return None
    # prefer inputs that contradict the property itself (reference) over model-only disagreements
    bad = sorted(r[0] | r[1], key=lambda i: (i not in r[1], len(out[i]["ops"]), len(out[i]["deltas"] or []), out[i]["ne"], i))
    return out[bad[0]] if bad else None


def minimise(ctx, binp, c):
    """smallest sub-history / handler subset that still disagrees with model or reference (a few batched rounds)"""
    import itertools
    for _ in range(6):           # greedy single drops while the history is long
        if len(c["ops"]) <= 8:
            break
        n = _smallest_failing(ctx, binp, [dict(c, ops=c["ops"][:i] + c["ops"][i + 1:]) for i in range(len(c["ops"]))])
        if n is None:
            break
        c = n
    if len(c["ops"]) <= 8:       # all sub-histories at once
        idx = range(len(c["ops"]))
        subs = [dict(c, ops=[c["ops"][i] for i in comb]) for k in range(1, len(c["ops"])) for comb in itertools.combinations(idx, k)]
        c = _smallest_failing(ctx, binp, subs) or c
    ds = c["deltas"] or []
    hs = [dict(c, deltas=[ds[i] for i in comb], ne=ne) for k in range(0, len(ds) + 1) for comb in itertools.combinations(range(len(ds)), k)
          for ne in sorted({c["ne"], min(c["ne"], 1), 0}) if not (k == len(ds) and ne == c["ne"])]
    c = _smallest_failing(ctx, binp, hs) or c
    return c


def nontrivial(c):
    # some handler fired in a call after a reset, and some later call in the same epoch stayed silent
    seen_reset = fired = False
    for op, f in zip(c["ops"], c["fired"]):
        if op[0] == 0:
            seen_reset, fired = True, False
        elif seen_reset:
            if f[0] or f[1]:
                fired = True
            elif fired:
                return True
    return False


def run(ctx):
    ctx.prove()
    model = ctx.model_ready(["IRing/TimersCheck.vo"])
    binp = ctx.go_build()
    if ctx.replay:
        rp = json.load(open(ctx.replay))
        cases = rerun(ctx, binp, [v["case"] for v in rp.get("violations", []) if "case" in v])
    else:
        n = 2000 if ctx.tier == "quick" else 40000
        cases = ctx.run_json([binp, "timers", str(n)])
    for c in cases:
        c["deltas"] = c["deltas"] or []
    if not model:
        ctx.tie(False)
        return
    r = evaluate(ctx, cases)
    if r is None:
        ctx.tie(False)
        return
    bad_model, bad_ref = r
    ctx.tie(not bad_model)   # implementation = model on every history
    ctx.tie(not bad_ref)     # implementation satisfies the theorem right-hand sides
    worst = sorted(bad_model | bad_ref, key=lambda i: (i not in bad_ref, len(cases[i]["ops"]), i))[:2]
    for n, i in enumerate(worst):
        c = minimise(ctx, binp, cases[i]) if n == 0 else cases[i]
        r1 = evaluate(ctx, [c], "one") or (set(), set())
        ctx.violation({"case": {"ne": c["ne"], "deltas": c["deltas"], "ops": c["ops"]},
                       "ops_legend": "[0,lastTick,dur]=Reset, [1,curr,0]=UpdateTime",
                       "impl_fired_per_op": c["fired"],
                       "disagrees_with": [w for w, s in (("model IRing.Timers.run", r1[0]),
                                                         ("reference (exactly once at first block time reaching the schedule)", r1[1])) if 0 in s]})
    kinds, nops, nres = {}, {}, {}
    for c in cases:
        kinds[c["kind"]] = kinds.get(c["kind"], 0) + 1
        nops[len(c["ops"])] = nops.get(len(c["ops"]), 0) + 1
        k = sum(1 for o in c["ops"] if o[0] == 0)
        nres[k] = nres.get(k, 0) + 1
    nt = [c for c in cases if nontrivial(c)]
    ctx.cov.update({
        "evaluations": len(cases),
        "distinct_nontrivial": vlib.distinct_count([{"ne": c["ne"], "d": c["deltas"], "o": c["ops"]} for c in nt]),
        "rule": "random histories (1-14 ops, 0-3 new-epoch handlers, 0-3 sub-epoch handlers with fractions incl. 0, 1 and >1; 10% 'big' stream with "
                "times/durations near 2^63, 2^64 and uint32-sized multipliers); non-trivial = after a reset some handler fired and a later call of the "
                "same epoch stayed silent; distinct by (handlers, op list)",
        "samples": [{k: c[k] for k in ("ne", "deltas", "ops", "fired")} for c in (nt[:2] + cases[-1:])],
        "hist_kind": kinds, "hist_ops_per_history": nops, "hist_resets_per_history": nres,
        "traces_validated_against_impl": len(cases),
    })
