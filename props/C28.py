"""C28 — object access decisions follow basic ACL, sticky bit, eACL and bearer rules."""
import collections
import json
import os
import vlib

META = {
    "id": "C28",
    "engine": "auth",
    "design_ref": "5/C28",
    "coq_targets": ["Props/Properties_C28.vo", "Auth/ACLCheck.vo"],
    "coq_files": ["Gen/AuthConsts.v", "Auth/ACL.v", "Auth/ACLProofs.v", "Auth/ACLCheck.v", "Props/Properties_C28.v"],
    "theorems": ["C28_served_implies", "C28_table_selection", "C28_impl_exact", "C28_stricter_is_safe", "C28_exact_outside_stricter",
                 "C28_basic_deny_denies", "C28_sticky_deny_denies", "C28_table_deny_denies", "C28_bearer_ignored_when_not_allowed"],
    "technique": "Coq proof over all request facts (masks, roles, operations, tables, bearer tokens) about an executable model of the handler pipeline "
                 "findRequestInfo -> classify -> CheckBasicACL/StickyBitCheck -> CheckEACL (+ header-time recheck) incl. the SDK eACL validator; model tied by "
                 "differential runs of the real object Server with the real acl/v2.Service, acl.Checker and SDK validator over generated requests; SDK bit layout dumped into Gen/AuthConsts.v each run",
    "level_text": "C28_served_implies: for every request (any 32-bit basic ACL, role facts, eACL tables with arbitrary targets/filters/actions, present/absent/invalid bearer token) the modelled pipeline serves only if the basic ACL "
                  "allows the effective operation for the classified role, the sticky rule holds for puts, and - when the ACL is extendable and the role is not a system one - the table named by the statement (C28_table_selection) does not deny, "
                  "at request time and at header time for GET/HEAD. C28_impl_exact characterises the implementation exactly (statement minus the class `stricter`), C28_stricter_is_safe shows the difference only removes served requests. "
                  "The harness drives the real Server (signature verification, token verification, acl/v2.Service, acl.Checker, SDK validator) with requests built from the generated facts and compares outcome stage, status class, "
                  "role and served/not-served with the model and with the statement.",
    "level_note": "Trusted: Coq kernel + vm_compute; hand-written model Auth/ACL.v (tied by the differential check, bit layout regenerated from the compiled SDK); the request->facts abstraction done by the harness (every request is constructed from the facts, "
                  "real ECDSA signatures); the SDK eACL validator is outside the repo: modelled (calc/filters_res/target_hit) and compared, not verified. partial: bearer/request signature and lifetime validity is one boolean here (C30/C33); "
                  "GET/HEAD request-time object headers are modelled for a local-storage miss only (the engine lookup is not driven); split-object PUT through a non-container node (ACL skipped by design, ErrSkipRequest) and session-token credentials are not modelled; "
                  "GetRangeHash is unimplemented in the server and not driven; Go panics of the SDK for out-of-range role/op are modelled as deny.",
    "trusted_base": ["Coq 8.16.1 kernel, vm_compute", "Auth/ACL.v hand-written, tied by differential check", "harness/cmd/auth, hooks get/zz_verif_auth_prm.go put/zz_verif_auth_streamer.go, lib/vlib.py"],
    "assumptions": ["bearer token validity (signature, lifetime) abstract boolean b_valid", "account/key identities abstract (indices); key->account derivation is a fact",
                    "object headers of the request/returned object are facts (harness derives them from the object it builds)"],
}

KIND = {"get": "KGet", "head": "KHead", "put": "KPut", "delete": "KDelete", "search": "KSearch", "range": "KRange"}


ALIAS = {}


def cs(s):
    # long identifier strings (base58 container / object / user IDs) are replaced by short
    # non-numeric aliases, consistently in headers and filter values: only equality matters
    if len(s) > 4:
        s = ALIAS.setdefault(s, "#%d" % len(ALIAS))
    return vlib.coq_string(s)


def N(n):
    return "%d%%N" % n


def hdrs(hs):
    return vlib.coq_list(hs, lambda h: "(%s, %s)" % (cs(h[0]), cs(h[1])))


def subj(s):
    return {"k": "SKey %s" % N(s["i"]), "a": "SAcct %s" % N(s["i"])}.get(s["k"], "SJunk")


def table(rs):
    def target(t):
        return "mktarget %s %s" % (N(t["role"]), vlib.coq_list(t["subjs"], subj))

    def filt(f):
        return "mkfilter %s %s %s %s" % (N(f["from"]), cs(f["key"]), N(f["m"]), cs(f["value"]))

    def rec(r):
        return "mkrecord %s %s %s %s" % (N(r["op"]), N(r["action"]), vlib.coq_list(r["targets"] or [], target), vlib.coq_list(r["filters"] or [], filt))
    return vlib.coq_list(rs or [], rec)


def optN(i):
    return "None" if i == 0 else "(Some %s)" % N(i)


def case_term(c):
    b = c["bearer"]
    bt = "None" if b is None else "(Some (mkbearer %s %s %s %s %s))" % (
        vlib.coq_bool(b["valid"]), N(b["issuer"]), optN(b["cid"]), optN(b["user"]), table(b["table"]))
    st = c["stored"]
    stt = {"notfound": "SNotFound", "err": "SErr"}.get(st["kind"]) or "(STable %s)" % table(st["table"])
    o = c["obs"]
    req = "mkreq %s %s %s %s %s %s %s %s (Some %s) %s %s %s %s %s %s %s %s" % (
        KIND[c["kind"]], vlib.coq_bool(c["tomb"]), vlib.coq_bool(c["ttl1"]), N(c["cnr"]), N(c["basic"]), N(c["owner"]),
        N(c["author"]), N(c["author"]), N(c["author"]), vlib.coq_bool(c["is_ir"]), vlib.coq_bool(c["is_cnr"]), N(c["obj_owner"]),
        bt, stt, hdrs(c["xhdrs"] or []), hdrs(c["addr_hdrs"] or []), hdrs(c["obj_hdrs"] or []))
    ob = "mkobs %s %s %s %s %s" % (N(o["out"]), N(o["code"]), vlib.coq_bool(o["reached"]), vlib.coq_bool(o["data"]), N(o["role"]))
    return "(%s, %s)" % (req, ob)


def gen_consts(ctx, binp):
    k = ctx.run_json([binp, "consts"])[0]
    if not k.get("layout_ok"):
        ctx.notes.append("basic ACL bit layout is not one-bit-per-(op,role): the model's shape no longer fits the SDK")
    L = ["(* GENERATED by props/C28.py from `auth consts` (harness/cmd/auth) -- the SDK/acl constants",
         "   actually compiled into the node, obtained by probing acl.Basic / enumerating the enums. *)",
         "From Coq Require Import NArith List.", "Import ListNotations.", "Open Scope N_scope."]

    def pairs(xs):
        return "[" + "; ".join("(%d, %d)" % (a, b) for a, b in (xs or [])) + "]"
    for n in ["op_get", "op_head", "op_put", "op_delete", "op_search", "op_range", "op_hash", "role_owner", "role_container", "role_ir", "role_others"]:
        L.append("Definition %s := %d." % (n, k[n]))
    for n in ["owner_bits", "container_bits", "others_bits", "bearer_bits"]:
        L.append("Definition %s : list (N * N) := %s." % (n, pairs(k[n])))
    L.append("Definition final_bit := %d." % k["final_bit"])
    L.append("Definition sticky_bit := %d." % k["sticky_bit"])
    L.append("Definition ir_ops : list N := [%s]." % "; ".join(str(x) for x in k["ir_ops"] or []))
    L.append("Definition container_always_ops : list N := [%s]." % "; ".join(str(x) for x in k["container_always_ops"] or []))
    L.append("Definition eop_of_op : list (N * N) := %s." % pairs(k["eop_of_op"]))
    for n in ["erole_user", "erole_system", "erole_others"]:
        L.append("Definition %s := %d." % (n, k[n]))
    L.append("Definition erole_of_role : list (N * N) := [(%d, %d); (%d, %d); (%d, %d); (%d, %d)]." % (
        k["role_owner"], k["erole_user"], k["role_container"], k["erole_system"], k["role_ir"], k["erole_system"], k["role_others"], k["erole_others"]))
    for n in ["action_allow", "action_deny", "ht_request", "ht_object", "m_string_equal", "m_string_not_equal", "m_not_present",
              "m_num_gt", "m_num_ge", "m_num_lt", "m_num_le", "code_access_denied"]:
        L.append("Definition %s := %d." % (n, k[n]))
    vlib.write_if_changed(os.path.join(vlib.COQ, "Gen", "AuthConsts.v"), "\n".join(L) + "\n")
    return bool(k.get("layout_ok"))


PRELUDE = ("From Coq Require Import NArith List Bool String.\nFrom NV Require Import Gen.AuthConsts Auth.ACL Auth.ACLCheck.\n"
           "Import ListNotations.\nOpen Scope string_scope.\n")


def run(ctx):
    binp = ctx.go_build()
    layout = gen_consts(ctx, binp)
    ctx.tie(layout)                  # SDK bit layout has the shape the model assumes
    ctx.prove()
    if not ctx.model_ready(["Auth/ACLCheck.vo"]):
        ctx.tie(False)
        return
    if ctx.replay:
        rp = json.load(open(ctx.replay))
        cases = [v["case"] for v in rp.get("violations", []) if "case" in v]
        # facts are replayed against the model/reference; the implementation observables are those recorded
    else:
        cases = ctx.run_json([binp, "acl"])
    jobs, offs = [], []
    CH = 150
    for off in range(0, len(cases), CH):
        lit = vlib.coq_list(cases[off:off + CH], case_term)
        jobs.append(("cases", PRELUDE + "Definition cases : list case := %s.\n" % lit,
                     {"model": "model_mismatches cases", "ref": "ref_violations cases", "strict": "over_strict_idx cases", "outs": "model_outs cases"}))
        offs.append(off)
    bad_m, bad_r, over, outs = [], [], [], []
    for off, res in zip(offs, ctx.coq_eval_many(jobs)):
        if res is None:
            ctx.tie(False)
            return
        bad_m += [off + i for i in res["model"]]
        bad_r += [off + i for i in res["ref"]]
        over += [off + i for i in res["strict"]]
        outs += res["outs"]
    ctx.tie(not bad_m)     # implementation = model (stage, status class, role, served)
    ctx.tie(not bad_r)     # served => the statement allows
    ctx.tie(not over)      # refused although allowed only inside the proved `stricter` class
    for i in sorted(set(bad_r))[:5]:
        ctx.violation({"case": cases[i], "why": "request was served although the property's rule (basic ACL / sticky / applicable eACL table) does not allow it"})
    for i in sorted(set(bad_m) - set(bad_r))[:5]:
        c = cases[i]
        ctx.violation({"case": c, "model_outcome": outs[i] if i < len(outs) else None,
                       "why": "access decision of the implementation differs from the proved model (stage / status / role / served)"})
    for i in sorted(set(over) - set(bad_m) - set(bad_r))[:3]:
        ctx.violation({"case": cases[i], "why": "refused although the statement allows and the request is outside the proved `stricter` class"})

    def facts(c):
        return {k: v for k, v in c.items() if k != "obs"}
    nontriv = [c for c in cases if c["obs"]["out"] in (0, 4, 5) and (c["bearer"] or c["stored"]["kind"] == "table")]
    ctx.cov.update({
        "evaluations": len(cases),
        "distinct_nontrivial": vlib.distinct_count([facts(c) for c in nontriv]),
        "rule": "generated requests: 6 RPC kinds (+tombstone PUT) x 5 requesters (owner/users/IR node/container node, overlapping key sets) x random 32-bit masks (biased to pass) x random stored tables "
                "(0-3 records, role/key/account/junk targets, request/object/other filters, all matchers, odd actions) x absent/valid/invalid(7 ways)/mismatching bearer x sticky x TTL; "
                "preceded by a deterministic matrix: 7 operations (incl. tombstone PUT) x owner/others x {stored table denies and owner-issued bearer table allows, mirror image} x bearer rules for the operation "
                "allowed / NOT allowed (extendable mask built with the SDK setters, operation allowed for the role) (+ GET/HEAD with the deciding rule on a returned-object header); "
                "non-trivial = reached the eACL stage with a table or bearer token; distinct by facts",
        "outcome_histogram": dict(collections.Counter("%s:%d" % (c["kind"], c["obs"]["out"]) for c in cases)),
        "model_outcome_histogram": dict(collections.Counter(outs)),
        "bearer_histogram": dict(collections.Counter("none" if c["bearer"] is None else (c["bearer"]["why"] or "valid") for c in cases)),
        # table selection: requests carrying a valid bearer token to an extendable container, by "bearer rules allowed for the operation" and outcome
        "table_selection_histogram": dict(collections.Counter(
            "%s bearer_rules=%s out=%d" % (c["kind"], "allowed" if c.get("bearer_bit") else "NOT-allowed", c["obs"]["out"])
            for c in cases if c["bearer"] and c["bearer"]["valid"] and c.get("extendable") and c["obs"]["out"] in (0, 4, 5))),
        "forced_matrix_cases": sum(1 for c in cases if c.get("forced")),
        "samples": cases[:3],
    })
