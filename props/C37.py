"""C37 — the inner ring approves container changes only when the owner authorised them."""
import collections
import json
import os
import vlib

META = {
    "id": "C37",
    "engine": "irproc",
    "design_ref": "5/C37",
    "coq_targets": ["Props/Properties_C37.vo", "IRProc/C37Model.vo"],
    "coq_files": ["Gen/IRProcConsts.v", "IRProc/C37Model.v", "IRProc/C37Proofs.v", "Props/Properties_C37.v"],
    "theorems": ["C37_approve_implies", "C37_reference_sound", "C37_token_verb_and_container", "C37_no_system_role"],
    "technique": "Coq: decision model of the container processor's request checks (creation V1/named/V2 with optional eACL, removal, eACL, attribute set/remove) over abstract signature facts, "
                 "proved to approve only under the property's conditions; model tied by differential runs of the real processor functions (real morph client over a fake Neo RPC node, real ECDSA keys, "
                 "real SDK tokens of both versions) and the implementation's approvals evaluated against the theorem's right-hand side",
    "level_text": "C37_approve_implies: for every environment and request of the model, process = true (NotarySignAndInvokeTX reached) implies alphabet mode and owner authorisation = direct owner witness OR a session token "
                  "(V1: body signed by its issuer, issuer = owner, verb = the operation's verb, bound to this container or to none, nbf/iat <= epoch <= exp, request data signed with the session key; "
                  "V2: Validate ok, chain signatures ok, original issuer = owner, some context carries the operation's verb for this container or the wildcard, iat/nbf <= now <= exp); for creation also policy validity "
                  "(Verify ok, EC only when enabled and never mixed with REP, no initial policy with chain metadata) and only allow-listed system attributes (chain-meta one only when enabled); for eACL (stand-alone or "
                  "inside createV2) extendable basic ACL, no system-role target and the eACL call's own authorisation. C37_approve_iff_reference: the model decision equals the reference predicate up to the "
                  "request-shape checks. The allow-list and verb numbers are regenerated from the source each run.",
    "level_note": "Trusted: Coq kernel + vm_compute; the abstraction of a request into facts (done by the harness, which constructs every request from the facts with real keys); ECDSA / N3 witness verification, "
                  "SDK token decoding/Validate/AssertContainer, PlacementPolicy.Verify and eACL decoding are exercised, not verified (abstract booleans in the model). Not modelled: tokens signed with the N3 scheme, NNS subjects "
                  "of V2 tokens, the wall-clock boundary of ValidUntil in attribute requests (only far past / far future are exercised), the worker pool and the notary signing itself (recorded at the alphabet-key lookup that "
                  "opens Client.NotarySignAndInvokeTX). Observation outside the property text: on the V2 token path nothing ties the request data to the token's subject (no signature over the data is checked).",
    "trusted_base": ["Coq 8.16.1 kernel, vm_compute", "IRProc/C37Model.v hand-written, tied by differential check", "harness/cmd/irproc (fake Neo RPC node, request generator)",
                     "neofs-sdk-go session/eacl/netmap decoding and validation, ECDSA"],
    "assumptions": ["signature validity abstract (booleans per signature, produced with real keys by the harness)",
                    "PlacementPolicy.Verify, Token.Validate, eACL decoding abstract (booleans checked against the SDK by the harness)"],
}

OPS = ["OpPut", "OpPutNamed", "OpCreateV2", "OpDelete", "OpSetEACL", "OpSetAttr", "OpRemoveAttr"]
B = vlib.coq_bool


def opt_nat(i):
    return "None" if i < 0 else "(Some %d)" % i


def auth_term(a):
    k = a["tok"]
    if k == 0:
        tok = "NoTok"
    elif k == 1:
        tok = "BadTok"
    elif k == 2:
        v = a["v1"]
        tok = "(TokV1 (mkv1 %s %d %d %s %d%%N %d%%N %d%%N %s))" % (B(v["sig_ok"]), v["issuer"], v["verb"], opt_nat(v["cnr"]), v["iat"], v["nbf"], v["exp"], B(v["data_sig_ok"]))
    else:
        v = a["v2"]
        ctxs = vlib.coq_list(v["ctxs"], lambda c: "(mkctx %s %s)" % (opt_nat(c["cnr"]), vlib.coq_list(c["verbs"])))
        tok = "(TokV2 (mkv2 %s %s %d %s %s %s %s))" % (B(v["valid"]), B(v["sig_ok"]), v["orig_issuer"], ctxs, vlib.coq_Z(v["iat"]), vlib.coq_Z(v["nbf"]), vlib.coq_Z(v["exp"]))
    return "(mkauth %s %s %s %s %d)" % (tok, B(a["n3"]), B(a["n3_ok"]), B(a["sig_valid"]), a["sig_key"])


MATCH = ["MOther", "MNotPresent", "MNum"]
FVAL = ["VEmpty", "VDecimal", "VNonDecimal"]


def eacl_term(t):
    recs = vlib.coq_list(t["records"], lambda r: "(mkrec %s %s)" % (
        vlib.coq_list(r["roles"]), vlib.coq_list(r["filters"], lambda f: "(%s, %s)" % (MATCH[f["m"]], FVAL[f["v"]]))))
    return "(mkeacl %s %s %s %s)" % (B(t["decodes"]), B(t["cid_set"]), B(t["cid_same"]), recs)


ATTR_NAMES = {}


def attr_name(k):
    """attribute keys are bound to names once per chunk (string literals are expensive to parse)"""
    if k not in ATTR_NAMES:
        ATTR_NAMES[k] = "attr_%d" % len(ATTR_NAMES)
    return ATTR_NAMES[k]


def attr_defs():
    return "".join("Definition %s : string := %s.\n" % (n, vlib.coq_string(k)) for k, n in sorted(ATTR_NAMES.items(), key=lambda kv: kv[1]))


def nat0(i):
    return max(i, 0)


def case_term(c):
    env = "(mkenv %s %d%%N %s %s %s)" % (B(c["alphabet"]), c["epoch"], vlib.coq_Z(c["now"]), B(c["meta_enabled"]), B(c["allow_ec"]))
    op = c["op"]
    a = auth_term(c["auth"])
    if op <= 2:
        cre = "(mkcre %s %d %s %d %d %s %s %s %s)" % (B(c["decodes"]), nat0(c["owner"]), vlib.coq_list(c["attrs"], attr_name), c["n_rep"], c["n_ec"],
                                                     B(c["initial"]), B(c["pol_verify"]), B(c["name_match"]), B(c["extendable"]))
        e2 = "None"
        if c.get("eacl"):
            e2 = "(Some (%s, %s))" % (eacl_term(c["eacl"]), auth_term(c["eacl"]["auth"]))
        req = "(RCreate %s %s %s %s)" % (OPS[op], cre, a, e2)
    elif op == 3:
        req = "(RDelete %s %s %d %d %s)" % (B(c["id_ok"]), B(c["exists"]), nat0(c["owner"]), c["cnr"], a)
    elif op == 4:
        req = "(RSetEACL %s %s %d %d %s %s)" % (eacl_term(c["eacl"]), B(c["exists"]), nat0(c["owner"]), c["cnr"], B(c["extendable"]), a)
    else:
        req = "(RAttr %s %s %s %s %d %d %s)" % (OPS[op], B(c["id_ok"]), B(c["not_expired"]), B(c["exists"]), nat0(c["owner"]), c["cnr"], a)
    return "(%s, %s, %s)" % (env, req, B(c["approved"]))


def write_consts(consts):
    v1, v2 = consts["v1_verbs"], consts["v2_verbs"]
    names = ["put", "delete", "seteacl", "setattr", "removeattr"]
    text = ("(* GENERATED by props/C37.py from `irproc c37` (harness/cmd/irproc): constants of\n"
            "   pkg/innerring/processors/container and the SDK verb numbers compiled into the node. *)\n"
            "From Coq Require Import String List.\nImport ListNotations.\nOpen Scope string_scope.\n"
            "Definition sys_prefix : string := %s.\nDefinition chain_meta : string := %s.\nDefinition allowed_sys : list string := %s.\n" % (
                vlib.coq_string(consts["sys_prefix"]), vlib.coq_string(consts["chain_meta"]), vlib.coq_list(consts["allowed"], vlib.coq_string)))
    for n, a, b in zip(names, v1, v2):
        text += "Definition v1_verb_%s : nat := %d.\nDefinition v2_verb_%s : nat := %d.\n" % (n, a, n, b)
    text += "Definition role_system : nat := %d.\n" % consts["role_system"]
    vlib.write_if_changed(os.path.join(vlib.COQ, "Gen", "IRProcConsts.v"), text)


PRELUDE = ("From NV Require Import IRProc.C37Model.\nFrom Coq Require Import List NArith ZArith String. Import ListNotations.\nOpen Scope string_scope.\n")


def is_known_v2_creation(c):
    """the listed finding: creation authorised by a V2 token that carries no container-creation verb for the wildcard"""
    return False


def run(ctx):
    binp = ctx.go_build()
    if ctx.replay:
        rp = json.load(open(ctx.replay))
        out = ctx.run_json([binp, "c37"])
        consts = [r for r in out if r.get("kind") == "consts"][0]
        cases = [r for r in out if r.get("kind") == "c37"]
        want = [json.dumps(v.get("facts"), sort_keys=True) for v in rp.get("violations", [])]
        cases = [c for c in cases if json.dumps(facts_of(c), sort_keys=True) in want] or cases
    else:
        out = ctx.run_json([binp, "c37"])
        consts = [r for r in out if r.get("kind") == "consts"][0]
        cases = [r for r in out if r.get("kind") == "c37"]
    write_consts(consts)
    ctx.prove()
    if not ctx.model_ready(["IRProc/C37Model.vo"]):
        ctx.tie(False)
        return
    jobs, offs = [], []
    CH = 800 if ctx.tier == "quick" else 1500   # loading the model costs more than evaluating a chunk: few, large chunks
    for off in range(0, len(cases), CH):
        lit = vlib.coq_list(cases[off:off + CH], case_term)
        jobs.append(("cases", PRELUDE + attr_defs() + "Definition cases : list case := %s.\n" % lit, {"model": "model_mismatches cases", "ref": "ref_violations cases"}))
        offs.append(off)
    bad_m, bad_r = [], []
    for off, res in zip(offs, ctx.coq_eval_many(jobs)):
        if res is None:
            ctx.tie(False)
            return
        bad_m += [off + i for i in res["model"]]
        bad_r += [off + i for i in res["ref"]]
    panics = [i for i, c in enumerate(cases) if c["panicked"]]
    ctx.tie(not bad_m)      # implementation = model
    ctx.tie(not bad_r)      # implementation's approvals satisfy the property's conditions
    ctx.tie(not panics)
    for i in sorted(set(bad_r))[:6]:
        ctx.violation({"facts": facts_of(cases[i]), "approved": True,
                       "why": "the processor went on to co-sign (NotarySignAndInvokeTX) although the property's conditions do not hold for these request facts"})
    for i in sorted(set(bad_m) - set(bad_r))[:6]:
        c = cases[i]
        if c["approved"]:
            ctx.violation({"facts": facts_of(c), "approved": True, "why": "approved where the model of the checks rejects"})
        else:
            ctx.notes.append("model approves, implementation rejects (no violation of the property on this input): %s" % json.dumps(facts_of(c), sort_keys=True)[:1500])
    for i in panics[:3]:
        ctx.violation({"facts": facts_of(cases[i]), "why": "request processing panicked"})
    appr = [c for c in cases if c["approved"]]
    ctx.cov.update({
        "evaluations": len(cases),
        "distinct_nontrivial": vlib.distinct_count([facts_of(c) for c in cases if c["alphabet"]]),
        "rule": "generated requests of 7 kinds (put, named put, createV2 [+eACL], delete, setEACL, setAttribute, removeAttribute) processed by ONE processor instance over 4 users / 3 stored containers; "
                "witness = direct (public-key or N3 form) / V1 token / V2 token (plain or delegated); each case is a fully valid request (random valid form) with 0 (30%), 1 (55%) or 2 (15%) named faults out of ~40 "
                "(issuer, verb, container, lifetime bounds, signatures, token validity, forbidden / disabled system attributes, EC/REP/initial policy shapes, system-role target at any position, bad filters, "
                "missing container, malformed IDs, non-alphabet, ...); 1 in 4 cases re-presents an approved request byte for byte under a changed epoch / time / alphabet state / flags; "
                "distinct by the whole fact record, non-trivial = alphabet mode",
        "op_histogram": dict(collections.Counter("%s:%s" % (OPS[c["op"]], "approved" if c["approved"] else "rejected") for c in cases)),
        "witness_histogram": dict(collections.Counter("%s:%s" % (["direct", "garbage", "v1", "v2"][c["auth"]["tok"]], "approved" if c["approved"] else "rejected") for c in cases)),
        "approved": len(appr),
        "fault_histogram": dict(collections.Counter("+".join(c.get("faults") or ["none"]) if len(c.get("faults") or []) < 2 else "two faults" for c in cases if not c.get("replayed"))),
        "replayed_under_new_environment": sum(1 for c in cases if c.get("replayed")),
        "samples": [facts_and_obs(c) for c in (appr[:2] + [c for c in cases if not c["approved"]][:1])],
    })


def facts_of(c):
    return {k: v for k, v in c.items() if k not in ("approved", "panicked", "kind")}


def facts_and_obs(c):
    return {k: v for k, v in c.items() if k != "kind"}
