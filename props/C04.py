"""C04 — merged search over several shards or nodes equals one search over their union (cursor + merge)."""
import json
import vlib

META = {
    "id": "C04",
    "engine": "search",
    "design_ref": "5/C04",
    "coq_targets": ["Props/Properties_C04.vo", "Search/MergeCheck.vo"],
    "coq_files": ["Gen/SearchConsts.v", "Gen/S256Consts.v", "S256/S256.v", "S256/ReadersProofs.v", "Search/Search.v", "Search/Merge.v",
                  "Search/MergeProofs.v", "Search/MergeLoop.v", "Search/MergeLoopProofs.v", "Search/MergeClasses.v", "Search/MergeCheck.v",
                  "Props/Properties_C04.v"],
    "theorems": ["C04_merge", "C04_merge_sorted", "C04_merge_int", "C04_union_spec", "C04_agree_id", "C04_agree_int", "C04_agree_text",
                 "C04_agree_oid", "C04_agree_owner", "C04_associate_absent_refuted",
                 "C04_cursor_roundtrip_int", "C04_cursor_roundtrip_partial", "C04_old_checksum_cursor_refuted"],
    "technique": "Coq proof that the Gallina transcription of CalculateCursor rebuilds the index key of the last item for every primary attribute "
                 "class (numeric via C05 parse/print round trip; text codecs as premises) + differential correspondence of that transcription with "
                 "objectcore.CalculateCursor, acceptance of the rebuilt cursor by PreprocessSearchQuery, and comparison of objectcore.MergeSearchResults "
                 "with the declarative reference ref_merge (de-duplicated union in (stored value, ID) order, first lim, more flag)",
    "level_text": "partial. Proved for all inputs: CalculateCursor(filter, last item) = index key of the last item (C04_cursor_roundtrip_int, "
                  "C04_cursor_roundtrip_partial; base58/hex/UUID round trips are premises), for the repaired code (fix commits 4584b6d+6b58265, 868e279). "
                  "NOT proved: the k-way merge loop of MergeSearchResults (not modelled), the engine/server composition and C04_chain; the real "
                  "MergeSearchResults is compared with ref_merge on generated per-shard result sets (all primary attribute classes, 1-4 sets with overlapping "
                  "copies, limits 1,2,3,1000) on every run, which is a test-level tie, not a proof.",
    "level_note": "partial: merge loop, StorageEngine.Search and Server.ProcessSearch composition are not modelled (differential check of MergeSearchResults only; "
                  "multi-shard engine search over real shards is not exercised). Text codecs (base58, hex, UUID) are premises of the cursor theorem and "
                  "instantiated from observed values in the tie. Sets fed to the merge are generated in index order (what C03 establishes for one shard).",
    "trusted_base": ["Coq 8.16.1 kernel, vm_compute", "model Search/Merge.v hand-written, calc_cursor tied by differential check",
                     "harness/cmd/search (merge.go), lib/vlib.py"],
    "assumptions": ["dec_b58 (enc_b58 r) = Some r, dec_hex (enc_hex r) = Some r, |enc_hex r| = 2|r|, dec_uuid (enc_uuid r) = Some r for 16-byte r",
                    "per-shard result sets are sorted by (stored value, ID) and truncated to the limit with `more` set"],
}

OPS = ["M_UNSPEC", "M_EQ", "M_NE", "M_NOT_PRESENT", "M_PREFIX", "M_GT", "M_GE", "M_LT", "M_LE"]
PRELUDE = ("From NV Require Import S256.S256Check Search.Search Search.SearchCheck Search.Merge Search.MergeCheck.\n"
           "From Coq Require Import List NArith ZArith. Import ListNotations.\nLocal Open Scope N_scope.\n")


def lb(h):
    return "(bs %d 0x%s)" % (len(h) // 2, h or "0")


def lit_cursor(c):
    cur = "None" if c["err"] else "(Some %s)" % lb(c["cursor"])
    return "(CCase %s %s %s %s %s %s %s %s)" % (lb(c["attr"]), OPS[c["op"]], lb(c["id"]), lb(c["text"]), lb(c["raw"]),
                                                vlib.coq_bool(c["kind"] == "int"), cur, vlib.coq_bool(c["accepted"]))


def lit_mitem(m):
    return "(MItem %s %s)" % (lb(m["id"]), lb(m["raw"]))


def lit_merge(c):
    return "(MCase %d %s %s %s %s %s %s)" % (
        c["lim"], vlib.coq_list(c["sets"], lambda s: vlib.coq_list(s, lit_mitem)), vlib.coq_list(c["mores"], vlib.coq_bool),
        vlib.coq_bool(c["class"] == "sorted"), vlib.coq_bool(c["err"]), vlib.coq_list(c["res"], lit_mitem), vlib.coq_bool(c["more"]))


def tx(h):
    b = bytes.fromhex(h)
    return b.decode("latin-1") if all(32 <= x < 127 for x in b) else "0x" + h


def run(ctx):
    import importlib.util, os
    spec = importlib.util.spec_from_file_location("prop_C03", os.path.join(vlib.VERIF, "props", "C03.py"))
    c03 = importlib.util.module_from_spec(spec)
    spec.loader.exec_module(c03)
    binp = ctx.go_build()
    c03.gen_consts(ctx, binp)
    ctx.prove()
    model = ctx.model_ready(["Search/MergeCheck.vo"])
    nc, nm = (400, 600) if ctx.tier == "quick" else (4000, 12000)
    cursors = ctx.run_json([binp, "merge", str(nc)])
    merges = ctx.run_json([binp, "mergegen", str(nm)])
    if not model:
        ctx.tie(False)
        return
    jobs, index = [], []
    CH = 300
    for off in range(0, len(cursors), CH):
        ch = cursors[off:off + CH]
        jobs.append(("cur", PRELUDE + "Definition cases : list ccase := %s.\n" % vlib.coq_list(ch, lit_cursor),
                     {"cmodel": "cursor_model_mismatches cases", "cref": "cursor_ref_mismatches cases"}))
        index.append(("c", off))
    for off in range(0, len(merges), CH):
        ch = merges[off:off + CH]
        jobs.append(("mrg", PRELUDE + "Definition cases : list mcase := %s.\n" % vlib.coq_list(ch, lit_merge),
                     {"mref": "merge_ref_mismatches cases"}))
        index.append(("m", off))
    bad_cm, bad_cr, bad_m = set(), set(), set()
    for (kind, off), res in zip(index, ctx.coq_eval_many(jobs)):
        if res is None:
            ctx.tie(False)
            return
        if kind == "c":
            bad_cm |= {off + i for i in res["cmodel"]}
            bad_cr |= {off + i for i in res["cref"]}
        else:
            bad_m |= {off + i for i in res["mref"]}
    ctx.tie(not bad_cm)   # CalculateCursor = model calc_cursor
    ctx.tie(not bad_cr)   # rebuilt cursor = index key of the last item and is accepted by PreprocessSearchQuery
    ctx.tie(not bad_m)    # MergeSearchResults = reference over the union
    for i in sorted(bad_cm | bad_cr)[:6]:
        c = cursors[i]
        ctx.violation({"kind": "cursor", "attr": tx(c["attr"]), "op": OPS[c["op"]], "id": c["id"], "value_text": tx(c["text"]), "stored": c["raw"],
                       "CalculateCursor": "error" if c["err"] else c["cursor"], "index_key": c["key"], "accepted_by_PreprocessSearchQuery": c["accepted"],
                       "disagrees_with": [w for w, s in (("model calc_cursor", bad_cm), ("reference (index key, accepted)", bad_cr)) if i in s]})
    for i in sorted(bad_m, key=lambda i: sum(len(s) for s in merges[i]["sets"]))[:6]:
        c = merges[i]
        ctx.violation({"kind": "merge", "attribute_class": c["kind"], "lim": c["lim"], "mores": c["mores"],
                       "sets": [[(m["id"][:2] + ".." + m["id"][-2:], tx(m["text"])) for m in s] for s in c["sets"]],
                       "MergeSearchResults": {"err": c["err"], "more": c["more"], "items": [(m["id"][:2] + ".." + m["id"][-2:], tx(m["text"])) for m in c["res"]]},
                       "disagrees_with": ["reference ref_merge (sorted de-duplicated union, first lim)"]})
    hk, hs = {}, {}
    for c in cursors:
        hk["cursor:" + c["kind"]] = hk.get("cursor:" + c["kind"], 0) + 1
    for c in merges:
        hk["merge:" + c["kind"]] = hk.get("merge:" + c["kind"], 0) + 1
        hs[len(c["sets"])] = hs.get(len(c["sets"]), 0) + 1
    nontriv = {json.dumps([c["kind"], c["lim"], c["sets"]]) for c in merges if len(c["sets"]) > 1 and len(c["res"]) > 0} | \
              {json.dumps([c["attr"], c["id"], c["text"]]) for c in cursors}
    ctx.cov.update({
        "evaluations": len(cursors) + len(merges),
        "distinct_nontrivial": len(nontriv),
        "rule": "cursor cases: one item per primary attribute class (plain, numeric incl. +-(2^256-1), owner, parent, first, associate, checksum, split ID) with a value "
                "and an ID from small pools; merge cases: 2-10 objects with one value each spread over 1-4 result sets (each object in a set with p=0.6, so copies "
                "overlap), sets sorted in index order and truncated to the limit (1,2,3,1000); 8% with one reversed set (malformed stream: only absence of a crash "
                "is required). Non-trivial = merge of more than one set with a non-empty result, or any cursor case; distinct by input",
        "samples": [{"kind": c["kind"], "lim": c["lim"], "mores": c["mores"],
                     "sets": [[(m["id"][:2] + ".." + m["id"][-2:], tx(m["text"])) for m in s] for s in c["sets"]],
                     "result": [(m["id"][:2] + ".." + m["id"][-2:], tx(m["text"])) for m in c["res"]], "more": c["more"]}
                    for c in merges if len(c["sets"]) > 2][:2] +
                   [{"kind": c["kind"], "value": tx(c["text"]), "cursor": c["cursor"], "index_key": c["key"], "accepted": c["accepted"]} for c in cursors[:1]],
        "histogram_kind": hk, "histogram_sets_per_merge": hs,
        "merge_unsorted_inputs": sum(1 for c in merges if c["class"] != "sorted"),
        "traces_validated_against_impl": len(cursors) + len(merges),
    })
