"""C04 — merged search over several shards or nodes equals one search over their union (cursor + merge)."""
import json
import vlib

META = {
    "id": "C04",
    "engine": "search",
    "design_ref": "5/C04",
    "coq_targets": ["Props/Properties_C04.vo", "Search/MergeCheck.vo"],
    "coq_files": ["Gen/SearchConsts.v", "Gen/S256Consts.v", "S256/S256.v", "S256/ReadersProofs.v", "Search/Search.v", "Search/Merge.v",
                  "Search/MergeProofs.v", "Search/MergeLoop.v", "Search/MergeLoopProofs.v", "Search/MergeClasses.v", "Search/MergeCheck.v",
                  "Props/Properties_C04.v"],
    "theorems": ["C04_merge", "C04_merge_sorted", "C04_merge_int", "C04_union_spec", "C04_agree_id", "C04_agree_int", "C04_agree_text",
                 "C04_agree_oid", "C04_agree_owner", "C04_associate_absent_refuted",
                 "C04_cursor_roundtrip_int", "C04_cursor_roundtrip_partial", "C04_old_checksum_cursor_refuted"],
    "technique": "executable Gallina model of objectcore.MergeSearchResults as written (special cases, calcMaxUniqueSearchResults, the k-way loop with its "
                 "inner minimal-head selection, comparator choice per firstAttr / cmpInt, de-duplication by ID, the `more` computation) and of CalculateCursor; "
                 "Coq proofs by induction over the loop (invariant: the sets stay strictly index-ordered, the selected head is the global minimum = head of the "
                 "sorted duplicate-free union) that the merge of index-ordered pages is the first `lim` items of the union with an exact `more` flag, with the "
                 "comparator-agreement premise proved per attribute class (numeric through C05's order / parse-print theorems); proof that the rebuilt cursor is "
                 "the index key; differential correspondence: MergeSearchResults = model on generated well-formed and malformed streams, = the theorem's right-hand "
                 "side on well-formed ones, CalculateCursor = model = index key and accepted by PreprocessSearchQuery, and a real StorageEngine with 1-4 shards "
                 "against one metabase holding the union (pages, cursors, acceptance) and against the model applied to what the shards returned",
    "level_text": "partial. Proved for all inputs: (1) C04_merge -- if every input set is the first `lim` items of its shard's strictly (stored value, ID)-ordered "
                  "list with flag = 'the shard has more', an ID determines the item, and the comparator MergeSearchResults uses for this firstAttr / cmpInt "
                  "agrees with byte order of the stored values, then the model of MergeSearchResults returns exactly the first `lim` items of the sorted "
                  "duplicate-free union of the shards' lists and `more` is exact (C04_merge_sorted: same for arbitrary ordered sets); C04_union_spec characterises "
                  "that union. (2) the agreement premise per class: ID-only, numeric (C04_agree_int, via C05), text-compared attributes (C04_agree_text: plain "
                  "values outright; payload checksum / homomorphic hash / split ID only under the stated premise that hex / UUID text order equals byte order), "
                  "object-ID valued (parent, first, associate) and owner (given that DecodeString returns the stored bytes); C04_merge_int is the fully instantiated "
                  "numeric case. (3) where the premise failed: NOT_PRESENT on __NEOFS__ASSOCIATE with requested attributes (C04_associate_absent_refuted; repaired in "
                  "the callers, fix ba6590b). (4) CalculateCursor(filter, last item) = index key of the last item for every class (C04_cursor_roundtrip_int, "
                  "C04_cursor_roundtrip_partial; base58/hex/UUID round trips are premises). NOT proved: the chain over several requests (C04_chain), that each shard's "
                  "result is an index-ordered page (C03, only partly proved there), the composition inside StorageEngine.Search (modelled as engine_merge and tied, "
                  "not proved) and Server.ProcessSearch (not modelled).",
    "level_note": "partial: C04_chain and the engine / server composition are not proved. StorageEngine.Search is covered by the differential check over real shards "
                  "(vs one search over the union and vs the model applied to the shards' pages); Server.ProcessSearch (multi-node merge, goroutines, TTL, meta service) "
                  "is not modelled and not exercised -- only its call of MergeSearchResults / CalculateCursor is shared with the engine. uint16 arithmetic of the merge "
                  "is not modelled (lim and set sizes < 2^16). oid.ID / user.ID DecodeString, base58, hex, UUID codecs are parameters / premises, instantiated from "
                  "observed values in the tie. Shard error handling inside the engine (a failing shard is skipped) is not exercised. The reference single search "
                  "returns a spurious cursor + empty page for unfiltered listings when only unavailable objects follow (C03 quirk); the comparison tolerates exactly that.",
    "trusted_base": ["Coq 8.16.1 kernel, vm_compute", "models Search/MergeLoop.v and Search/Merge.v hand-written, tied by differential checks",
                     "C05 theorems (S256/*Proofs.v) used by the numeric class", "harness/cmd/search (merge.go, engine.go), hooks engine/zz_verif_engine_hooks.go, lib/vlib.py"],
    "assumptions": ["dec_b58 (enc_b58 r) = Some r, dec_hex (enc_hex r) = Some r, |enc_hex r| = 2|r|, dec_uuid (enc_uuid r) = Some r for 16-byte r (cursor theorems)",
                    "per-shard result sets are strictly sorted by (stored value, ID) and truncated to the limit with `more` set (premise Inv / pages of C04_merge; C03's statement)",
                    "copies of one object on different shards return the same first attribute (premise: an ID determines the item)",
                    "hex / UUID text order = byte order of the stored value (premise of C04_agree_text for checksum, homomorphic hash, split ID)",
                    "oid.ID / user.ID DecodeString of the returned text gives the stored bytes (premise of C04_agree_oid / C04_agree_owner)"],
}

OPS = ["M_UNSPEC", "M_EQ", "M_NE", "M_NOT_PRESENT", "M_PREFIX", "M_GT", "M_GE", "M_LT", "M_LE"]
PRELUDE = ("From NV Require Import S256.S256Check Search.Search Search.SearchCheck Search.Merge Search.MergeLoop Search.MergeCheck.\n"
           "From Coq Require Import List NArith ZArith. Import ListNotations.\nLocal Open Scope N_scope.\n")


def lb(h):
    return "(bs %d 0x%s)" % (len(h) // 2, h or "0")


def lit_cursor(c):
    cur = "None" if c["err"] else "(Some %s)" % lb(c["cursor"])
    return "(CCase %s %s %s %s %s %s %s %s)" % (lb(c["attr"]), OPS[c["op"]], lb(c["id"]), lb(c["text"]), lb(c["raw"]),
                                                vlib.coq_bool(c["kind"] == "int"), cur, vlib.coq_bool(c["accepted"]))


class Intern:
    """byte strings get a name once per coqc job (keeps the literals small)"""
    def __init__(self):
        self.names = {}

    def lb(self, h):
        if len(h) <= 8:
            return lb(h)
        if h not in self.names:
            self.names[h] = "b_%d" % len(self.names)
        return self.names[h]

    def defs(self):
        return "".join("Definition %s := Eval vm_compute in %s.\n" % (n, lb(h)) for h, n in self.names.items())


def lit_ritem(I, m):
    return "(RItem %s %s)" % (I.lb(m["id"]), I.lb(m["text"]))


def lit_loop(I, c):
    items = [m for s in (c["sets"] + (c["fulls"] or [])) for m in s]
    dec = sorted({(m["text"], m["raw"]) for m in items if m.get("dec")})
    cat = sorted({(m["id"], m["raw"]) for s in (c["fulls"] or []) for m in s})
    obs = "None" if c["err"] else "(Some (%s, %s))" % (vlib.coq_list(c["res"], lambda m: lit_ritem(I, m)), vlib.coq_bool(c["more"]))
    pair = lambda p: "(%s, %s)" % (I.lb(p[0]), I.lb(p[1]))
    sets = lambda ss: vlib.coq_list(ss or [], lambda s_: vlib.coq_list(s_, lambda m: lit_ritem(I, m)))
    return "(LCase %d %s %s %s %s %s %s %s %s %s)" % (
        c["lim"], I.lb(c["attr"]), vlib.coq_bool(c["cmpint"]), vlib.coq_list(dec, pair), vlib.coq_list(cat, pair),
        vlib.coq_bool(c["class"] == "pages"), sets(c["fulls"]), sets(c["sets"]), vlib.coq_list(c["mores"], vlib.coq_bool), obs)


B58 = "123456789ABCDEFGHJKLMNPQRSTUVWXYZabcdefghijkmnopqrstuvwxyz"


def b58decode(t):
    n = 0
    for ch in t:
        i = B58.find(ch)
        if i < 0:
            return None
        n = n * 58 + i
    body = n.to_bytes((n.bit_length() + 7) // 8, "big")
    return b"\0" * (len(t) - len(t.lstrip("1"))) + body


def first_attr_item(it):
    return {"id": it["id"], "text": it["attrs"][0] if it["attrs"] else ""}


def lit_eng(I, r, pg):
    texts = {it["attrs"][0] for s_ in pg["sets"] for it in s_ if it["attrs"]}
    dec = []
    for t in sorted(texts):
        try:
            raw = b58decode(bytes.fromhex(t).decode("ascii"))
        except UnicodeDecodeError:
            raw = None
        if raw is not None and len(raw) in (25, 32):
            dec.append((t, raw.hex()))
    fs = vlib.coq_list(r["filters"], lambda f: "(Filter %s %s %s)" % (I.lb(f[0]), OPS[f[1]], I.lb(f[2])))
    sets = vlib.coq_list(pg["sets"], lambda s_: vlib.coq_list(s_, lambda it: lit_ritem(I, first_attr_item(it))))
    obs = "(Some (%s, %s))" % (vlib.coq_list(pg["items"], lambda it: lit_ritem(I, first_attr_item(it))), vlib.coq_bool(pg["cursor"] != ""))
    return "(ECase %d %s %s %s %s %s %s)" % (r["count"], fs, vlib.coq_list(r["attrs"], I.lb),
                                              vlib.coq_list(dec, lambda p_: "(%s, %s)" % (I.lb(p_[0]), I.lb(p_[1]))),
                                              sets, vlib.coq_list(pg["mores"], vlib.coq_bool), obs)


def strip_empty(pages):
    pages = list(pages)
    while pages and not pages[-1]:
        pages.pop()
    return pages


def engine_vs_union(r):
    """StorageEngine.Search over the shards vs one search over the union (both real code)."""
    if r["pre"] != r["refpre"] or r["engerr"] or r["referr"] or r["loop"] or r["rejected"]:
        return False
    ep, rp = strip_empty([p["items"] for p in r["pages"]]), strip_empty(r["refpages"])
    if ep != rp:
        return False
    # cursors: equal to the index key the single search returns, except that the last page may (rightly) have none
    for i in range(len(ep)):
        ec, rc = r["pages"][i]["cursor"], r["refcur"][i]
        if ec != rc and not (i == len(ep) - 1 and ec == ""):
            return False
    return all(p["cursor"] == "" for p in r["pages"][len(ep):][1:])


def tx(h):
    b = bytes.fromhex(h)
    return b.decode("latin-1") if all(32 <= x < 127 for x in b) else "0x" + h


def run(ctx):
    import importlib.util, os
    spec = importlib.util.spec_from_file_location("prop_C03", os.path.join(vlib.VERIF, "props", "C03.py"))
    c03 = importlib.util.module_from_spec(spec)
    spec.loader.exec_module(c03)
    binp = ctx.go_build()
    c03.gen_consts(ctx, binp)
    ctx.prove()
    model = ctx.model_ready(["Search/MergeCheck.vo"])
    nc, nm, ne, nq = (400, 900, 8, 6) if ctx.tier == "quick" else (4000, 9000, 100, 8)
    cursors = ctx.run_json([binp, "merge", str(nc)])
    merges = ctx.run_json([binp, "mergegen", str(nm)])
    engs = ctx.run_json([binp, "enggen", str(ne), str(nq)])
    if not model:
        ctx.tie(False)
        return
    jobs, index = [], []
    CH = 300
    for off in range(0, len(cursors), CH):
        ch = cursors[off:off + CH]
        jobs.append(("cur", PRELUDE + "Definition cases : list ccase := %s.\n" % vlib.coq_list(ch, lit_cursor),
                     {"cmodel": "cursor_model_mismatches cases", "cref": "cursor_ref_mismatches cases"}))
        index.append(("c", off))
    for off in range(0, len(merges), CH):
        ch = merges[off:off + CH]
        I = Intern()
        body = "Definition cases : list lcase := %s.\n" % vlib.coq_list(ch, lambda c: lit_loop(I, c))
        jobs.append(("mrg", PRELUDE + I.defs() + body, {"lmodel": "loop_model_mismatches cases", "lref": "loop_ref_mismatches cases"}))
        index.append(("m", off))
    epages = [(ri, pi) for ri, r in enumerate(engs) for pi, pg in enumerate(r["pages"]) if not any(pg["sherr"])]
    for off in range(0, len(epages), CH):
        ch = epages[off:off + CH]
        I = Intern()
        body = "Definition cases : list ecase := %s.\n" % vlib.coq_list(ch, lambda x: lit_eng(I, engs[x[0]], engs[x[0]]["pages"][x[1]]))
        jobs.append(("eng", PRELUDE + I.defs() + body, {"emodel": "engine_model_mismatches cases"}))
        index.append(("e", off))
    bad_cm, bad_cr, bad_lm, bad_lr, bad_em = set(), set(), set(), set(), set()
    for (kind, off), res in zip(index, ctx.coq_eval_many(jobs)):
        if res is None:
            ctx.tie(False)
            return
        if kind == "c":
            bad_cm |= {off + i for i in res["cmodel"]}
            bad_cr |= {off + i for i in res["cref"]}
        elif kind == "m":
            bad_lm |= {off + i for i in res["lmodel"]}
            bad_lr |= {off + i for i in res["lref"]}
        else:
            bad_em |= {epages[off + i][0] for i in res["emodel"]}
    bad_eu = {i for i, r in enumerate(engs) if not engine_vs_union(r)}
    bad_acc = {i for i, r in enumerate(engs) if r["rejected"]}
    ctx.tie(not bad_cm)   # CalculateCursor = model calc_cursor
    ctx.tie(not bad_cr)   # rebuilt cursor = index key of the last item and is accepted by PreprocessSearchQuery
    ctx.tie(not bad_lm)   # MergeSearchResults = model merge_results (k-way loop), also on malformed streams
    ctx.tie(not bad_lr)   # MergeSearchResults = first lim of the sorted union of the shards' lists, exact `more` (RHS of C04_merge)
    ctx.tie(not bad_em)   # StorageEngine.Search over real shards = model engine_merge of what the shards returned
    ctx.tie(not bad_eu)   # StorageEngine.Search over real shards = one search over the union, page by page, cursors followed
    ctx.tie(not bad_acc)  # every cursor the engine returns is accepted on the next request
    for i in sorted(bad_cm | bad_cr)[:6]:
        c = cursors[i]
        ctx.violation({"kind": "cursor", "attr": tx(c["attr"]), "op": OPS[c["op"]], "id": c["id"], "value_text": tx(c["text"]), "stored": c["raw"],
                       "CalculateCursor": "error" if c["err"] else c["cursor"], "index_key": c["key"], "accepted_by_PreprocessSearchQuery": c["accepted"],
                       "disagrees_with": [w for w, s in (("model calc_cursor", bad_cm), ("reference (index key, accepted)", bad_cr)) if i in s]})
    short = lambda m: (m["id"][:2] + ".." + m["id"][-2:], tx(m["text"]))
    for i in sorted(bad_lm | bad_lr, key=lambda i: sum(len(s) for s in merges[i]["sets"]))[:6]:
        c = merges[i]
        ctx.violation({"kind": "merge", "attribute_class": c["kind"], "stream": c["class"], "lim": c["lim"], "mores": c["mores"],
                       "sets": [[short(m) for m in s] for s in c["sets"]],
                       "MergeSearchResults": {"err": c["err"], "more": c["more"], "items": [short(m) for m in c["res"]]},
                       "disagrees_with": [w for w, s in (("model merge_results (MergeLoop.v)", bad_lm),
                                                         ("reference: first lim of the sorted duplicate-free union, exact more", bad_lr)) if i in s]})
    for i in sorted(bad_em | bad_eu | bad_acc, key=lambda i: (engs[i]["shards"], len(engs[i]["copies"]), len(engs[i]["filters"])))[:6]:
        r = engs[i]
        ctx.violation({"kind": "engine", "shards": r["shards"], "copies_per_object": r["copies"],
                       "filters": [[tx(f[0]), OPS[f[1]], tx(f[2])] for f in r["filters"]], "attrs": [tx(a) for a in r["attrs"]], "count": r["count"],
                       "engine": {"pre": r["pre"], "error": r["engerr"], "cursor_rejected": r["rejected"], "loop": r["loop"],
                                  "pages": [[[it["id"][:2] + ".." + it["id"][-2:]] + [tx(a) for a in it["attrs"]] for it in p["items"]] for p in r["pages"]][:8]},
                       "union": {"pre": r["refpre"], "error": r["referr"],
                                 "pages": [[[it["id"][:2] + ".." + it["id"][-2:]] + [tx(a) for a in it["attrs"]] for it in p] for p in r["refpages"]][:8]},
                       "disagrees_with": [w for w, s in (("model engine_merge of the shards' pages", bad_em), ("one search over the union", bad_eu),
                                                         ("cursor acceptance on the next request", bad_acc)) if i in s]})
    hk, hs, hc, hsh = {}, {}, {}, {}
    for c in cursors:
        hk["cursor:" + c["kind"]] = hk.get("cursor:" + c["kind"], 0) + 1
    for c in merges:
        hk["merge:" + c["kind"]] = hk.get("merge:" + c["kind"], 0) + 1
        hs[len(c["sets"])] = hs.get(len(c["sets"]), 0) + 1
        hc[c["class"]] = hc.get(c["class"], 0) + 1
    for r in engs:
        hsh[r["shards"]] = hsh.get(r["shards"], 0) + 1
        k = tx(r["filters"][0][0]) if r["filters"] and r["attrs"] else ("(ID order)")
        hk["engine:" + k] = hk.get("engine:" + k, 0) + 1
    nontriv = {json.dumps([c["kind"], c["lim"], c["sets"]]) for c in merges if len(c["sets"]) > 1 and len(c["res"]) > 0} | \
              {json.dumps([c["attr"], c["id"], c["text"]]) for c in cursors} | \
              {json.dumps([r["copies"], r["filters"], r["attrs"], r["count"]]) for r in engs if r["shards"] > 1 and any(p["items"] for p in r["pages"])}
    ctx.cov.update({
        "evaluations": len(cursors) + len(merges) + len(engs),
        "distinct_nontrivial": len(nontriv),
        "rule": "cursor cases: one item per primary attribute class (plain, numeric incl. +-(2^256-1), owner, parent, first, associate, checksum, split ID) with a value "
                "and an ID from small pools; merge cases: 2-10 objects with one value each spread over 1-4 per-shard lists (membership p in {0,.3,.6,1}, so copies "
                "overlap and lists may be empty or equal), lists in index order, sets = first lim (1,2,3,5,1000) with `more`; 25% malformed streams (unsorted, wrong "
                "flags, inner duplicates, attribute not of the class, copies with different values) where only model = implementation is required; engine cases: real "
                "StorageEngine with 1-4 shards (fstree + metabase) holding 3-11 objects with p=.55 per shard (at least one), one metabase with every object once, "
                "generated queries (one filter on the primary attribute, optional others) + directed ones (NOT_PRESENT primary, ROOT, checksum, associate, split ID, "
                "numeric >= min), page sizes 1,2,3,1000, cursors followed through PreprocessSearchQuery. Non-trivial = merge of more than one set with a non-empty "
                "result, any cursor case, or a multi-shard engine run that returns items; distinct by input",
        "samples": [{"kind": c["kind"], "stream": c["class"], "lim": c["lim"], "mores": c["mores"], "sets": [[short(m) for m in s] for s in c["sets"]],
                     "result": [short(m) for m in c["res"]], "more": c["more"]} for c in merges if len(c["sets"]) > 2][:1] +
                   [{"engine_shards": r["shards"], "copies": r["copies"], "filters": [[tx(f[0]), OPS[f[1]], tx(f[2])] for f in r["filters"]],
                     "attrs": [tx(a) for a in r["attrs"]], "count": r["count"],
                     "pages": [[it["id"][:2] + ".." + it["id"][-2:] for it in p["items"]] for p in r["pages"]]} for r in engs if r["shards"] > 2 and len(r["pages"]) > 2][:1] +
                   [{"kind": c["kind"], "value": tx(c["text"]), "cursor": c["cursor"], "index_key": c["key"], "accepted": c["accepted"]} for c in cursors[:1]],
        "histogram_kind": hk, "histogram_sets_per_merge": hs, "histogram_merge_stream": hc, "histogram_engine_shards": hsh,
        "engine_requests": sum(len(r["pages"]) for r in engs), "engine_multi_page_runs": sum(1 for r in engs if len(r["pages"]) > 1),
        "traces_validated_against_impl": len(cursors) + len(merges) + len(engs),
    })
