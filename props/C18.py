"""C18 — rebuilding metadata from blobs gives the same object statuses in any blob order."""
import importlib.util
import json
import os

import vlib


def _load(name):
    spec = importlib.util.spec_from_file_location(name, os.path.join(os.path.dirname(os.path.abspath(__file__)), name + ".py"))
    m = importlib.util.module_from_spec(spec)
    spec.loader.exec_module(m)
    return m


M = _load("_meta")
R = _load("_resync")

K_EPOCH0 = "c18-expired-lock-tombstone-epoch0"
K_LOCK_UNINDEXED = "c18-expired-lock-tombstone-lock-unindexed"
K_TOMB_EXP = "c18-tombstoned-expired-target"
K_CHILD = "c18-child-after-parent-tombstone"

META = {
    "id": "C18",
    "engine": "resync",
    "design_ref": "5/C18",
    "coq_targets": ["Props/Properties_C18.vo", "Resync/Check.vo"],
    "coq_files": ["Gen/MetaConsts.v", "Gen/ResyncConsts.v", "Meta/SMap.v", "Meta/Model.v", "Meta/Spec.v", "Meta/Check.v",
                  "Meta/SMapProofs.v", "Meta/StatusProofs.v", "Meta/WfProofs.v", "Resync/Model.v", "Resync/Check.v",
                  "Resync/BatchProofs.v", "Resync/FlatProofs.v", "Resync/KnownProofs.v", "Resync/GcProofs.v", "Props/Properties_C18.v"],
    "theorems": ["C18_batching_irrelevant", "C18_order_independent_partial", "C18_status_follows_from_blobs_partial",
                 "C18_no_blob_lost_partial", "C18_conflict_is_order_dependent", "C18_live_conflict_is_order_dependent", "C18_expired_lock_unindexed_refuted",
                 "C18_tombstoned_expired_refuted", "C18_child_after_tombstone_refuted", "C18_gc_reclaims", "C18_gc_listed"],
    "technique": "Coq proof (induction over the enumeration order with an order-free characterisation of the rebuilt bucket; invariant of "
                 "put for the garbage marks) over the shared metabase model + differential correspondence with meta.DB.ResyncFromBlobstor on a "
                 "real shard (real fstree, permuting common.Storage wrapper, all permutations of small blob sets, blob sets of resync_batch_size + k objects with a "
                 "tombstone/lock group at the batch boundary, the shard's own GC pass)",
    "level_text": "C18_order_independent_partial: for every rebuild epoch, query epoch, batch size and every two enumeration orders of a blob set of "
                  "regular/link objects, tombstones and locks without family relations that satisfies the boolean premise flat_ok (no target with both a "
                  "lock and a tombstone, no lock of a non-regular / tombstone of a tombstone or lock, distinct addresses) and no_tomb_exp (no tombstoned "
                  "blob expired at the query epoch), the rebuild succeeds and every address gets the same reference status (Meta/Spec.v), namely "
                  "status_of_blobs, a function of the blob SET only. C18_no_blob_lost_partial (same premise flat_ok): in every order and for the generated batch "
                  "size every tombstone, every lock and every object not removed by a tombstone of the set is indexed with its own header (no blob is lost "
                  "between batches). The excluded classes are exhibited as order-dependent by vm_compute witnesses "
                  "(C18_conflict_is_order_dependent: expired lock + tombstone rebuilt at epoch 0, the production configuration; ..._refuted theorems). "
                  "C18_gc_reclaims (all blob sets, all orders, with relations): after a rebuild every target of an indexed tombstone carries a garbage "
                  "mark, and C18_gc_listed: GetGarbage with a sufficient limit lists every marked ID. The model is tied on every run: every permutation "
                  "of blob sets up to 5-6 objects (random orders above) through a real shard; dumped bucket content, Exists (both modes), IsLocked, "
                  "GetGarbage per order compared with the model, statuses compared across orders and with status_of_blobs, blobs left by the shard's GC "
                  "compared with the removed set; on every run also sets of resync_batch_size + k blobs (k = 1, 2, 3, ...; the constant is read from the compiled "
                  "code) with a target/tombstone/lock group at enumeration positions B-2 .. B+1, last and the mirrored ones, in list order, reversed and "
                  "rotated, where Exists on EVERY blob address is compared with the order-free reference (status_of_blobs + must_know).",
    "level_note": "partial: the order-independence theorem covers blob sets without family relations (split children, EC parts are tied and compared "
                  "across orders on every run, not proved) and excludes four classes that the real code shows to be order-dependent (known findings "
                  "c18-*); the full-strength statement is refuted by witnesses. Modelled, not verified: bbolt (ordered map, atomic transactions), "
                  "fstree enumeration (any order, each blob once), object (un)marshalling. The batch size constant is regenerated from the compiled code; "
                  "C18_batching_irrelevant shows it only matters when a batch aborts. Runtime behaviour not modelled: concurrent writers during a rebuild, "
                  "iteration errors (unreadable blobs are skipped by the real code).",
    "trusted_base": ["Coq 8.16.1 kernel, vm_compute", "models Meta/Model.v, Resync/Model.v hand-written, tied by differential check",
                     "harness/cmd/resync, hooks zz_verif_meta.go zz_verif_resync.go, props/_meta.py, lib/vlib.py", "bbolt modelled as an ordered map"],
    "assumptions": ["the blob storage enumerates every stored object exactly once (distinct addresses)",
                    "expiration attributes are canonical decimal uint64"],
}

PRELUDE = ("From Coq Require Import List NArith ZArith.\nImport ListNotations.\n"
           "From NV Require Import Meta.SMap Meta.Model Meta.Spec Meta.Check Resync.Model Resync.Check.\nLocal Open Scope N_scope.\n")


def plan(ctx):
    if ctx.tier == "quick":
        return [("corpus", 5, 5, 0), ("flat", 24, 5, 4), ("flat", 1, 6, 4), ("hist", 18, 5, 4), ("full", 14, 5, 4), ("large", 3, 0, 1)]
    return [("corpus", 5, 5, 0), ("flat", 300, 5, 8), ("flat", 24, 6, 8), ("hist", 200, 5, 8), ("hist", 12, 6, 8), ("full", 160, 5, 8),
            ("full", 12, 6, 8), ("big", 1, 1100, 0), ("large", 8, 0, 2)]


def perm_views(p):
    flat = lambda ll: [x for l in ll for x in l]
    g = [len(p["garbage"])]
    for b in p["garbage"]:
        g += [b[0], len(b) - 1] + b[1:]
    return [flat(p["exists"]), flat(p["existsi"]), flat(p["locked"]), g]


MASK = (1 << 61) - 1


def r_hash(xs):
    """= Resync/Check.v r_hash"""
    acc = 7
    for x in xs:
        acc = (acc * 1000003 + x + 1) & MASK
    return acc


def opt_code(x, none=0):
    return 0 if x == none else x + 1


def enc_state(q, cnrs):
    """= Meta/Check.v enc_state, computed on the dump of the real database"""
    present = [c for c in cnrs if c["present"]]
    out = [q, len(present)]
    for c in present:
        out += [c["c"], 1 if c["cgc"] else 0, len(c["objs"])]
        for o in c["objs"]:
            out += [o["id"], o["t"], o["sz"], opt_code(o["exp"], -1), opt_code(o["as"]), opt_code(o["pid"]),
                    opt_code(o["fi"]), opt_code(o["sp"]), opt_code(o["er"], -1), opt_code(o["ei"], -1),
                    1 if o["phy"] else 0, 1 if o["root"] else 0]
        out.append(len(c["garb"]))
        for g in c["garb"]:
            out += [g[0], 0 if g[1] == 0 else 1]
        out += list(c["cnt"])
    return out


def perm_digest(c, p):
    fl = enc_state(c["q"], p["cnrs"])
    for v in perm_views(p):
        fl.append(len(v))
        fl += v
    return r_hash(fl)


def is_all_perms(c):
    import itertools
    n = len(c["blobs"])
    ps = c["perms"]
    if n > 7 or len(ps) != [1, 1, 2, 6, 24, 120, 720, 5040][n]:
        return False
    return all(tuple(p["ord"]) == t for p, t in zip(ps, itertools.permutations(range(n))))


LARGE = 100   # blob sets above this size: own coqc job, compact orders, compact reports


def coq_order(ord_):
    """a long enumeration order as a Coq expression (identity / reversed / rotation), else a literal"""
    n = len(ord_)
    if n > 20:
        if ord_ == list(range(n)):
            return "(seq 0 %d)" % n
        if ord_ == list(range(n - 1, -1, -1)):
            return "(rev (seq 0 %d))" % n
        k = ord_[0]
        if ord_ == list(range(k, n)) + list(range(k)):
            return "(seq %d %d ++ seq 0 %d)" % (k, n - k, k)
    return "[%s]%%nat" % "; ".join(str(i) for i in ord_)


def short_ord(o):
    return o if len(o) <= 20 else coq_order(o)


def coq_case(c):
    blobs = "; ".join("(%d, %s)" % (o["c"], M.coq_obj(o)) for o in c["blobs"])
    if is_all_perms(c):
        spec = "PAll"
    else:
        spec = "(PList [%s])" % "; ".join(coq_order(p["ord"]) for p in c["perms"])
    return "(mkCase %d %d [%s] %s)" % (c["e"], c["q"], blobs, spec)


def evaluate(ctx, cases):
    """-> dict model/ref/gc -> set((case, perm)), classes list, ref_all lists; None on failure"""
    # balance chunks by number of orders; every large case is a job of its own
    large = [i for i in range(len(cases)) if len(cases[i]["blobs"]) > LARGE]
    order = sorted((i for i in range(len(cases)) if len(cases[i]["blobs"]) <= LARGE), key=lambda i: -len(cases[i]["perms"]))
    nch = min(8 if ctx.tier == "quick" else vlib.NCPU, max(1, len(cases)))   # every coqc pays the library load
    chunks = [[] for _ in range(nch)]
    load = [0] * nch
    for i in order:
        k = load.index(min(load))
        chunks[k].append(i)
        load[k] += len(cases[i]["perms"]) + 5
    chunks = [ch for ch in chunks if ch] + [[i] for i in large]
    jobs = []
    for ch in chunks:
        text = PRELUDE + "".join("Definition k%d : case := %s.\n" % (j, coq_case(cases[i])) for j, i in enumerate(ch))
        text += "Definition cases : list case := [%s].\n" % "; ".join("k%d" % j for j in range(len(ch)))
        jobs.append(("c18", text, {"dig": "model_digests cases", "ref": "ref_mismatches cases", "gc": "gc_mismatches cases",
                                   "cls": "case_classes cases", "all": "ref_alls cases"}))
    out = {"model": set(), "ref": set(), "gc": set()}
    classes = [None] * len(cases)
    refall = [None] * len(cases)
    for ch, res in zip(chunks, ctx.coq_eval_many(jobs)):
        if res is None:
            return None, None, None
        want = [(i, j, perm_digest(cases[i], p) * 2 + (1 if p["ok"] else 0)) for i in ch for j, p in enumerate(cases[i]["perms"])]
        if len(want) != len(res["dig"]):
            ctx.notes.append("model returned %d digests for %d orders" % (len(res["dig"]), len(want)))
            return None, None, None
        for (i, j, w), d in zip(want, res["dig"]):
            if w != d:
                out["model"].add((i, j))
        for k in ("ref", "gc"):
            for code in res[k]:
                out[k].add((ch[code // 100000], code % 100000))
        for j, cl in enumerate(res["cls"]):
            classes[ch[j]] = cl
        pos = 0
        for i in ch:                      # ref_alls: per case [length, items...]
            n = res["all"][pos]
            refall[i] = res["all"][pos + 1:pos + 1 + n]
            pos += 1 + n
    return out, classes, refall


# ---------------------------------------------------------------- classification of order dependence (implementation only)

def rel(o):
    return bool(o.get("par") or o["pid"] or o["fi"] or o["sp"] or o["er"] >= 0 or o["ei"] >= 0)


def parent_id(o):
    return o["par"]["id"] if o.get("par") else o["pid"]


def explain(c):
    """(affected addresses, keys, excluded) for the blob set of case c"""
    B = c["blobs"]
    e, q = c["e"], c["q"]
    aff, keys = set(), set()
    excluded = False
    tomb = {}
    lock = {}
    for o in B:
        if o["t"] == 1 and o["as"]:
            tomb.setdefault((o["c"], o["as"]), []).append(o)
        if o["t"] == 2 and o["as"]:
            lock.setdefault((o["c"], o["as"]), []).append(o)
    for tgt in tomb:
        if tgt in lock:
            ls = lock[tgt]
            aff |= {tgt} | {(o["c"], o["id"]) for o in ls + tomb[tgt]}
            exp_q = all(0 <= l["exp"] < q for l in ls)
            exp_e = all(0 <= l["exp"] < e for l in ls)
            if e == 0 and exp_q:
                keys.add(K_EPOCH0)
            elif e > 0 and exp_e:
                keys.add(K_LOCK_UNINDEXED)
            else:
                excluded = True    # live lock and tombstone: outside the premise, not produced by normal operation
    for o in B:
        if (o["c"], o["id"]) in tomb and 0 <= o["exp"] < q:
            aff.add((o["c"], o["id"]))
            keys.add(K_TOMB_EXP)
    rels = [o for o in B if rel(o)]
    if rels:
        fam = {(o["c"], o["id"]) for o in rels} | {(o["c"], parent_id(o)) for o in rels if parent_id(o)} | \
              {(o["c"], o["fi"]) for o in rels if o["fi"]}
        if any(t in fam for t in tomb):
            aff |= fam
            keys.add(K_CHILD)
            # a lock of a family member whose family is tombstoned is the lock/tombstone conflict again, through
            # the status a child inherits from its parent: whichever is read first wins (outside the premise)
            for tgt, ls in lock.items():
                if tgt in fam:
                    aff |= {tgt} | {(o["c"], o["id"]) for o in ls}
                    excluded = True
    # blob sets on which the rebuild may abort (lock of a non-regular object, tombstone of a tombstone / lock)
    typ = {(o["c"], o["id"]): o["t"] for o in B}
    for o in B:
        t = typ.get((o["c"], o["as"]))
        if (o["t"] == 2 and t in (1, 2, 3)) or (o["t"] == 1 and t in (1, 2)) or (o["t"] in (1, 2) and not o["as"]):
            excluded = True
    return aff, keys, excluded


def diff_addrs(c):
    """addresses whose Exists / IsLocked / garbage membership / left-over blob differs between orders"""
    res = set()
    ps = c["perms"]
    for name in ("exists", "existsi", "locked"):
        for ci in range(len(ps[0][name])):
            for oi in range(len(ps[0][name][ci])):
                if len({p[name][ci][oi] for p in ps}) > 1:
                    res.add((ci + 1, oi + 1))
    gs = [{(b[0], x) for b in p["garbage"] for x in b[1:]} for p in ps]
    for g in gs:
        res |= g ^ gs[0]
    rs = [{tuple(x) for x in p["remain"]} for p in ps if p.get("gcrun")]
    for r in rs:
        res |= r ^ rs[0]
    return res


def unreclaimed(c, p):
    """blobs that an indexed tombstone removes (directly or through the parent) and the GC left behind"""
    if not p.get("gcrun"):
        return []
    left = {tuple(x) for x in p["remain"]}
    stored_tombs = {(d["c"], o["as"]) for d in p["cnrs"] for o in d["objs"] if o["t"] == 1 and o["as"]}
    bad = []
    for o in c["blobs"]:
        a = (o["c"], o["id"])
        removed = a in stored_tombs or (parent_id(o) and (o["c"], parent_id(o)) in stored_tombs)
        cls = p["exists"][o["c"] - 1][o["id"] - 1] if 1 <= o["id"] <= 10 and o["c"] <= 2 else None
        if removed and cls not in (1, 4) and a in left:   # available (lock-protected) and expired objects are not the GC's to take here
            bad.append(a)
    return bad


def case_input(c, perms=None):
    return {"e": c["e"], "q": c["q"], "blobs": c["blobs"], "perms": [p["ord"] for p in (perms if perms is not None else c["perms"])]}


BATCH = {}


def run(ctx):
    binp = ctx.go_build()
    consts, _ = R.gen_consts(ctx, binp)
    BATCH["b"] = consts["resync_batch_size"]
    ctx.prove()
    if not ctx.model_ready(["Resync/Check.vo"]):
        ctx.tie(False)
        return
    cases = []
    if ctx.replay:
        rp = json.load(open(ctx.replay))
        inp = [v["case"] for v in rp.get("violations", []) if "case" in v]
        if inp:
            cases = ctx.run_json([binp, "c18replay"], input="\n".join(json.dumps(x) for x in inp) + "\n")
    else:
        for (profile, n, maxall, nrand) in plan(ctx):
            part = ctx.run_json([binp, "c18", profile, str(n), str(maxall), str(nrand)], timeout=3000,
                                env={"VERIF_SEED": str(ctx.seed + (1000 if maxall == 6 else 0))})
            cases += part
    # the harness must have rebuilt from every blob (an unreadable blob is silently skipped by the real code)
    vacuous = [c for c in cases if any(p["itererrs"] for p in c["perms"])]
    ctx.tie(not vacuous)
    if vacuous:
        ctx.notes.append("harness blobs were rejected by the rebuild (iteration errors): check is vacuous")
    res, classes, refall = evaluate(ctx, cases)
    if res is None:
        ctx.tie(False)
        return
    dump_bad = {(i, j) for i, c in enumerate(cases) for j, p in enumerate(c["perms"]) if any(d["bad"] for d in p["cnrs"])}
    model_bad = res["model"] | dump_bad
    ctx.tie(not model_bad)            # implementation = model for every order (state, views, success)
    ctx.tie(not res["ref"])           # premise-satisfying sets: every order gives status_of_blobs
    ctx.tie(not res["gc"])            # targets of indexed tombstones are reported by GetGarbage

    # premise-satisfying sets: Exists on the address of EVERY blob after every order = the order-free reference
    # (status_of_blobs, and no blob lost: C18_no_blob_lost_partial), implementation against reference directly
    all_bad = {}
    for i, c in enumerate(cases):
        ra = refall[i]
        if not ra:
            continue
        for j, p in enumerate(c["perms"]):
            got = p.get("all")
            if got is None or len(got) != len(ra):
                all_bad[(i, j)] = [-1]
                continue
            bad = [b for b, (cl, r) in enumerate(zip(got, ra)) if cl != r // 2]
            if bad:
                all_bad[(i, j)] = bad
    ctx.tie(not all_bad)

    viol = 0
    seen_case = set()
    for (i, j) in sorted(all_bad):
        c = cases[i]
        p = c["perms"][j]
        ra = refall[i]
        if viol >= 4 or (i in seen_case and len(c["blobs"]) > LARGE):
            continue
        seen_case.add(i)
        ctx.violation({"case": case_input(c, [p]),
                       "what": "after this enumeration order the rebuilt metabase reports a blob with a status different from the one that "
                               "follows from the stored blobs (class 0 = unknown to the metabase: the blob was lost by the rebuild)",
                       "batch_size": BATCH.get("b"),
                       "wrong": [{"blob_index": b, "position_in_order": p["ord"].index(b) if b >= 0 else None,
                                  "blob": c["blobs"][b] if b >= 0 else None,
                                  "impl_exists_class": p["all"][b] if b >= 0 and p.get("all") else None,
                                  "reference_class": ra[b] // 2 if b >= 0 else None, "must_be_known": bool(ra[b] % 2) if b >= 0 else None}
                                 for b in all_bad[(i, j)][:8]],
                       "known_to_impl": sum(1 for x in (p.get("all") or []) if x != 0),
                       "must_be_known_by_reference": sum(r % 2 for r in ra), "blobs": len(c["blobs"])})
        viol += 1
    for (i, j) in sorted(model_bad)[:6]:
        c = cases[i]
        if len(c["blobs"]) > LARGE:
            if (i, j) in all_bad or i in seen_case:
                continue              # reported above against the reference
            seen_case.add(i)
            p = c["perms"][j]
            ctx.violation({"case": case_input(c, [p]), "what": "model and implementation disagree after this enumeration order (large set)",
                           "impl": {"ok": p["ok"], "indexed": sum(len(d["objs"]) for d in p["cnrs"]), "exists": p["exists"],
                                    "locked": p["locked"], "garbage": p["garbage"]}})
            viol += 1
            continue
        full = ctx.coq_eval_lists("c18full", PRELUDE + "Definition k : case := %s.\n" % coq_case(dict(c, perms=[c["perms"][j]])),
                                  {"m": "model_full k [%s]%%nat" % "; ".join(str(x) for x in c["perms"][j]["ord"])})
        p = c["perms"][j]
        ctx.violation({"case": case_input(c, [p]), "what": "model and implementation disagree after this enumeration order",
                       "impl": {"ok": p["ok"], "state": [d for d in p["cnrs"] if d["present"]], "exists": p["exists"],
                                "existsi": p["existsi"], "locked": p["locked"], "garbage": p["garbage"]},
                       "model_ok_state_views": full["m"] if full else None})
        viol += 1
    for (i, j) in sorted(res["ref"] | res["gc"])[:4]:
        c = cases[i]
        ctx.violation({"case": case_input(c, [c["perms"][j]]), "what": "reference status_of_blobs / garbage listing violated",
                       "class": classes[i]})
        viol += 1

    # order dependence of the implementation itself
    order_dep_unknown = 0
    stats = {"order_dependent_cases": 0, "excluded_by_premise": 0, "known": {}}
    seen_keys = set()
    for i, c in enumerate(cases):
        if len(c["perms"]) < 2:
            continue
        d = diff_addrs(c)
        oks = {p["ok"] for p in c["perms"]}
        unrec = sorted({a for p in c["perms"] for a in unreclaimed(c, p)})
        if not d and len(oks) == 1 and not unrec:
            continue
        stats["order_dependent_cases"] += 1
        aff, keys, excluded = explain(c)
        unexplained = (d | set(unrec)) - aff
        if classes[i] == 0 or (unexplained and not excluded) or (len(oks) > 1 and not excluded) or (not keys and not excluded):
            order_dep_unknown += 1
            if len(c["blobs"]) > LARGE and i in seen_case:
                continue              # this large set is already reported with a failing order
            ps = c["perms"]
            # two orders that differ
            key = lambda p: json.dumps([p["exists"], p["existsi"], p["locked"], p["garbage"], p.get("remain"), p["ok"]])
            a = ps[0]
            b = next((p for p in ps if key(p) != key(a)), ps[-1])
            ctx.violation({"case": case_input(c, [a, b]), "what": "statuses / garbage / reclaimed blobs depend on the enumeration order",
                           "differs_at": sorted(d), "unreclaimed": unrec, "premise_class": classes[i],
                           "order_a": {k: short_ord(a[k]) if k == "ord" else a[k] for k in ("ord", "ok", "exists", "locked", "garbage", "remain") if k in a},
                           "order_b": {k: short_ord(b[k]) if k == "ord" else b[k] for k in ("ord", "ok", "exists", "locked", "garbage", "remain") if k in b}})
            continue
        if excluded and not keys:
            stats["excluded_by_premise"] += 1
            continue
        for k in keys:
            stats["known"][k] = stats["known"].get(k, 0) + 1
            if k in seen_keys:
                continue
            seen_keys.add(k)
            ps = c["perms"]
            keyf = lambda p: json.dumps([p["exists"], p["locked"], p["garbage"], p.get("remain")])
            a = ps[0]
            b = next((p for p in ps if keyf(p) != keyf(a)), ps[-1])
            ctx.violation({"case": case_input(c, [a, b]), "history": c.get("hist"), "differs_at": sorted(d), "unreclaimed": unrec,
                           "order_a": {k2: a[k2] for k2 in ("ord", "exists", "locked", "garbage", "remain") if k2 in a},
                           "order_b": {k2: b[k2] for k2 in ("ord", "exists", "locked", "garbage", "remain") if k2 in b}}, key=k)
    ctx.tie(order_dep_unknown == 0)   # outside the excluded classes the implementation is order-independent and GC reclaims

    nperm = sum(len(c["perms"]) for c in cases)
    outcomes = set()
    prof = {}
    sizes = {}
    clh = {}
    for i, c in enumerate(cases):
        prof[c["profile"]] = prof.get(c["profile"], 0) + 1
        sizes[len(c["blobs"])] = sizes.get(len(c["blobs"]), 0) + 1
        clh[str(classes[i])] = clh.get(str(classes[i]), 0) + 1
        for p in c["perms"]:
            if len({x for row in p["exists"] for x in row} - {0}) >= 2:
                outcomes.add(perm_digest(c, p))
    th = {}
    for c in cases:
        for o in c["blobs"]:
            k = ["regular", "tombstone", "lock", "link"][o["t"]] + ("+exp" if o["exp"] >= 0 else "") + ("+rel" if rel(o) else "")
            th[k] = th.get(k, 0) + 1
    sample = next((c for c in cases if c["profile"] == "hist" and len(c["perms"]) > 2), cases[0] if cases else None)
    ctx.cov.update({
        "evaluations": nperm,
        "distinct_nontrivial": len(outcomes),
        "rule": "one evaluation = one rebuild of a real shard's metabase from a real fstree in one enumeration order, observed (bucket dump, "
                "Exists both modes, IsLocked for 2x10 addresses, GetGarbage; for four orders per case also the blobs left by the shard's GC) and "
                "compared with the model; blob sets from one splitmix64 stream (VERIF_SEED): flat = random regular/tombstone/lock/link sets over 2 "
                "containers x 8 IDs (a third repaired to satisfy the theorem's premise, a third forced lock+tombstone conflicts), hist = the objects a real "
                "metabase accepted in a normal operation history with advancing epochs, full = split chains / EC parts with embedded parent headers; "
                "large = resync_batch_size + k blobs (k small, batch size read from the compiled code): tiny regular fillers with a few tombstones/locks "
                "and a group X, T(X), Y, L(Y), Z placed at and around the batch boundary of the enumeration, in list order, reversed and rotated; "
                "after every order Exists on EVERY blob address is compared with the order-free reference (status_of_blobs, no blob lost); "
                "rebuild epoch 0 (production) or the real epoch; ALL permutations for sets up to 5 (a few up to 6) blobs, random orders above; "
                "distinct = digests of (state, views); non-trivial = at least two different non-absent Exists classes",
        "cases": len(cases),
        "profile_histogram": prof,
        "blob_set_size_histogram": {str(k): v for k, v in sorted(sizes.items())},
        "premise_class_histogram": clh,
        "blob_type_histogram": th,
        "rebuild_epoch_histogram": {"epoch0": sum(1 for c in cases if c["e"] == 0), "real": sum(1 for c in cases if c["e"] != 0)},
        "order_dependence": stats,
        "resync_batch_size": BATCH.get("b"),
        "large_cases": [{"blobs": len(c["blobs"]), "orders": len(c["perms"]),
                         "group_position_minus_batch_size": {["X", "T(X)", "Y", "L(Y)", "Z"][o["id"] - 1]: k - BATCH.get("b", 0)
                                                             for k, o in enumerate(c["blobs"]) if o["id"] <= 5},
                         "first_of_rotation": [p["ord"][0] for p in c["perms"][2:]]}
                        for c in cases if c["profile"] == "large"],
        "every_blob_checked_against_reference": sum(len(r) * len(c["perms"]) for c, r in zip(cases, refall) if r),
        "traces_validated_against_impl": nperm,
        "samples": [{"e": sample["e"], "q": sample["q"], "blobs": sample["blobs"], "history": sample.get("hist"),
                     "first_order": {k: sample["perms"][0][k] for k in ("ord", "ok", "exists", "locked", "garbage")}}] if sample else [],
    })
