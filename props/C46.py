"""C46 — restoring a shard dump reproduces exactly the dumped objects (any chunking of the reader)."""
import hashlib
import json
import os
import re
import vlib

META = {
    "id": "C46",
    "engine": "shard",
    "design_ref": "5/C46",
    "coq_targets": ["Props/Properties_C46.vo", "Shard/DumpCheck.vo"],
    "coq_files": ["Gen/ShardDumpConsts.v", "Shard/Dump.v", "Shard/DumpProofs.v", "Shard/DumpCheck.v", "Props/Properties_C46.v"],
    "theorems": ["C46_roundtrip", "C46_roundtrip_chunked", "C46_framed", "C46_corrupt_skipped", "C46_corrupt_reported",
                 "C46_bad_magic", "C46_single_read_refuted"],
    "technique": "Coq proof (induction over the record list and over the reader's chunk list) about a Gallina transcription of "
                 "Shard.Dump's format and of Shard.Restore reading from an arbitrary io.Reader modelled as a list of chunks; "
                 "tied to the Go code on every run by dumping/restoring real shards through short-read readers and evaluating "
                 "the model and the theorem right-hand sides on the same streams with vm_compute; dump magic regenerated from the source",
    "level_text": "C46_roundtrip: for every object list, every reader whose chunks concatenate to the dump and either ignoreErrors, the "
                  "model of Restore delivers exactly the dumped byte strings, in order, counts them all, no error. C46_framed / "
                  "C46_corrupt_skipped / C46_corrupt_reported: any well-framed stream with damaged bodies is skipped-and-counted or "
                  "reported exactly as ignoreErrors says, independent of chunking. C46_bad_magic. C46_single_read_refuted: the code "
                  "before the repair (single Read for the body) does not have the property. Unbounded (all lists, all chunkings).",
    "level_note": "Proved about the hand-written model Shard/Dump.v (restore = transcription of restore.go after the io.ReadFull repair), "
                  "tied differentially (Dump bytes, Restore count/failCount/error class, target shard contents as a set of byte strings) "
                  "on random shard contents with/without write-cache, random chunkings incl. 1-byte and empty reads and EOF returned "
                  "together with data, and random corruption; objects at the size-class boundaries (encoded size 4 KiB, 64 KiB, 1 MiB and other powers of two, -5..+1 bytes) "
                  "are compared byte-exactly inside Coq as well: they carry low-entropy payloads and the real bytes written by Shard.Dump / stored by Restore are passed as a lossless "
                  "run-length literal (DumpCheck.unrle), nothing about them is evaluated outside Coq except the driver's equality record = object put. Modelled, not verified: object.Unmarshal and Shard.Put are abstract "
                  "functions (unm, sink) instantiated per case from an oracle table measured on the real code; the storage of the bytes "
                  "handed to Put (covered by the set comparison of the target shard's contents only in the tie). partial: streams whose "
                  "framing itself is damaged (size fields, truncation) are covered by the model-vs-implementation tie only, no theorem; "
                  "readers returning data together with a non-EOF error are not modelled; engine.DumpShard/RestoreShard are thin wrappers and are not driven.",
    "trusted_base": ["Coq 8.16.1 kernel, vm_compute", "model Shard/Dump.v hand-written, tied by differential check",
                     "harness/cmd/shard (chunk reader, oracle table for Unmarshal/Put), lib/vlib.py"],
    "assumptions": ["len(object) < 2^32 (size field is uint32; Go truncates silently)",
                    "object.Unmarshal and Shard.Put are deterministic functions of the record bytes (unm, sink); roundtrip premise: every dumped object decodes and Put accepts it",
                    "the reader obeys the io.Reader contract: returns at most len(p) bytes, in stream order, EOF only at the end"],
}


def hx(s):
    return bytes.fromhex(s)


def stream_hex(c):
    return c["dump"] if c["same"] else c["stream"]


RUN = re.compile(rb"(.)\1{47,}", re.S)


def rle_bytes(bs):
    """Coq term for the byte string: a plain literal, or `unrle [...]` (DumpCheck.v) when it
    has long runs of one byte (lossless; the size-class objects have low-entropy payloads)."""
    if len(bs) < 256:
        return vlib.coq_bytes(bs)
    segs, pos = [], 0
    for m in RUN.finditer(bs):
        if m.start() > pos:
            segs.append("Lit " + vlib.coq_bytes(bs[pos:m.start()]))
        segs.append("Rep %d %d" % (m.end() - m.start(), bs[m.start()]))
        pos = m.end()
    if not segs:
        return vlib.coq_bytes(bs)
    if pos < len(bs):
        segs.append("Lit " + vlib.coq_bytes(bs[pos:]))
    return "(unrle [" + "; ".join(segs) + "])"


def case_literal(c):
    """Bodies are given to Coq as slices of the dump / stream literal (parsing long
    literals is what costs time), plus `extra` byte strings found nowhere in them."""
    tbl, idx, extra = [], {}, []
    stream = hx(stream_hex(c))

    def ix(ent):
        if ent not in idx:
            idx[ent] = len(tbl)
            tbl.append(ent)
        return idx[ent]
    by_bytes = {}
    for (off, ln) in c["recs"] + [[e["off"], e["len"]] for e in c["oracle"]]:
        by_bytes.setdefault(stream[off:off + ln], (1, off, ln))
    dumprecs = [ix((0, off, ln)) for (off, ln) in c["dump_recs"]]
    recs = [ix(by_bytes[stream[off:off + ln]]) for (off, ln) in c["recs"]]
    oracle = [(ix(by_bytes[stream[e["off"]:e["off"] + e["len"]]]), e["u"], e["s"]) for e in c["oracle"]]
    stored = []
    for h in c["stored"]:
        b = hx(h)
        if b in by_bytes:
            stored.append(ix(by_bytes[b]))
        else:
            extra.append(b)
            stored.append(ix((2, len(extra) - 1, 0)))
    streaml = "None" if c["same"] else "(Some %s)" % rle_bytes(stream)
    return "(mkCase %s %s %s %s %d %d %s %s %s %s %s %d %d %d %s)" % (
        vlib.coq_list(tbl, lambda e: "(%d, %d, %d)" % e), vlib.coq_list(extra, rle_bytes),
        vlib.coq_list(dumprecs), rle_bytes(hx(c["dump"])), c["dump_count"], c["kind"],
        vlib.coq_list(recs), streaml, vlib.coq_list(c["sizes"]), vlib.coq_bool(c["ign"]),
        vlib.coq_list(oracle, lambda e: "(%d, %d, %d)" % (e[0], e[1], e[2])),
        c["count"], c["fail"], c["err"], vlib.coq_list(stored))


def dump_lists_put_objects(c):
    """every record of the dump is byte-for-byte one of the objects put, every object is there"""
    d = hx(c["dump"])
    if c["dump_err"] or -1 in c["perm"] or len(c["perm"]) != len(c["dump_recs"]):
        return False
    if set(c["perm"]) != set(range(len(c["objs"]))):
        return False
    return all(d[off:off + ln] == hx(c["objs"][p]) for p, (off, ln) in zip(c["perm"], c["dump_recs"]))


def size_hist(cases):
    h = {}
    for c in cases:
        for sz in c.get("obj_sizes", []):
            b = "<256" if sz < 256 else "256-4090" if sz < 4091 else "4 KiB-5..+1" if sz <= 4097 else "4098-65530" if sz < 65531 else \
                "64 KiB-5..+1" if sz <= 65537 else "65538-1048570" if sz < 1048571 else "1 MiB-5..+1" if sz <= 1048577 else ">1 MiB+1"
            h[b] = h.get(b, 0) + 1
    return h


def dump_diagnosis(c):
    """for a dump that is not magic + one record per object put: what happened to each object"""
    d = hx(c["dump"])
    want = 4 + sum(4 + len(o) // 2 for o in c["objs"])
    out = []
    if len(d) != want:
        out.append("dump has %d bytes, magic + one record per object put needs %d" % (len(d), want))
    for i, oh in enumerate(c["objs"]):
        o = hx(oh)
        rec = len(o).to_bytes(4, "little") + o
        if d.find(rec, 4) >= 0:
            continue
        # longest prefix of the record present after some occurrence of its size field + first bytes
        at = d.find(rec[:36], 4)
        if at < 0:
            out.append("object %d (%d bytes): no record with its size field and first bytes in the dump" % (i, len(o)))
            continue
        k = 0
        while at + k < len(d) and k < len(rec) and d[at + k] == rec[k]:
            k += 1
        out.append("object %d (%d bytes): size field at dump offset %d announces %d bytes, only the first %d bytes of the object follow"
                   % (i, len(o), at, len(o), k - 4))
    return out


def splits_a_record(c):
    """does the chunking cut through a record (size field or body)? -> non-trivial case"""
    total = len(stream_hex(c)) // 2
    pos, cuts = 0, set()
    for n in c["sizes"]:
        pos += n
        if pos >= total:
            break
        cuts.add(pos)
    # record boundaries of the stream (flat walk)
    s = hx(stream_hex(c))
    bounds, p = {4}, 4
    while p + 4 <= len(s):
        sz = int.from_bytes(s[p:p + 4], "little")
        if p + 4 + sz > len(s):
            break
        p += 4 + sz
        bounds.add(p)
    return bool(cuts - bounds)


def run(ctx):
    binp = ctx.go_build()
    # constants from the running code -> coq/Gen (re-checks the proofs when they change)
    k = ctx.run_json([binp, "consts"])[0]
    vlib.write_if_changed(os.path.join(vlib.COQ, "Gen", "ShardDumpConsts.v"),
                          "(* GENERATED by props/C46.py from the running harness (`shard consts`): shard.dumpMagic and the width of the record size field. Do not edit. *)\n"
                          "From Coq Require Import List NArith.\nImport ListNotations.\n"
                          "Definition dump_magic : list N := %s.\nDefinition dump_size_len : nat := 4.\n" % vlib.coq_bytes(bytes(k["dump_magic"])))
    ctx.prove()
    model = ctx.model_ready(["Shard/DumpCheck.vo"])
    if ctx.replay:
        rp = json.load(open(ctx.replay))
        cases = []
        for v in rp.get("violations", []):
            if "replay_args" in v:
                cases += ctx.run_json([binp, "c46", "replay"] + [str(a) for a in v["replay_args"]])
    else:
        n = 40 if ctx.tier == "quick" else 400
        cases = ctx.run_json([binp, "c46", str(n)], timeout=1500)
    trunc = [c for c in cases if c.get("truncated")]
    cases = [c for c in cases if not c.get("truncated")]
    if trunc:
        ctx.notes.append("harness stopped early (time budget): %d cases produced" % len(cases))
    if not model or not cases:
        ctx.tie(False)
        return

    # pure bookkeeping checks on the dump side
    bad_dump_py = set()
    for i, c in enumerate(cases):
        if not dump_lists_put_objects(c):
            bad_dump_py.add(i)

    CH = 5 if ctx.tier == "quick" else 12
    jobs, offs = [], []
    # size-class cases (long byte strings): the very long ones (>= 600 kB) get a coqc each, the others share
    # one; they are started first. Starting coqc and loading the model costs as much as a 64 KiB case.
    big = [i for i, c in enumerate(cases) if c.get("big")]
    huge = [i for i in big if len(stream_hex(cases[i])) // 2 >= 600000]
    rest = [i for i in big if i not in huge]
    groups = [[i] for i in huge] + ([rest] if ctx.tier == "quick" else [rest[k:k + 3] for k in range(0, len(rest), 3)])
    groups = [g for g in groups if g]
    small = [i for i, c in enumerate(cases) if not c.get("big")]
    groups += [small[k:k + CH] for k in range(0, len(small), CH)]
    for grp in groups:
        chunk = [cases[i] for i in grp]
        off = grp
        lit = vlib.coq_list(chunk, case_literal)
        jobs.append(("cases", "From NV Require Import Shard.Dump Shard.DumpCheck.\nFrom Coq Require Import List NArith. Import ListNotations.\n"
                     "Definition cases : list case := %s.\n" % lit,
                     {"all": "all_mismatches cases"}))  # 3i = dump, 3i+1 = model, 3i+2 = reference mismatch of case i
        offs.append(off)
    bad = {"dump": set(bad_dump_py), "model": set(), "ref": set()}
    for off, res in zip(offs, ctx.coq_eval_many(jobs)):
        if res is None:
            ctx.tie(False)
            return
        for x in res["all"]:
            bad[("dump", "model", "ref")[x % 3]].add(off[x // 3])
    ctx.tie(not bad["dump"])    # Shard.Dump bytes = model dump of exactly the stored objects
    ctx.tie(not bad["model"])   # Shard.Restore = model restore (all kinds of streams)
    ctx.tie(not bad["ref"])     # Shard.Restore = theorem right-hand sides (clean / body-damaged / bad magic)
    ctx.tie(not trunc)
    seed = ctx.seed
    for i in sorted(bad["dump"] | bad["model"] | bad["ref"])[:10]:
        c = cases[i]
        ctx.violation({
            "replay_args": [seed, c["id"]],
            "case": {"objects": len(c["objs"]), "object_sizes": [len(o) // 2 for o in c["objs"]], "source_write_cache": c["wc"], "target_write_cache": c["wcb"],
                     "kind": ["clean", "bodies damaged", "bad magic", "framing damaged"][c["kind"]],
                     "chunk_sizes": c["sizes"][:64], "eof_with_data": c["eager"], "ignore_errors": c["ign"],
                     "stream_len": len(stream_hex(c)) // 2},
            "impl": {"dump_count": c["dump_count"], "restored": c["count"], "failed": c["fail"],
                     "err_class": ["nil", "invalid magic", "EOF", "unexpected EOF", "other"][c["err"]], "objects_in_target": len(c["stored"])},
            "expected": ("dump = magic + one record (uint32 LE length, bytes) per object put; all %d objects restored, fail 0, nil" % len(c["objs"])) if c["kind"] == 0
                        else "dump = magic + one record (uint32 LE length, bytes) per object put; restore: see model",
            "dump_diagnosis": dump_diagnosis(c) if i in bad["dump"] else [],
            "disagrees_with": [w for w, s in (("model dump", bad["dump"]), ("model restore", bad["model"]),
                                              ("reference (theorem right-hand side)", bad["ref"])) if i in s]})
    nontriv = {}
    for c in cases:
        if c["objs"] and splits_a_record(c):
            key = hashlib.sha1(json.dumps([stream_hex(c), c["sizes"], c["ign"], c["eager"]]).encode()).hexdigest()
            nontriv[key] = 1
    hist_kind, hist_err, hist_chunks = {}, {}, {}
    for c in cases:
        kname = ["clean", "bodies_damaged", "bad_magic", "framing_damaged"][c["kind"]]
        hist_kind[kname] = hist_kind.get(kname, 0) + 1
        ename = ["nil", "invalid_magic", "EOF", "unexpected_EOF", "other"][c["err"]]
        hist_err[ename] = hist_err.get(ename, 0) + 1
        b = "0" if not c["sizes"] else ("1-9" if len(c["sizes"]) < 10 else ("10-99" if len(c["sizes"]) < 100 else "100+"))
        hist_chunks[b] = hist_chunks.get(b, 0) + 1

    def brief(c):
        return {"objects": len(c["objs"]), "wc": c["wc"], "kind": c["kind"], "sizes": c["sizes"][:24], "n_chunks": len(c["sizes"]),
                "eager": c["eager"], "ign": c["ign"], "stream_len": len(stream_hex(c)) // 2,
                "count": c["count"], "fail": c["fail"], "err": c["err"], "stored": len(c["stored"])}
    ctx.cov.update({
        "evaluations": len(cases),
        "distinct_nontrivial": len(nontriv),
        "rule": "size-class cases first (every run: objects of encoded size 64 KiB-5..+1 and 4 KiB-5..+1 complete, one object at 1 MiB+d and one at P+d' with d, d', P = 512 B..512 KiB "
                "sweeping with the seed, random in-between sizes 600 B..266 kB, each with a small object beside them; low-entropy payloads so that the real dump bytes go to Coq losslessly as a run-length literal; "
                "chunkings with few chunks: whole, halves, blocks of 4096/32768/65535/65536/65537/1 MiB(+1), cuts at/inside/after every size field; clean 3 of 4, else bodies damaged); then "
                "random shard contents (0-6 objects, 3 containers, payload 0-400 bytes quick / -1800 thorough, write-cache on/off, flushed partly), "
                "Dump, then damage kind (clean 40%, bodies 30%, magic 10%, framing 20%) and one of 8 chunking styles (whole, 1-byte, tiny, with empty reads, "
                "medium, halves, mixed, few big), EOF-with-data 25%, ignoreErrors 50%; non-trivial = at least one object and a chunk boundary strictly "
                "inside a record; distinct by (stream, sizes, flags)",
        "samples": [brief(c) for c in (cases[:2] + cases[-1:])],
        "traces_validated_against_impl": len(cases),
        "hist_kind": hist_kind, "hist_err_class": hist_err, "hist_chunk_count": hist_chunks,
        "hist_source_write_cache": {"on": sum(1 for c in cases if c["wc"]), "off": sum(1 for c in cases if not c["wc"])},
        "duplicate_records_in_dump": sum(1 for c in cases if len(c["perm"]) != len(set(c["perm"]))),
        "size_class_cases": sum(1 for c in cases if c.get("big")),
        "size_class_object_sizes": sorted(sz for c in cases if c.get("big") for sz in c.get("obj_sizes", []) if sz >= 500),
        "hist_object_size": size_hist(cases),
    })
