"""C41 — fast header parsing agrees with full object decoding; never panics."""
import collections
import json
import os
import vlib

META = {
    "id": "C41",
    "engine": "wire",
    "design_ref": "5/C41",
    "coq_targets": ["Props/Properties_C41.vo", "Wire/Check.vo"],
    "coq_files": ["Gen/WireConsts.v", "FSTree/Wire.v", "FSTree/WireProofs.v", "Wire/Fast.v", "Wire/Ref.v", "Wire/Check.v",
                  "Wire/TotalProofs.v", "Wire/SimProofs.v", "Wire/AgreeProofs.v", "Wire/AgreeProofs2.v", "Wire/AgreeProofs3.v", "Wire/TruncProofs.v",
                  "Props/Properties_C41.v"],
    "theorems": [],  # filled below
    "technique": "Coq proof (loop invariants off <= len for the bounds-checked model; simulation of the three loops by pure "
                 "functions of the decoded record list; induction over ordered, typed record lists; lock-step induction for buffer "
                 "extension) + differential check of model, reference and real object.Unmarshal on SDK-marshalled "
                 "objects, all their truncations and structured mutations",
    "level_text": "Proved in Coq for ALL byte strings (unbounded lists): none of the modelled fast paths (SeekFieldByNumber/GetLENFieldBounds/"
                  "GetUint64Field/GetEnumField, GetNonPayloadFieldBounds, GetParentNonPayloadFieldBounds(+Header), GetPayloadLengthHeader, "
                  "GetTypeHeader, ExtractHeaderAndPayload, the header part of FSTree.ReadObjectParts, readHeaderAndPayload) reaches Panic "
                  "(out-of-bounds slice, the explicit panic(\"unreachable\"), loop fuel), every returned bound lies inside the buffer, the varint "
                  "reader stops after ten bytes. Proved for every well-formed encoding (boolean predicate wf_object / wf_header: parses "
                  "structurally, fields typed and ordered as the stable encoder emits them, singular fields once, non-empty split, type <= MaxInt32): "
                  "each fast path equals the projection of the full structural decode (last-wins). Proved for any buffers: an answer computed on a "
                  "prefix that reached the header (bounds) or the payload (ExtractHeaderAndPayload) is the answer on every extension. "
                  "The model and the reference are tied to the Go code and to the real object.Unmarshal on every run.",
    "level_note": "partial: (a) truncation is proved in the extension form for decisive answers (header found / payload reached); that a cut at a "
                  "field boundary before the header yields exactly the fields inside the prefix is checked by the tie only (trunc obligation), not proved; "
                  "(b) that the canonical encoder model (Ref.v enc_object) always satisfies wf_object is checked by evaluation on every SDK-marshalled "
                  "object of the run (obligation wf) and by a closed example, not proved for all records; "
                  "(c) nested proto.Unmarshal/FromProtoMessage of id, signature, header are abstract predicates (real decoders in the tie); groups (wire "
                  "types 3/4) are outside the reference subset. Modelled, not verified: protowire/iprotobuf primitives on an already sliced buffer, "
                  "os.File reads, zstd, combined files (C11/C13). Runtime behaviour not modelled: Go slice capacity (buf[:n] is checked against len, "
                  "stricter than Go), int overflow (lengths < 2^63 assumed).",
    "trusted_base": ["Coq 8.16.1 kernel, vm_compute",
                     "models Wire/Fast.v (fast paths, every Go slice expression bounds-checked with a Panic outcome) and "
                     "Wire/Ref.v (full structural decode, well-formedness, canonical encoder) hand-written, tied by differential check",
                     "protowire.ConsumeVarint/ConsumeTag/ConsumeBytes and iprotobuf.ParseTag/ParseLEN/SkipField are modelled as "
                     "total functions on an already sliced buffer (FSTree/Wire.v); their internal indexing is not modelled",
                     "harness/cmd/wire (incl. its protowire-based scanner that locates the fields of the real Unmarshal result), lib/vlib.py"],
    "assumptions": ["nested proto.Unmarshal / FromProtoMessage of the located id, signature and header values are abstract "
                    "predicates pvalid/svalid (Section variables; premises of C41_agree_extract*, instantiated in the tie by the real decoders)",
                    "buffer lengths fit Go int (len < 2^63)"],
}

THEOREMS = [
    "C41_total_seek", "C41_total_bounds", "C41_total_parent", "C41_total_parent_hdr", "C41_total_paylen", "C41_total_type",
    "C41_total_extract", "C41_total_read_parts", "C41_total_head", "C41_varint_overlong", "C41_varint_consumes_at_most_10",
    "C41_agree_bounds", "C41_agree_parent", "C41_agree_parent_hdr", "C41_agree_paylen", "C41_agree_type",
    "C41_agree_extract", "C41_agree_read_parts",
    "C41_trunc_bounds", "C41_trunc_extract", "C41_head_agree",
]
META["theorems"] = THEOREMS

OBS_ST = {"ehp": 0, "npb": 6, "ppb": 16, "plh": 26, "th": 28, "pph": 30, "raw_plh": 40, "raw_th": 42, "raw_pph": 44}


def gen_consts(ctx, binp):
    c = ctx.run_json([binp, "consts"])[0]
    lines = ["(* GENERATED by props/C41.py from /repo on every run through `wire consts`. Do not edit. *)",
             "From Coq Require Import NArith."]
    for k in c["order"]:
        if k in ("w_npfbl", "w_max_header_len"):
            lines.append("Definition %s : nat := N.to_nat %d." % (k, c[k]))
        else:
            lines.append("Definition %s : N := %d%%N." % (k, c[k]))
    vlib.write_if_changed(os.path.join(vlib.COQ, "Gen", "WireConsts.v"), "\n".join(lines) + "\n")


def nums_lit(xs):
    return '(nums "%s")' % ",".join(str(x) for x in xs)


def case_lit(c, names):
    sp = c.get("sp")
    spl = "None" if not sp else "(Some (%d, %d, %s))" % (sp[0], sp[1], nums_lit(sp[2]))
    cut = "None" if c["cut"] < 0 else "(Some %d)" % c["cut"]
    bad = vlib.coq_list(c["bad"], lambda e: "(%d, %d, %d, %d)" % tuple(e))
    return "(%s, %s, %s, %s, %s, %s)" % (spl, cut, names[tuple(c["obs"])], names[tuple(c["ref"])], bad,
                                         names[tuple(c["fs"] or [])])


PRELUDE = ("From NV Require Import FSTree.Wire Wire.Fast Wire.Ref Wire.Check.\n"
           "From Coq Require Import List NArith. From Coq Require String. Import String.StringSyntax. Import ListNotations.\nLocal Open Scope N_scope.\nLocal Open Scope string_scope.\n")


def make_jobs(bases, groups, chunk):
    """one coqc job per (base, chunk of its cases)"""
    jobs, index = [], []
    for bi, cs in groups.items():
        b = bases[bi]
        blit = nums_lit(b["bytes"])
        if b["tail"]:
            blit = "(%s ++ repeat %d (N.to_nat %d))" % (blit, b["tailb"], b["tail"])
        full = next((c for c in cs if c["kind"] == "valid"), None)
        for off in range(0, len(cs), chunk):
            part = cs[off:off + chunk]
            text = PRELUDE + "Definition base : bytes := %s.\n" % blit
            # elaborating number literals dominates the cost: every distinct observable vector is
            # defined once and referenced by name
            names = {}
            for c in part:
                for v in (tuple(c["obs"]), tuple(c["ref"]), tuple(c["fs"] or [])):
                    if v not in names:
                        names[v] = "v%d" % len(names)
                        text += "Definition %s : list N := %s.\n" % (names[v], nums_lit(v))
            text += "Definition cases : list case := %s.\n" % vlib.coq_list(part, lambda c: case_lit(c, names))
            exprs = {"model": "model_mismatches base cases", "ref": "ref_mismatches base cases",
                     "fs": "fs_mismatches base cases", "nwf": "not_wf base cases"}
            if full is not None:
                text += "Definition full_obs : list N := %s.\n" % nums_lit(full["obs"])
                exprs["trunc"] = "trunc_mismatches full_obs cases"
            jobs.append(("b%d_" % bi, text, exprs))
            index.append(part)
    return jobs, index


def explain(c, bases):
    b = bases[c["base"]]
    return {"case": {"base": b, "sp": c.get("sp"), "cut": c["cut"], "kind": c["kind"], "len": c["len"]},
            "impl_fast_paths": c["obs"], "impl_unmarshal_and_flags": c["ref"], "nested_rejected": c["bad"], "fstree": c["fs"]}


def run(ctx):
    import time
    t0 = time.time()
    ph = {}
    binp = ctx.go_build()
    gen_consts(ctx, binp)
    ph["go_build"] = round(time.time() - t0, 1)
    ctx.prove()
    model = ctx.model_ready(["Wire/Check.vo"])
    ph["coq_make"] = round(time.time() - t0, 1)
    if ctx.replay:
        # cases are a deterministic function of (seed, tier): replay = re-run the same stream
        rp = json.load(open(ctx.replay))
        ctx.seed = rp.get("seed", ctx.seed)
        ctx.tier = rp.get("tier", ctx.tier)
    lines = ctx.run_json([binp, "run"])
    ph["harness"] = round(time.time() - t0, 1)
    bases = {l["i"]: l for l in lines if l["k"] == "base"}
    cases = [l for l in lines if l["k"] == "case"]
    groups = collections.OrderedDict()
    for c in cases:
        groups.setdefault(c["base"], []).append(c)

    # panics are concrete failing inputs whatever the model says
    npanic = 0
    for c in cases:
        pn = [k for k, i in OBS_ST.items() if c["obs"][i] == "2"]
        if c["ref"][0] not in ("0", "1"):
            pn.append("object.Unmarshal")
        if c["fs"] and (c["fs"][0] not in ("0", "1") or c["fs"][2] == "2"):
            pn.append("fstree")
        if pn and npanic < 5:
            ctx.violation(dict(explain(c, bases), panicked_or_inconsistent=pn))
        npanic += bool(pn)
    ctx.tie(npanic == 0)

    if not model:
        ctx.tie(False)
        return
    chunk = 300
    jobs, index = make_jobs(bases, groups, chunk)
    results = ctx.coq_eval_many(jobs, workers=vlib.NCPU)
    ph["coq_eval"] = round(time.time() - t0, 1)
    ctx.cov["phase_s_cumulative"] = ph
    bad = {"model": [], "ref": [], "fs": [], "trunc": [], "wf": []}
    nwf_total = 0
    for part, res in zip(index, results):
        if res is None:
            ctx.tie(False)
            return
        for k in ("model", "ref", "fs", "trunc"):
            for i in res.get(k, []):
                bad[k].append(part[i])
        nwf = set(res["nwf"])
        nwf_total += len(part) - len(nwf)
        for i, c in enumerate(part):
            c["wf"] = i not in nwf
            if c["kind"] == "valid" and i in nwf:
                bad["wf"].append(c)
    ctx.tie(not bad["model"])   # implementation = model on every input (valid, truncated, mutated, garbage)
    ctx.tie(not bad["ref"])     # well-formed input: real Unmarshal = Coq reference, and fast = Unmarshal (Go flags)
    ctx.tie(not bad["fs"])      # head.go callers on a real FSTree = model composition
    ctx.tie(not bad["trunc"])   # truncation theorem right-hand side on the real outputs
    ctx.tie(not bad["wf"])      # every SDK-marshalled object satisfies the Coq well-formedness predicate
    names = {"model": "model (Wire/Fast.v)", "ref": "reference: full decode / real object.Unmarshal (C41_agree_*)",
             "fs": "head.go model (C41_head_agree, C41_agree_read_parts)", "trunc": "truncation statement (C41_trunc_*)",
             "wf": "well-formedness of a marshalled object (C41_encoder_wf)"}
    n = 0
    for k in ("ref", "trunc", "wf", "fs", "model"):
        for c in sorted(bad[k], key=lambda c: c["len"])[:3]:
            if n < 12:
                ctx.violation(dict(explain(c, bases), disagrees_with=names[k]))
                n += 1

    # informational: inputs outside the well-formed class where a fast path succeeds and the real decoder succeeds
    # but they differ (first-wins vs last-wins etc.)
    div = collections.Counter()
    for c in cases:
        if not c.get("wf") and c["ref"][0] == "0" and c["ref"][1] == "1":
            for j, nm in ((3, "extract"), (4, "bounds"), (5, "parent"), (6, "paylen"), (7, "type")):
                if c["ref"][j] == "0":
                    div[nm + ":" + c["kind"].split(":")[-1]] += 1
    kinds = collections.Counter(c["kind"] for c in cases)
    sts = collections.Counter("%s:%s" % (k, c["obs"][i]) for c in cases for k, i in OBS_ST.items())
    ctx.cov.update({
        "evaluations": len(cases),
        "distinct_nontrivial": vlib.distinct_count([(c["obs"], c["ref"][:9]) for c in cases if c["len"] > 0]),
        "rule": "one evaluation = one input buffer run through all fast paths + object.Unmarshal, compared with model and reference; "
                "distinct = distinct (fast-path observable vector, Unmarshal status+flags) among non-empty inputs",
        "bases": len(bases), "well_formed_inputs": nwf_total,
        "input_kinds": dict(kinds), "fast_path_status": dict(sts),
        "fstree_cases": sum(1 for c in cases if c["fs"]),
        "nested_rejected_cases": sum(1 for c in cases if c["bad"]),
        "divergence_outside_wf (informational)": dict(div),
        "base_objects": [b["desc"] + "/len%d" % (len(b["bytes"]) + b["tail"]) for b in bases.values()],
        "samples": [{k: c[k] for k in ("base", "kind", "sp", "cut", "obs", "ref", "bad", "fs")} for c in (cases[1:2] + cases[len(cases) // 2:len(cases) // 2 + 1] + cases[-1:])],
    })
