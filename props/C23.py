"""C23 — reading a split or erasure-coded object returns exactly its original bytes."""
import json
import vlib

META = {
    "id": "C23",
    "engine": "getsvc",
    "design_ref": "5/C23",
    "coq_targets": ["Props/Properties_C23.vo", "Assemble/RangeCheck.vo"],
    "coq_files": ["Assemble/Range.v", "Assemble/RangeProofs.v", "Assemble/RangeCheck.v", "Props/Properties_C23.v"],
    "theorems": ["C23_link_range", "C23_reverse_chain_range", "C23_v1_range", "C23_ec_range", "C23_whole",
                 "C23_resolve_sound", "C23_out_of_range_iff", "C23_precheck_u64"],
    "technique": "Coq proof (induction over the list of children, lia over N) that the child / EC-part sub-ranges computed by the assemblers "
                 "concatenate to exactly the requested slice for all child sizes, offsets and lengths, and that a range is refused iff it is "
                 "unsatisfiable; differential tie of the model's request list and status against the real getsvc.Service over a fake local storage",
    "level_text": "C23_link_range / C23_reverse_chain_range / C23_v1_range / C23_ec_range are proved for every list of children (any sizes, "
                  "including empty children), every offset and length; C23_out_of_range_iff and C23_resolve_sound characterise "
                  "PayloadRange.Resolve for all five range modes over all naturals; C23_precheck_u64 covers the assemblers' uint64 "
                  "pre-check including wrap-around of off+len. The models are list functions over child sizes (fwd = requiredChildrenIter + "
                  "rangeFromLink / copyECPartsRanges, bwd = buildChainInReverse, last_child_range = initFromChild, resolve = "
                  "PayloadRange.Resolve) and are tied to the code on every run: the real Service (Get with every range mode, GetRange) "
                  "reads objects produced by the real SDK slicer (V2 as produced, V1 by re-labelling the same chain; with and without "
                  "link) and real iec.Encode parts with up to m parts removed; status, returned bytes and the sorted list of child / part "
                  "sub-range reads are compared with the model and with the reference slice.",
    "level_note": "partial: proved = range arithmetic and range resolution over abstract byte lists; not modelled = network fan-out, "
                  "timeouts, retries over several EC rules, header selection and part recovery logic (covered only by the differential "
                  "tie; EC decoding itself is C21; the byte ranges cut out of recovered parts are checked by the reference tie only). Per-child arithmetic is modelled on unbounded N: the Go code computes it on uint64 after "
                  "the bounds check C23_precheck_u64 / Resolve, all intermediate values are then <= payload size < 2^64. For ranged "
                  "EC reads with unavailable parts the check file predicts the header stream and the range reads issued before the first "
                  "unavailable part exactly, and requires the recovery reads to be distinct stored parts other than the failed one with at "
                  "least k complete (their exact set is a race in the code); whole GETs with missing parts: bytes and status only. Storage below the service is a fake "
                  "(local-only, ranges answered with the real PayloadRange.Resolve). Four defects found by this check were repaired in "
                  "/repo (see known_findings.txt: a6de409, 54292ce, 0d0d3a9, f073f78); the model is of the repaired code.",
    "trusted_base": ["Coq 8.16.1 kernel, vm_compute", "models Assemble/Range.v hand-written, tied by differential check",
                     "harness/cmd/getsvc, harness/hooks/pkg/services/object/get (fake local storage), lib/vlib.py",
                     "SDK slicer output taken as the definition of a well-formed split chain"],
    "assumptions": ["children sizes in the link / headers equal the children's real payload lengths (well-formed chain)",
                    "total payload size < 2^64 (uint64 arithmetic after the bounds check does not wrap)"],
}

PRELUDE = ("From NV Require Import Assemble.Range Assemble.RangeCheck.\n"
           "From Coq Require Import NArith List. Import ListNotations.\nLocal Open Scope N_scope.\n")
KIND = {"whole": 0, "split": 1, "ec": 2}
STATUS = {"ok": 0, "oor": 1, "err": 2, "panic": 3}


def res_lit(r):
    q = r["req"]
    reads = "[" + ";".join("(%d%%nat,%d%%nat,%d,%d)" % (x["idx"] if x["idx"] >= 0 else 99999, x["mode"], x["first"], x["second"]) for x in r["reads"]) + "]"
    return "(%d%%nat,%d,%d,%d%%nat,%d,%s,%d,%d,%s)" % (q["mode"], q["first"], q["second"], STATUS[r["status"]], r["got_len"],
                                                      vlib.coq_bool(r["ref_oor"]), r["ref_off"], r["ref_len"], reads)


def case_lit(c):
    return "(%d%%nat,%d%%nat,%s,%d,%s,%d,%d%%nat,[%s]%%nat,[%s],[%s])" % (
        KIND[c["kind"]], c["ver"], vlib.coq_bool(c["link"]), c["len"], "[" + ";".join(map(str, c["sizes"])) + "]",
        c["k"], c["m"], ";".join(map(str, c["missing"])), ";".join("(%d%%nat,%d)" % (i, n) for i, n in (c.get("flaky") or [])),
        ";\n".join(res_lit(r) for r in c["results"]))


def ref_ok(r):
    if r["ref_oor"]:
        return r["status"] == "oor" and r["got_len"] == 0
    return r["status"] == "ok" and r["bytes_ok"] and r["hdr_ok"]


def hist(xs):
    h = {}
    for x in xs:
        h[str(x)] = h.get(str(x), 0) + 1
    return dict(sorted(h.items()))


def run(ctx):
    ctx.prove()
    model = ctx.model_ready(["Assemble/RangeCheck.vo"])
    binp = ctx.go_build()
    if ctx.replay:
        rp = json.load(open(ctx.replay))
        ctx.seed = rp.get("seed", ctx.seed)
        ctx.tier = rp.get("tier", ctx.tier)
    cases = ctx.run_json([binp, "cases"])
    # reference: the implementation returns exactly payload[off:off+len] / reports out of range iff unsatisfiable
    bad_ref = [(i, j) for i, c in enumerate(cases) for j, r in enumerate(c["results"]) if not ref_ok(r)]
    ctx.tie(not bad_ref)
    bad_model = set()
    if not model:
        ctx.tie(False)
    else:
        nch = 12 if ctx.tier == "quick" else 32
        per = max(1, (len(cases) + nch - 1) // nch)
        jobs, offs = [], []
        for off in range(0, len(cases), per):
            lit = "[" + ";\n".join(case_lit(c) for c in cases[off:off + per]) + "]"
            jobs.append(("get", PRELUDE + "Definition cases : list gcase := %s.\n" % lit, {"model": "model_mismatches cases"}))
            offs.append(off)
        okm = True
        for off, res in zip(offs, ctx.coq_eval_many(jobs)):
            if res is None:
                okm = False
                continue
            bad_model |= {(off + code // 1000, code % 1000) for code in res["model"]}
        ctx.tie(okm and not bad_model)
    # smallest objects first: the first entries of the replay file are the minimal failing inputs seen
    for (i, j) in sorted(set(bad_ref) | bad_model, key=lambda ij: (len(cases[ij[0]]["sizes"]), cases[ij[0]]["len"], ij))[:10]:
        c, r = cases[i], cases[i]["results"][j]
        ctx.violation({"seed": ctx.seed, "tier": ctx.tier,
                       "object": {k: c.get(k) for k in ("kind", "ver", "link", "len", "limit", "sizes", "k", "m", "missing", "flaky")},
                       "request": r["req"], "impl": {k: r[k] for k in ("status", "got_len", "bytes_ok", "hdr_ok", "reads")},
                       "reference": {"out_of_range": r["ref_oor"], "off": r["ref_off"], "len": r["ref_len"]},
                       "disagrees_with": [w for w, s in (("reference (original bytes slice / out-of-range iff unsatisfiable)", set(bad_ref)),
                                                         ("model Assemble/Range.v (status, length, child sub-range reads)", bad_model)) if (i, j) in s]})
    allres = [(c, r) for c in cases for r in c["results"]]

    def ec_class(c, r):
        """where a satisfiable ranged EC read stands w.r.t. the recovery branch"""
        per = c["sizes"][0] if c["sizes"] else 0
        if c["kind"] != "ec" or r["req"]["mode"] == 0 or r["ref_oor"] or not per or not r["ref_len"]:
            return None
        a, b = r["ref_off"] // per, (r["ref_off"] + r["ref_len"] - 1) // per
        lost = sorted(set(c["missing"]) | {i for i, n in (c.get("flaky") or []) if i != 0})
        inr = [i for i in lost if a <= i <= b]
        return "%s/%s/%s" % ("inside" if r["ref_off"] % per else "aligned", "1part" if a == b else "multi",
                             "none-lost" if not inr else "first-lost" if inr[0] == a else "later-lost")
    keys = {(c["kind"], c["ver"], c["link"], c["len"], tuple(c["sizes"][:3]), c["k"], tuple(c["missing"]), json.dumps(c.get("flaky")), r["req"]["api"], r["req"]["mode"],
             r["req"]["first"], r["req"]["second"]) for c, r in allres if c["kind"] != "whole" and r["req"]["mode"] != 0 and not r["ref_oor"]}
    ctx.cov.update({
        "evaluations": len(allres),
        "distinct_nontrivial": len(keys),
        "rule": "objects: payloads cut by the real SDK slicer with limit 64..4096 into 2..24 children (exact multiples, limit+1, random), stored as "
                "V1/V2 chain with/without link object; EC objects k=1..6, m=1..3 with 0..m random parts removed (incl. empty payload and payloads "
                "shorter than k); plus, for rules 2/1, 3/2, 4/2 (quick; 10 rules up to 6/3 in the thorough tier), every single part removed, every data part with a range stream "
                "breaking after n bytes, and pairs of losses, each with ranges for every (first part, last part) pair starting strictly inside "
                "the first part (recovery branch: hist_ec_recovery). requests per object: whole GET + ranges in all modes (offset/length via Get and GetRange, bounds, from, suffix) "
                "with offsets at child/part boundaries +-2, 0, len, random, and hostile near-2^64 values. Non-trivial = satisfiable range request "
                "on a split or EC object; distinct by (layout, sizes, missing and flaky parts, api, mode, first, second).",
        "samples": [{"object": {k: c[k] for k in ("kind", "ver", "link", "len", "sizes", "k", "m", "missing")}, "result": r}
                    for c, r in allres if c["kind"] != "whole" and r["req"]["mode"] == 2 and len(c["sizes"]) <= 4][:3],
        "traces_validated_against_impl": len(allres),
        "hist_layout": hist("%s/v%d/%s" % (c["kind"], c["ver"], "link" if c["link"] else "nolink") for c in cases),
        "hist_mode": hist("%s/%d" % (r["req"]["api"], r["req"]["mode"]) for c, r in allres),
        "hist_status": hist(r["status"] for c, r in allres),
        "hist_children": hist(min(len(c["sizes"]), 25) for c in cases if c["kind"] == "split"),
        "hist_ec_missing": hist(len(c["missing"]) for c in cases if c["kind"] == "ec"),
        "hist_ec_recovery": hist(x for x in (ec_class(c, r) for c, r in allres) if x),
        "hist_ec_flaky": hist(len(c.get("flaky") or []) for c in cases if c["kind"] == "ec"),
        "hist_ec_rule": hist("%d/%d" % (c["k"], c["m"]) for c in cases if c["kind"] == "ec"),
        "hist_ec_part0_missing": hist(0 in c["missing"] for c in cases if c["kind"] == "ec"),
    })
