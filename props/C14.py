"""C14 — read-only / degraded-read-only shard modes never change stored data."""
import json
import os
import vlib

OPS = ["Put", "Delete", "MarkGarbage", "InhumeContainer", "DeleteContainer", "Restore", "Revive", "FlushWriteCache",
       "GC pass", "new-epoch event", "Get", "Exists", "List", "Dump"]

META = {
    "id": "C14",
    "engine": "shard",
    "design_ref": "5/C14",
    "coq_targets": ["Props/Properties_C14.vo", "Props/Properties_C14s.vo", "Shard/ROModeCheck.vo"],
    "coq_files": ["Gen/ShardModeConsts.v", "Shard/ROMode.v", "Shard/ROModeProofs.v", "Shard/ROModeCheck.v", "Props/Properties_C14.v",
                  "Prog/IR.v", "Prog/IRProofs.v", "Prog/Tables_C14.v", "Props/Properties_C14s.v"],
    "theorems": ["C14_state_unchanged", "C14_results", "C14_modifying_rejected", "C14_static", "C14_read_only_no_mutation"],
    "prop_modules": ["Props.Properties_C14", "Props.Properties_C14s"],
    "technique": "Coq proof (case analysis on the operation, induction on the operation list) about a transcription of the mode guard at the head "
                 "of every modifying shard operation and background job, parametric in the persisted state; tied to the Go code by running random "
                 "operation sequences on real shards switched to each read-only mode and comparing result classes and a SHA-256 snapshot of every "
                 "file of the shard (blobstor tree, write-cache tree, metabase file) before/after every step and after letting the real GC ticker, "
                 "event listener and write-cache flush loop run; mode bit flags regenerated from the source",
    "level_text": "C14_state_unchanged: for every persisted-state type, every effect function, every mode with the read-only bit, with or without "
                  "write-cache, and every finite sequence of the 14 operations/jobs, the persisted state after the sequence equals the state "
                  "before. C14_results: each modifying request answers ErrReadOnlyMode/ErrDegradedMode (FlushWriteCache without write-cache: "
                  "'disabled'), jobs return untouched, Get/Exists/Dump run, List needs the metabase.",
    "level_note": "Static part (added by the lead): the handler IR of package shard is regenerated from the source by xlate on every run "
                  "(coq/Gen/Prog_Shard.v); C14_static (vm_compute) + the soundness theorem of the dominance analysis give C14_read_only_no_mutation: in every "
                  "function of the package every mutating call on metabase/blobstor/write-cache is dominated by a mode check of an accepted shape, and every "
                  "component call is classified (a new component method makes the obligation fail until classified). "
                  "The model Shard/ROMode.v is the table of mode guards (what each Go function checks before touching a component); the proof shows "
                  "that no guard lets a modifying operation through in a read-only mode. Modelled, not verified: that nothing below the guard "
                  "writes when the guard refuses, and that read paths do not write (component internals: bbolt opened read-only, fstree, "
                  "write-cache flush loop) -- this is exactly what the on-disk snapshot comparison observes on the real shard on every run. "
                  "partial: real goroutine scheduling of background workers is sampled (60 ms wait per case, GC ticker 15 ms), not proved; "
                  "operations in flight across the mode switch are outside the model (it starts in the read-only state): they are covered by the "
                  "in-flight schedules of the reference tie only (write-cache flush single/batch and Put held inside the blobstor write while "
                  "SetMode runs; GC deletes in flight are not scheduled: FSTree.Delete has no point after its read-only check where it can be held); "
                  "in-memory counters (gc.currentEpoch) are not persisted state and are not compared; lock/tombstone objects are not generated.",
    "trusted_base": ["Coq 8.16.1 kernel, vm_compute", "model Shard/ROMode.v hand-written guard table, tied by differential check",
                     "harness/cmd/shard (snapshot = SHA-256 of all files under the shard directory), hooks VerifRemoveGarbage/VerifHandleEpoch, lib/vlib.py"],
    "assumptions": ["persisted state = files under the shard's blobstor, write-cache and metabase paths",
                    "operations that pass their guard may have any effect (apply is arbitrary); reads that run do not modify (observed, not proved)"],
}


def regen_static(ctx):
    xl = vlib.xlate_build()
    rc, o, e = vlib.sh([xl, "-dir", "shard=" + os.path.join(vlib.REPO, "pkg/local_object_storage/shard"), "-guards", "ReadOnly$",
                        "-condguard", r"ModeNotReadWrite=^s\.info\.Mode != mode\.ReadWrite$",
                        "-out", os.path.join(vlib.COQ, "Gen", "Prog_Shard.v")])
    if rc != 0:
        ctx.notes.append("xlate failed: " + e[-2000:])
    ctx.tie(rc == 0)
    return rc == 0


def diagnose_static(ctx):
    vlib.coq_make(["Gen/Prog_Shard.vo", "Prog/Tables_C14.vo"])
    rc, out = ctx.coq_run("diag", "From Coq Require Import String List Bool. Import ListNotations.\nFrom NV Require Import Prog.IR Prog.Tables_C14.\nFrom NV Require Gen.Prog_Shard.\n"
                          "Eval vm_compute in (c14_bad Gen.Prog_Shard.funcs, c14_bad_shapes Gen.Prog_Shard.funcs, c14_unclassified Gen.Prog_Shard.funcs).\n")
    ctx.notes.append("static obligation diagnosis (functions with an unguarded mutating call, checks of unaccepted shape, unclassified component calls): " + " ".join(out.split())[:2500])


MODES = {1: "read-only", 3: "degraded-read-only"}


def inflight_tie(ctx, binp):
    """Writes that started in read-write mode (background write-cache flush of one object / of a batch, client Put) are held
    inside the BLOB storage write while Shard.SetMode(read-only mode) is called; reference: once SetMode has returned the
    files of the shard do not change any more (snapshot at return == snapshot after the held write was released and the
    workers settled), SetMode succeeds and the mode is reported."""
    if ctx.replay and not any("inflight_id" in v for v in json.load(open(ctx.replay)).get("violations", [])):
        return
    infl = ctx.run_json([binp, "c14inflight", "1" if ctx.tier == "quick" else "8"], timeout=900)
    stuck = [c for c in infl if not c["entered"]]
    if stuck or not infl:
        # the scenario could not be set up (flusher never reached the storage within 40 s): no verdict
        raise vlib.Broken("C14 in-flight scenario: the write never reached the gate: %s" % json.dumps(stuck[:2]))
    bad = [c for c in infl if c["changed"] or c["set_err"] or not c["mode_set"]]
    ctx.tie(not bad)
    for c in sorted(bad, key=lambda c: (c["gate_n"], c["stored"]))[:6]:
        ctx.violation({"inflight_id": c["id"], "schedule": "write in flight at the moment of the mode switch",
                       "mode": MODES.get(c["mode"], c["mode"]), "write_cache": c["wc"],
                       "write_in_flight": {"flush": "background write-cache flush", "put": "client Put"}[c["trigger"]] +
                                          (" (flushBatch of %d objects)" % c["gate_n"] if c["gate_n"] > 1 else " (one object)"),
                       "held_at": {"disk": "physical write inside FSTree, after its read-only check (slow disk)",
                                   "storage": "wrapping blobstor, before FSTree is entered"}[c["gate"]],
                       "objects_already_stored": c["stored"], "objects_pending": c["pending"],
                       "impl": {"SetMode_returned_while_write_held": c["early"], "SetMode_failed": c["set_err"], "mode_reported": c["mode_set"],
                                "files_changed_after_SetMode_returned": c["changed"], "files_at_return": c["files"], "files_after_release": c["files_end"]},
                       "reference": "no file of the shard changes after SetMode(read-only mode) has returned",
                       "disagrees_with": ["reference"]})
    h = {}
    for c in infl:
        k = "%s/%s/%s/%s" % (MODES.get(c["mode"], c["mode"]), c["trigger"], "batch" if c["gate_n"] > 1 else "single", c["gate"])
        h[k] = h.get(k, 0) + 1
    ctx.cov["inflight_scenarios"] = len(infl)
    ctx.cov["hist_inflight"] = dict(sorted(h.items()))
    ctx.cov["inflight_switch_waited_for_write"] = sum(1 for c in infl if not c["early"])
    ctx.cov["inflight_sample"] = infl[0]


def run(ctx):
    static_ok = regen_static(ctx)
    binp = ctx.go_build()
    k = ctx.run_json([binp, "consts"])[0]
    vlib.write_if_changed(os.path.join(vlib.COQ, "Gen", "ShardModeConsts.v"),
                          "(* GENERATED by props/C14.py from the running harness (`shard consts`): shard/mode bit flags. Do not edit. *)\n"
                          "From Coq Require Import NArith.\nDefinition mode_read_only_bit : N := %d%%N.\nDefinition mode_degraded_bit : N := %d%%N.\n"
                          % (k["mode_read_only"], k["mode_degraded"]))
    ctx.prove()
    if static_ok and ctx.proof_ok is False:
        diagnose_static(ctx)
    model = ctx.model_ready(["Shard/ROModeCheck.vo"])
    n = 40 if ctx.tier == "quick" else 400
    if ctx.replay:
        rp = json.load(open(ctx.replay))
        cases = []
        for v in rp.get("violations", []):
            if "case_id" in v:
                cases += ctx.run_json([binp, "c14", str(v.get("n", n)), str(v["case_id"])])
    else:
        cases = ctx.run_json([binp, "c14", str(n)], timeout=1500)
    inflight_tie(ctx, binp)
    # constants the model takes from the code must be the ones of docs/shard-modes.md
    ctx.tie(k["mode_degraded_ro"] == (k["mode_read_only"] | k["mode_degraded"]) and k["mode_read_write"] == 0)
    if ctx.replay and not cases and model:
        ctx.cov.update({"evaluations": ctx.cov.get("inflight_scenarios", 0)})
        return  # the replay file names in-flight schedules only
    if not model or not cases:
        ctx.tie(False)
        return
    for c in cases:  # the wait for background workers is one more observed step (a GC pass that must be a no-op)
        c["steps_all"] = c["steps"] + [{"op": 8, "cls": 0, "changed": not c["end_same"]}]
    lit = vlib.coq_list(cases, lambda c: "(mkCase %s %s %s)" % (
        vlib.coq_N(c["mode"]), vlib.coq_bool(c["wc"]),
        vlib.coq_list(c["steps_all"], lambda s: "(%d, %d, %s)" % (s["op"], s["cls"], vlib.coq_bool(s["changed"])))))
    res = ctx.coq_eval_lists("cases", "From NV Require Import Shard.ROMode Shard.ROModeCheck.\nFrom Coq Require Import List NArith. Import ListNotations.\n"
                             "Definition cases : list case := %s.\n" % lit,
                             {"model": "model_mismatches cases", "ref": "ref_mismatches cases"})
    if res is None:
        ctx.tie(False)
        return
    ctx.tie(not res["model"])
    ctx.tie(not res["ref"])
    for i in sorted(set(res["model"]) | set(res["ref"]))[:10]:
        c = cases[i]
        # minimal: the first offending step
        bad = [(j, s) for j, s in enumerate(c["steps_all"]) if s["changed"] or s["cls"] == 4]
        ctx.violation({"case_id": c["id"], "n": n, "mode": MODES.get(c["mode"], c["mode"]), "write_cache": c["wc"],
                       "objects": c["objects"], "in_write_cache": c["in_cache"], "garbage_marked": c["garbage"],
                       "steps": [(OPS[s["op"]], s["cls"], s["changed"]) for s in c["steps_all"]],
                       "first_offending_step": (bad[0][0], OPS[bad[0][1]["op"]]) if bad else None,
                       "disagrees_with": [w for w, s in (("model", res["model"]), ("reference", res["ref"])) if i in s]})
    steps = [s for c in cases for s in c["steps_all"]]
    hist = {}
    for s in steps:
        hist[OPS[s["op"]]] = hist.get(OPS[s["op"]], 0) + 1
    ctx.cov.update({
        "evaluations": len(steps) + ctx.cov.get("inflight_scenarios", 0),
        "distinct_nontrivial": len({(c["mode"], c["wc"], s["op"], c["in_cache"] > 0, c["garbage"] > 0) for c in cases for s in c["steps"] if s["op"] < 10}),
        "rule": "per case: real shard (write-cache on/off), 3-7 objects in 3 containers, part flushed part left in the write-cache, some marked as garbage, "
                "all containers unpaid since epoch 0, then mode read-only or degraded-read-only, 8-17 random operations out of 14 (every 4th case walks "
                "through all of them), snapshot after each, 60 ms of real background workers at the end; evaluations = steps; non-trivial = modifying "
                "operation or job; distinct by (mode, write-cache, operation, cache non-empty, garbage present). In-flight schedules (hist_inflight): for "
                "each read-only mode, a background write-cache flush of one object, of a batch of 2-5 objects, and a client Put are held inside the "
                "BLOB storage write (in FSTree's physical write after its read-only check, and in a wrapping blobstor before it) while SetMode is "
                "called; snapshot at SetMode's return vs. after release + 60 ms",
        "samples": [{"mode": c["mode"], "wc": c["wc"], "objects": c["objects"], "in_cache": c["in_cache"], "garbage": c["garbage"],
                     "steps": [(OPS[s["op"]], s["cls"], s["changed"]) for s in c["steps_all"]]} for c in cases[:2]],
        "traces_validated_against_impl": len(cases),
        "hist_op": hist,
        "hist_mode": {"read-only": sum(1 for c in cases if c["mode"] == 1), "degraded-read-only": sum(1 for c in cases if c["mode"] == 3)},
        "hist_write_cache": {"on": sum(1 for c in cases if c["wc"]), "off": sum(1 for c in cases if not c["wc"])},
        "cases_with_objects_in_write_cache": sum(1 for c in cases if c["in_cache"] > 0),
        "cases_with_garbage": sum(1 for c in cases if c["garbage"] > 0),
        "files_per_snapshot_max": max(c["files"] for c in cases),
    })
