"""C13 — a failing file-system call makes blob writes fail cleanly and never crashes."""
import collections
import json
import os
import re
import shutil
import subprocess
import tempfile
from concurrent.futures import ThreadPoolExecutor
import vlib

META = {
    "id": "C13",
    "engine": "fstree",
    "design_ref": "5/C13",
    "coq_targets": ["Props/Properties_C13.vo", "FSTree/BatchCheck.vo"],
    "coq_files": ["FSTree/Batch.v", "FSTree/BatchProofs.v", "FSTree/BatchCheck.v", "Props/Properties_C13.v"],
    "theorems": ["C13_no_panic", "C13_success_readable", "C13_no_panic_refuted_as_found", "C13_no_deadlock_refuted_as_found"],
    "technique": "Coq proof by induction over all histories of the batching writer's critical sections under all fault oracles; "
                 "model tied to the real writer by strace syscall error injection on a child process",
    "level_text": "C13_no_panic: for every list of steps (combined write critical section, timer sync of any batch, finalize, batch write) and every "
                  "fault oracle (any open/writev/linkat/fdatasync/close call may fail, linkat may answer EEXIST) the model of the repaired "
                  "linuxWriter finishes every step: no close of a closed channel, batchLock never left locked. C13_success_readable: a combined write "
                  "that does not fail at once has written and linked its record in the batch whose error it finally returns. The code as found is "
                  "refuted by computed witnesses (linkat failure at the size limit -> panic; failing batch open -> deadlock). The model is tied to "
                  "the real writer on every run: a harness child performs Put / PutBatch sequences on a fresh tree under "
                  "`strace -f -e inject=<syscall>:error=<E>:when=<n>` (single and double faults at every writev/linkat/fdatasync/openat/close of the "
                  "scenarios, incl. the write that crosses the size limit); per-call results, process survival, a follow-up write and read-back are "
                  "compared with the model and with the property directly.",
    "level_note": "partial: real thread timing is not modelled (steps = critical sections under batchLock/sb.lock; all interleavings of those steps are "
                  "covered by the theorem, the tie exercises sequential scenarios plus one fault-free run of 40/250 concurrent writers). Not proved: "
                  "'unaffected writes succeed' and 'every affected write reports an error' as theorems (checked by the tie's reference oracle only); "
                  "double close(fd) is recorded in the model but no bound is proved. writeFile (single plain file) and the generic writer are not in "
                  "the model. fdatasync/close faults in timer goroutines are not injected (strace counts per thread). Kernel behaviour of the "
                  "injected errors is strace's.",
    "trusted_base": ["Coq 8.16.1 kernel, vm_compute", "hand-written model FSTree/Batch.v tied by differential check under strace fault injection",
                     "strace 6.1 syscall tampering", "harness/cmd/fstree, lib/vlib.py"],
    "assumptions": ["steps of the model are atomic (they run under batchLock / sb.lock in the Go code)",
                    "a timer eventually fires for every open batch (liveness of time.AfterFunc)"],
}

SZ = 338  # 300 data bytes + 38 bytes record prefix
PRELUDE = ("From Coq Require Import List Arith Bool.\nImport ListNotations.\nFrom NV Require Import FSTree.Batch FSTree.BatchCheck.\n")

SCEN = {
    # name: (nosync, climit, slimit, events, number of reported ops incl. the follow-up write)
    "size": ("false", 128, 100, "[EPut 0 338; EPut 1 338; EPut 2 338; EPut 200 338]"),
    "timer": ("false", 128, 8388608, "[EPut 0 338; EFinalize; EPut 1 338; EFinalize; EPut 200 338; EFinalize]"),
    "batch": ("false", 128, 100, "[EBatch [(0,338);(1,338);(2,338)]; EBatch [(3,338);(4,338);(5,338)]; EPut 200 338]"),
}
ERR = {"openat": "ENOSPC", "writev": "ENOSPC", "linkat": "EIO", "fdatasync": "EIO", "close": "EIO"}
KIND = {"openat": "o", "writev": "w", "linkat": "l", "fdatasync": "s", "close": "c"}


def child(binp, scenario, injects, trace=None, tmo=90):
    d = tempfile.mkdtemp(prefix="verif-c13-")
    env = vlib.go_env()
    env["GOMAXPROCS"] = "1"
    env["VERIF_TIER"] = os.environ.get("VERIF_TIER_CUR", "quick")
    cmd = ["strace", "-f", "-o", trace or "/dev/null"]
    names = sorted({s for (s, _, _) in injects}) or ["linkat"]
    if trace:
        names = ["openat", "close"]
    cmd += ["-e", "trace=" + ",".join(names)]
    for (s, e, n) in injects:
        cmd += ["-e", "inject=%s:error=%s:when=%d" % (s, e, n)]
    cmd += [binp, "c13child", scenario, os.path.join(d, "t")]
    try:
        p = subprocess.run(cmd, env=env, stdout=subprocess.PIPE, stderr=subprocess.PIPE, text=True, timeout=tmo)
        rc, out = p.returncode, p.stdout
        if "all goroutines are asleep" in (p.stderr or ""):
            rc = -99
    except subprocess.TimeoutExpired as ex:
        rc, out = -99, (ex.stdout or b"").decode() if isinstance(ex.stdout, bytes) else (ex.stdout or "")
    finally:
        shutil.rmtree(d, ignore_errors=True)
    ops, alive = [], None
    for line in out.splitlines():
        if line.startswith("{"):
            o = json.loads(line)
            if o.get("marker") == "alive":
                alive = o
            elif "op" in o:
                ops.append(o)
    return rc, ops, alive


def dry_indices(binp, scenario):
    """when-indices (on the main thread) of the batch opens and of the closes of those fds"""
    tf = tempfile.mktemp(prefix="verif-c13-trace-")
    rc, ops, alive = child(binp, scenario, [], trace=tf)
    opens, closes = [], []
    try:
        lines = open(tf).read().splitlines()
    finally:
        try:
            os.remove(tf)
        except OSError:
            pass
    if not lines or alive is None:
        raise vlib.Broken("dry run of scenario %s failed (rc=%s)" % (scenario, rc))
    main = lines[0].split()[0]
    no = nc = 0
    pending = {}
    first = True
    for l in lines:
        m = re.match(r"(\d+)\s+(openat|close)\((.*)", l)
        if not m or m.group(1) != main:
            continue
        if m.group(2) == "openat":
            no += 1
            if "O_TMPFILE" in l:
                fd = re.search(r"=\s*(\d+)\s*$", l)
                if first:
                    first = False  # Init's probe
                    continue
                opens.append(no)
                if fd:
                    pending[fd.group(1)] = True
        else:
            nc += 1
            fd = re.match(r"(\d+)\)", m.group(3))
            if fd and pending.pop(fd.group(1), None):
                closes.append(nc)
    return opens, closes


def run(ctx):
    binp = ctx.go_build()
    ctx.prove()
    model = ctx.model_ready(["FSTree/BatchCheck.vo"])
    os.environ["VERIF_TIER_CUR"] = ctx.tier
    plans = []  # (scenario, [(syscall, model_index)])
    if ctx.replay:
        rp = json.load(open(ctx.replay))
        for v in rp.get("violations", []):
            if "case" in v:
                plans.append((v["case"]["scenario"], [tuple(x) for x in v["case"]["faults"]]))
    else:
        for sc, nput in (("size", 3), ("timer", 2), ("batch", 6)):
            plans.append((sc, []))
            for k in ("writev", "linkat"):
                for n in range(1, nput + 1):
                    plans.append((sc, [(k, n)]))
            nb = {"size": 3, "timer": 0, "batch": 2}[sc]
            for k in ("fdatasync", "openat", "close"):
                for n in range(1, nb + 1):
                    plans.append((sc, [(k, n)]))
        # double faults
        plans += [("size", [("linkat", 1), ("writev", 3)]), ("size", [("linkat", 2), ("fdatasync", 1)]),
                  ("size", [("openat", 1), ("linkat", 2)]), ("batch", [("writev", 2), ("linkat", 4)]),
                  ("batch", [("fdatasync", 1), ("close", 2)]), ("timer", [("writev", 1), ("linkat", 2)])]
        if ctx.tier == "thorough":
            for a in ("writev", "linkat", "fdatasync", "openat", "close"):
                for b in ("writev", "linkat", "fdatasync"):
                    for n in (1, 2, 3):
                        for m2 in (1, 2, 3):
                            if a != b:  # strace keeps one inject rule per syscall
                                plans.append(("size", [(a, n), (b, m2)]))
    idx = {}
    for sc in sorted({p[0] for p in plans} - {"timer"}):
        idx[sc] = dry_indices(binp, sc)

    def to_inject(sc, faults):
        res = []
        for (k, n) in faults:
            if k == "openat":
                res.append((k, ERR[k], idx[sc][0][n - 1]))
            elif k == "close":
                res.append((k, ERR[k], idx[sc][1][n - 1]))
            else:
                # a failed batch open shifts nothing for the other kinds: counted per kind on the main thread
                res.append((k, ERR[k], n))
        return res

    def one(p):
        sc, faults = p
        rc, ops, alive = child(binp, sc, to_inject(sc, faults))
        return {"scenario": sc, "faults": [list(f) for f in faults], "rc": rc, "ops": ops, "alive": alive}

    with ThreadPoolExecutor(max_workers=8) as ex:
        obs = list(ex.map(one, plans))
    conc = child(binp, "conc", [], tmo=120) if not ctx.replay else None

    # projected observables
    cases = []
    for o in obs:
        results = [op["r"] == 0 for op in o["ops"]]
        if o["alive"] is None:
            status = 2 if o["rc"] == -99 else 1
        elif o["alive"]["after"] == "hang":
            status = 2
        else:
            status = 0
            results.append(o["alive"]["after"] == "ok")
        cases.append(dict(o, status=status, results=results))

    # reference: the property itself, without the model
    bad_ref = []
    for i, c in enumerate(cases):
        why = None
        if c["status"] == 1:
            why = "process died"
        elif c["status"] == 2:
            why = "an operation never returned"
        else:
            al = c["alive"]
            for op in c["ops"]:
                ids = op.get("ids") or [op["i"]]
                if op["r"] == 0 and not all(al["equal"][j] for j in ids):
                    why = "success reported for an object that cannot be read back"
            for j, rd in enumerate(al["readable"]):
                if rd and not al["equal"][j]:
                    why = "object readable with wrong bytes"
            if not c["faults"] and not all(c["results"]):
                why = "fault-free run reports an error"
            # the call hit by the fault must report it; the others must succeed (own batch each)
            if c["scenario"] == "size" and len(c["faults"]) == 1:
                k, n = c["faults"][0]
                exp = [j != n - 1 for j in range(3)] + [True]
                if c["results"] != exp:
                    why = "affected/unaffected calls: expected %s" % exp
        if why:
            bad_ref.append((i, why))
    if conc is not None:
        rc, ops, alive = conc
        if alive is None or any(op["r"] != 0 for op in ops) or not all(alive["equal"]):
            bad_ref.append((-1, "concurrent fault-free writers: rc=%s" % rc))
    ctx.tie(not bad_ref)

    bad_model = []
    if model:
        def lit(c):
            ns, cl, sl, evs = SCEN[c["scenario"]]
            f = collections.defaultdict(list)
            for (k, n) in c["faults"]:
                f[KIND[k]].append(n)
            return ("{| k_nosync := %s; k_climit := %d; k_slimit := %d; k_events := %s; k_faults := mk_faults %s %s %s %s %s []; "
                    "k_status := %d; k_results := %s |}" % (
                        ns, cl, sl, evs, vlib.coq_list(f["o"]), vlib.coq_list(f["w"]), vlib.coq_list(f["l"]), vlib.coq_list(f["s"]),
                        vlib.coq_list(f["c"]), c["status"], vlib.coq_list(c["results"], vlib.coq_bool)))
        r = ctx.coq_eval_lists("cases", PRELUDE + "Definition cases : list c13_case := %s.\n" % vlib.coq_list(cases, lit),
                               {"model": "c13_model_mismatches cases"})
        if r is None:
            ctx.tie(False)
        else:
            bad_model = r["model"]
            ctx.tie(not bad_model)
    else:
        ctx.tie(False)
    shown = set()
    for i, why in bad_ref[:8]:
        c = cases[i] if i >= 0 else {"scenario": "conc", "faults": []}
        shown.add(i)
        ctx.violation({"case": {"scenario": c["scenario"], "faults": c["faults"]}, "impl": {k: c.get(k) for k in ("status", "results", "rc")},
                       "disagrees_with": "property (reference oracle): " + why})
    for i in bad_model[:8]:
        if i not in shown:
            c = cases[i]
            ctx.violation({"case": {"scenario": c["scenario"], "faults": c["faults"]}, "impl": {k: c.get(k) for k in ("status", "results", "rc")},
                           "disagrees_with": "model run (repaired writer)"})
    ctx.cov.update({
        "evaluations": len(cases) + (1 if conc else 0),
        "distinct_nontrivial": len({(c["scenario"], json.dumps(c["faults"])) for c in cases if c["faults"]}),
        "rule": "scenarios size (every write crosses the size limit), timer (batch synced by its timer), batch (PutBatch) x every single fault position of "
                "writev/linkat/fdatasync/openat/close + chosen double faults (thorough: all pairs in scenario size) + one fault-free concurrent run; "
                "non-trivial = at least one injected fault; distinct by (scenario, fault set)",
        "samples": [{k: c[k] for k in ("scenario", "faults", "status", "results")} for c in cases[1:4]],
        "traces_validated_against_impl": len(cases),
        "hist_scenario": dict(collections.Counter(c["scenario"] for c in cases)),
        "hist_status": dict(collections.Counter(str(c["status"]) for c in cases)),
        "hist_fault_kind": dict(collections.Counter(k for c in cases for (k, n) in c["faults"])),
        "concurrent_writers": (len(conc[1]) if conc else 0),
    })
