"""C16 — objects written through the write-cache stay readable through every flush."""
import json
import vlib

META = {
    "id": "C16",
    "engine": "wc",
    "design_ref": "5/C16",
    "coq_targets": ["Props/Properties_C16.vo"],
    "coq_files": ["WC/Model16.v", "WC/Proofs16.v", "Props/Properties_C16.v"],
    "theorems": ["C16_read_found", "C16_cache_or_blob", "C16_after_flush_in_blob"],
    "technique": "Coq proof (inductive invariant over all interleavings of a counter-abstracted transition system of put / flush / "
                 "read threads on one address, with mode switches, reopen, restart) + concurrent differential run of the real shard "
                 "with write-cache over a yielding / failing blob storage wrapper (race-detector build in the thorough tier)",
    "level_text": "Proved for every interleaving of the model's steps: after a put through the cache is acknowledged the object is in the "
                  "cache directory or in the blob storage (C16_cache_or_blob), every read that starts after the acknowledgement returns it "
                  "(C16_read_found: counter check -> cache read -> blob read against flushers doing cache read -> storage put -> file delete "
                  "-> counter delete, failing or not, any number of each, repeated puts, read-only switches, reopen, restart), and after a "
                  "flush it is in the blob storage (C16_after_flush_in_blob). The step order is tied to the code on every run by driving a "
                  "real shard concurrently (writer, 3 readers using Get/GetBytes/GetStream, explicit flushes, mode switches, reopen) over a "
                  "blob wrapper that yields inside the flusher's and the reader's windows: every read result is classified and the core "
                  "invariant is sampled inside every storage.Put of the flusher.",
    "level_note": "partial: atomicity of each model step (fstree link/unlink, mutex-protected counters) is assumed; real goroutine schedules "
                  "are sampled, not enumerated (the proof covers all interleavings of the model steps only). Values are presence bits in the "
                  "model: byte identity is established by the correspondence run (bytes compared for every read and for the blob copy), the "
                  "model only states that the flusher passes on what it read. User deletes end the obligation and are not in the model; "
                  "degraded (no-metabase) mode is exercised only through its flush. The correspondence is evaluated by the Python driver on "
                  "the harness's classified results (reads, invariant samples, final blob contents), not by a Coq case file. "
                  "Trusted: Coq 8.16.1 kernel; hand-written model; Go harness and hooks; Python driver.",
    "trusted_base": ["Coq 8.16.1 kernel, vm_compute", "model WC/Model16.v hand-written, tied by the concurrent differential run",
                     "harness/cmd/wc (c16.go) + hooks zz_verif_wc_hooks.go, zz_verif_wc_shard.go, lib/vlib.py"],
    "assumptions": ["each model step is atomic (file link/unlink, counters under their mutex)",
                    "files written to the cache / blob directory persist across reopen (noSync durability not modelled)"],
}


def run(ctx):
    ctx.prove()
    race = ctx.tier == "thorough"
    binp = ctx.go_build(race=race)
    args = [binp, "c16"]
    if race:
        args += ["96", "12", "2500"]
    cases = ctx.run_json(args, timeout=1500)
    bad_reads = [c for c in cases if c["reads"] != c["reads_ok"] or c["bad"]]
    bad_inv = [c for c in cases if c["order_bad"]]
    bad_final = [c for c in cases if c["final_flush"] != "ok" or c["not_in_blob"] or c["left_in_cache"]]
    ctx.tie(not bad_reads)    # reference C16_read_found on the implementation: every counted read returned identical bytes
    ctx.tie(not bad_inv)      # step order / C16_cache_or_blob sampled inside the flusher's storage.Put
    ctx.tie(not bad_final)    # C16_after_flush_in_blob: complete flush => identical bytes in the blob storage, cache empty
    seen = set()
    for c, what in [(c, "read after acknowledged put failed or returned different bytes") for c in bad_reads] + \
                   [(c, "cache file gone while the blob storage does not have the object (flusher order)") for c in bad_inv] + \
                   [(c, "after a complete flush: object not in blob storage with identical bytes / left in cache") for c in bad_final]:
        if (c["id"], what) in seen or len(seen) > 8:
            continue
        seen.add((c["id"], what))
        ctx.violation({"case": {k: c[k] for k in ("id", "objects", "fail_pct", "workers", "reopen", "modes", "explicit", "dur_ms")},
                       "what": what, "bad_reads": c["bad"][:5], "not_in_blob": c["not_in_blob"],
                       "left_in_cache": c["left_in_cache"], "invariant_samples_failed": c["order_bad"],
                       "theorem": "C16_read_found / C16_cache_or_blob / C16_after_flush_in_blob"})
    hist = lambda xs: {str(k): xs.count(k) for k in sorted(set(xs))}
    nontriv = [c for c in cases if c["reads"] > 0 and c["storage_puts"] > 0 and c["reads_while_cached"] > 0
               and c["reads_while_cached"] < c["reads"]]
    ctx.cov.update({
        "evaluations": sum(c["reads"] for c in cases),
        "distinct_nontrivial": vlib.distinct_count([{k: c[k] for k in c if k != "id"} for c in nontriv]),
        "rule": "one evaluation = one classified read of an acknowledged object on a live shard; cases = concurrent schedules "
                "(writer with repeated puts, 3 readers, explicit flushes, optional read-only switches and reopen, blob storage failing "
                "0/20/50 % and yielding inside flusher and reader). distinct_nontrivial counts distinct cases (by all recorded "
                "counters) in which reads were served both while the object was cached and after it was flushed and at least one flush "
                "reached the storage",
        "samples": [cases[0], cases[len(cases) // 2]] if cases else [],
        "cases": len(cases),
        "traces_validated_against_impl": len(cases),
        "reads_while_cached": sum(c["reads_while_cached"] for c in cases),
        "storage_puts": sum(c["storage_puts"] for c in cases),
        "storage_failed": sum(c["storage_failed"] for c in cases),
        "explicit_flushes": sum(c["explicit_flushes"] for c in cases),
        "mode_switches": sum(c["mode_switches"] for c in cases),
        "reopens": sum(c["reopens"] for c in cases),
        "acked_objects": sum(c["acked"] for c in cases),
        "hist_fail_pct": hist([c["fail_pct"] for c in cases]),
        "hist_workers": hist([c["workers"] for c in cases]),
        "race_detector": race,
    })
