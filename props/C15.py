"""C15 — after a crash every object the metadata lists as available is readable."""
import json
import importlib.util
import os
import vlib
_spec = importlib.util.spec_from_file_location("_crash", os.path.join(os.path.dirname(__file__), "_crash.py"))
_crash = importlib.util.module_from_spec(_spec)
_spec.loader.exec_module(_crash)

META = {
    "id": "C15",
    "engine": "crash",
    "design_ref": "5/C15",
    "coq_targets": ["Props/Properties_C15.vo", "Crash/Check.vo"],
    "coq_files": ["Crash/Model.v", "Crash/Check.v", "Crash/Proofs.v", "Crash/Inter.v", "Props/Properties_C15.v", "Gen/CrashConsts.v"],
    "theorems": ["C15_available_readable", "C15_unlocked_available_readable", "C15_bad_rollback_is_tombstoned", "C15_checked_point_is_a_crash_point", "C15_interleaved_partial", "C15_interleaved_refuted"],
    "technique": "Coq proof by invariant over all histories and all crash points of a step-level shard model (metabase x blob storage x "
                 "write-cache, every operation a sequence of atomic component steps in source order) + differential tie: the real shard is "
                 "stopped at every component-call boundary (directory snapshots of one run, a sample repeated by killing a real child process "
                 "inside the wrapped call), reopened, and compared with the model state after the same number of steps",
    "level_text": "C15_available_readable is proved for every universe of objects, every history of shard operations (put with or without a "
                  "refused metabase update, delete, mark-garbage, GC pass, epoch, write-cache flush), with and without write-cache, and every "
                  "number n of atomic steps after which the process stops: after the restart every address that the metabase reports as "
                  "available (and that does not carry the forced garbage mark) has its data in the blob storage or in the write-cache. "
                  "The model is tied to the Go code on every run: same step sequence (trace of wrapped component calls), same operation "
                  "results, same Exists/Get/blob/cache observation after the restart at every crash point of generated histories.",
    "level_note": "partial: operations of one history run one after another in C15_available_readable; concurrent operations are represented "
                  "by interleavings of the model's atomic steps only (C15_interleaved_partial: any interleaving in which a destructive "
                  "operation never overlaps another operation on the same address; C15_interleaved_refuted: without that restriction a put "
                  "racing with a delete of the same address leaves available metadata without data) - real goroutine schedules, the "
                  "background flush scheduler and bbolt batching are not modelled. Modelled, not verified: bbolt transactions and FSTree "
                  "writes as atomic steps (torn blob writes are C12), a crash as process death (page cache survives; no power-loss model). "
                  "Universe restrictions: one container, regular/tombstone/lock objects without split or EC parents, no container-level "
                  "GC mark, write-cache never full, GC batch size not smaller than the universe (checked). Objects carrying the forced "
                  "(default) garbage mark are outside the statement: MarkGarbage drops their cache copy by design and a later lock can "
                  "make the metabase report them available again.",
    "trusted_base": ["Coq 8.16.1 kernel, vm_compute", "model Crash/Model.v hand-written, tied by differential crash-point check",
                     "harness/cmd/crash (+ hooks zz_verif_crash_*.go), lib/vlib.py, props/_crash.py"],
    "assumptions": ["component calls (bbolt transaction, FSTree put/delete) are atomic", "a crash is a process stop: completed writes survive",
                    "the write-cache accepts every put (never full)"],
}


def run(ctx):
    binp = ctx.go_build()
    consts = _crash.gen_consts(ctx, binp)      # coq/Gen/CrashConsts.v from the current tree
    ctx.prove()
    model = ctx.model_ready(["Crash/Check.vo"])
    if ctx.replay:
        rp = json.load(open(ctx.replay))
        hs = [v["history"] for v in rp.get("violations", []) if "history" in v]
        cases = ctx.run_json([binp, "run", "1000000"], input="\n".join(json.dumps(h) for h in hs) + "\n")
    else:
        nh, nchild = (16, 8) if ctx.tier == "quick" else (150, 100)
        cases = ctx.run_json([binp, "c15", str(nh), str(nchild)], timeout=3000)
    if not model:
        ctx.tie(False)
        return
    res = _crash.evaluate(ctx, cases)
    if res is None:
        ctx.tie(False)
        return
    bad_model, bad_ref = res
    child_diff = [(c["id"], d) for c in cases for d in (c.get("child_diff") or [])]
    ctx.tie(not bad_model)     # implementation = model at every crash point (steps, results, state after restart)
    ctx.tie(not bad_ref)       # implementation satisfies the theorem's right-hand side at every crash point
    ctx.tie(not child_diff)    # a killed child process leaves what the snapshot of the same point shows
    seen = set()
    for (ci, pi) in sorted(bad_ref) + sorted(bad_model):
        if ci in seen or len(seen) >= 6:
            continue
        seen.add(ci)
        c, p = cases[ci], cases[ci]["points"][pi]
        ctx.violation({"history": c["h"], "crash_point": {k: p[k] for k in ("k", "after", "end")},
                       "impl_trace": p["trace"], "impl_observation(exists,get,blob,wc per address)": p["obs"],
                       "disagrees_with": [w for w, s in (("reference: available => readable", bad_ref), ("model state after the same steps", bad_model)) if (ci, pi) in s]})
    for (cid, d) in child_diff[:3]:
        ctx.violation({"history": cases[cid]["h"], "child_process_differs_from_snapshot_at_point": d["point"], "child": d["child"]})
    # concurrent put and delete of one address, scheduled through the wrappers' gate: the model's
    # interleaving machine (Crash/Inter.v) predicts available metadata without data (C15_interleaved_refuted)
    races = ctx.run_json([binp, "race"])
    exprs = {}
    for i, r in enumerate(races):
        dels = 3 if r["wc"] else 2
        exprs["r%d" % i] = ("let c := {| objs := objs race_cfg; wcen := %s |} in "
                            "let s := pst (prun c ([EStart (OPut 0 false); EAdv 0; EStart (ODel [0])] ++ repeat (EAdv 1) %d ++ [EAdv 0])) in "
                            "[exists_obs c s (ep s) 0; get_obs c s (ep s) 0; b2n (blob s 0); b2n (wc s 0)]" % (vlib.coq_bool(r["wc"]), dels))
    pred = ctx.coq_eval_lists("race", "From Coq Require Import List. Import ListNotations.\nFrom NV Require Import Crash.Model Crash.Inter.\n", exprs)
    race_ok = pred is not None and all(pred["r%d" % i] == [r["exists"], r["get"], r["blob"], r["cache"]] for i, r in enumerate(races))
    ctx.tie(race_ok)           # the real shard under the gated schedule = the interleaving model
    for r in races:
        if r["exists"] == 1 and r["get"] != 0:
            ctx.violation({"schedule": "Put(0): data write | Delete([0]) complete | Put(0): metabase update", "write_cache": r["wc"],
                           "impl_trace": r["trace"], "impl_observation": {"exists": r["exists"], "get": r["get"], "blob": r["blob"], "cache": r["cache"]},
                           "disagrees_with": "reference: available => readable (no crash needed)"}, key="put-delete-race")
    npts = sum(len(c["points"]) for c in cases)
    kinds = {}
    for c in cases:
        for o in c["h"]["ops"]:
            k = o["op"] + ("!" if o.get("fail") else "")
            kinds[k] = kinds.get(k, 0) + 1
    exists_hist, get_hist = {}, {}
    for c in cases:
        for p in c["points"]:
            for q in p["obs"]:
                exists_hist[q[0]] = exists_hist.get(q[0], 0) + 1
                get_hist[q[1]] = get_hist.get(q[1], 0) + 1
    distinct = vlib.distinct_count([(c["h"]["wc"], p["trace"], p["obs"]) for c in cases for p in c["points"] if p["trace"]])
    sample = []
    if cases:
        c = cases[0]
        sample = [{"history": c["h"], "point": c["points"][len(c["points"]) // 2]}]
    ctx.cov.update({
        "evaluations": npts,
        "distinct_nontrivial": distinct,
        "rule": "one evaluation = one crash point of one history (before/after every wrapped blob/write-cache call and every operation "
                "boundary); non-trivial = at least one component call happened; distinct by (write-cache on/off, call trace, observation)",
        "histories": len(cases),
        "with_write_cache": sum(1 for c in cases if c["h"]["wc"]),
        "child_process_crash_points": sum(c.get("children", 0) for c in cases),
        "op_histogram": kinds,
        "exists_histogram(0 false,1 true,2 removed,3 expired,4 gc-marked)": exists_hist,
        "get_histogram(0 ok,1 not found,2 removed,3 expired,4 meta without object)": get_hist,
        "consts": consts,
        "gated_race_schedules": races,
        "samples": sample,
    })
