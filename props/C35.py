"""C35 — inner ring nodes outside the alphabet never act with alphabet authority."""
import os
import vlib

META = {
    "id": "C35",
    "engine": "irmember",
    "design_ref": "5/C35, 4.3",
    "coq_targets": ["Props/Properties_C35.vo", "Prog/C35Member.vo"],
    "coq_files": ["Prog/IR.v", "Prog/IRProofs.v", "Prog/Tables_C35.v", "Prog/C35Member.v", "Prog/C35MemberProofs.v", "Props/Properties_C35.v"],
    "theorems": ["C35_static", "C35_non_member_never_acts", "C35_shapes_refuse_non_members", "C35_lookup_failure_is_non_member", "C35_is_alphabet_iff", "C35_non_member_index_negative"],
    "technique": "Coq: dominance checker over a handler IR proved sound once; the IR of pkg/innerring and all processors is regenerated from the Go source by the translator xlate on every run and the obligations are re-checked by vm_compute (translation tie); the membership getters IsAlphabet/AlphabetIndex/InnerRingIndex are modelled, proved and tied by a differential run over generated key lists and lookup failures, incl. histories of lookups/resets/partial failures on one cached indexer instance (cache model tied and checked against the reference; no theorem about the cache)",
    "level_text": "Quantifier = programs. Every function of pkg/innerring and pkg/innerring/processors/* is translated to the IR on each run; entry points are all functions that no analysed function calls "
                  "(notification, notary-request and timer handlers, startup, exported methods), so a newly added handler is included automatically. C35_static (vm_compute on the regenerated IR): from every entry point, "
                  "with calls inlined to depth 5 and deeper calls treated as needing the check, every chain transaction that needs alphabet authority (Invoke/NotaryInvoke/NotarySignAndInvokeTX/TransferGas/NewEpoch/Mint/Burn/Lock/Cheque/...) "
                  "is dominated by a membership check (IsAlphabet / AlphabetIndex / InnerRingIndex) whose source shape is one of the accepted ones; C35_shapes_refuse_non_members proves those shapes refuse every negative index "
                  "(-1 is what the getters return for a non-member or a failed lookup, C35_lookup_failure_is_non_member); C35_non_member_never_acts lifts this through the soundness theorem to all executions.",
    "level_note": "partial: (1) the clause 'an alphabet member acts on each event at most once' is not modelled (it lives in the notary/event de-duplication of pkg/morph and the chain itself); "
                  "(2) the handlers are not run: the processors hold concrete morph clients that cannot be faked without a chain, so for them the tie is the translator alone; the membership getters are run for real (hook VerifMembership). Trusted: Coq kernel + vm_compute; xlate (syntactic; "
                  "unresolvable calls are named effects); Prog/Tables_C35.v (list of authority-needing call suffixes, accepted check shapes and their meaning, exclusion of the operator-triggered control call Server.SignNotary).",
    "trusted_base": ["Coq 8.16.1 kernel, vm_compute", "xlate translator", "Prog/Tables_C35.v tables"],
    "assumptions": ["chain calls are recognised by method-name suffix on morph client wrappers", "inlining depth 5; un-inlined internal calls count as critical"],
}

PROCS = ["alphabet", "balance", "container", "governance", "neofs", "netmap", "reputation", "settlement"]


def regen(ctx):
    xl = vlib.xlate_build()
    cmd = [xl]
    for p in PROCS:
        cmd += ["-dir", "ir_%s=%s" % (p, os.path.join(vlib.REPO, "pkg/innerring/processors", p))]
    cmd += ["-dir", "innerring=" + os.path.join(vlib.REPO, "pkg/innerring"),
            "-guards", r"IsAlphabet$|AlphabetIndex$|InnerRingIndex$", "-out", os.path.join(vlib.COQ, "Gen", "Prog_IR.v")]
    rc, o, e = vlib.sh(cmd)
    if rc != 0:
        ctx.notes.append("xlate failed: " + e[-2000:])
    return rc == 0


def member_tie(ctx):
    binp = ctx.go_build()
    allrs = ctx.run_json([binp])
    rs = [r for r in allrs if r.get("kind") != "seq"]
    seqs = [r for r in allrs if r.get("kind") == "seq"]
    if not ctx.model_ready(["Prog/C35Member.vo"]):
        ctx.tie(False)
        return
    # histories on one indexer instance (cache): model tie + reference
    def sterm(st):
        return "(mkstep %s %s %s %s %s, (%s, %s, (%d)%%Z, (%d)%%Z, (%d)%%Z))" % (
            vlib.coq_bool(st["reset"]), vlib.coq_list(st["ir"]), vlib.coq_list(st["alpha"]), vlib.coq_bool(st["fail_ir"]), vlib.coq_bool(st["fail_alpha"]),
            vlib.coq_bool(st["is_alpha"]), vlib.coq_bool(st["is_active"]), st["alpha_idx"], st["ir_idx"], st["ir_size"])
    hres = ctx.coq_eval_lists("hist", "From NV Require Import Prog.C35Member.\nFrom Coq Require Import List ZArith. Import ListNotations.\n"
                              "Definition hs : list hcase := %s.\n" % vlib.coq_list(seqs, lambda h: "(%d, %s)" % (h["own"], vlib.coq_list(h["steps"], sterm))),
                              {"mm": "hist_mismatch_idx hs", "ref": "hist_ref_violation_idx hs"})
    if hres is None:
        ctx.tie(False)
        return
    ctx.tie(not hres["mm"])
    ctx.tie(not hres["ref"])
    for i in hres["ref"][:5]:
        ctx.violation({"membership_history": seqs[i], "why": "after this history of lookups/resets on one indexer the node is reported as alphabet member although the last complete refresh did not list its key (or none happened)"})
    for i in [j for j in hres["mm"] if j not in hres["ref"]][:5]:
        ctx.notes.append("indexer history differs from the cache model (no property violation on this input): %r" % (seqs[i],))
    ctx.cov["membership_histories"] = len(seqs)
    def term(r):
        return "(%d, %s, %s, %s, %s, (%s, %s, (%d)%%Z, (%d)%%Z, (%d)%%Z))" % (
            r["own"], vlib.coq_list(r["ir"]), vlib.coq_list(r["alpha"]), vlib.coq_bool(r["fail_ir"]), vlib.coq_bool(r["fail_alpha"]),
            vlib.coq_bool(r["is_alpha"]), vlib.coq_bool(r["is_active"]), r["alpha_idx"], r["ir_idx"], r["ir_size"])
    jobs, offs = [], []
    for off in range(0, len(rs), 600):
        jobs.append(("mem", "From NV Require Import Prog.C35Member.\nFrom Coq Require Import List ZArith. Import ListNotations.\n"
                     "Definition cases : list case := %s.\n" % vlib.coq_list(rs[off:off + 600], term),
                     {"mm": "mismatch_idx cases", "ref": "ref_violation_idx cases"}))
        offs.append(off)
    bad_m, bad_r = [], []
    for off, res in zip(offs, ctx.coq_eval_many(jobs)):
        if res is None:
            ctx.tie(False)
            return
        bad_m += [off + i for i in res["mm"]]
        bad_r += [off + i for i in res["ref"]]
    ctx.tie(not bad_m)
    ctx.tie(not bad_r)
    for i in bad_r[:5]:
        ctx.violation({"membership": rs[i], "why": "a node outside the alphabet list (or with a failed lookup) is reported as alphabet member / non-negative index"})
    for i in [j for j in bad_m if j not in bad_r][:5]:
        ctx.notes.append("membership getters differ from the model (no property violation on this input): %r" % (rs[i],))
    ctx.cov["membership_cases"] = len(rs)
    ctx.cov["membership_distinct"] = vlib.distinct_count([{k: r[k] for k in ("own", "ir", "alpha", "fail_ir", "fail_alpha")} for r in rs])


def run(ctx):
    ok = regen(ctx)
    ctx.tie(ok)
    if not ok:
        ctx.proof_ok = False
        ctx.proof_log = "translation failed"
        return
    ctx.prove()
    vlib.coq_make(["Gen/Prog_IR.vo", "Prog/Tables_C35.vo"])
    rc, out = ctx.coq_run("diag", "From Coq Require Import String List Bool. Import ListNotations.\nFrom NV Require Import Prog.IR Prog.Tables_C35.\nFrom NV Require Gen.Prog_IR.\n"
                          "Definition r := c35_roots Gen.Prog_IR.funcs.\n"
                          "Eval vm_compute in (c35_bad Gen.Prog_IR.funcs, c35_bad_shapes Gen.Prog_IR.funcs).\n"
                          "Eval vm_compute in (length r, length Gen.Prog_IR.funcs, length (filter (fun h => match lookup Gen.Prog_IR.funcs h with Some b => existsb c35_chain (names (inline_with c35_fuel Gen.Prog_IR.funcs (fun _ => false) b)) | None => false end) r)).\n"
                          "Eval vm_compute in (firstn 3 (filter (fun h => has_prefix \"ir_netmap\" h) r)).\n")
    flat = " ".join(out.split())
    import re
    m = re.search(r"= \((\d+), (\d+), (\d+)\)", flat)
    roots, nfuncs, acting = (int(m.group(1)), int(m.group(2)), int(m.group(3))) if m else (0, 0, 0)
    if ctx.proof_ok is False:
        # the static obligation failed: the failing "input" of a programs-quantified property is the
        # entry point / check named by the analysis; report it as the concrete witness
        bad = re.search(r"= \((\[.*?\]), (\[.*?\])\) : list string", flat)
        ctx.violation({"undominated_entry_points": bad.group(1) if bad else flat[:1500],
                       "checks_with_unaccepted_shape": bad.group(2) if bad else "",
                       "why": "an entry point reaches a chain transaction needing alphabet authority without an accepted membership check "
                              "(for a range-only check the witness is index = -1, see C35_range_only_shape_refuted)"})
    member_tie(ctx)
    ctx.cov.update({
        "programs": roots,
        "evaluations": nfuncs,
        "distinct_nontrivial": acting,
        "rule": "all functions of 9 packages translated (evaluations = functions); programs = entry points; non-trivial = entry points from which a chain transaction needing alphabet authority is reachable",
        "samples": [flat[-400:]],
        "exhaustive": True,
    })
