"""C11 — payload range reads return exactly the requested bytes or out-of-range."""
import collections
import json
import vlib
import importlib.util, os
_spec = importlib.util.spec_from_file_location("_fstree", os.path.join(os.path.dirname(__file__), "_fstree.py"))
_fs = importlib.util.module_from_spec(_spec)
_spec.loader.exec_module(_fs)

META = {
    "id": "C11",
    "engine": "fstree",
    "design_ref": "5/C11",
    "coq_targets": ["Props/Properties_C11.vo", "FSTree/RangeCheck.vo"],
    "coq_files": ["Base/U64.v", "Gen/FSTreeConsts.v", "FSTree/Wire.v", "FSTree/Range.v", "FSTree/Combined.v", "FSTree/ObjGen.v",
                  "FSTree/Layers.v", "FSTree/RangeCheck.v", "FSTree/WireProofs.v", "FSTree/RangeProofs.v", "Props/Properties_C11.v"],
    "theorems": ["C11_resolve_spec", "C11_resolve_sound", "C11_stream_bytes", "C11_stream_bytes_nopayload", "C11_stream_bytes_plain",
                 "C11_stream_bytes_combined", "C11_stream_bytes_compressed", "C11_layers_agree"],
    "technique": "Coq proof over all uint64 triples (Resolve vs a wrap-free range specification) and over all payloads, head-buffer split "
                 "points and ranges (stream shifting incl. the cut length varint), models tied to the Go code by differential runs on real files",
    "level_text": "C11_resolve_spec/C11_resolve_sound: for every mode and all uint64 (a, b, len) the Gallina transcription of PayloadRange.Resolve "
                  "(uint64 wrap arithmetic) equals a wrap-free range specification, stays inside the payload, covers exactly the denoted positions and "
                  "answers out-of-range exactly for the unsatisfiable requests. C11_stream_bytes: for every payload P, every split point j of "
                  "(length varint ++ P) between head buffer and stream (also inside the varint), every range, the model of shiftStreamToRange / "
                  "shiftPayloadRangeStream delivers exactly P[off, off+ln) or out-of-range, for the stream shapes of plain files, combined files "
                  "(limited reader, foreign records behind) and zstd streams (any decompressor inverting the stored bytes). The models are tied to "
                  "the Go code on every run: Resolve exhaustively on small lengths + boundary values near 2^63/2^64, the stream functions through "
                  "GetRangeStream / ReadPayloadRange / ReadObjectParts on planted plain, combined and zstd files with the head buffer ending "
                  "around the payload tag and inside the length varint; the implementation's outputs are also compared with the theorem right-hand sides.",
    "level_note": "partial: (1) the two scans of the head buffer (payload tag position, payload length in the header) enter C11_stream_bytes as premises "
                  "(SFound / PlOk); their agreement with the Go scans is established by the differential tie only. (2) the combined-file window scan "
                  "(readHeader) is modelled and tied but its proof belongs to C10. (3) C11_layers_agree is about a thin delegation model of "
                  "write-cache / shard / engine (first non-not-found answer wins); engine metabase look-ups and the shard/engine layers are not "
                  "exercised by the harness (modelled, not tied). (4) Read() chunking of the reader combinators is abstracted to 'bytes until EOF' "
                  "(the harness drains with random chunk sizes); file I/O errors are not modelled. (5) zstd is an assumption (dec Z = Some obj). "
                  "Premise: the payload field tag lies inside the buffered head (non-payload part < 20480 bytes, guaranteed by the header size limit).",
    "trusted_base": ["Coq 8.16.1 kernel, vm_compute", "hand-written models FSTree/Wire.v, Range.v, Combined.v tied by differential check",
                     "harness/cmd/fstree, harness/hooks/.../fstree/zz_verif_fstree.go, lib/vlib.py"],
    "assumptions": ["zstd: dec(stored bytes) = object binary (Section hypothesis dec_inverts)",
                    "payload length <= MaxInt64", "a, b, len are uint64 values",
                    "payload field tag inside the head buffer; header payload length = actual payload length (well-formed object)",
                    "kernel file reads return the file content (no I/O errors)"],
}

FMT = {"plain": 0, "combined": 1, "zplain": 2, "zcombined": 3}
API = {"grs": 0, "rpr": 1, "rop": 2}
PRELUDE = ("From Coq Require Import List NArith ZArith Bool.\nImport ListNotations.\n"
           "From NV Require Import FSTree.RangeCheck.\nLocal Open Scope N_scope.\n")


def res_lit(c):
    return "(%s, %s, %s, %s, %d, %s, %s)" % (c["mode"], c["a"], c["b"], c["len"], c["st"], c["off"], c["ln"])


def tkey(c):
    s = c["spec"]
    return (c["fmt"], s["sigk"], s["attrk"], s["plen"], s["seed"], s["hlen"], s["pf"], tuple(c["pre"] or []), tuple(c["post"] or []),
            c["zlen"], c["split"])


def nlist(xs):
    return "[" + "; ".join("%d" % x for x in (xs or [])) + "]"


def target_lit(c, caps):
    s = c["spec"]
    return "(Build_str_target %d %d %d %d %d %d %s %s %s %d %d %s)" % (
        FMT[c["fmt"]], s["sigk"], s["attrk"], s["plen"], s["seed"], s["hlen"],
        vlib.coq_bool(s["pf"]), nlist(c["pre"]), nlist(c["post"]), c["zlen"], max(c["split"], 0), nlist(caps))


def query_lit(c, caps):
    return "(Build_str_query %d %d%%nat %d %d %d %d %d (%d)%%Z %s)" % (
        API[c["api"]], caps.index(c["cap"]), c["mode"], c["a"], c["b"], c["st"], c["n"], c["x"], vlib.coq_bool(c["raw"]))


def group_lit(strs, g):
    caps = sorted({strs[i]["cap"] for i in g})
    return "(%s, %s)" % (target_lit(strs[g[0]], caps), vlib.coq_list(g, lambda i: query_lit(strs[i], caps)))


def run(ctx):
    binp = ctx.go_build()
    _fs.gen_consts(ctx, binp)
    ctx.prove()
    model = ctx.model_ready(["FSTree/RangeCheck.vo"])
    if ctx.replay:
        rp = json.load(open(ctx.replay))
        cases = ctx.run_json([binp, "c11", "replay"], input=json.dumps([v["case"] for v in rp.get("violations", []) if "case" in v]))
    else:
        cases = ctx.run_json([binp, "c11"])
    if not model:
        ctx.tie(False)
        return
    res = [c for c in cases if c["kind"] == "res"]
    strs = [c for c in cases if c["kind"] == "str"]

    jobs, meta = [], []
    NJ = 6
    CH = min(10000, max(1, (len(res) + NJ - 1) // NJ))   # longer list literals overflow coqc's stack
    for off in range(0, len(res), CH):
        chunk = res[off:off + CH]
        jobs.append(("res", PRELUDE + "Definition cases : list res_case := %s.\n" % vlib.coq_list(chunk, res_lit),
                     {"model": "res_model_mismatches cases", "ref": "res_ref_mismatches cases"}))
        meta.append(("res", off, None))
    # group the stream cases by stored object
    groups = collections.OrderedDict()
    for i, c in enumerate(strs):
        groups.setdefault(tkey(c), []).append(i)
    glist = list(groups.values())

    def weight(g):
        c0 = strs[g[0]]
        return 20 * len(g) + sum(strs[i]["n"] for i in g) // 500 + (c0["spec"]["plen"] + sum(c0["pre"] or [])) // 100

    # pack the groups into at most 10 jobs of similar weight
    NP = 10 if ctx.tier == "quick" else 40
    packs = [[] for _ in range(NP)]
    loads = [0] * NP
    for g in sorted(glist, key=weight, reverse=True):
        k = loads.index(min(loads))
        packs[k].append(g)
        loads[k] += weight(g)
    for p in [p for p in packs if p]:
        lit = vlib.coq_list(p, lambda g: group_lit(strs, g))
        jobs.append(("str", PRELUDE + "Definition cases : list str_case := %s.\n" % lit,
                     {"model": "str_model_mismatches cases", "ref": "str_ref_mismatches cases", "out": "str_outside_premises cases"}))
        meta.append(("str", [i for g in p for i in g], p))
    # thorough: ~100 jobs of 2-4 GB each; on the shared machine some coqc were killed without output
    # when 16 ran at once, so run fewer at a time and re-run a failed chunk once on its own
    results = ctx.coq_eval_many(jobs, workers=(None if ctx.tier == "quick" else 8))
    for i, r in enumerate(results):
        if r is None:
            results[i] = ctx.coq_eval_lists("retry%d" % i, jobs[i][1], jobs[i][2])
            if results[i] is not None:
                ctx.notes.append("chunk %d succeeded on retry" % i)
    bad = {"res_model": [], "res_ref": [], "str_model": [], "str_ref": []}
    outside = 0
    for (kind, info, p), r in zip(meta, results):
        if r is None:
            ctx.tie(False)
            return
        if kind == "res":
            bad["res_model"] += [info + i for i in r["model"]]
            bad["res_ref"] += [info + i for i in r["ref"]]
        else:
            bad["str_model"] += [info[i] for i in r["model"]]
            bad["str_ref"] += [info[i] for i in r["ref"]]
            outside += sum(len(p[i]) for i in r["out"])
    ctx.tie(not bad["res_model"])   # Resolve = model resolve
    ctx.tie(not bad["res_ref"])     # Resolve satisfies the range specification (theorem right-hand side)
    ctx.tie(not bad["str_model"])   # real range streams = model
    ctx.tie(not bad["str_ref"])     # delivered bytes = payload slice denoted by the range
    seen = set()
    for name, lst, src in (("res_ref", bad["res_ref"], res), ("res_model", bad["res_model"], res),
                           ("str_ref", bad["str_ref"], strs), ("str_model", bad["str_model"], strs)):
        for i in lst:
            c = src[i]
            k = (name, c.get("fmt"), c.get("api"), c.get("mode"), c.get("st"), json.dumps(c.get("spec")))
            if k in seen or len(seen) > 12:
                continue
            seen.add(k)
            ctx.violation({"case": c, "disagrees_with": {"res_ref": "range specification (C11_resolve_spec rhs)",
                                                          "res_model": "model resolve",
                                                          "str_ref": "payload slice denoted by the range (C11_stream_bytes rhs)",
                                                          "str_model": "model range stream"}[name]})
    dist = {(c["mode"], c["a"], c["b"], c["len"]) for c in res if c["st"] == 0 and c["ln"] != "0"}
    dist2 = {(tkey(c), c["api"], c["mode"], c["a"], c["b"]) for c in strs if c["n"] > 0}
    ctx.cov.update({
        "evaluations": len(cases),
        "distinct_nontrivial": len(dist) + len(dist2),
        "rule": "Resolve: all modes x all (a,b) for payload lengths 0..L (L=20 quick, 64 thorough) + boundary values around 2^63/2^64 + random; "
                "streams: synthetic objects planted as plain/combined/zstd files, head buffer ending around the payload tag and inside the "
                "length varint, all three range APIs, with/without header read or interception; non-trivial = delivers at least one byte; "
                "distinct by (object, api, mode, a, b)",
        "samples": [res[len(res) // 2]] + strs[len(strs) // 3:len(strs) // 3 + 2] if strs and res else [],
        "traces_validated_against_impl": len(cases),
        "hist_fmt": dict(collections.Counter(c["fmt"] for c in strs)),
        "hist_api": dict(collections.Counter(c["api"] for c in strs)),
        "hist_status": dict(collections.Counter(str(c["st"]) for c in strs)),
        "hist_mode": dict(collections.Counter(str(c["mode"]) for c in cases)),
        "stream_cases_outside_theorem_premises": outside,
        "stored_objects": len(glist),
    })
