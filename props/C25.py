"""C25 — a successful PUT means the storage policy's copies were acknowledged."""
import json
import vlib

META = {
    "id": "C25",
    "engine": "place",
    "design_ref": "5/C25",
    "coq_targets": ["Props/Properties_C25.vo", "Place/PutCheck.vo"],
    "coq_files": ["Place/Put.v", "Place/PutProofs.v", "Place/PutCheck.v", "Props/Properties_C25.v"],
    "theorems": ["C25_rep", "C25_rep_all_rules", "C25_initial", "C25_ec", "C25_ec_distinct_nodes", "C25_entry"],
    "technique": "Coq proof (loop invariants over the node list / rule list; for EC an invariant preserved by every atomic step, hence for "
                 "every interleaving) about a Gallina transcription of saveObject/handleREPRule/applyECRule + differential check against the "
                 "real distributedTarget over a fake transport",
    "level_text": "Proved for all node lists (overlapping between rules, duplicate-free inside a rule), all acknowledgement oracles and all "
                  "policies of the modelled class: without MaxReplicas a full success implies that every enabled replication rule has its "
                  "number of copies (R, or its initial limit) acknowledged by distinct nodes of its own list that were really sent the object; "
                  "with MaxReplicas > 0 no rule exceeds its limit, the total never exceeds MaxReplicas and on success equals "
                  "min(MaxReplicas, sum of limits); for an EC rule, for EVERY interleaving of the part goroutines' atomic steps, all parts "
                  "stored implies pairwise distinct acknowledging nodes of the rule's list. Tied to the source on every run: the real "
                  "distributedTarget (WriteHeader/Write/saveObject, real EC encoding and part formation) runs over a fake transport answering "
                  "from the same oracle, result class and sends are compared with the model; for EC the observed send log is replayed on the "
                  "model under a schedule found by the driver and must be reproduced exactly.",
    "level_note": "Trusted: Coq kernel + vm_compute; hand-written model Place/Put.v (tied by differential check on sampled policies: 1-3 REP rules, "
                  "1-4 copies, lists of <= 7 nodes, initial policies with limits/MaxReplicas/PreferLocal, 1-2 EC rules incl. repeated rules); "
                  "harness fakes; Python driver incl. its schedule search (a wrong schedule can only make the check fail). partial: the concurrent "
                  "sends inside one REP group are modelled in list order (counters are order independent, sets of sends compared as sets); EC "
                  "concurrency is modelled at the granularity of the mutex-protected ecProgress operations; TOMBSTONE/LOCK/LINK broadcast, "
                  "client-sealed EC parts, meta signatures, post-placement replication and mixed REP+EC policies (refused by the inner ring; "
                  "saveObject indexes encodedECParts with the global rule index there) are not modelled.",
    "trusted_base": ["Coq 8.16.1 kernel, vm_compute", "model Place/Put.v hand-written, tied by differential check",
                     "harness/cmd/place, harness/hooks/pkg/services/object/put/zz_verif_place_put.go, lib/vlib.py"],
    "assumptions": ["no node is repeated inside one placement list", "a node either acknowledges everything it is sent or refuses everything (per PUT)",
                    "policy is REP-only or EC-only (REP+EC containers are refused by the inner ring)",
                    "<= 12 enabled rules (slices.SortFunc is an insertion sort there)"],
}


# ---- schedule search for the EC replay (mirror of ec_step in Place/Put.v) ------------------
def part_seq(p, t, n):
    res = []
    if t == 0:
        return res
    for shift in range(t):
        i = (p + shift) % t
        while i < n:
            res.append(i)
            i += t
    return res


class ECSim:
    def __init__(self, total, n, data, ackidx):
        self.n, self.data, self.ack = n, data, ackidx
        self.rest = [part_seq(p, total, n) for p in range(total)]
        self.hold = [None] * total
        self.done = [None] * total
        self.dead = [False] * total
        self.taken, self.failed, self.stop = set(), 0, False
        self.log, self.sched = [], []

    def finished(self, p):
        return self.done[p] is not None or self.dead[p]

    def step(self, p):
        self.sched.append(p)
        if self.finished(p):
            return
        if self.hold[p] is not None:
            i = self.hold[p]
            self.hold[p] = None
            self.log.append((p, i))
            if self.ack(i):
                self.done[p] = i
            elif self.stop:
                self.dead[p] = True
            else:
                self.failed += 1
                pf = (self.n - self.failed) < self.data
                self.stop = pf
                self.dead[p] = pf
            return
        if not self.rest[p]:
            self.dead[p] = True
            return
        i = self.rest[p].pop(0)
        if self.stop or i in self.taken:
            return
        self.taken.add(i)
        self.hold[p] = i


def find_schedule(total, n, data, ackidx, log, lazy):
    """log: [(part, node index)] in the order the sends were observed"""
    sim = ECSim(total, n, data, ackidx)
    owner = {i: p for (p, i) in log}

    def flush(p):
        if sim.hold[p] is not None:
            sim.step(p)

    def flush_failures():
        for q in range(total):
            if sim.hold[q] is not None and not sim.ack(sim.hold[q]):
                sim.step(q)
                if sim.stop:
                    return

    def reach(q, j, depth):
        guard = 0
        while sim.hold[q] != j and not sim.finished(q) and guard < 4 * n + 8:
            guard += 1
            if sim.hold[q] is not None:
                flush(q)
                continue
            if not sim.rest[q]:
                break
            nxt = sim.rest[q][0]
            if nxt != j and nxt not in sim.taken and not sim.stop:
                o = owner.get(nxt)
                if o is not None and o != q and depth < 8:
                    reach(o, nxt, depth + 1)
                else:
                    flush_failures()
                if nxt not in sim.taken and not sim.stop:
                    return False
            sim.step(q)
        return sim.hold[q] == j

    for (p, i) in log:
        reach(p, i, 0)
        if not lazy:
            flush(p)
    for (p, i) in log:
        if sim.hold[p] == i:
            sim.step(p)
    for p in range(total):
        guard = 0
        while not sim.finished(p) and guard < 4 * n + 8:
            guard += 1
            sim.step(p)
    return sim.sched, sim.log


def ec_schedules(c):
    """one schedule per EC rule index; call order does not matter here"""
    scheds = []
    ack = set(c["ack"])
    for e, (d, p) in enumerate(c["ecr"]):
        nodes = c["lists"][e]
        log = []
        okmap = True
        for s in c["obs"]["sends"]:
            if s["rule"] == e:
                if s["node"] in nodes:
                    log.append((s["part"], nodes.index(s["node"])))
                else:
                    okmap = False
        best = []
        if okmap:
            for lazy in (False, True):
                sched, got = find_schedule(d + p, len(nodes), d, lambda i: nodes[i] in ack, log, lazy)
                best = best or sched
                if all([x for x in got if x[0] == q] == [x for x in log if x[0] == q] for q in range(d + p)):
                    best = sched
                    break
        scheds.append(best)
    return scheds


def coq_case(c):
    o = c["obs"]
    ini = "None"
    if c["ini"] is not None:
        ini = "(Some (mkInit %s %d %s))" % (vlib.coq_list(c["ini"]["limits"]), c["ini"]["max"], vlib.coq_bool(c["ini"]["prefer"]))
    scheds = ec_schedules(c) if c["ecr"] else []
    sends = vlib.coq_list(o["sends"], lambda s: "(%d, %d, %d)" % (s["rule"] + 1 if s["rule"] >= 0 else 0, max(s["part"], 0), s["node"]))
    return "(mkPut %d %s %s %s %s %s %s %s %d %s %s)" % (
        c["local"], vlib.coq_list(c["lists"], vlib.coq_list), vlib.coq_list(c["rep"]),
        vlib.coq_list(c["ecr"], lambda r: "(%d, %d)" % (r[0], r[1])), vlib.coq_list(c["ack"]),
        vlib.coq_bool(c["session"]), ini,
        vlib.coq_list(scheds, vlib.coq_list), o["status"], sends, vlib.coq_bool(o["panic"]))


PRELUDE = ("From NV Require Import Place.Put Place.PutCheck.\n"
           "From Coq Require Import List. Import ListNotations.\n")


def evaluate(ctx, cases):
    bad_model, bad_ref = set(), set()
    CH = max(100, min(900, -(-len(cases) // vlib.NCPU)))
    jobs, offs = [], []
    for off in range(0, len(cases), CH):
        lit = ";\n".join(coq_case(c) for c in cases[off:off + CH])
        jobs.append(("cases", PRELUDE + "Definition cases : list putcase := [\n%s].\n" % lit,
                     {"model": "model_mismatches cases", "ref": "ref_mismatches cases"}))
        offs.append(off)
    for off, res in zip(offs, ctx.coq_eval_many(jobs)):
        if res is None:
            return None
        bad_model |= {off + i for i in res["model"]}
        bad_ref |= {off + i for i in res["ref"]}
    return bad_model, bad_ref


def strip(c):
    return {k: v for k, v in c.items() if k not in ("obs", "src")}


def rerun(ctx, binp, cases):
    inp = "".join(json.dumps(strip(c)) + "\n" for c in cases)
    return ctx.run_json([binp, "put-replay"], input=inp)


def minimise(ctx, binp, c, kind):
    def fails(x):
        out = rerun(ctx, binp, [x])
        if not out:
            return False
        r = evaluate(ctx, out)
        return r is not None and bool(r[0] if kind == "model" else r[1])
    cur = json.loads(json.dumps(strip(c)))
    budget = 5
    changed = True
    while changed and budget > 0:
        changed = False
        cands = []
        for i in range(len(cur["ack"])):
            x = json.loads(json.dumps(cur)); del x["ack"][i]; cands.append(x)
        for li, l in enumerate(cur["lists"]):
            need = cur["ecr"][li - len(cur["rep"])] if li >= len(cur["rep"]) else None
            for i in range(len(l)):
                if len(l) > (sum(need) if need else 1):
                    x = json.loads(json.dumps(cur)); del x["lists"][li][i]; cands.append(x)
        for x in cands:
            if budget <= 0:
                break
            budget -= 1
            if fails(x):
                cur, changed = x, True
                break
    return cur


def hist(items, f):
    h = {}
    for x in items:
        k = f(x)
        h[k] = h.get(k, 0) + 1
    return h


def run(ctx):
    ctx.prove()
    model = ctx.model_ready(["Place/PutCheck.vo"])
    binp = ctx.go_build()
    if ctx.replay:
        rp = json.load(open(ctx.replay))
        cases = rerun(ctx, binp, [v["case"] for v in rp.get("violations", []) if "case" in v])
    else:
        cases = ctx.run_json([binp, "put"])
    if not model:
        ctx.tie(False)
        return
    res = evaluate(ctx, cases)
    if res is None:
        ctx.tie(False)
        ctx.tie(False)
        return
    bad_model, bad_ref = res
    ctx.tie(not bad_model)   # implementation = model (result class, sends; EC: the send log replayed on the model)
    ctx.tie(not bad_ref)     # implementation satisfies the theorems' right-hand sides
    reported = 0
    for i in sorted(bad_ref) + sorted(bad_model - bad_ref):
        if reported >= 6:
            break
        kind = "ref" if i in bad_ref else "model"
        c = cases[i]
        small = minimise(ctx, binp, c, kind) if reported < 1 else strip(c)
        out = rerun(ctx, binp, [small])
        ctx.violation({"case": small, "impl_observed": out[0]["obs"] if out else c["obs"],
                       "disagrees_with": "reference: PUT reported success without the policy's acknowledged copies / parts not on distinct nodes of the rule's list"
                       if kind == "ref" else "model Place/Put.v (save_rep / save_ec)",
                       "theorems": META["theorems"]})
        reported += 1

    def kind_of(c):
        if c["ecr"]:
            return "ec%d%s" % (len(c["ecr"]), "-repeated" if len(c["ecr"]) == 2 and c["ecr"][0] == c["ecr"][1] else "")
        k = "rep%d" % len(c["rep"])
        if c["ini"] is not None:
            k += "+initial" + ("-limits" if c["ini"]["limits"] else "") + ("-max" if c["ini"]["max"] else "") + (
                "-preferlocal" if c["ini"]["prefer"] and c["ini"]["max"] else "")
        return k
    ctx.cov.update({
        "evaluations": len(cases),
        "distinct_nontrivial": len({json.dumps(strip(c), sort_keys=True) for c in cases if len(c["obs"]["sends"]) >= 2}),
        "rule": "random policies: 1-3 REP rules with 1-4 copies over overlapping lists drawn from 8 nodes (local node inside or outside), "
                "optionally an initial policy (limits / MaxReplicas 1-5 / PreferLocal), or 1-2 EC rules d<=3,p<=2 (second rule equal to the "
                "first half of the time); per-node acknowledge/refuse with failure rate 1/2..1/8; non-trivial = at least two sends; distinct "
                "by full input",
        "samples": [cases[0], cases[len(cases) // 2], cases[-1]] if cases else [],
        "traces_validated_against_impl": len(cases),
        "hist_policy": hist(cases, kind_of),
        "hist_status": hist(cases, lambda c: ["ok", "incomplete", "error"][c["obs"]["status"]]),
        "hist_sends": hist(cases, lambda c: min(len(c["obs"]["sends"]), 12)),
        "hist_local": hist(cases, lambda c: "in-container" if any(c["local"] in l for l in c["lists"]) else "outside"),
        "ec_logs_replayed": sum(1 for c in cases if c["ecr"]),
    })
