"""C21 — erasure coding restores the payload from any sufficient subset of parts."""
import json
import os
import re
import vlib

META = {
    "id": "C21",
    "engine": "ec",
    "design_ref": "5/C21",
    "coq_targets": ["Props/Properties_C21.vo", "EC/RSCheck.vo", "EC/RSBufCheck.vo"],
    "coq_files": ["EC/GF256.v", "EC/GF256Proofs.v", "EC/LinAlg.v", "EC/LinAlgProofs.v", "EC/RS.v", "EC/RSProofs.v",
                  "EC/RSBuf.v", "EC/RSBufProofs.v", "EC/RSCheck.v", "EC/RSBufCheck.v", "EC/RSMds.v", "EC/RSGenTie.v", "Gen/ECConsts.v",
                  "Props/Properties_C21.v"],
    "theorems": ["C21_gf_field", "C21_library_tables", "C21_mds", "C21_equal_lengths", "C21_hashes", "C21_decode",
                 "C21_decode_empty_refuted", "C21_partial_indexes", "C21_partial_range", "C21_multi_rule_no_corruption",
                 "C21_caller_buffer_exact", "C21_multi_rule_hazard_with_spare_capacity"],
    "technique": "",
    "level_text": "",
    "level_note": "",
    "trusted_base": [],
    "assumptions": [],
}

PRELUDE = ("From NV Require Import EC.GF256 EC.LinAlg EC.RS EC.RSCheck.\n"
           "From Coq Require Import NArith List. Import ListNotations.\n")


def nl(xs):
    return "[" + ";".join("%d" % x for x in xs) + "]%N"


def mat(ps):
    return "[" + ";".join(nl(p) for p in ps) + "]"


def bl(xs):
    return "[" + ";".join("true" if x else "false" for x in xs) + "]"


def op_lit(o, c, name):
    """ops refer to the case's data / parts definitions where the observed bytes are equal to them
    (keeps the generated file small: parsing byte literals dominates the evaluation time)"""
    if o["kind"] == "decode":
        kind = "KDecode"
    elif o["kind"] == "range":
        kind = "(KRange %d %d)" % (o["from"], o["to"])
    else:
        kind = "(KIdx %s)" % vlib.coq_list(o["idxs"])
    tr = "None" if o["trunc"] < 0 else "(Some %d)" % o["trunc"]
    out = ("%s_d" % name) if (o["out"] == c["data"] and o["out"]) else nl(o["out"])
    after = []
    for i, p in enumerate(o["parts"]):
        if p and i < len(c["parts"]) and p == c["parts"][i]:
            after.append("(nth %d %s_p [])" % (i, name))
        else:
            after.append(nl(p))
    return "(%s, %s, %s, %s, %s, [%s])" % (kind, bl(o["mask"]), tr, vlib.coq_bool(o["ok"]), out, ";".join(after))


def case_defs(c, name):
    return ("Definition %s_d : list N := %s.\nDefinition %s_p : mat := %s.\n" % (name, nl(c["data"]), name, mat(c["parts"]))
            + "Definition %s : case := (%d, %d, %s_d, %s, %s_p, %s, %d, [%s]).\n" % (
                name, c["k"], c["m"], name, vlib.coq_bool(c["enc_ok"]), name, vlib.coq_bool(c["hashes_ok"]),
                c["n_hashes"], ";\n".join(op_lit(o, c, name) for o in c["ops"])))


def case_cost(c):
    return 2000 + len(c["data"]) * 40 + (len(c["data"]) + 50) * (1 + len(c["ops"])) * (c["k"] + c["m"])


def chunked(cases, nchunks):
    """greedy balance by estimated cost; returns list of lists of case indices"""
    order = sorted(range(len(cases)), key=lambda i: -case_cost(cases[i]))
    bins = [[0, []] for _ in range(max(1, nchunks))]
    for i in order:
        b = min(bins, key=lambda b: b[0])
        b[0] += case_cost(cases[i])
        b[1].append(i)
    return [sorted(b[1]) for b in bins if b[1]]


def eval_rs(ctx, cases):
    """returns (bad_model, bad_ref) as sets of (case index, j) with j=0 encode, j>0 op j-1; None on failure"""
    jobs, maps = [], []
    for idxs in chunked(cases, 10 if ctx.tier == "quick" else 16):
        defs = "".join(case_defs(cases[i], "c%d" % i) for i in idxs)
        jobs.append(("rs", PRELUDE + defs + "Definition cases : list case := [%s].\n" % ";".join("c%d" % i for i in idxs),
                     {"model": "model_mismatches cases", "ref": "ref_mismatches cases"}))
        maps.append(idxs)
    bad_model, bad_ref = set(), set()
    for idxs, res in zip(maps, ctx.coq_eval_many(jobs)):
        if res is None:
            return None
        for code in res["model"]:
            bad_model.add((idxs[code // 1000], code % 1000))
        for code in res["ref"]:
            bad_ref.add((idxs[code // 1000], code % 1000))
    return bad_model, bad_ref


def describe(c, j):
    d = {"k": c["k"], "m": c["m"], "data": c["data"]}
    if j == 0:
        d["what"] = "iec.Encode"
        d["impl_parts"] = c["parts"]
        d["hashes_ok"] = c["hashes_ok"]
    else:
        o = c["ops"][j - 1]
        d["what"] = "iec." + {"decode": "Decode", "range": "DecodeRange", "idx": "DecodeIndexes"}[o["kind"]]
        d["op"] = o
    return d


def gomod_dir(mod):
    """directory of a dependency in the module cache, version taken from the tree's go.mod"""
    gm = open(os.path.join(vlib.REPO, "go.mod")).read()
    m = re.search(r"^\s*%s\s+(\S+)" % re.escape(mod), gm, re.M)
    if not m:
        raise vlib.Broken("module %s not in go.mod" % mod)
    cache = os.environ.get("GOMODCACHE") or os.path.join(os.environ.get("GOPATH", os.path.expanduser("~/go")), "pkg", "mod")
    d = os.path.join(cache, mod + "@" + m.group(1))
    if not os.path.isdir(d):
        raise vlib.Broken("module cache directory missing: " + d)
    return d, m.group(1)


def gen_consts():
    """Gen/ECConsts.v from the library / SDK sources the tree's go.mod selects (T1 tie)."""
    rsd, rsv = gomod_dir("github.com/klauspost/reedsolomon")
    src = open(os.path.join(rsd, "galois.go")).read()
    poly = int(re.search(r"generatingPolynomial\s*=\s*(\d+)", src).group(1))
    exp = re.search(r"var expTable = \[\w+\]byte\{([^}]*)\}", src).group(1)
    exp = [int(x, 0) for x in re.findall(r"0x[0-9a-fA-F]+|\d+", exp)]
    mul = re.search(r"var mulTable = \[256\]\[256\]uint8\{(.*?)\}\}", src, re.S).group(1)
    rows = [[int(x, 0) for x in re.findall(r"0x[0-9a-fA-F]+|\d+", r)] for r in mul.split("}")]
    rows = [r for r in rows if r]
    if len(exp) != 256 or len(rows) != 256 or any(len(r) != 256 for r in rows):
        raise vlib.Broken("cannot parse galois.go tables")
    sdkd, sdkv = gomod_dir("github.com/nspcc-dev/neofs-sdk-go")
    pol = open(os.path.join(sdkd, "netmap", "policy.go")).read()
    consts = dict(re.findall(r"^\s*(max\w+)\s*=\s*(\w+)", pol, re.M))

    def val(k):
        v = consts[k]
        return int(v) if v.isdigit() else val(v)
    text = ("(* GENERATED by props/C21.py from %s/galois.go and neofs-sdk-go %s netmap/policy.go. Do not edit. *)\n"
            "From Coq Require Import NArith List.\nImport ListNotations.\nLocal Open Scope N_scope.\n"
            "Definition lib_generating_polynomial : N := %d.\n"
            "Definition lib_exp_table : list N := %s.\n"
            "Definition lib_mul_table : list (list N) := [\n%s].\n"
            "Definition sdk_max_ec_rules : nat := %d.\nDefinition sdk_max_total_ec_parts : nat := %d.\n" % (
                os.path.basename(rsd), sdkv, poly, "[" + ";".join(map(str, exp[:255])) + "]",
                ";\n".join("[" + ";".join(map(str, r)) + "]" for r in rows),
                val("maxECRules"), val("maxTotalECParts")))
    vlib.write_if_changed(os.path.join(vlib.COQ, "Gen", "ECConsts.v"), text)


MPRELUDE = ("From NV Require Import EC.GF256 EC.LinAlg EC.RS EC.RSBuf EC.RSBufCheck.\n"
            "From Coq Require Import NArith List. Import ListNotations.\n")


def mats(ms):
    return "[" + ";".join(mat(m) for m in ms) + "]"


def mcase_lit(c):
    return "(%s, %d, %s, %s, %s, %s, %s)" % (
        "[" + ";".join("(%d,%d)" % (k, m) for k, m in c["rules"]) + "]", c["len"], nl(c["mem"]),
        vlib.coq_bool(c["ok"]), mats(c["after"]), mats(c["final"]), nl(c["mem_end"]))


def eval_multi(ctx, cases):
    jobs, offs = [], []
    CH = max(1, (len(cases) + 3) // 4) if ctx.tier == "quick" else max(1, (len(cases) + 11) // 12)
    for off in range(0, len(cases), CH):
        lit = "[" + ";\n".join(mcase_lit(c) for c in cases[off:off + CH]) + "]"
        jobs.append(("multi", MPRELUDE + "Definition cases : list mcase := %s.\n" % lit,
                     {"model": "model_mismatches cases", "ref": "ref_mismatches cases"}))
        offs.append(off)
    bad_model, bad_ref = set(), set()
    for off, res in zip(offs, ctx.coq_eval_many(jobs)):
        if res is None:
            return None
        bad_model |= {off + i for i in res["model"]}
        bad_ref |= {off + i for i in res["ref"]}
    return bad_model, bad_ref


def hist(xs):
    h = {}
    for x in xs:
        h[str(x)] = h.get(str(x), 0) + 1
    return dict(sorted(h.items(), key=lambda kv: kv[0]))


def run(ctx):
    import time
    T = [time.time()]

    def lap(name):
        T.append(time.time())
        ctx.cov.setdefault("phase_s", {})[name] = round(T[-1] - T[-2], 1)
    gen_consts()
    ctx.prove()
    lap("prove")
    model = ctx.model_ready(["EC/RSCheck.vo", "EC/RSBufCheck.vo"])
    binp = ctx.go_build()
    if ctx.replay:
        rp = json.load(open(ctx.replay))
        seeds = {v.get("seed", ctx.seed) for v in rp.get("violations", [])} or {ctx.seed}
        ctx.seed = sorted(seeds)[0]
        ctx.tier = rp.get("tier", ctx.tier)
    cases = ctx.run_json([binp, "rs"])
    mcases = ctx.run_json([binp, "multi"])
    pcases = ctx.run_json([binp, "putmod"])
    lap("go")
    if not model:
        ctx.tie(False)
        return
    # tie 1+2: iec.Encode/Decode/DecodeRange/DecodeIndexes vs model, vs theorem right-hand sides
    r = eval_rs(ctx, cases)
    if r is None:
        ctx.tie(False)
        ctx.tie(False)
    else:
        bad_model, bad_ref = r
        ctx.tie(not bad_model)
        ctx.tie(not bad_ref)
        for (i, j) in sorted(bad_model | bad_ref)[:10]:
            ctx.violation({"seed": ctx.seed, "case": describe(cases[i], j),
                           "disagrees_with": [w for w, s in (("model EC/RS.v", bad_model), ("reference (C21 theorem right-hand sides)", bad_ref)) if (i, j) in s]})
    lap("eval_rs")
    # tie 3+4: several rules from one slice (len, cap) vs buffer model, vs reference
    r = eval_multi(ctx, mcases)
    if r is None:
        ctx.tie(False)
        ctx.tie(False)
    else:
        bad_model, bad_ref = r
        ctx.tie(not bad_model)
        ctx.tie(not bad_ref)
        for i in sorted(bad_model | bad_ref)[:10]:
            c = mcases[i]
            ctx.violation({"seed": ctx.seed, "case": {"what": "iec.Encode under several rules on one slice", "rules": c["rules"], "len": c["len"],
                                                       "cap": len(c["mem"]), "mem": c["mem"]},
                           "impl_parts_after_each_call": c["after"], "impl_parts_at_end": c["final"],
                           "disagrees_with": [w for w, s in (("model EC/RSBuf.v", bad_model), ("reference (pure encoding kept)", bad_ref)) if i in s]})
    lap("eval_multi")
    # tie 5: the real caller (slicer -> modifyECParentObject): cap == len at encode time (C21_caller_buffer_exact)
    # and every rule's kept parts equal a fresh encoding of a private copy of the payload
    bad = [c for c in pcases if c["err"] or c["objects"] == 0 or c["lens"] != c["caps"]
           or not all(c["payload_ok"]) or not all(c["parts_ok"])]
    ctx.tie(not bad)
    for c in bad[:5]:
        ctx.violation({"seed": ctx.seed, "case": dict(c, what="putsvc slicer -> distributedTarget.modifyECParentObject"),
                       "expected": "cap(objectPayload) == len(objectPayload) and parts of every rule == iec.Encode(copy of payload)"})
    nops = sum(len(c["ops"]) for c in cases)
    keys = set()
    for c in cases:
        if not c["data"]:
            continue
        for o in c["ops"]:
            if o["trunc"] < 0 and not all(o["mask"]):
                keys.add((c["k"], c["m"], len(c["data"]), o["kind"], tuple(o["mask"]), o["from"], o["to"], tuple(o["idxs"])))
    mkeys = {(tuple(map(tuple, c["rules"])), c["len"], len(c["mem"])) for c in mcases if len(c["rules"]) > 1 and c["len"] > 0}
    ctx.cov.update({
        "evaluations": len(cases) + nops + len(mcases) + len(pcases),
        "distinct_nontrivial": len(keys) + len(mkeys) + len({(tuple(map(tuple, c["rules"])), c["len"], c["limit"], c["chunk"]) for c in pcases if len(c["rules"]) > 1}),
        "rule": "rs: all 40 rules k=1..8,m=0..4 x payload lengths {0,1,k-1,k,k+1,2k+1,random small,random big}; every erasure pattern with <= m+1 "
                "missing parts for small rules (k+m<=5, thorough <=8), random patterns otherwise, one malformed (truncated) part set per case; "
                "op = Decode | DecodeRange | DecodeIndexes. multi: 1..4 random rules on one slice with cap=len or spare capacity. putmod: real slicer "
                "+ modifyECParentObject. Non-trivial = non-empty payload with at least one part erased (rs), >= 2 rules and non-empty payload (multi, putmod); "
                "distinct by (rule, length, op, mask, arguments) resp. (rules, len, cap) resp. (rules, len, limit, chunk).",
        "samples": [{"k": c["k"], "m": c["m"], "data": c["data"], "parts": c["parts"], "ops": c["ops"][:2]} for c in cases if 0 < len(c["data"]) <= 9][5:7]
                   + [c for c in mcases if c["len"] < 8 and len(c["rules"]) > 1][:1] + pcases[:1],
        "traces_validated_against_impl": len(cases) + nops + len(mcases) + len(pcases),
        "hist_rule": hist("%d/%d" % (c["k"], c["m"]) for c in cases),
        "hist_payload_len_bucket": hist(min(len(c["data"]).bit_length(), 13) for c in cases),
        "hist_op_kind": hist(o["kind"] for c in cases for o in c["ops"]),
        "hist_missing_parts": hist(o["mask"].count(False) for c in cases for o in c["ops"]),
        "hist_op_ok": hist(o["ok"] for c in cases for o in c["ops"]),
        "hist_multi_spare_capacity": hist("cap=len" if len(c["mem"]) == c["len"] else "cap>len" for c in mcases),
        "hist_multi_rules": hist(len(c["rules"]) for c in mcases),
        "hist_putmod_objects": hist(c["objects"] for c in pcases),
        "multi_hazard_cases_seen": sum(1 for c in mcases if c["after"] != c["final"]),
        "mds_rule_subset_pairs_decided_in_coq": "see EC/RSMds.v all_rules_checked (40 rules, every k-subset of rows)",
    })
