"""C21 — erasure coding restores the payload from any sufficient subset of parts."""
import json
import os
import re
import vlib

META = {
    "id": "C21",
    "engine": "ec",
    "design_ref": "5/C21",
    "coq_targets": ["Props/Properties_C21.vo", "EC/RSCheck.vo", "EC/RSBufCheck.vo"],
    "coq_files": ["EC/GF256.v", "EC/GF256Proofs.v", "EC/LinAlg.v", "EC/LinAlgProofs.v", "EC/RS.v", "EC/RSProofs.v",
                  "EC/RSBuf.v", "EC/RSBufProofs.v", "EC/RSCheck.v", "EC/RSBufCheck.v", "Gen/ECConsts.v",
                  "Props/Properties_C21.v"],
    "theorems": [],
    "technique": "",
    "level_text": "",
    "level_note": "",
    "trusted_base": [],
    "assumptions": [],
}

PRELUDE = ("From NV Require Import EC.GF256 EC.LinAlg EC.RS EC.RSCheck.\n"
           "From Coq Require Import NArith List. Import ListNotations.\n")


def nl(xs):
    return "[" + ";".join("%d" % x for x in xs) + "]%N"


def mat(ps):
    return "[" + ";".join(nl(p) for p in ps) + "]"


def bl(xs):
    return "[" + ";".join("true" if x else "false" for x in xs) + "]"


def op_lit(o, c, name):
    """ops refer to the case's data / parts definitions where the observed bytes are equal to them
    (keeps the generated file small: parsing byte literals dominates the evaluation time)"""
    if o["kind"] == "decode":
        kind = "KDecode"
    elif o["kind"] == "range":
        kind = "(KRange %d %d)" % (o["from"], o["to"])
    else:
        kind = "(KIdx %s)" % vlib.coq_list(o["idxs"])
    tr = "None" if o["trunc"] < 0 else "(Some %d)" % o["trunc"]
    out = ("%s_d" % name) if (o["out"] == c["data"] and o["out"]) else nl(o["out"])
    after = []
    for i, p in enumerate(o["parts"]):
        if p and i < len(c["parts"]) and p == c["parts"][i]:
            after.append("(nth %d %s_p [])" % (i, name))
        else:
            after.append(nl(p))
    return "(%s, %s, %s, %s, %s, [%s])" % (kind, bl(o["mask"]), tr, vlib.coq_bool(o["ok"]), out, ";".join(after))


def case_defs(c, name):
    return ("Definition %s_d : list N := %s.\nDefinition %s_p : mat := %s.\n" % (name, nl(c["data"]), name, mat(c["parts"]))
            + "Definition %s : case := (%d, %d, %s_d, %s, %s_p, %s, %d, [%s]).\n" % (
                name, c["k"], c["m"], name, vlib.coq_bool(c["enc_ok"]), name, vlib.coq_bool(c["hashes_ok"]),
                c["n_hashes"], ";\n".join(op_lit(o, c, name) for o in c["ops"])))


def case_cost(c):
    return 2000 + len(c["data"]) * 40 + (len(c["data"]) + 50) * (1 + len(c["ops"])) * (c["k"] + c["m"])


def chunked(cases, nchunks):
    """greedy balance by estimated cost; returns list of lists of case indices"""
    order = sorted(range(len(cases)), key=lambda i: -case_cost(cases[i]))
    bins = [[0, []] for _ in range(max(1, nchunks))]
    for i in order:
        b = min(bins, key=lambda b: b[0])
        b[0] += case_cost(cases[i])
        b[1].append(i)
    return [sorted(b[1]) for b in bins if b[1]]


def eval_rs(ctx, cases):
    """returns (bad_model, bad_ref) as sets of (case index, j) with j=0 encode, j>0 op j-1; None on failure"""
    jobs, maps = [], []
    for idxs in chunked(cases, 32):
        defs = "".join(case_defs(cases[i], "c%d" % i) for i in idxs)
        jobs.append(("rs", PRELUDE + defs + "Definition cases : list case := [%s].\n" % ";".join("c%d" % i for i in idxs),
                     {"model": "model_mismatches cases", "ref": "ref_mismatches cases"}))
        maps.append(idxs)
    bad_model, bad_ref = set(), set()
    for idxs, res in zip(maps, ctx.coq_eval_many(jobs)):
        if res is None:
            return None
        for code in res["model"]:
            bad_model.add((idxs[code // 1000], code % 1000))
        for code in res["ref"]:
            bad_ref.add((idxs[code // 1000], code % 1000))
    return bad_model, bad_ref


def describe(c, j):
    d = {"k": c["k"], "m": c["m"], "data": c["data"]}
    if j == 0:
        d["what"] = "iec.Encode"
        d["impl_parts"] = c["parts"]
        d["hashes_ok"] = c["hashes_ok"]
    else:
        o = c["ops"][j - 1]
        d["what"] = "iec." + {"decode": "Decode", "range": "DecodeRange", "idx": "DecodeIndexes"}[o["kind"]]
        d["op"] = o
    return d


def run(ctx):
    ctx.prove()
    model = ctx.model_ready(["EC/RSCheck.vo"])
    binp = ctx.go_build()
    cases = ctx.run_json([binp, "rs"])
    if not model:
        ctx.tie(False)
        return
    r = eval_rs(ctx, cases)
    if r is None:
        ctx.tie(False)
        ctx.tie(False)
    else:
        bad_model, bad_ref = r
        ctx.tie(not bad_model)
        ctx.tie(not bad_ref)
        for (i, j) in sorted(bad_model | bad_ref)[:10]:
            ctx.violation({"case": describe(cases[i], j),
                           "disagrees_with": [w for w, s in (("model EC/RS.v", bad_model), ("reference (C21 theorem right-hand sides)", bad_ref)) if (i, j) in s]})
    nops = sum(len(c["ops"]) for c in cases)
    ctx.cov.update({
        "evaluations": len(cases) + nops,
        "distinct_nontrivial": 0,
        "rule": "",
        "samples": [],
    })
