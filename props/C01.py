"""C01 — object visibility follows tombstone, garbage, expiry and lock rules in all views."""
import importlib.util
import json
import os
import sys

import vlib

_spec = importlib.util.spec_from_file_location("_meta", os.path.join(os.path.dirname(os.path.abspath(__file__)), "_meta.py"))
M = importlib.util.module_from_spec(_spec)
_spec.loader.exec_module(M)

C01_SECTIONS = {3, 4, 5, 6, 7, 8, 10, 11, 12, 13}   # views the statement talks about
KEY = "tombstone-and-live-lock"

META = {
    "id": "C01",
    "engine": "meta",
    "design_ref": "5/C01",
    "coq_targets": ["Props/Properties_C01.vo", "Meta/Check.vo", "Meta/CheckFast.vo"],
    "coq_files": ["Gen/MetaConsts.v", "Meta/SMap.v", "Meta/Model.v", "Meta/Spec.v", "Meta/Check.v", "Meta/CheckFast.v", "Meta/SMapProofs.v",
                  "Meta/StatusProofs.v", "Meta/WfProofs.v", "Meta/ViewProofs.v", "Meta/C01Proofs.v", "Props/Properties_C01.v"],
    "theorems": ["C01_inv_reachable", "C01_exists_status_partial", "C01_exists_status_refuted", "C01_get_status_partial",
                 "C01_ec_part_partial", "C01_search_partial", "C01_is_locked", "C01_expired_iter_exact", "C01_views_agree_partial"],
    "technique": "Coq proof over all histories (invariant wf_state by induction over the operation list; per-view equivalence "
                 "model = reference status on every well-formed state) + differential correspondence of the executable model with a real "
                 "meta.DB (abstract state dump, operation results and all views after every operation) + reference rules evaluated on "
                 "the dumped state",
    "level_text": "Theorems C01_*: for every finite history of puts (regular, tombstone, lock, link, split/EC children with embedded parent "
                  "headers, batches), garbage marks, container inhume/delete, deletes, revivals and arbitrary epoch changes, DB.Exists (both "
                  "expiration modes), DB.Get (raw or not), DB.ResolveECPart, unfiltered search, DB.IsLocked and DB.IterateExpired of the "
                  "Gallina model of the metabase report exactly the status defined by the declarative rules of Meta/Spec.v (tombstone => "
                  "removed, garbage mark / removed container => not found, expired after its epoch, live lock overrides expiry and marks, "
                  "child inherits a worse parent status up to the nesting limit), for all addresses and epochs, outside the known class "
                  "'tombstone and live lock on the same object' for which C01_exists_status_refuted gives a witness history. The model is tied "
                  "to the Go code on every run: same histories on a real meta.DB, comparison of the dumped bucket content, of every operation "
                  "result and of every view for every universe address after every operation; status constants and the nesting limit are "
                  "regenerated from the source into coq/Gen/MetaConsts.v.",
    "level_note": "partial: (1) the full-strength statement is refuted for objects that are tombstoned and live-locked at the same time (the code "
                  "reports them available; known finding tombstone-and-live-lock), theorems carry the boolean premise `excluded = false`; "
                  "(2) listing (ListWithCursor, paging) and GetGarbage are modelled and tied differentially and compared with the reference "
                  "on every run, but the exact-listing theorem is not proved in Coq; filtered search is C03. Modelled, not verified: bbolt "
                  "(ordered map with atomic transactions; iteration order = increasing ID), the L0 key encoding (the model works on decoded "
                  "headers; index consistency 0x01/0x02 vs 0x03 is checked on every dump), expiration attributes restricted to canonical "
                  "decimal uint64, EC part index prefix match modelled as equality (indexes < 10), object headers per ID fixed within a history "
                  "and parent relations acyclic (IDs are header hashes). Trusted: Coq 8.16.1 kernel + vm_compute, hand-written model (tied), Go harness, "
                  "Python driver; a 61-bit polynomial digest is used to compare state+views per step (full comparison on mismatch).",
    "trusted_base": ["Coq 8.16.1 kernel, vm_compute", "model Meta/Model.v hand-written, tied by differential check (state, results, views)",
                     "harness/cmd/meta, hooks zz_verif_meta.go, props/_meta.py, lib/vlib.py", "bbolt modelled as an ordered map"],
    "assumptions": ["expiration attributes are canonical decimal uint64", "object headers are a function of the object ID; parent relation acyclic",
                    "EC part indexes < 10 (prefix match = equality)"],
}


def tiers(ctx):
    # (profile, histories, max length, observe every k-th operation).  Quick tier: ~32 histories /
    # ~550 fully observed steps = ~20 CPU-seconds of harness + model evaluation on an idle machine
    # (the first version ran 52 longer histories with a digest that cost 50 ms per step and took
    # 9-15 minutes on the loaded machine).
    if ctx.tier == "quick":
        return [("full", 20, 22, 1), ("s1", 4, 16, 1), ("s1c", 8, 20, 1), ("ml", 8, 12, 1)]
    return [("full", 500, 40, 1), ("s1", 60, 30, 1), ("s1c", 140, 36, 1), ("ml", 48, 20, 1)]


def summarize(h, k):
    o = h["steps"][k].get("obs") or {}
    return {"ops": h["ops"][:k + 1], "results": [s["res"] for s in h["steps"][:k + 1]],
            "impl": {x: o.get(x) for x in ("epoch", "exists", "existsi", "get", "getraw", "locked", "search", "list", "expired", "total")},
            "impl_state": [c for c in o.get("cnrs", []) if c["present"]]}


def run_family(ctx, pid, sections, classify):
    """Shared driver of C01/C02. `classify(ref_fail, masked_fail, section) -> key or None`."""
    import time
    ph, t0 = {}, time.time()

    def mark(name):
        nonlocal t0
        ph[name] = round(time.time() - t0, 1)
        t0 = time.time()
    ctx.cov["phase_wall_s"] = ph
    binp = ctx.go_build()
    mark("go_build")
    consts, _ = M.gen_consts(ctx, binp)
    ctx.prove()
    model = ctx.model_ready(M.MODEL_VO)
    mark("coq_make+assumptions")
    if not model:
        ctx.tie(False)
        return
    if ctx.replay:
        rp = json.load(open(ctx.replay))
        opsl = [v["case"]["ops"] for v in rp.get("violations", []) if "case" in v]
        hs = M.replay_harness(ctx, binp, opsl) if opsl else []
    else:
        hs = []
        for (profile, n, ln, every) in tiers(ctx):
            part = M.run_harness(ctx, binp, n, ln, profile, every)
            for h in part:
                h["profile"] = profile
            hs += part
    mark("harness")
    res = M.evaluate(ctx, hs)
    mark("coq_eval")
    if res is None:
        ctx.tie(False)
        return
    model_bad = set(res["model"]) | M.dump_bad(hs)
    ref_bad = {x for x in res["ref"] if x[2] in sections}
    known, unknown = set(), set()
    for x in ref_bad:
        key = classify(x, res)
        (known if key else unknown).add(x)
    ctx.tie(not model_bad)      # correspondence implementation = model (state, results, views)
    ctx.tie(not unknown)        # implementation satisfies the reference rules (outside known classes)

    # concrete failing inputs: first failing step of each failing history, diagnosed in full (pass 2)
    first = {}
    for (h, k, sec) in sorted(model_bad | unknown):
        first.setdefault(h, k)
    items = [(hs[h], k) for h, k in sorted(first.items())[:8] if hs[h]["steps"][k].get("obs")]
    full = M.evaluate_full(ctx, items) if items else []
    for idx, (h, k) in enumerate(sorted(first.items())[:8]):
        diag = full[idx] if full and idx < len(full) else ([], [], [])
        ops = hs[h]["ops"][:k + 1]
        if len(first) <= 3 and not ctx.replay:
            ops = minimise_case(ctx, binp, ops, sections)
        case = {"ops": ops}
        ctx.violation({"case": case, "history": h, "step": k,
                       "model_disagrees_on": [M.SECTIONS.get(s, s) for s in diag[0]] or
                                             [M.SECTIONS.get(s, s) for (hh, kk, s) in model_bad if hh == h and kk == k],
                       "reference_disagrees_on": [M.SECTIONS.get(s, s) for s in diag[1] if s in sections],
                       "observed": summarize(hs[h], k)})
    seen_keys = set()
    for x in sorted(known):
        h, k, sec = x
        if classify(x, res) in seen_keys:
            continue
        seen_keys.add(classify(x, res))
        ctx.violation({"case": {"ops": hs[h]["ops"][:k + 1]}, "section": M.SECTIONS.get(sec, sec), "observed": summarize(hs[h], k)},
                      key=classify(x, res))
    return hs, res, known, unknown, model_bad


def minimise_case(ctx, binp, ops, sections):
    def failing(hs2):
        r = M.evaluate(ctx, hs2)
        if r is None:
            return [False] * len(hs2)
        bad = {h for (h, k, s) in r["model"]} | {h for (h, k, s) in r["ref_masked"] if s in sections} | \
              {h for (h, k, s) in M.dump_bad(hs2)}
        return [i in bad for i in range(len(hs2))]
    try:
        return M.minimise(ctx, binp, ops, failing)
    except Exception as ex:  # minimisation is best effort
        ctx.notes.append("minimisation failed: %r" % (ex,))
        return ops


def lock_shapes(o):
    """(targets with >= 2 stored associated objects, targets whose LOWEST-ID associated object is not a live lock
    while a higher-ID one is) in one observed state -- the situation in which "locked" is decided by an entry of the
    association index that is neither the first nor the only one."""
    multi = hidden = 0
    for c in o.get("cnrs", []):
        if not c.get("present") or c.get("cgc"):
            continue
        marked = {g[0] for g in c["garb"] if g[1] == 0}
        by = {}
        for x in sorted(c["objs"], key=lambda x: x["id"]):
            if x["as"]:
                live = x["t"] == 2 and (x["exp"] < 0 or x["exp"] >= o["epoch"]) and x["id"] not in marked
                by.setdefault(x["as"], []).append(live)
        for lives in by.values():
            if len(lives) >= 2:
                multi += 1
                if not lives[0] and any(lives[1:]):
                    hidden += 1
    return multi, hidden


def coverage(ctx, hs, res, known, sections, rule_extra=""):
    steps = sum(1 for h in hs for s in h["steps"] if s.get("obs"))
    digests = set()
    nontrivial = 0
    status_hist = {}
    shapes = {"states_with_a_target_of_2+_associated_objects": 0, "states_where_the_lowest_ID_associated_object_is_no_live_lock_but_a_higher_one_is": 0}
    for h in hs:
        for s in h["steps"]:
            o = s.get("obs")
            if not o:
                continue
            d = M.digest(o)
            if d in digests:
                continue
            digests.add(d)
            mu, hi = lock_shapes(o)
            shapes["states_with_a_target_of_2+_associated_objects"] += 1 if mu else 0
            shapes["states_where_the_lowest_ID_associated_object_is_no_live_lock_but_a_higher_one_is"] += 1 if hi else 0
            classes = {c for row in o["exists"] for c in row}
            for row in o["exists"]:
                for c in row:
                    status_hist[c] = status_hist.get(c, 0) + 1
            if len(classes - {0}) >= 2:
                nontrivial += 1
    lens = {}
    for h in hs:
        b = "%d-%d" % (len(h["ops"]) // 10 * 10, len(h["ops"]) // 10 * 10 + 9)
        lens[b] = lens.get(b, 0) + 1
    sample = hs[len(hs) // 3] if hs else None
    ctx.cov.update({
        "evaluations": steps,
        "distinct_nontrivial": nontrivial,
        "rule": "histories from one splitmix64 stream (VERIF_SEED) over 3 containers x 10 object IDs x epochs 0-10, headers fixed per ID "
                "within a history (profiles: full = regular/tombstone/lock/link, EC parts, v1/v2 split children with embedded parent headers; "
                "s1 = no relations; ml = s1 after a scripted opening that gives ONE target three associated objects 3<5<7 with "
                "mixed liveness in both ID orders -- live / expired / garbage-marked / redundant-marked LOCK, non-LOCK carrying the "
                "association attribute -- then moves the epoch past the early expirations and attempts the tombstone); one evaluation = one operation followed by a full observation (bucket dump + all views for all 30 "
                "addresses); distinct by digest of (dumped state, all view sections); non-trivial = at least two different non-absent "
                "Exists classes among the 30 addresses" + rule_extra,
        "histories": len(hs),
        "traces_validated_against_impl": len(hs),
        "op_histogram": M.op_hist(hs),
        "history_length_histogram": lens,
        "exists_class_histogram": {{0: "absent", 1: "ok", 2: "not_found", 3: "removed", 4: "expired", 5: "split_parent", 6: "ec_parent", 7: "other"}[k]: v
                                   for k, v in sorted(status_hist.items())},
        "known_class_hits": len(known),
        "association_shapes(distinct observed states)": shapes,
        "samples": [{"ops": sample["ops"][:6], "results": [s["res"] for s in sample["steps"][:6]],
                     "exists_after_6": (sample["steps"][min(5, len(sample["steps"]) - 1)].get("obs") or {}).get("exists")}] if sample else [],
    })


def run(ctx):
    def classify(x, res):
        # known class: the section fails, but not once the tombstoned-and-locked addresses are ignored
        return KEY if (x not in res["ref_masked"] and x[2] in (3, 4, 5, 6, 8, 10)) else None
    out = run_family(ctx, "C01", C01_SECTIONS, classify)
    if out is None:
        return
    hs, res, known, unknown, model_bad = out
    coverage(ctx, hs, res, known, C01_SECTIONS)
