"""C20 — engine reads find every stored object despite shard order, modes and failures."""
import collections
import json
import importlib.util
import os
import vlib

_spec = importlib.util.spec_from_file_location("_engine", os.path.join(os.path.dirname(os.path.abspath(__file__)), "_engine.py"))
E = importlib.util.module_from_spec(_spec)
_spec.loader.exec_module(E)

META = {
    "id": "C20",
    "engine": "engine",
    "design_ref": "5/C20",
    "coq_targets": ["Props/Properties_C20.vo", "Engine/Check.vo", "Engine/Check20.vo"],
    "coq_files": ["Engine/Model.v", "Engine/Spec.v", "Engine/Check.v", "Engine/Check20.v", "Engine/GetProofs.v", "Engine/GetWitness.v", "Props/Properties_C20.v"],
    "theorems": ["C20_get_iff_partial", "C20_get_iff_refuted", "C20_error_does_not_hide",
                 "C20_removed_stays_removed_partial", "C20_removed_reappears_refuted",
                 "C20_head_iff_partial"],
    "technique": "Coq proof (induction over the shard visiting order, for every engine state, order, fault oracle, error "
                 "threshold) about a hand-written executable model of StorageEngine.get/Head over abstract shards + "
                 "differential correspondence of whole histories (put/Get/GetBytes/GetStream/Head/delete/drop/mark/mode/fault/data loss/epoch/GC/add shard) "
                 "against a real engine over 1-4 real shards",
    "level_text": "C20_get_iff_partial: for every list of shards (any contents, modes, fault flags, error counters), every visiting "
                  "order that is a permutation of the shards, every threshold and epoch: if the state is `consistent` for address a "
                  "(decidable predicate: equal bytes on all copies, no blob without metadata on a healthy shard, and if some shard "
                  "records a removal then every shard holding the bytes is healthy and records it too) then engine_get a = Found b "
                  "<-> (some readable shard holds a = b) /\\ not removed a. C20_error_does_not_hide needs no consistency beyond equal "
                  "bytes: a readable copy of a non-removed object is returned whatever the other shards do. The full statement "
                  "(without `consistent`) is refuted by three reachable states (C20_get_iff_refuted), which are the recorded findings.",
    "level_note": "partial: the unrestricted property is false for the real engine (known findings: tombstone/mark that missed a "
                  "shard holding the object, degraded shard read without metadata, blob without metadata after degraded-read-write "
                  "puts); proved for the complementary input class. Modelled, not verified: shard internals (metabase status rules, "
                  "blob storage) are an abstract hand-written model tied by the differential check only; split/EC parent relations, "
                  "write-cache, container GC marks, concurrency of engine calls and background GC/mode-change goroutines are not "
                  "modelled (the harness drives one call at a time, GC passes through a synchronous hook).",
    "trusted_base": ["Coq 8.16.1 kernel, vm_compute",
                     "model Engine/Model.v hand-written, tied by differential check on generated histories",
                     "harness/cmd/engine, hooks zz_verif_engine_hooks.go / zz_verif_shard_hooks.go, lib/vlib.py"],
    "assumptions": ["visiting order is a permutation of the shard indices (sortedShards returns every shard once)",
                    "one address stores one byte string (object IDs are content hashes): premise `coherent`"],
}

KNOWN = {10: "removal-missed-holder", 11: "degraded-holder-ignores-removal", 13: "orphan-blob"}
CLASS_TEXT = {
    1: "state is consistent but the read disagrees with the reference (theorem says this cannot happen)",
    10: "a removal (tombstone / garbage mark) is recorded on one shard, another healthy shard still lists the object as available and serves it",
    11: "a degraded shard serves the blob of an object whose removal is recorded (in its own or another shard's metabase)",
    13: "a healthy shard holds a blob its metabase does not list (degraded read-write put); the read finds it only by the fallback scan / not at all",
    14: "two shards hold different bytes under one address",
}


READS = ("get", "getb", "gets", "head")   # Get, GetBytes, GetStream, Head


def chunks(hs, n):
    return [(o, hs[o:o + n]) for o in range(0, len(hs), n)]


def evaluate(ctx, hs, ch=8):
    """-> (model mismatches [(hist, op)], deviations [(hist, op, class)], stats [consistent, reads]) or None"""
    jobs = [("c20", E.PRELUDE20 + E.hists20_def(part),
             {"model": "model_mismatches20 cases", "devs": "all_devs20 cases", "stats": "reads_stats20 cases"})
            for (_, part) in chunks(hs, ch)]
    mm, devs, stats = [], [], [0, 0, 0, 0]
    for (off, _), res in zip(chunks(hs, ch), ctx.coq_eval_many(jobs)):
        if res is None:
            return None
        mm += [(off + h, k) for (h, k) in E.decode(res["model"])]
        devs += [(off + d // 100 // 1000, d // 100 % 1000, d % 100) for d in res["devs"]]
        stats = [a + b for a, b in zip(stats, res["stats"])]
    return mm, devs, stats


def run(ctx):
    ctx.prove()
    model = ctx.model_ready(["Engine/Check.vo", "Engine/Check20.vo"])
    binp = ctx.go_build()
    if ctx.replay:
        rp = json.load(open(ctx.replay))
        hs, origin = [], []
        for v in rp.get("violations", []):
            if "hist" in v:
                out = ctx.run_json([binp, "c20replay", str(v["hist"]), str(v["nops"])], env={"VERIF_SEED": str(v["seed"])})
                hs.append(out[0])
                origin.append((v["seed"], v["hist"]))
    else:
        count = 48 if ctx.tier == "quick" else 240
        hs = ctx.run_json([binp, "c20", str(count)])
        origin = [(ctx.seed, i) for i in range(len(hs))]
    if not model:
        ctx.tie(False)
        return
    ev = evaluate(ctx, hs)
    if ev is None:
        ctx.tie(False)
        return
    mm, devs, stats = ev
    ctx.tie(not mm)                                  # correspondence: real engine = model on every operation
    unexpected = [d for d in devs if d[2] not in KNOWN]
    ctx.tie(not unexpected)                          # real reads satisfy the theorem's right-hand side in consistent states
    for (h, k) in mm[:5]:
        o = hs[h]["ops"][k]
        r = ctx.coq_eval_lists("obs", E.PRELUDE20 + E.hists20_def([hs[h]]), {"m": "model_obs_at20 (nth 0 cases (0%%nat, 0, [], [])) %d%%nat" % k})
        ctx.violation({"what": "real engine and model disagree", "seed": origin[h][0], "hist": origin[h][1], "nops": k + 1,
                       "op": o, "impl": {"res": o["res"], "tag": o["tag"], "modes": o["modes"], "errs": o["errs"]},
                       "model_code_tag_modes_999_errs": r and r["m"],
                       "objects": hs[h]["objs"], "prefix": hs[h]["ops"][:k + 1]})
    seen = collections.Counter()
    for (h, k, cl) in devs:
        seen[cl] += 1
        if seen[cl] > 3:
            continue
        o = hs[h]["ops"][k]
        ctx.violation({"what": CLASS_TEXT.get(cl, "?"), "class": cl, "seed": origin[h][0], "hist": origin[h][1], "nops": k + 1,
                       "read": o, "reference": "Found iff stored on a readable shard and not removed (Engine/Spec.v ref_found)",
                       "objects": hs[h]["objs"], "prefix": hs[h]["ops"][:k + 1]}, key=KNOWN.get(cl))
    ops = [o for h in hs for o in h["ops"]]
    reads = [o for o in ops if o["op"] in READS]
    ctx.cov.update({
        "evaluations": len(ops),
        "distinct_nontrivial": vlib.distinct_count([(o["op"], o.get("ord"), o["res"], o["tag"], o["modes"], o["errs"]) for o in reads if len(o["modes"]) > 1]),
        "rule": "one evaluation = one engine operation compared with the model (result class, returned bytes tag, all shard modes "
                "and error counters); operations include the loss of one object's data on one shard (real fstree delete behind the "
                "shard's back: metadata without data) and every fourth history opens with two copies of one object, one losing its "
                "data, the other holder degraded; non-trivial = reads on engines with >= 2 shards, distinct by (op, order, result, modes, error counters)",
        "histories": len(hs),
        "reads": len(reads),
        "reads_checked_against_reference": stats[1],
        "reads_in_consistent_state": stats[0],
        "reads_with_metadata_but_no_data_on_some_shard": stats[2],
        "of_those_reference_says_found(copy on another readable shard)": stats[3],
        "deviation_classes": {CLASS_TEXT.get(c, str(c))[:60]: n for c, n in seen.items()},
        "op_histogram": dict(collections.Counter(o["op"] for o in ops)),
        "result_histogram": dict(collections.Counter("%s:%d" % (o["op"], o["res"]) for o in ops if o["op"] in READS + ("put", "del", "drop"))),
        "shards_histogram": dict(collections.Counter(len(o["modes"]) for o in ops)),
        "mode_histogram": dict(collections.Counter(m for o in reads for m in o["modes"])),
        "samples": [hs[0]["ops"][i] for i in range(min(3, len(hs[0]["ops"])))] if hs else [],
    })
