"""C32 — control-plane requests run only when signed by an authorised key."""
import collections
import json
import os
import vlib

META = {
    "id": "C32",
    "engine": "ctl",
    "design_ref": "5/C32, 4.3",
    "coq_targets": ["Props/Properties_C32.vo", "Prog/C32Check.vo"],
    "coq_files": ["Prog/IR.v", "Prog/IRProofs.v", "Prog/Tables_C32.v", "Prog/C32Check.v", "Props/Properties_C32.v"],
    "theorems": ["C32_static_node", "C32_static_ir", "C32_node_no_effect", "C32_ir_no_effect", "C32_valid_implies"],
    "technique": "Coq: dominance checker over a handler IR proved sound once (trace semantics); IR regenerated from the Go source by the translator xlate on every run and re-checked by vm_compute; plus reflection-driven differential run of every control RPC with bad signatures",
    "level_text": "Quantifier = programs: every method of both ControlServiceServers (enumerated from the gRPC interface in the generated code, so a new method is included). "
                  "The IR of each handler is regenerated from /repo on every run (xlate, go/ast) into coq/Gen/Prog_Ctl*.v; C32_static_* (vm_compute on the regenerated IR) states that the dominance analysis accepts every handler "
                  "for the check isValidRequest with only status construction allowed before it; IRProofs.dominated_sound / failing_check_no_effect (proved once, for all IR programs, all environments, all executions incl. loops) "
                  "turn that into: a request failing the check causes no call other than building the PermissionDenied status (C32_*_no_effect). The check itself is modelled over an abstract signature scheme (C32_valid_implies) "
                  "and tied to the code by calling every method via reflection with unsigned / disallowed-key / corrupted / foreign / body-mismatch / valid signatures and replays of an already accepted signature with another body or method against a real engine and recording fakes.",
    "level_note": "Trusted: Coq kernel + vm_compute; the translator xlate (syntactic, no type information; conservative: unknown calls are effects) and its guard-shape recognition; the tables in Prog/Tables_C32.v "
                  "(benign calls: err.Error, status.Error); ECDSA/SHA-512 verification is abstract in the model (exercised for real by the harness); gRPC interceptors/transport not modelled.",
    "trusted_base": ["Coq 8.16.1 kernel, vm_compute", "xlate translator (Go, go/ast)", "Prog/Tables_C32.v tables", "harness/cmd/ctl"],
    "assumptions": ["signature scheme abstract: verify k body sig", "inlining depth 4 inside the server package; deeper calls count as effects"],
}

KINDS = {
    "nosig": "None",
    "disallowed": "(Some (2, (2, 0)))",
    "allowed_badsig": "(Some (1, (99, 0)))",
    "allowed_key_foreign_sig": "(Some (1, (2, 0)))",
    "valid": "(Some (1, (1, 0)))",
    "empty_sig_allowed_key": "(Some (1, (99, 0)))",
    "garbage_key": "(Some (77, (1, 0)))",
}


def regen(ctx):
    xl = vlib.xlate_build()
    gen = os.path.join(vlib.COQ, "Gen")
    for (alias, d, iface, out) in (
            ("", "pkg/services/control/server", "pkg/services/control/service_grpc.pb.go", "Prog_CtlNode.v"),
            ("ctlir=", "pkg/services/control/ir/server", "pkg/services/control/ir/service_grpc.pb.go", "Prog_CtlIR.v")):
        rc, o, e = vlib.sh([xl, "-dir", alias + os.path.join(vlib.REPO, d), "-guards", "isValidRequest$",
                            "-iface", os.path.join(vlib.REPO, iface) + ":ControlServiceServer", "-out", os.path.join(gen, out)])
        if rc != 0:
            ctx.notes.append("xlate failed: " + e[-2000:])
            return False
    return True


def diagnose(ctx):
    """name the handlers and the undominated calls for the replay file"""
    text = ("From Coq Require Import String List. Import ListNotations.\nFrom NV Require Import Prog.IR Prog.Tables_C32.\n"
            "From NV Require Gen.Prog_CtlNode Gen.Prog_CtlIR.\n"
            "Eval vm_compute in (bad_handlers c32_fuel Gen.Prog_CtlNode.funcs c32_guards c32_crit (node_handlers Gen.Prog_CtlNode.iface_methods)).\n"
            "Eval vm_compute in (bad_handlers c32_fuel Gen.Prog_CtlIR.funcs c32_guards c32_crit (ir_handlers Gen.Prog_CtlIR.iface_methods)).\n"
            "Eval vm_compute in (shapes_ok Gen.Prog_CtlNode.funcs (node_handlers Gen.Prog_CtlNode.iface_methods), shapes_ok Gen.Prog_CtlIR.funcs (ir_handlers Gen.Prog_CtlIR.iface_methods)).\n")
    ok, _ = vlib.coq_make(["Gen/Prog_CtlNode.vo", "Gen/Prog_CtlIR.vo", "Prog/Tables_C32.vo"])
    rc, out = ctx.coq_run("diag", text)
    ctx.notes.append("handlers not dominated by the check / unrecognised check shapes: " + " ".join(out.split()))


def run(ctx):
    t_ok = regen(ctx)
    ctx.tie(t_ok)                      # translation obligation
    if t_ok:
        ctx.prove()
    else:
        ctx.proof_ok = False
        ctx.proof_log = "translation failed: " + "\n".join(ctx.notes[-1:])
    binp = ctx.go_build()
    # when the static obligation broke (or in the thorough tier) search harder for a concrete request
    deep = ctx.proof_ok is False or ctx.tier == "thorough"
    rs = ctx.run_json([binp], env={"VERIF_DEEP": "1" if deep else "0"})
    if ctx.proof_ok is False and t_ok:
        diagnose(ctx)
    model = ctx.model_ready(["Prog/C32Check.vo"])
    # direct reference evaluation (independent of the Coq model): everything that is not a
    # correct signature by the allowed key must be denied without effect
    def sig_term(r):
        if r["kind"] in ("allowed_otherbody", "replay_sig_other_body", "replay_sig_other_method"):
            # body_changed: the body the signature was made over differs from the body sent
            if r["kind"] == "replay_sig_other_method" and r["server"] + r["method"] in first_methods:
                return "None"      # nothing to replay yet: sent without signature
            return "(Some (1, (1, %d)))" % (5 if r["body_changed"] else 0)
        return KINDS[r["kind"]]
    first_methods = set()
    seen_srv = set()
    for r in rs:
        if r["server"] not in seen_srv:
            seen_srv.add(r["server"])
            first_methods.add(r["server"] + r["method"])
    unsupported = [r for r in rs if r.get("note") == "unsupported streaming method"]
    ctx.tie(not unsupported)
    if model:
        lit = vlib.coq_list(rs, lambda r: "(%s, %s, %s)" % (sig_term(r), vlib.coq_bool(r["denied"]), vlib.coq_bool(r["changed"] or r["panic"])))
        res = ctx.coq_eval_lists("cases", "From NV Require Import Prog.C32Check.\nFrom Coq Require Import List. Import ListNotations.\n"
                                 "Definition cases : list case := %s.\n" % lit,
                                 {"forbidden": "forbidden_idx cases", "overstrict": "overstrict_idx cases"})
        if res is None:
            ctx.tie(False)
        else:
            ctx.tie(not res["forbidden"])
            for i in res["forbidden"][:10]:
                ctx.violation({"call": rs[i], "why": "request without a valid signature by an allowed key was served or had an effect"})
            if res["overstrict"]:
                ctx.notes.append("informational: %d correctly signed calls were denied (not a violation of C32)" % len(res["overstrict"]))
    else:
        ctx.tie(False)
    methods = sorted({(r["server"], r["method"]) for r in rs})
    ctx.cov.update({
        "programs": len(methods),
        "evaluations": len(rs),
        "distinct_nontrivial": len({(r["server"], r["method"], r["kind"]) for r in rs if r["kind"] != "valid"}),
        "rule": "every method of both control servers (reflection) x 10 signature kinds (8 single requests + 2 two-step replays of an accepted signature); non-trivial = the request must be rejected; distinct by (server, method, kind)",
        "kinds_histogram": dict(collections.Counter(r["kind"] for r in rs)),
        "denied_histogram": dict(collections.Counter("%s:%s" % (r["kind"], r["denied"]) for r in rs)),
        "methods": ["%s.%s" % m for m in methods],
        "samples": rs[:2] + rs[-1:],
        "exhaustive": True,
    })
