"""C27 — repeated policer cycles restore the required replicas, then stop."""
import json
import vlib

META = {
    "id": "C27",
    "engine": "place",
    "design_ref": "5/C27",
    "coq_targets": ["Props/Properties_C27.vo", "Place/RoundsCheck.vo"],
    "coq_files": ["Place/Policer.v", "Place/PolicerProofs.v", "Place/Rounds.v", "Place/RoundsProofs.v", "Place/RoundsCheck.v",
                  "Props/Properties_C27.v"],
    "theorems": ["C27_converges", "C27_progress", "C27_never_empty", "C27_primary_never_drops", "C27_replicator_bounded",
                 "C27_node_replication_bounded"],
    "technique": "Coq proof (closed form of the C26 policer model on a cluster environment, strictly decreasing measure = number of primary "
                 "nodes missing the object, induction over rounds) + differential check: rounds of the real Policer/Replicator over a shared "
                 "in-memory cluster replayed step by step on the model",
    "level_text": "For every duplicate-free placement list, every REP R with 0 < R <= number of nodes, every non-empty initial holder set inside "
                  "the container and every order of the nodes inside each round (each node gets its turn): after R+1 rounds of the modelled "
                  "policer checks the holders are exactly the R primary nodes, every later check leaves the state unchanged and issues no "
                  "replication task; each holder's check strictly decreases the number of primaries missing the object; the holder set "
                  "never becomes empty; a primary holder never drops its copy; the replicator reports at most the requested number of "
                  "successes and only nodes it sent the object to. The cluster model runs the C26 model of processObject (repaired code); the "
                  "tie runs the real Policer.processObject + Replicator.HandleTask for every holder in R+2 rounds over a shared cluster and "
                  "compares every step (tasks, reported successes, deletions) and the holder set after every round with the model.",
    "level_note": "Trusted: Coq kernel + vm_compute; hand-written models Place/Policer.v and Place/Rounds.v (tied by differential replay on sampled "
                  "clusters of 3-6 nodes, REP 1-3, random initial holders and random per-round orders); harness fakes; Python driver. partial: "
                  "asynchronous timing between nodes is abstracted into rounds of sequential checks (any order inside a round is quantified, "
                  "but checks of different nodes do not overlap in time); single REP rule, REGULAR objects, no maintenance, all nodes reachable "
                  "and accepting; holders outside the container are not considered.",
    "trusted_base": ["Coq 8.16.1 kernel, vm_compute", "models Place/Policer.v, Place/Rounds.v hand-written, tied by differential check",
                     "harness/cmd/place, harness/hooks/pkg/services/{policer,replicator}/zz_verif_place_*.go, lib/vlib.py"],
    "assumptions": ["stable network map: the placement list does not change between rounds and has no repeated node",
                    "every node is reachable, answers HEAD truthfully and accepts replicas",
                    "0 < R <= number of container nodes; all initial holders are container nodes, at least one holder",
                    "checks of different nodes do not overlap in time"],
}


def coq_case(c):
    def step(s):
        return "(%d, %s, %s, %s)" % (s["v"], vlib.coq_list(s["tasks"], lambda t: "(%d, %s)" % (t["q"], vlib.coq_list(t["nodes"]))),
                                     vlib.coq_list(s["succ"]), vlib.coq_list(s["dels"]))
    return "(mkRC %s %d %s %s %s %s)" % (
        vlib.coq_list(c["nodes"]), c["r"], vlib.coq_list(c["holds"]), vlib.coq_list(c["orders"], vlib.coq_list),
        vlib.coq_list(c["rounds"], lambda r: vlib.coq_list(r, step)), vlib.coq_list(c["after"], vlib.coq_list))


PRELUDE = ("From NV Require Import Place.Policer Place.Rounds Place.RoundsCheck.\n"
           "From Coq Require Import List. Import ListNotations.\n")


def evaluate(ctx, cases):
    bad_model, bad_ref = set(), set()
    CH = max(50, min(600, -(-len(cases) // vlib.NCPU)))
    jobs, offs = [], []
    for off in range(0, len(cases), CH):
        lit = ";\n".join(coq_case(c) for c in cases[off:off + CH])
        jobs.append(("cases", PRELUDE + "Definition cases : list rcase := [\n%s].\n" % lit,
                     {"model": "model_mismatches cases", "ref": "ref_mismatches cases"}))
        offs.append(off)
    for off, res in zip(offs, ctx.coq_eval_many(jobs)):
        if res is None:
            return None
        bad_model |= {off + i for i in res["model"]}
        bad_ref |= {off + i for i in res["ref"]}
    return bad_model, bad_ref


def strip(c):
    return {k: c[k] for k in ("nodes", "r", "holds", "orders")}


def rerun(ctx, binp, cases):
    inp = "".join(json.dumps(strip(c)) + "\n" for c in cases)
    return ctx.run_json([binp, "rounds-replay"], input=inp)


def hist(items, f):
    h = {}
    for x in items:
        k = f(x)
        h[k] = h.get(k, 0) + 1
    return h


def run(ctx):
    ctx.prove()
    model = ctx.model_ready(["Place/RoundsCheck.vo"])
    binp = ctx.go_build()
    if ctx.replay:
        rp = json.load(open(ctx.replay))
        cases = rerun(ctx, binp, [v["case"] for v in rp.get("violations", []) if "case" in v])
    else:
        cases = ctx.run_json([binp, "rounds"])
    if not model:
        ctx.tie(False)
        return
    res = evaluate(ctx, cases)
    if res is None:
        ctx.tie(False)
        ctx.tie(False)
        return
    bad_model, bad_ref = res
    ctx.tie(not bad_model)   # every step of the real policer = model step, holder set after each round equal
    ctx.tie(not bad_ref)     # after R+1 rounds exactly the primaries hold, then quiet; replicator bounded
    for i in (sorted(bad_ref) + sorted(bad_model - bad_ref))[:6]:
        c = cases[i]
        ctx.violation({"case": strip(c), "impl_rounds": c["rounds"], "impl_holders_after_each_round": c["after"],
                       "disagrees_with": "reference: holders after R+1 rounds are not exactly the primary nodes / replication continues / replicator over-reports"
                       if i in bad_ref else "model Place/Rounds.v (node_result / node_step)",
                       "theorems": META["theorems"]})
    steps = [s for c in cases for r in c["rounds"] for s in r]
    ctx.cov.update({
        "evaluations": len(cases),
        "distinct_nontrivial": len({json.dumps(strip(c), sort_keys=True) for c in cases
                                    if sorted(c["holds"]) != sorted(c["nodes"][:c["r"]])}),
        "rule": "random clusters: 3-6 nodes in random placement order, REP 1-3, every node an initial holder with probability 1/3 (at least "
                "one), R+2 rounds with an independent random order of the nodes each; non-trivial = the initial holders are not already "
                "exactly the primaries; distinct by (list, R, holders, orders)",
        "samples": [cases[0], cases[len(cases) // 2]] if cases else [],
        "traces_validated_against_impl": len(cases),
        "policer_checks_executed": len(steps),
        "hist_nodes": hist(cases, lambda c: len(c["nodes"])),
        "hist_rep": hist(cases, lambda c: c["r"]),
        "hist_initial_holders": hist(cases, lambda c: len(c["holds"])),
        "hist_step_kind": hist(steps, lambda s: ("replicate" if s["tasks"] else "quiet") + ("+drop" if 1 in s["dels"] else "")),
        "hist_rounds_to_converge": hist(cases, lambda c: next((k + 1 for k, a in enumerate(c["after"]) if a == sorted(c["nodes"][:c["r"]])), -1)),
    })
