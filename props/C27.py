"""C27 — repeated policer cycles restore the required replicas, then stop."""
import json
import vlib
from placerepl import repl_tie

META = {
    "id": "C27",
    "engine": "place",
    "design_ref": "5/C27",
    "coq_targets": ["Props/Properties_C27.vo", "Place/RoundsCheck.vo", "Place/ReplCheck.vo"],
    "coq_files": ["Place/Policer.v", "Place/PolicerProofs.v", "Place/Rounds.v", "Place/RoundsProofs.v", "Place/RoundsMultiProofs.v",
                  "Place/RoundsCheck.v", "Place/Repl.v", "Place/ReplProofs.v", "Place/ReplCheck.v", "Props/Properties_C27.v"],
    "theorems": ["C27_converges", "C27_progress", "C27_never_empty", "C27_primary_never_drops", "C27_replicator_bounded",
                 "C27_replicator_bounded_any", "C27_node_replication_bounded", "C27_multi_restores_partial",
                 "C27_multi_primary_never_drops", "C27_multi_progress", "C27_multi_never_empty"],
    "technique": "Coq proof (closed form of the C26 policer model on a cluster environment, strictly decreasing measure = number of primary "
                 "nodes missing the object, induction over rounds; induction over the target list for the replicator) + differential check: "
                 "rounds of the real Policer/Replicator over a shared in-memory cluster (one or two REP rules with overlapping vectors) "
                 "replayed step by step on the model; the real Replicator.HandleTask on directly given tasks of every kind",
    "level_text": "For every duplicate-free placement list, every REP R with 0 < R <= number of nodes, every non-empty initial holder set inside "
                  "the container and every order of the nodes inside each round (each node gets its turn): after R+1 rounds of the modelled "
                  "policer checks the holders are exactly the R primary nodes, every later check leaves the state unchanged and issues no "
                  "replication task; each holder's check strictly decreases the number of primaries missing the object; the holder set "
                  "never becomes empty; a primary holder never drops its copy; for any number of REP rules with overlapping vectors: after (sum "
                  "of the copies numbers) rounds every primary node of every rule holds the object and keeps it, no primary of any rule ever "
                  "drops, every check makes strict progress; the replicator reports at most the requested number of "
                  "successes and only nodes it sent the object to - for every kind of task (address only, or carrying the object with the "
                  "local node among the targets: a successful local Put consumes one unit of the quantity) and any answers of the remote "
                  "nodes. The cluster model runs the C26 model of processObject (repaired code) for any number of REP rules; the tie runs "
                  "the real Policer.processObject + Replicator.HandleTask for every holder in (sum of copies numbers)+2 rounds over a shared "
                  "cluster with one or two REP rules (overlapping vectors) and compares every step (tasks, reported successes, deletions) "
                  "and the holder set after every round with the model, and runs the real HandleTask on ~2000 directly given tasks.",
    "level_note": "Trusted: Coq kernel + vm_compute; hand-written models Place/Policer.v, Place/Rounds.v, Place/Repl.v (tied by differential "
                  "replay on sampled clusters of 3-6 nodes, REP 1-3, one or two rules, random initial holders and random per-round orders; "
                  "replicator: all target lists of <=3 remote nodes + the local node at any position x quantities 0..len+1 x task kinds); "
                  "harness fakes; Python driver. partial: for SEVERAL REP rules with overlapping vectors the theorems (C27_multi_*) prove that after (sum of copies "
                  "numbers) rounds every primary node of every rule holds the object and keeps it for ever, strict progress of every holder's "
                  "check, no primary of any rule ever drops, never empty - but NOT that the holder set stops changing and replication stops; "
                  "that part is only checked by the differential tie and the reference `after (sum of copies numbers)+1 rounds the holder set "
                  "no longer changes and no check sends or deletes a copy` (the unchanged code keeps calling the replicator with an EMPTY "
                  "candidate list in such policies, see notes/C27.md); exact convergence to the primaries + full quiescence is proved for a "
                  "single REP rule only; asynchronous timing between nodes is abstracted into rounds of sequential checks (any order "
                  "inside a round is quantified, but checks of different nodes do not overlap in time); REGULAR objects, no maintenance, all "
                  "nodes reachable and accepting; holders outside the container are not considered.",
    "trusted_base": ["Coq 8.16.1 kernel, vm_compute", "models Place/Policer.v, Place/Rounds.v, Place/Repl.v hand-written, tied by differential check",
                     "harness/cmd/place, harness/hooks/pkg/services/{policer,replicator}/zz_verif_place_*.go, lib/vlib.py, lib/placerepl.py"],
    "assumptions": ["stable network map: the placement list does not change between rounds and has no repeated node",
                    "every node is reachable, answers HEAD truthfully and accepts replicas",
                    "0 < R <= number of container nodes; all initial holders are container nodes, at least one holder",
                    "checks of different nodes do not overlap in time"],
}


def coq_case(c):
    def step(s):
        return "(%d, %s, %s, %s)" % (s["v"], vlib.coq_list(s["tasks"], lambda t: "(%d, %s)" % (t["q"], vlib.coq_list(t["nodes"]))),
                                     vlib.coq_list(s["succ"]), vlib.coq_list(s["dels"]))
    return "(mkRC %s %s %s %s %s)" % (
        vlib.coq_list(list(zip(c["nn"], c["rep"])), lambda x: "(%s, %d)" % (vlib.coq_list(x[0]), x[1])), vlib.coq_list(c["holds"]), vlib.coq_list(c["orders"], vlib.coq_list),
        vlib.coq_list(c["rounds"], lambda r: vlib.coq_list(r, step)), vlib.coq_list(c["after"], vlib.coq_list))


PRELUDE = ("From NV Require Import Place.Policer Place.Rounds Place.RoundsCheck.\n"
           "From Coq Require Import List. Import ListNotations.\n")


def evaluate(ctx, cases):
    bad_model, bad_ref = set(), set()
    CH = max(50, min(600, -(-len(cases) // vlib.NCPU)))
    jobs, offs = [], []
    for off in range(0, len(cases), CH):
        lit = ";\n".join(coq_case(c) for c in cases[off:off + CH])
        jobs.append(("cases", PRELUDE + "Definition cases : list rcase := [\n%s].\n" % lit,
                     {"model": "model_mismatches cases", "ref": "ref_mismatches cases"}))
        offs.append(off)
    for off, res in zip(offs, ctx.coq_eval_many(jobs)):
        if res is None:
            return None
        bad_model |= {off + i for i in res["model"]}
        bad_ref |= {off + i for i in res["ref"]}
    return bad_model, bad_ref


def strip(c):
    return {k: c[k] for k in ("nn", "rep", "holds", "orders")}


def rerun(ctx, binp, cases):
    inp = "".join(json.dumps(strip(c)) + "\n" for c in cases)
    return ctx.run_json([binp, "rounds-replay"], input=inp)


def hist(items, f):
    h = {}
    for x in items:
        k = f(x)
        h[k] = h.get(k, 0) + 1
    return h


def run(ctx):
    ctx.prove()
    model = ctx.model_ready(["Place/RoundsCheck.vo", "Place/ReplCheck.vo"])
    binp = ctx.go_build()
    rp = json.load(open(ctx.replay)) if ctx.replay else None
    if rp is not None:
        cases = rerun(ctx, binp, [v["case"] for v in rp.get("violations", []) if "case" in v])
    else:
        cases = ctx.run_json([binp, "rounds"])
    if not model:
        ctx.tie(False)
        return
    repl_tie(ctx, binp, None if rp is None else [v["repl_case"] for v in rp.get("violations", []) if "repl_case" in v])
    res = evaluate(ctx, cases)
    if res is None:
        ctx.tie(False)
        ctx.tie(False)
        return
    bad_model, bad_ref = res
    ctx.tie(not bad_model)   # every step of the real policer = model step, holder set after each round equal
    ctx.tie(not bad_ref)     # after R+1 rounds exactly the primaries hold, then quiet; replicator bounded
    for i in (sorted(bad_ref) + sorted(bad_model - bad_ref))[:6]:
        c = cases[i]
        ctx.violation({"case": strip(c), "impl_rounds": c["rounds"], "impl_holders_after_each_round": c["after"],
                       "disagrees_with": "reference: after (sum of copies numbers)+1 rounds a primary node of some rule lacks the object / the holder set still changes / replication or deletion continues / replicator over-reports"
                       if i in bad_ref else "model Place/Rounds.v (mnode_result / mnode_step)",
                       "theorems": META["theorems"]})
    steps = [s for c in cases for r in c["rounds"] for s in r]

    def prims(c):
        return sorted({n for l, r in zip(c["nn"], c["rep"]) for n in l[:r]})

    def overlap(c):
        if len(c["nn"]) < 2:
            return "one-rule"
        a, b = set(c["nn"][0]), set(c["nn"][1])
        return "two-rules/" + ("same-nodes" if a == b else "subset" if b < a else "other")

    ctx.cov.update({
        "evaluations": len(cases),
        "distinct_nontrivial": len({json.dumps(strip(c), sort_keys=True) for c in cases
                                    if sorted(c["holds"]) != prims(c)}),
        "rule": "random clusters: 3-6 nodes in random placement order, REP 1-3; in half of the cases a second rule REP 1-3 whose vector is "
                "another random order of all or of a part of the same nodes (overlapping vectors); every node an initial holder with "
                "probability 1/3 (at least one), (sum of copies numbers)+2 rounds with an independent random order of the nodes each; "
                "fixed: two REP 1 rules over [1,2,3] / [2,3,1] from every non-empty initial distribution; non-trivial = the initial "
                "holders are not already exactly the primaries; distinct by (vectors, copies numbers, holders, orders)",
        "samples": [cases[0], cases[len(cases) // 2]] if cases else [],
        "traces_validated_against_impl": len(cases),
        "policer_checks_executed": len(steps),
        "hist_nodes": hist(cases, lambda c: len({n for l in c["nn"] for n in l})),
        "hist_rep": hist(cases, lambda c: "+".join(str(r) for r in c["rep"])),
        "hist_rules": hist(cases, overlap),
        "two_rule_cases_node_primary_of_later_rule_only": sum(
            1 for c in cases if len(c["nn"]) > 1 and set(c["nn"][1][:c["rep"][1]]) - set(c["nn"][0][:c["rep"][0]])),
        "hist_initial_holders": hist(cases, lambda c: len(c["holds"])),
        "hist_step_kind": hist(steps, lambda s: ("replicate" if any(t["nodes"] for t in s["tasks"]) else
                                                 "empty-task" if s["tasks"] else "quiet") + ("+drop" if 1 in s["dels"] else "")),
        "hist_rounds_until_primaries_hold": hist(cases, lambda c: next((k + 1 for k, a in enumerate(c["after"]) if set(prims(c)) <= set(a)), -1)),
    })
