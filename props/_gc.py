"""Shared machinery of the shard-level GC checks (C07, C44): harness `gc`, model coq/GC/.

  histories(ctx, binp, ...)  -> runs the harness (real engine with one real shard)
  evaluate(ctx, hs)          -> {"model": {(hist, step, section)}, "ref": {...}}
"""
import json
import os

import vlib

MODEL_VO = ["GC/Check.vo"]
SECTIONS = {20: "op_result", 30: "digest(metabase dump + GC epochs + Get/IsLocked/blob per address)",
            51: "C07 never expired/removed while locked", 52: "C07 tombstone for a locked object rejected, state unchanged",
            53: "C07 GC keeps a protected unmarked object", 54: "C07 lock for a tombstoned object rejected",
            55: "C07 tombstone for a lock object rejected", 60: "C44 final state clean", 61: "C44 everything that should go is gone",
            62: "C44 premise: stored tombstoned object carries a garbage key", 63: "C44 premise: no data without metadata",
            99: "outside the modelled fragment"}

HASH_P = (1 << 61) - 1
NCNR, NOID = 2, 8


def hash_list(xs):
    acc = 7
    for x in xs:
        acc = (acc * 1000003 + x + 1) & HASH_P
    return acc


def opt_code(x, none=0):
    return 0 if x == none else x + 1


def enc_state(obs):
    """Same encoding as Meta/Check.enc_state, computed on the dump of the real metabase."""
    present = [c for c in obs["cnrs"] if c["present"]]
    out = [obs["epoch"], len(present)]
    for c in present:
        out += [c["c"], 1 if c["cgc"] else 0, len(c["objs"])]
        for o in c["objs"]:
            out += [o["id"], o["t"], o["sz"], opt_code(o["exp"], -1), opt_code(o["as"]), opt_code(o["pid"]),
                    opt_code(o["fi"]), opt_code(o["sp"]), opt_code(o["er"], -1), opt_code(o["ei"], -1),
                    1 if o["phy"] else 0, 1 if o["root"] else 0]
        out.append(len(c["garb"]))
        for g in c["garb"]:
            out += [g[0], 0 if g[1] == 0 else 1]
        out += list(c["cnt"])
    return out


def obs_enc(o):
    flat = lambda ll: [x for l in ll for x in l]
    return enc_state(o) + [o["gcur"], o["gdone"]] + flat(o["get"]) + flat(o["locked"]) + flat(o["blob"])


def digest(o):
    return hash_list(obs_enc(o))


def opt(x, none=0):
    return "None" if x == none else "(Some %d)" % x


def coq_obj(o):
    par = "None" if o.get("par") is None else "(Some %s)" % coq_obj(o["par"])
    # a child that carries its parent's header names the parent's ID
    pid = o["par"]["id"] if o.get("par") else 0
    return "(Obj %d (mkHdr %s %d %s %s %s None None None None) %s)" % (
        o["id"], ["TRegular", "TTombstone", "TLock", "TLink"][o["t"]], o["sz"], opt(o["exp"], -1), opt(o["as"]), opt(pid), par)


def nlist(xs):
    return "[" + "; ".join(str(x) for x in xs) + "]"


def coq_op(op):
    k = op["k"]
    if k == "put":
        return "(SPut %d %s)" % (op["c"], coq_obj(op["o"]))
    if k == "mark":
        return "(SMark %d %s %s)" % (op["c"], nlist(op["ids"]), "MRedundant" if op.get("m") else "MDefault")
    if k == "inhc":
        return "(SInhume %d)" % op["c"]
    if k == "epoch":
        return "(SEpoch %d)" % op.get("e", 0)
    if k == "event":
        return "(SEvent %d)" % op.get("e", 0)
    if k == "tick":
        return "(STick %d)" % op.get("e", 0)
    if k == "pass":
        return "SPass"
    raise ValueError(k)


def coq_hist(h):
    steps = []
    for op, st in zip(h["ops"], h["steps"]):
        steps.append("(mkGStep %s [%s]%%Z %d)" % (coq_op(op), "; ".join(str(x) for x in st["res"]), digest(st["obs"])))
    return "(mkGHist %d %d [%s])" % (h["lim"], h["drain"], ";\n ".join(steps))


PRELUDE = ("From Coq Require Import List NArith ZArith.\nImport ListNotations.\n"
           "From NV Require Import Meta.SMap Meta.Model GC.Model GC.Spec GC.Check.\nLocal Open Scope N_scope.\n")


def decode(code):
    sec = code % 100
    code //= 100
    return code // 1000, code % 1000, sec


def evaluate(ctx, hs, chunk=None):
    if chunk is None:
        chunk = max(1, (len(hs) + vlib.NCPU - 1) // vlib.NCPU)
    jobs, offs = [], []
    for off in range(0, len(hs), chunk):
        part = hs[off:off + chunk]
        text = PRELUDE + "".join("Definition h%d : ghist :=\n%s.\n" % (i, coq_hist(h)) for i, h in enumerate(part))
        text += "Definition cases : list ghist := [%s].\n" % "; ".join("h%d" % i for i in range(len(part)))
        jobs.append(("gc", text, {"model": "model_mismatches cases", "ref": "ref_mismatches cases"}))
        offs.append(off)
    out = {"model": set(), "ref": set()}
    for off, res in zip(offs, ctx.coq_eval_many(jobs)):
        if res is None:
            return None
        for k in ("model", "ref"):
            for c in res[k]:
                h, st, sec = decode(c)
                out[k].add((off + h, st, sec))
    return out


def dump_bad(hs):
    res = set()
    for i, h in enumerate(hs):
        for k, st in enumerate(h["steps"]):
            if any(c["bad"] for c in st["obs"]["cnrs"]):
                res.add((i, k, 22))
    return res


def run_harness(ctx, binp, n, length, profile, drain):
    return ctx.run_json([binp, "hist", str(n), str(length), profile, str(drain)], timeout=3000)


def replay_harness(ctx, binp, jobs):
    """jobs: list of {"lim":.., "ops":[..], "drain":..}"""
    inp = "\n".join(json.dumps(j) for j in jobs) + "\n"
    return ctx.run_json([binp, "replay"], input=inp, timeout=3000)


def op_hist(hs):
    hist = {}
    for h in hs:
        for op in h["ops"]:
            k = op["k"]
            if k == "put":
                k = "put:" + ["regular", "tombstone", "lock", "link"][op["o"]["t"]]
            elif k == "mark":
                k = "mark:" + ("redundant" if op.get("m") else "default")
            hist[k] = hist.get(k, 0) + 1
    return hist


def summarize(h, k):
    o = h["steps"][k]["obs"]
    return {"lim": h["lim"], "ops": h["ops"][:k + 1], "results": [s["res"] for s in h["steps"][:k + 1]],
            "impl": {x: o.get(x) for x in ("epoch", "gcur", "gdone", "get", "locked", "blob")},
            "impl_state": [c for c in o["cnrs"] if c["present"]]}


def minimise(ctx, binp, h, k, failing, budget=40):
    """Drop operations of h['ops'][:k+1] (the drain phase is re-generated by the harness) while the case still fails.
    failing(histories) -> list of bools."""
    ndrain = 0 if h["drain"] >= len(h["ops"]) else 2
    ops = h["ops"][:min(k + 1, h["drain"])]
    lim = h["lim"]
    runs = 0
    changed = True
    while changed and len(ops) > 1 and runs < budget:
        changed = False
        cands = [ops[:i] + ops[i + 1:] for i in range(len(ops))]
        hs2 = replay_harness(ctx, binp, [{"lim": lim, "ops": c, "drain": ndrain} for c in cands])
        runs += 1
        flags = failing(hs2)
        for c, f in zip(cands, flags):
            if f:
                ops, changed = c, True
                break
    return {"lim": lim, "ops": ops, "drain": ndrain}
