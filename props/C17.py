"""C17 — the write-cache eventually flushes everything and accounts its size exactly."""
import json
import os
import vlib

META = {
    "id": "C17",
    "engine": "wc",
    "design_ref": "5/C17",
    "coq_targets": ["Props/Properties_C17.vo", "WC/Check17.vo"],
    "coq_files": ["WC/Model.v", "WC/Proofs1.v", "WC/Proofs2.v", "WC/Proofs3.v", "WC/Proofs4.v", "WC/Race.v",
                  "WC/Check17.v", "Gen/WCConsts.v", "Props/Properties_C17.v"],
    "theorems": ["C17_size_exact", "C17_no_inflight_leak", "C17_round_covers", "C17_progress_all", "C17_progress",
                 "C17_size_exact_fine_partial", "C17_size_exact_fine_refuted"],
    "technique": "Coq proof (invariants over a labelled transition system, termination measure) about a literal transcription of "
                 "flushScheduler / flushWorker / counters; differential correspondence with the real write-cache driven in "
                 "testing/synctest bubbles (virtual clock for the constant 1 s tick and 10 s error back-off)",
    "level_text": "Proved for all parameters and all interleavings of the model's steps (put, delete, scheduler loop steps with "
                  "send/abort at every flush point, worker read/store(ok|fail)/delete/unmark, error back-off, restart): counters map = "
                  "directory and size = total (C17_size_exact); in-flight set = scheduler window + worker batches, empty at quiescence "
                  "(C17_no_inflight_leak); an undisturbed round sends every snapshot address exactly once (C17_round_covers); every healthy "
                  "schedule of a round that reaches quiescence has emptied the cache into the main storage and one exists from every "
                  "quiescent reachable state (C17_progress_all, C17_progress). The model is tied on every run: scheduler batches, worker "
                  "effects, counters, in-flight set and abort behaviour are compared on generated scripts (sequential schedules and schedules "
                  "with a blocked main storage, in which rounds begin while workers hold batches, the scheduler gets stuck at a hand-over "
                  "and meets a buffered tick; exact), "
                  "and the theorem right-hand sides are evaluated on concurrent / randomly failing runs of the real cache.",
    "level_note": "partial: fairness of the Go scheduler/ticker is assumed (the scheduler eventually takes its error branch and runs a "
                  "round; progress is stated per round). Modelled, not verified: each of cache.put = [fsTree.Put; counters.Add] and "
                  "cache.delete = [fsTree.Delete; counters.Delete] is ONE atomic model step; the code does not make them atomic, and "
                  "C17_size_exact_fine_refuted shows (on a two-step model of one address) that a put overlapping a flush-delete of the same "
                  "address leaves the counters wrong for good, C17_size_exact_fine_partial that nothing else does; this overlap is not "
                  "reproduced against the real code (window of a few instructions), so it is recorded as suspected only. FSTree is a map "
                  "address -> bytes; uint64 overflow of the total size excluded by premise; read-only / degraded modes are C16's. "
                  "Trusted: Coq 8.16.1 kernel + vm_compute; hand-written model tied by the differential check; Go harness, testing/synctest, "
                  "Python driver.",
    "trusted_base": ["Coq 8.16.1 kernel, vm_compute", "model WC/Model.v hand-written, tied by differential check",
                     "harness/cmd/wc + hooks zz_verif_wc_hooks.go, Go testing/synctest virtual clock, lib/vlib.py"],
    "assumptions": ["put/delete of one address are atomic w.r.t. each other (file + counter), see level_note",
                    "total cached size < 2^64 for the non-modular equality",
                    "Go scheduler / ticker fairness (rounds happen, error branch eventually taken)"],
}

PRELUDE = ("From NV Require Import WC.Model WC.Check17.\nFrom Coq Require Import List NArith Bool. Import ListNotations.\n"
           "Local Open Scope N_scope.\n")


def N(x):
    return "%d%%N" % x


def nl(xs):
    return "[" + "; ".join("%d%%nat" % x for x in xs) + "]"


def must_set(c):
    m = set()
    for o in c["script"]:
        if o["t"] == "put":
            m.add(o.get("o", 0))
        elif o["t"] == "cput":
            m.update(o.get("os", []))
        elif o["t"] == "del":
            m.discard(o.get("o", 0))
    return sorted(m)


def coq_case(c):
    ops = []
    for o in c["script"]:
        t, a = o["t"], o.get("o", 0)
        if t == "put":
            ops.append("OPut %d%%nat %s" % (a, N(c["sizes"][a])))
        elif t == "cput":
            ops += ["OPut %d%%nat %s" % (k, N(c["sizes"][k])) for k in o.get("os", [])]
        elif t == "del":
            ops.append("ODel %d%%nat" % a)
        elif t == "poison":
            ops.append("OPoison %d%%nat" % a)
        elif t == "failall":
            ops.append("OFailAll")
        elif t == "failseq":
            ops.append("OFailAll")      # prop kind only: never interpreted on the model
        elif t == "heal":
            ops.append("OHeal")
        elif t == "restart":
            ops.append("ORestart")
        elif t == "hold":
            ops.append("OHold")
        elif t == "release":
            ops.append("ORelease")
        elif t == "obs":
            ops.append("OObs")
        elif t == "sleep":
            if o.get("m") == "round":
                ops.append("ORound")
            elif o.get("m") == "recover":
                ops.append("ORecover")
        else:
            raise vlib.Broken("unknown op " + t)
    obs = []
    for ob in c["obs"]:
        calls = "[" + "; ".join("(%s, %s)" % (nl(k["objs"]), vlib.coq_bool(k["ok"])) for k in ob["calls"]) + "]"
        obs.append("mkO %s %s %s %s %s %s %s %s %s %s" % (calls, N(ob["size"]), nl(ob["cmap"]), N(ob["csum"]),
                                                        nl(ob["dir"]), N(ob["dsum"]), nl(ob["infl"]), nl(ob["blob"]),
                                                        vlib.coq_bool(ob.get("held", False)),
                                                        "[" + "; ".join(nl(b) for b in ob.get("pend", [])) + "]"))
    return "mkC (mkP %s %d%%nat %s) %d%%nat %s %s [%s] [%s] %s" % (
        N(c["thr"]), c["cnt"], N(c["msz"]), c["workers"], vlib.coq_bool(c["workers"] == 1), vlib.coq_bool(c["kind"] != "prop"),
        "; ".join(ops), "; ".join(obs), nl(must_set(c)))


def rounds_in_flight(c):
    """held observations that show a new batch or newly marked addresses on top of batches already held before:
    a scheduler round has begun while a worker was holding a batch"""
    n, prev = 0, None
    for o in c["obs"]:
        if o.get("held") and prev is not None and prev.get("held") and prev.get("pend"):
            if len(o["infl"]) > len(prev["infl"]) or len(o["pend"]) > len(prev["pend"]):
                n += 1
        prev = o
    return n


def gen_consts(ctx, binp):
    k = ctx.run_json([binp, "consts"])[0]
    text = ("(* generated by props/C17.py from pkg/local_object_storage/writecache (harness `wc consts`); do not edit *)\n"
            "From Coq Require Import NArith.\n"
            "Definition wc_error_delay_ms : N := %d%%N.\nDefinition wc_batch_delay_ms : N := %d%%N.\n"
            "Definition wc_worker_count : nat := %d.\nDefinition wc_max_batch_size : N := %d%%N.\n"
            "Definition wc_max_batch_count : nat := %d.\nDefinition wc_max_batch_threshold : N := %d%%N.\n"
            "Definition wc_max_cache_size : N := %d%%N.\n" % (
                k["errorDelayMs"], k["batchDelayMs"], k["workerCount"], k["maxBatchSize"], k["maxBatchCount"],
                k["maxBatchThreshold"], k["maxCacheSize"]))
    vlib.write_if_changed(os.path.join(vlib.COQ, "Gen", "WCConsts.v"), text)
    return k


def strip(c):
    return {k: c[k] for k in ("id", "kind", "thr", "cnt", "msz", "workers", "payload", "script",
                              "thr_obj", "msz_objs") if k in c}


def run(ctx):
    binp = ctx.go_build()
    consts = gen_consts(ctx, binp)
    ctx.prove()
    model = ctx.model_ready(["WC/Check17.vo"])
    if ctx.replay:
        rp = json.load(open(ctx.replay))
        inp = "\n".join(json.dumps(v["case"]) for v in rp.get("violations", []) if "case" in v)
        cases = ctx.run_json([binp, "c17", "replay"], input=inp)
    else:
        cases = ctx.run_json([binp, "c17"], timeout=1500)
    if not model:
        ctx.tie(False)
        return
    CH = 20
    jobs, offs = [], []
    for off in range(0, len(cases), CH):
        lit = "[" + ";\n ".join(coq_case(c) for c in cases[off:off + CH]) + "]"
        jobs.append(("cases", PRELUDE + "Definition cases : list case17 := %s.\n" % lit,
                     {"model": "model_mismatches cases", "ref": "ref_mismatches cases"}))
        offs.append(off)
    bad_model, bad_ref = set(), set()
    for off, res in zip(offs, ctx.coq_eval_many(jobs)):
        if res is None:
            ctx.tie(False)
            return
        bad_model |= {off + i for i in res["model"]}
        bad_ref |= {off + i for i in res["ref"]}
    ctx.tie(not bad_model)   # implementation = model on the deterministic (sequential) scripts
    ctx.tie(not bad_ref)     # implementation satisfies the theorem right-hand sides on all scripts
    for i in sorted(bad_ref)[:6] + [i for i in sorted(bad_model) if i not in bad_ref][:6]:
        c = cases[i]
        ctx.violation({"case": strip(c), "sizes": c["sizes"], "impl_obs": c["obs"],
                       "disagrees_with": [w for w, s in (("model WC/Model.v (seq_round / step)", bad_model),
                                                          ("reference: size = dir total, in-flight empty at quiescence, "
                                                           "cache empty and objects in main storage at the end", bad_ref)) if i in s]})
    ncalls = [sum(len(o["calls"]) for o in c["obs"]) for c in cases]
    nfail = [sum(1 for o in c["obs"] for k in o["calls"] if not k["ok"]) for c in cases]
    nontriv = [c for c, n in zip(cases, ncalls) if n >= 1 and len(c["sizes"]) >= 2]
    hist = lambda xs: {str(k): xs.count(k) for k in sorted(set(xs))}
    ctx.cov.update({
        "evaluations": len(cases),
        "distinct_nontrivial": vlib.distinct_count([(strip(c), c["obs"]) for c in nontriv]),
        "rule": "scripts from splitmix64(VERIF_SEED): kind sched (no failures, 1-4 workers, repeated puts, deletes, restart; half of "
                "them + 4 fixed ones with the main storage blocked for 2-3 ticks while objects arrive, so that rounds begin with "
                "batches in flight, get stuck at the hand-over and meet a buffered tick; compared with the model per round and at "
                "the blocked points), abort (1 worker, poisoned objects / failing storage during round 1, heal, "
                "back-off; compared with the model), prop (1-4 workers, concurrent and repeated puts, random failures, blocked-storage "
                "episodes, heal; reference only). non-trivial = at least 2 objects and at least one storage call; distinct by (script, params, observations)",
        "samples": [cases[0], cases[len(cases) // 2], cases[-1]] if cases else [],
        "traces_validated_against_impl": len([c for c in cases if c["kind"] != "prop"]),
        "hist_kind": hist([c["kind"] for c in cases]),
        "hist_workers": hist([c["workers"] for c in cases]),
        "hist_objects": hist([len(c["sizes"]) for c in cases]),
        "hist_storage_calls": hist([min(n, 12) for n in ncalls]),
        "hist_failed_calls": hist([min(n, 6) for n in nfail]),
        "hist_batch_sizes": hist([min(len(k["objs"]), 6) for c in cases for o in c["obs"] for k in o["calls"]]),
        # schedules in which a scheduler round begins while a worker still holds a batch (blocked main storage)
        "hist_hold_episodes": hist(["%s:%s" % (c["kind"], "hold" if any(o["t"] == "hold" for o in c["script"]) else "plain")
                                    for c in cases]),
        "observations_with_batches_in_flight": sum(1 for c in cases for o in c["obs"] if o.get("held") and o.get("pend")),
        "rounds_begun_with_batches_in_flight": sum(rounds_in_flight(c) for c in cases),
        "cases_with_repeated_put": sum(1 for c in cases if len([o for o in c["script"] if o["t"] == "put"]) >
                                       len({o.get("o", 0) for o in c["script"] if o["t"] == "put"})),
        "consts": consts,
    })
