"""C24 — nodes store only self-consistent, authenticated objects."""
import collections
import json
import os
import vlib

META = {
    "id": "C24",
    "engine": "objfmt",
    "design_ref": "5/C24",
    "coq_targets": ["Props/Properties_C24.vo", "ObjFmt/Check.vo"],
    "coq_files": ["Gen/ObjFmtConsts.v", "ObjFmt/Model.v", "ObjFmt/Spec.v", "ObjFmt/Proofs.v", "ObjFmt/SliceProofs.v", "ObjFmt/Check.v",
                  "ObjFmt/RefProofs.v", "ObjFmt/RefWitness.v", "Props/Properties_C24.v"],
    "theorems": ["C24_stored_implies_valid", "C24_replicated_implies_valid", "C24_client_put_strict_auth", "C24_chunking_irrelevant",
                 "C24_size_mismatch_rejected", "C24_short_payload_rejected", "C24_slices_reassemble_partial",
                 "C24_reference_is_spec", "C24_reference_complete_partial", "C24_reference_converse_refuted", "C24_attr_loop_is_spec"],
    "technique": "Coq proof over an executable transcription of FormatValidator.validate / checkEC / AuthenticateObject / validatingTarget / "
                 "ValidateAndStoreObjectLocally / the slicer's payload arithmetic, with hash, streaming hash and signatures as Section variables; "
                 "differential tie: the real putsvc.Service (Streamer and the replicate validation) over recording fakes on objects valid or mutated in one field "
                 "and random chunkings, evaluated on the model instantiated with the facts the harness established with the real primitives",
    "level_text": "For every object, environment and chunking: if the modelled PUT pipeline (Init, SendChunk*, Close) or the modelled replicate validation stores an object, then "
                  "its ID is the hash of its header, the stored payload is the concatenation of the chunks, its length and checksum are the declared ones, every header of the parent chain "
                  "is well-formed (version, type rules, owner, container, attributes without zero bytes/duplicates/empty values, expiration, EC part rules against policy and parent header, nesting depth) "
                  "the content rules of system objects hold whatever the payload length (LINK: non-empty payload that parses, first child and container named, split verifier accepts; TOMBSTONE/LOCK: 2.18+, no payload, tombstone verifier accepts) "
                  "for an EC part (unsigned by design) the parent header it carries has ID = hash of the parent header and a signature authenticating the owner or session, "
                  "and, unless it is an EC part, the signature over the ID authenticates the owner or the session (strictly for client PUT; replicated pre-2.18 objects keep the implementation's "
                  "documented owner exemption). The verdict does not depend on the chunking; a stream longer than declared is refused at the first overflowing chunk, a shorter one at Close; "
                  "a failing store of a child object surfaces at the call that caused it. For node-side slicing the children's payloads concatenate to the streamed payload for any chunking and limit (partial, see note).",
    "level_note": "partial: (1) SHA-256, ECDSA/N3 verification, session token authentication and protobuf encoding are abstract (Section variables; the harness exercises the real ones and reports their verdicts); "
                  "(2) the SDK slicer is modelled only in its payload arithmetic (buffering/flush of PayloadWriter.Write/Close) and tied differentially through put/slice.go; formation, signing and linking of the "
                  "child objects are SDK internals outside the model — the harness re-verifies every stored child independently (ID, size, checksum, signature) instead; "
                  "(3) trusted-path ties use containers without EC rules and requests without session tokens; V2 session tokens and the N3 scheme are modelled but not tied; "
                  "(4) quota arithmetic ignores uint64 wrap; (5) premise: the header object passed to Streamer.Init carries no payload (true for the only production caller). "
                  "(6) the executable reference stored_okb evaluated by the check implies the Prop stored_ok of the theorems (C24_reference_is_spec: no violation of stored_ok can pass the reference evaluation); the converse holds only up to three places where the executable form is stronger - script-length bounds in authenticate, hash-attribute length checks in check_ec_part, EC classification of an EC part's parent header - (C24_reference_complete_partial, these three as premises; C24_reference_converse_refuted: witness with an over-long key length), so a reference failure reported by the check on such an object would not by itself contradict stored_ok; the attribute loop equals the nodupb/forallb form and attrs_ok (C24_attr_loop_is_spec). "
                  "Runtime behaviour not modelled: placement/broadcast to other nodes (C25), concurrency of the EC part writers.",
    "trusted_base": ["Coq 8.16.1 kernel, vm_compute", "model ObjFmt/Model.v hand-written, tied by differential check", "abstraction of real objects into model objects by harness/cmd/objfmt (gen.go: abstract)",
                     "harness/cmd/objfmt, harness/lib/putfake, lib/vlib.py"],
    "assumptions": ["streaming hash: fin (fold_left upd chunks h0) = H (concat chunks)",
                    "sig_ok / key_ok / user_of / tok1_ok / tok2_ok / n3_ok abstract (Section variables)",
                    "object ID = H(binary header): the binary header is an opaque field of the model object",
                    "header object given to Streamer.Init has an empty payload",
                    "no uint64 overflow in quota arithmetic; EC rules have data part number > 0"],
}

TYPES = ["TRegular", "TTombstone", "TStorageGroup", "TLock", "TLink", "TOther"]


def cb(l):
    return "[" + ";".join(str(x) for x in l) + "]"


def copt(x, f):
    return "None" if x is None else "(Some %s)" % f(x)


def cbool(b):
    return "true" if b else "false"


def cobj(o):
    def sig(s):
        return "(mksig %d %s %d %s %d)" % (s["scheme"], cb(s["key"]), s["keylen"], cb(s["val"]), s["vallen"])

    def t1(t):
        return "(mktok1 %s %s %d)" % (cb(t["authkey"]), cb(t["issuer"]), t["tag"])

    def t2(t):
        return "(mktok2 [%s] %s %d)" % (";".join(cb(s) for s in t["subjects"]), cb(t["issuer"]), t["tag"])
    return "(mkobj %s %s %d %s %s %d %s %d [%s] %d %s %s %s %s %s %s %s %s %s %s %s %s)" % (
        copt(o["ver"], lambda v: "(%d,%d)" % (v[0], v[1])), TYPES[o["typ"]], o["hdrlen"], copt(o["id"], cb), cb(o["hdrbin"] or []),
        o["cnr"], cb(o["owner"]), o["epoch"], ";".join("(%s,%s)" % (cb(a[0]), cb(a[1])) for a in o["attrs"]), o["size"],
        copt(o["cs"], lambda c: "(%d,%s)" % (c["typ"], cb(c["val"]))), cb(o["payload"]), copt(o["sig"], sig), copt(o["tok1"], t1), copt(o["tok2"], t2),
        cbool(o["assoc_zero"]), cbool(o["has_split"]), cbool(o["split_id"]), cbool(o["first_set"]), cbool(o["prev_zero"]), cbool(o["link_parses"]),
        copt(o["parent"], cobj))


def cenv(e):
    return "(mkenv %d %d [%s] %d %d %s %d %s %s %s %s)" % (
        e["epoch"], e["max"], ";".join("(%d,%d)" % (r[0], r[1]) for r in e["rules"]), e["rep_rules"], e["rep_sum"], cbool(e["cnr_found"]), e["lock"],
        cbool(e["split_ok"]), cbool(e["tomb_ok"]), copt(e["quota"], str), cb(e["node_user"]))


def code_of(out):
    if out["init_err"]:
        return 0, 0
    if out["chunk_err"] >= 0:
        return 1, out["chunk_err"]
    if out["close_err"]:
        return 2, 0
    return 3, 0


def ccase(c):
    tbl = "[%s]" % ";".join("(%s,%s)" % (cb(h["in"]), cb(h["out"])) for h in c["htab"])
    chunks = "[%s]" % ";".join(cb(x) for x in c["chunks"])
    stored = "[%s]" % ";".join(cb(x) for x in c["stored"])
    if c["path"] == "put":
        code, idx = code_of(c["out"])
        return "(CPut %s %s %s %s %s %d %d%%nat %s %s)" % (cenv(c["env"]), cobj(c["obj"]), chunks, tbl, cbool(bool(c["fail"])), code, idx, stored, cbool(c["same_hdr"]))
    if c["path"] == "repl":
        return "(CRepl %s %s %s %s %s %s %s)" % (cenv(c["env"]), cobj(c["obj"]), tbl, cbool(bool(c["fail"])), cbool(c["repl_ok"]), stored, cbool(c["same_hdr"]))
    code, idx = code_of(c["out"])
    return "(CSlice %s %s %s [%s]%%nat %d %d%%nat %s [%s] %s)" % (
        cenv(c["env"]), cobj(c["obj"]), chunks, ";".join(str(x) for x in c["fail"]), code, idx, stored,
        ";".join(cbool(b) for b in c["self_ok"]), cbool(c["root_ok"]))


PRELUDE = ("From NV Require Import Gen.ObjFmtConsts ObjFmt.Model ObjFmt.Spec ObjFmt.Check.\nFrom Coq Require Import List NArith. Import ListNotations.\n"
           "Local Open Scope N_scope.\n")


def gen_consts(ctx, binp):
    k = ctx.run_json([binp, "consts"])[0]
    text = "(* GENERATED by props/C24.py from `objfmt consts` (values read from the Go packages of /repo). Do not edit. *)\n"
    text += "From Coq Require Import NArith List.\nImport ListNotations.\nLocal Open Scope N_scope.\n"
    text += "Definition max_header_len : N := %d.\nDefinition max_script_len : N := %d.\nDefinition max_nesting : nat := %d.\n" % (
        k["max_header_len"], k["max_script_len"], k["max_nesting"])
    for name in ("ec_prefix", "ec_rule_idx_key", "ec_part_idx_key", "ec_hashes_key", "expiration_key"):
        text += "Definition %s : list N := %s.\n" % (name, cb(k[name]))
    text += "Definition cs_sha256 : N := %d.\nDefinition cs_tz : N := %d.\n" % (k["cs_sha256"], k["cs_tz"])
    vlib.write_if_changed(os.path.join(vlib.COQ, "Gen", "ObjFmtConsts.v"), text)
    return k


def outcome_key(c):
    if c["path"] == "repl":
        return "repl:%s" % ("stored" if c["repl_ok"] else "rejected")
    code, _ = code_of(c["out"])
    return "%s:%s" % (c["path"], ["init_err", "chunk_err", "close_err", "ok"][code])


def run(ctx):
    binp = ctx.go_build()
    consts = gen_consts(ctx, binp)          # constants first: the proofs are re-checked against them
    ctx.prove()
    model = ctx.model_ready(["ObjFmt/Check.vo"])
    if ctx.replay:
        rp = json.load(open(ctx.replay))
        cases = [v["case"] for v in rp.get("violations", []) if "case" in v]
        # re-run the same seed and pick the cases again (the harness is deterministic per seed)
        n = 128 if rp.get("tier", "quick") == "quick" else 800
        allc = ctx.run_json([binp, "cases", str(n)], env={"VERIF_SEED": str(rp.get("seed", ctx.seed))})
        idxs = [v.get("index") for v in rp.get("violations", []) if v.get("index") is not None]
        cases = [allc[i] for i in idxs if i < len(allc)] or cases
    else:
        # + the fixed matrix of 27 (kind, mutation) pairs the harness emits first in every run (54 cases)
        n = 128 if ctx.tier == "quick" else 800
        cases = ctx.run_json([binp, "cases", str(n)])
    ctx.n_cases = n if not ctx.replay else 0
    if not model:
        ctx.tie(False)
        return
    # tie 0: version predicates against pkg/core/version
    rows = "[%s]" % ";".join("(%d,%d,%s,%s,%s)" % (r[0], r[1], cbool(r[2]), cbool(r[3]), cbool(r[4])) for r in consts["versions"])
    nv = consts["nil_version"]
    jobs = [("ver", PRELUDE, {"ver": "ver_mismatches %s (%s,%s,%s)" % (rows, cbool(nv[0]), cbool(nv[1]), cbool(nv[2]))})]
    CH = 60
    offs = []
    for off in range(0, len(cases), CH):
        lit = "[%s]" % ";\n".join(ccase(c) for c in cases[off:off + CH])
        jobs.append(("cases", PRELUDE + "Definition cases : list case := %s.\n" % lit,
                     {"model": "model_mismatches cases", "ref": "ref_mismatches cases"}))
        offs.append(off)
    results = ctx.coq_eval_many(jobs)
    if results[0] is None:
        ctx.tie(False)
    else:
        ctx.tie(not results[0]["ver"])
        if results[0]["ver"]:
            ctx.notes.append("version predicate rows that differ from pkg/core/version: %r" % results[0]["ver"][:10])
    bad_m, bad_r = [], []
    for off, res in zip(offs, results[1:]):
        if res is None:
            ctx.tie(False)
            return
        bad_m += [off + i for i in res["model"]]
        bad_r += [off + i for i in res["ref"]]
    remote = [i for i, c in enumerate(cases) if c.get("remote")]
    ctx.tie(not bad_m)      # implementation = model (outcome, stage, stored payloads)
    ctx.tie(not bad_r)      # what the node stored satisfies the property's right-hand side
    ctx.tie(not remote)     # harness sanity: nothing left the node
    for i in sorted(set(bad_r))[:5]:
        c = cases[i]
        ctx.violation({"index": i, "case": c, "why": "the node stored something the property forbids (reference check on the stored objects)"})
    for i in [j for j in sorted(set(bad_m)) if j not in set(bad_r)][:5]:
        c = cases[i]
        # a disagreement on accept/reject or on the failing stage is a property-relevant observable
        ctx.violation({"index": i, "case": c, "why": "implementation and proved model disagree on outcome / failing stage / stored payload"})
    keyf = lambda c: (c["path"], c["kind"], c["mut"], outcome_key(c))
    ctx.cov.update({
        "evaluations": len(cases),
        "distinct_nontrivial": len({keyf(c) for c in cases if c["mut"] != "none"}),
        "rule": "generated objects of 14 kinds (regular, session, tombstone, lock, link, split children, nested parents, EC parts) valid or mutated in one field, each streamed through the real Streamer in a random chunking "
                "and given to ValidateAndStoreObjectLocally; plus trusted-path streams sliced by the node with storage failures; "
                "plus, first in every run, a fixed matrix (both paths each): tombstone / lock / link objects x {valid, tombstone verifier rejects, split verifier rejects, payload present where it must be empty, "
                "empty where it must not be, empty AND verifier rejects, pre-2.18 version, garbage link, link without first ID}, streams of exactly the declared size and of one byte more with a one-byte last chunk, "
                "an EC part whose owner differs from its parent's; non-trivial = a mutation was applied; distinct by (path, kind, mutation, outcome)",
        "outcome_histogram": dict(collections.Counter(outcome_key(c) for c in cases)),
        "mutation_histogram": dict(collections.Counter(c["mut"] for c in cases)),
        "kind_histogram": dict(collections.Counter(c["kind"] for c in cases)),
        "chunks_histogram": dict(collections.Counter(min(len(c["chunks"]), 8) for c in cases if c["path"] != "repl")),
        "samples": [{k: v for k, v in c.items() if k not in ("htab",)} for c in cases[:2]],
        "n_cases_arg": n,
        "content_matrix": sorted("%s/%s/%s:%s" % (c["path"], c["kind"], c["mut"], outcome_key(c).split(":")[1]) for c in cases
                                 if c["kind"] in ("tomb", "lock", "link") and c["mut"] in ("none", "content_tomb", "content_split", "sys_payload", "sys_payload_tomb", "link_empty",
                                                                                            "link_empty_split", "link_garbage", "link_no_first", "ver_217")),
        "system_objects_empty_payload_rejected_by_content": sum(1 for c in cases if c["kind"] in ("tomb", "link") and c["obj"]["size"] == 0
                                                                and c["mut"] in ("content_tomb", "link_empty", "link_empty_split")),
    })
