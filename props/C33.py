"""C33 — request signature chains are accepted only if every layer verifies."""
import collections
import json
import os
import vlib

KNOWN_KEY = "origin-layers-unverified-api-2.25"

META = {
    "id": "C33",
    "engine": "auth",
    "design_ref": "5/C33",
    "coq_targets": ["Props/Properties_C33.vo", "Auth/ReqSigCheck.vo"],
    "coq_files": ["Gen/AuthReqConsts.v", "Auth/ReqSig.v", "Auth/ReqSigProofs.v", "Auth/ReqSigCheck.v", "Props/Properties_C33.v"],
    "theorems": ["C33_all_layers_refuted", "C33_accept_implies_all_layers_partial", "C33_accept_current_version", "C33_verify_exact",
                 "C33_exemption_exact", "C33_not_exempt_needs_valid",
                 "C33_body_change_rejected", "C33_meta_change_rejected", "C33_drop_outer_layer_rejected", "C33_swap_body_meta_rejected"],
    "technique": "Coq proofs about an executable model of requestNeedsSignature + the SDK's VerifyRequestWithBufferN3 loop (both API-version modes); signatures abstract (Section hypothesis: a signature verifies for at most one message); "
                 "model tied by differential runs of the real icrypto.VerifyRequestSignatures / WithContext / N3 on requests really signed with 1-3 layers in all schemes and mutated on the wire",
    "level_text": "partial. The literal statement (every verification layer of an accepted request carries valid signatures) is REFUTED for requests of API version >= 2.25 (C33_all_layers_refuted): the SDK verifier compiled into the node "
                  "verifies only the outer layer's body and meta signatures there and ignores v.Origin. C33_accept_implies_all_layers_partial proves the statement for all other requests (legacy chains: equal layer counts, every layer valid meta + origin "
                  "signatures, body signature exactly in the innermost layer; single current layer: meta + body); C33_accept_current_version / C33_verify_exact give the exact guarantee in the excluded class. C33_exemption_exact: verification is skipped iff "
                  "no verification header, TTL = 1 and an authenticated peer; the plain entry point never skips. Mutation theorems under the unforgeability hypothesis: changed body bytes, changed outer meta header bytes, dropped outer layer of a legacy chain, "
                  "swapped body/meta signatures are rejected. The harness signs DeleteRequests with 1-3 layers (ECDSA SHA-512 / RFC6979 / WalletConnect, N3 witnesses against a witness oracle), legacy / current / missing versions, mutates them on the wire and "
                  "compares the three real entry points with the model and with the statement.",
    "level_note": "Trusted: Coq kernel + vm_compute; hand-written model Auth/ReqSig.v (tied by differential check; the version threshold is probed from the compiled SDK into Gen/AuthReqConsts.v); the wire-message -> facts decoder of the harness "
                  "(SDK VerifyMessageSignature per signature); the SDK verifier is exercised, not verified; ECDSA/SHA/N3 script execution exercised, not verified. partial: known finding " + KNOWN_KEY + " (API >= 2.25 requests: verification layers below the outer one "
                  "are not verified; they have no influence on the request author, which GetRequestAuthor takes from the outer body signature). TLS handshake / peer certificate validation itself (what makes a peer 'authenticated') is runtime behaviour not modelled.",
    "trusted_base": ["Coq 8.16.1 kernel, vm_compute", "Auth/ReqSig.v hand-written, tied by differential check", "harness/cmd/auth/requests.go, lib/vlib.py"],
    "assumptions": ["sig_binds: a signature (scheme, key, value) verifies for at most one message",
                    "per-signature validity over body / meta layer / previous verification layer are facts (booleans) in the executable model",
                    "peer authentication (peerauth.IsTrustedPeer) is a fact"],
}


def N(n):
    return "%d%%N" % n


def layer(l):
    return "mklayer %s %s %s %s %s %s" % tuple(vlib.coq_bool(l[k]) for k in ("has_body", "body_ok", "has_meta", "meta_ok", "has_origin", "origin_ok"))


def req(c, layers):
    vh = "None" if not c["has_vh"] else "(Some %s)" % vlib.coq_list(layers or [], layer)
    ver = "None" if not c["has_ver"] else "(Some (%s, %s))" % (N(c["major"]), N(c["minor"]))
    return "(mkreq %s %s %s %s %s %s)" % (vh, vlib.coq_bool(c["has_meta"]), N(c["nmeta"]), ver, N(c["ttl"]), vlib.coq_bool(c["trusted"]))


SIGNED_MUTS = {"body_byte", "meta_ttl"}


def case_term(c):
    signed = c["base"] and c["mut"] in SIGNED_MUTS and c.get("changed")
    return "mkrcase %s %s %s %s %s %s" % (req(c, c["layers"]), req(c, c["layers_n3"]), vlib.coq_bool(c["plain"]), vlib.coq_bool(c["ctx"]),
                                          vlib.coq_bool(c["n3"]), vlib.coq_bool(signed))


PRELUDE = ("From Coq Require Import NArith List Bool.\nFrom NV Require Import Gen.AuthReqConsts Auth.ReqSig Auth.ReqSigCheck.\nImport ListNotations.\n")


def gen_consts(ctx, binp):
    k = ctx.run_json([binp, "requests", "consts"])[0]
    if k.get("ok"):
        vlib.write_if_changed(os.path.join(vlib.COQ, "Gen", "AuthReqConsts.v"),
                              "(* GENERATED by props/C33.py from `auth requests consts`: the API version from which the SDK compiled\n"
                              "   into the node stops requiring chained origin signatures (probed through SignRequestWithBuffer). *)\n"
                              "From Coq Require Import NArith.\nOpen Scope N_scope.\n"
                              "Definition ver_major := %d.\nDefinition ver_minor_no_origin := %d.\n" % (k["ver_major"], k["ver_minor_no_origin"]))
    return bool(k.get("ok"))


def run(ctx):
    binp = ctx.go_build()
    ctx.tie(gen_consts(ctx, binp))      # version threshold has the shape the model assumes
    ctx.prove()
    if not ctx.model_ready(["Auth/ReqSigCheck.vo"]):
        ctx.tie(False)
        return
    if ctx.replay:
        rp = json.load(open(ctx.replay))
        cases = [v["case"] for v in rp.get("violations", []) if "case" in v]
    else:
        cases = ctx.run_json([binp, "requests"])
    jobs, offs = [], []
    CH = 400
    for off in range(0, len(cases), CH):
        lit = vlib.coq_list(cases[off:off + CH], lambda c: "(" + case_term(c) + ")")
        jobs.append(("cases", PRELUDE + "Definition cases : list rcase := %s.\n" % lit,
                     {"model": "model_mismatches cases", "stmt": "stmt_violations cases", "known": "known_violations cases", "mut": "mut_violations cases"}))
        offs.append(off)
    bad = {"model": [], "stmt": [], "known": [], "mut": []}
    for off, res in zip(offs, ctx.coq_eval_many(jobs)):
        if res is None:
            ctx.tie(False)
            return
        for k in bad:
            bad[k] += [off + i for i in res[k]]
    # status class: every refusal is a SignatureVerification status; request author = outer body signature key
    bad_status = [i for i, c in enumerate(cases) if not c["sig_err"]]
    bad_author = [i for i, c in enumerate(cases) if c["has_vh"] and c["layers"] and c["layers"][0]["has_body"] and c["plain"] and not (not c["author_err"] and c["author_is_key"])]
    ctx.tie(not bad["model"])                 # the three entry points = model
    ctx.tie(not bad["stmt"] and not bad["mut"])   # statement outside the known class; signed-part mutations rejected
    ctx.tie(not bad_status and not bad_author)
    for i in bad["known"][:3]:
        ctx.violation({"case": cases[i], "why": "accepted although a verification layer below the outer one does not verify (API >= 2.25: origin layers are not looked at)"}, key=KNOWN_KEY)
    for i in sorted(set(bad["stmt"]))[:5]:
        c = cases[i]
        why = "request accepted as authentically signed although not every verification layer carries valid signatures (and not the one-hop exemption)"
        if not c["has_vh"]:
            why = ("request WITHOUT verification header (TTL %d, meta header %s) accepted by VerifyRequestSignaturesWithContext/N3 from peer context `%s`, which is not an authenticated peer connection: "
                   "the one-hop exemption was granted to a look-alike" % (c["ttl"], "present" if c["has_meta"] else "absent", c.get("peer")))
        ctx.violation({"case": c, "why": why})
    for i in sorted(set(bad["mut"]) - set(bad["stmt"]))[:5]:
        ctx.violation({"case": cases[i], "why": "a request whose signed body / meta header bytes were changed after signing was accepted"})
    for i in sorted(set(bad["model"]) - set(bad["stmt"]) - set(bad["mut"]))[:5]:
        c = cases[i]
        accepted_more = c["plain"] or c["ctx"] or c["n3"]
        if accepted_more:
            ctx.violation({"case": c, "why": "verdict of VerifyRequestSignatures* differs from the proved model (accepted where the model rejects or vice versa)"})
        else:
            ctx.notes.append("implementation rejects where the model accepts (no property violation): %s" % json.dumps(c)[:1200])
    for i in (bad_status + bad_author)[:3]:
        ctx.notes.append("status class / author mismatch: %s" % json.dumps(cases[i])[:800])

    def facts(c):
        return {k: c[k] for k in ("has_vh", "layers", "layers_n3", "has_meta", "nmeta", "has_ver", "major", "minor", "ttl", "trusted")}
    unsigned_ttl1 = {}
    for c in cases:
        if not c["has_vh"] and c["has_meta"] and c["ttl"] == 1:
            a, r = unsigned_ttl1.get(c.get("peer", "?"), (0, 0))
            unsigned_ttl1[c.get("peer", "?")] = (a + 1, r) if c["ctx"] else (a, r + 1)
    ctx.cov.update({
        "evaluations": len(cases),
        "distinct_nontrivial": vlib.distinct_count([facts(c) for c in cases if c["has_vh"]]),
        "rule": "DeleteRequests signed with 1-3 layers (each layer one of ECDSA SHA-512 / RFC6979 / WalletConnect / N3 witness), API version current (2.25+), legacy (<2.25), other majors or missing, TTL 0..7, nil body / nil meta header, "
                "14 kinds of peer context (no peer, no AuthInfo, other AuthInfo, peerauth.AuthInfo literal with/without key, the outcome of the node's server handshake for a P-256 / no / RSA / P-384 / Ed25519 client certificate, "
                "unbound credentials.TLSInfo with a P-256 certificate, foreign AuthInfo with AuthType \"tls\", pointer to / wrapper around peerauth.AuthInfo); a deterministic matrix peer kind x (unsigned at TTL 1/0/2 x version current/legacy/missing, "
                "unsigned without meta header, signed intact 1-2 layers, signed with changed body / signature value / removed body or meta signature) precedes the random stream; "
                "the unmutated request is verified first, then one of 21 wire mutations (60%); non-trivial = has a verification header; distinct by facts",
        "verdict_histogram": dict(collections.Counter("plain=%d ctx=%d n3=%d" % (c["plain"], c["ctx"], c["n3"]) for c in cases)),
        "mutation_histogram": dict(collections.Counter(c["mut"] or "none" for c in cases)),
        "accepted_after_mutation_of_accepted": dict(collections.Counter(c["mut"] for c in cases if c["mut"] and c["base"] and (c["plain"] or c["n3"]))),
        "known_class_cases": len(bad["known"]),
        "exempt_cases": sum(1 for c in cases if (not c["has_vh"]) and c["ctx"]),
        "peer_histogram": dict(collections.Counter(c.get("peer", "?") for c in cases)),
        # the exemption decision point (no verification header, meta header with TTL 1) per peer kind: accepted / refused by WithContext
        "unsigned_ttl1_by_peer": {k: "%d accepted / %d refused" % (a, r) for k, (a, r) in sorted(unsigned_ttl1.items())},
        "forced_matrix_cases": sum(1 for c in cases if c.get("forced")),
        "samples": cases[:3],
    })
