"""C08 — an object locked through the engine stays retrievable until the lock expires."""
import collections
import importlib.util
import json
import os
import vlib

_spec = importlib.util.spec_from_file_location("_engine", os.path.join(os.path.dirname(os.path.abspath(__file__)), "_engine.py"))
E = importlib.util.module_from_spec(_spec)
_spec.loader.exec_module(E)

META = {
    "id": "C08",
    "engine": "engine",
    "design_ref": "5/C08",
    "coq_targets": ["Props/Properties_C08.vo", "Engine/Check8.vo"],
    "coq_files": ["Engine/Model.v", "Engine/Spec.v", "Engine/Check.v", "Engine/Gc.v", "Engine/Check8.v", "Engine/GetProofs.v",
                  "Engine/LockProofs.v", "Engine/LockWitness.v", "Props/Properties_C08.v"],
    "theorems": ["C08_locked_retrievable_partial", "C08_checked_premise", "C08_refuted"],
    "technique": "Coq proof by invariant over all histories (puts of objects/locks/tombstones with rollback, GC passes incl. expired "
                 "processing through the engine, epoch advances, mode flips, put failures; all visiting orders, broadcast orders and "
                 "lock-check outcomes universally quantified) about the executable engine model + differential correspondence of "
                 "generated histories against a real engine over 2-3 real shards",
    "level_text": "C08_locked_retrievable_partial: if after the acceptance the lock record is stored and effective on every shard, the "
                  "object carries no garbage mark / tombstone and a readable copy with metadata exists (Inv; implied by the boolean "
                  "c08_inv that the check evaluates on the state right after every accepted lock, C08_checked_premise), then after ANY "
                  "history of allowed operations within the lock's life engine_get returns the object's bytes for every visiting "
                  "order. C08_refuted: without that premise the statement fails (lock missed the holder shard; a refused and rolled "
                  "back tombstone leaves the garbage mark; the object is lost) - confirmed on the real engine and recorded.",
    "level_note": "partial: the unrestricted property is false for the real engine (known finding lock-missed-shard); proved for locks "
                  "that reached every shard. Not covered by the theorem and not in the generated histories: forced Delete/Drop (they "
                  "override locks by design), shard additions, injected read failures, evacuation (planned with C19, not modelled), "
                  "container removal. Concurrent lock/tombstone broadcasts are modelled only as sequential operations (each broadcast "
                  "atomic); goroutine-level interleaving of two broadcasts, background GC timers and the asynchronous new-epoch "
                  "notification are not modelled (the harness drives GC passes and epoch events synchronously through shard hooks). "
                  "Shard internals are an abstract hand-written model tied by the differential check only.",
    "trusted_base": ["Coq 8.16.1 kernel, vm_compute",
                     "models Engine/Model.v, Engine/Gc.v hand-written, tied by differential check on generated histories",
                     "harness/cmd/engine (engine log observed for the per-address lock-check outcome), hooks zz_verif_engine_hooks.go / "
                     "zz_verif_shard_hooks.go, lib/vlib.py"],
    "assumptions": ["every put of the protected address carries the same bytes; every put of the lock's address is that lock (wf_put; object IDs are content hashes)",
                    "epochs announced to the engine and to the shards' GC stay within the lock's life while the obligation is checked",
                    "no read failures on the shards (the property's fault model injects put failures only)"],
}

KNOWN = {20: "lock-missed-shard"}
CLASS_TEXT = {
    1: "the accepted lock reached every shard (premise of C08_locked_retrievable_partial holds) but the target is not retrievable",
    20: "the accepted lock did not reach every shard (or the target already carried a mark): the locked object is not retrievable before the lock expires",
}


def chunks(hs, n):
    return [(o, hs[o:o + n]) for o in range(0, len(hs), n)]


def evaluate(ctx, hs, ch=8):
    jobs = [("c08", E.PRELUDE8 + E.hists8_def(part),
             {"model": "model_mismatches8 cases", "devs": "all_devs8 cases", "stats": "obl_stats8 cases"})
            for (_, part) in chunks(hs, ch)]
    mm, devs, stats = [], [], [0, 0]
    for (off, _), res in zip(chunks(hs, ch), ctx.coq_eval_many(jobs)):
        if res is None:
            return None
        mm += [(off + h, k) for (h, k) in E.decode(res["model"])]
        devs += [(off + d // 100 // 1000, d // 100 % 1000, d % 100) for d in res["devs"]]
        stats = [stats[0] + res["stats"][0], stats[1] + res["stats"][1]]
    return mm, devs, stats


def run(ctx):
    ctx.prove()
    model = ctx.model_ready(["Engine/Check8.vo"])
    binp = ctx.go_build()
    if ctx.replay:
        rp = json.load(open(ctx.replay))
        hs, origin = [], []
        for v in rp.get("violations", []):
            if "hist" in v:
                out = ctx.run_json([binp, "c08replay", str(v["hist"]), str(v["nops"])], env={"VERIF_SEED": str(v["seed"])})
                hs.append(out[0])
                origin.append((v["seed"], v["hist"]))
    else:
        count = 48 if ctx.tier == "quick" else 240
        hs = ctx.run_json([binp, "c08", str(count)])
        origin = [(ctx.seed, i) for i in range(len(hs))]
    if not model:
        ctx.tie(False)
        return
    ev = evaluate(ctx, hs)
    if ev is None:
        ctx.tie(False)
        return
    mm, devs, stats = ev
    ctx.tie(not mm)                                   # correspondence: real engine = model on every operation
    unexpected = [d for d in devs if d[2] not in KNOWN]
    ctx.tie(not unexpected)                           # locks that reached every shard protect their object on the real engine
    for (h, k) in mm[:5]:
        o = hs[h]["ops"][k]
        ctx.violation({"what": "real engine and model disagree", "seed": origin[h][0], "hist": origin[h][1], "nops": k + 1,
                       "op": o, "impl": {"res": o["res"], "tag": o["tag"], "modes": o["modes"], "errs": o["errs"]},
                       "objects": hs[h]["objs"], "prefix": hs[h]["ops"][:k + 1]})
    seen = collections.Counter()
    for (h, k, cl) in devs:
        seen[cl] += 1
        if seen[cl] > 3:
            continue
        o = hs[h]["ops"][k]
        ctx.violation({"what": CLASS_TEXT.get(cl, "?"), "class": cl, "seed": origin[h][0], "hist": origin[h][1], "nops": k + 1,
                       "read": o, "reference": "an accepted, unexpired lock whose target was retrievable => every later read of the target returns it",
                       "objects": hs[h]["objs"], "prefix": hs[h]["ops"][:k + 1]}, key=KNOWN.get(cl))
    ops = [o for h in hs for o in h["ops"]]
    puts = [o for o in ops if o["op"] == "put"]
    ctx.cov.update({
        "evaluations": len(ops),
        "distinct_nontrivial": vlib.distinct_count([(o["op"], o.get("ordb"), o["res"], o["tag"], o["modes"], o["errs"], o.get("extra")) for o in ops
                                                    if o["op"] in ("put", "get", "gcx") and len(o["modes"]) > 1]),
        "rule": "one evaluation = one engine operation compared with the model (result class, returned bytes tag, all shard modes and "
                "error counters); non-trivial = put/get/gc operations on >= 2 shards, distinct by (op, broadcast order, result, modes, "
                "error counters, lock-check outcomes)",
        "histories": len(hs),
        "lock_obligations_checked_at_reads": stats[1],
        "of_them_with_theorem_premise": stats[0],
        "deviation_classes": {CLASS_TEXT.get(c, str(c))[:70]: n for c, n in seen.items()},
        "op_histogram": dict(collections.Counter(o["op"] for o in ops)),
        "put_result_histogram": dict(collections.Counter("%d" % o["res"] for o in puts)),
        "gc_lock_check_outcomes": dict(collections.Counter(str(x) for o in ops if o["op"] == "gcx" for x in o.get("extra", []) if x)),
        "mode_histogram": dict(collections.Counter(m for o in ops for m in o["modes"])),
        "samples": [hs[0]["ops"][i] for i in range(min(3, len(hs[0]["ops"])))] if hs else [],
    })
