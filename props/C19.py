"""C19 — evacuation keeps every available object available on the remaining shards."""
import collections
import importlib.util
import json
import os
import vlib

_spec = importlib.util.spec_from_file_location("_engine", os.path.join(os.path.dirname(os.path.abspath(__file__)), "_engine.py"))
E = importlib.util.module_from_spec(_spec)
_spec.loader.exec_module(E)

META = {
    "id": "C19",
    "engine": "engine",
    "design_ref": "5/C19",
    "coq_targets": ["Props/Properties_C19.vo", "Engine/EvacCheck.vo"],
    "coq_files": ["Engine/Model.v", "Engine/Spec.v", "Engine/Check.v", "Engine/Gc.v", "Engine/Check8.v", "Engine/GetProofs.v",
                  "Engine/LockProofs.v", "Gen/EngineConsts.v", "Engine/Evac.v", "Engine/EvacSpec.v", "Engine/EvacCheck.v",
                  "Engine/EvacProofs.v", "Engine/EvacPreserved.v", "Engine/EvacStatus.v", "Engine/EvacTomb.v", "Engine/EvacLock.v", "Engine/EvacWitness.v",
                  "Props/Properties_C19.v"],
    "theorems": ["C19_listing_is_filter", "C19_sources_unchanged", "C19_moved",
                 "C19_preserved_partial", "C19_preserved_refuted", "C19_preserved_refuted_separated_lock",
                 "C19_records_from_before", "C19_tombstone_not_created", "C19_tombstone_kept_partial",
                 "C19_lock_status_partial", "C19_status_unchanged_refuted"],
    "technique": "Coq proof by invariant over the whole evacuation loop (every source subset and order incl. duplicates, every "
                 "listing order, every HRW order per object, every shard content / mode / fault flag / error threshold, with and "
                 "without ignoreErrors and fault handler) about an executable model of StorageEngine.Evacuate on top of the engine "
                 "model of C20/C08 + differential correspondence of generated histories against a real engine over 2-4 real shards "
                 "(every operation, a per-shard probe of every address before and after the evacuation, reads over the remaining "
                 "shards after the sources were detached)",
    "level_text": "C19_sources_unchanged: whatever Evacuate returns, every source shard is exactly what it was (all inputs). "
                  "C19_listing_is_filter: the paged listing (page size from the code) returns every listed ID exactly once. "
                  "C19_moved: Evacuate = Ok => every address a source shard lists and serves (tombstone and lock objects included) was "
                  "handed to the fault handler or is held (metadata, or data on a shard without metabase) by a shard that is not "
                  "evacuated (all inputs). C19_preserved_partial: Evacuate = Ok => every address available on a source with bytes b "
                  "that is in the class c19_good (not recorded as removed / expired on any shard, so its availability does not hang on "
                  "a lock; equal bytes on all copies; the remaining shards do not fail reads and have no metadata without data) is "
                  "returned with bytes b by engine_get for EVERY visiting order over the remaining shards, unless the fault handler "
                  "took it. C19_preserved_refuted*: without the class the statement fails on reachable states (garbage-marked object "
                  "kept by a lock is not listed; an expired object and the lock that keeps it land on different shards). "
                  "C19_records_from_before / C19_tombstone_not_created: every metabase record (hence every tombstone status) of every "
                  "shard afterwards existed on some shard before (all inputs). C19_tombstone_kept_partial: a tombstone object a source "
                  "lists and serves is handed or stored with its record by a remaining shard (premise PT: one header per ID, no "
                  "remaining shard in degraded read-write mode or holding the tombstone's data without its record). "
                  "C19_status_unchanged_refuted: the status equality fails - ignoreErrors skips an unreadable tombstone object and "
                  "Evacuate still reports success. C19_lock_status_partial: the 'not lost' direction for the lock status - a lock object a source "
                  "lists and serves is handed or a remaining shard reports its target as locked afterwards (class PT, no tombstone for the lock "
                  "object on any shard, no default garbage mark for it on a remaining shard, lock not expired). NOT proved as a theorem: the "
                  "'not created' direction and hence the equality of the LOCK status (checked on the real engine "
                  "by the correspondence run only, class c19_status_good).",
    "level_note": "partial: the status-unchanged clause is proved for the tombstone status (not created: all inputs; not lost: "
                  "class PT); for the lock status only the 'not lost' direction is proved (C19_lock_status_partial, class PT + the lock object is not in garbage + not expired), the 'not created' direction and the equality are only tied differentially. The unrestricted preservation statement is false for the real engine (known findings "
                  "lock-kept-object-not-evacuated, lock-separated-from-object; the silent skip of a source shard without metabase was "
                  "repaired); proved for the complementary class. Modelled, not verified: shard internals (metabase status rules, blob "
                  "storage) are the abstract hand-written model of C20/C08 tied by the differential check only; the listing is "
                  "modelled on one container in raw-ID order (the harness uses one container); split parents / link objects, "
                  "write-cache, container GC marks are not modelled (EC parts are regular objects placed by their parent's ID); "
                  "runtime behaviour not modelled: concurrent client operations or GC passes during an evacuation, mode changes of a "
                  "source shard while it is being evacuated (the model reads a source once per loop; the check compares the sources "
                  "before and after on the real engine).",
    "trusted_base": ["Coq 8.16.1 kernel, vm_compute",
                     "models Engine/Model.v, Engine/Evac.v hand-written, tied by differential check on generated histories",
                     "Gen/EngineConsts.v (listing page size) dumped from the compiled engine package on every run",
                     "harness/cmd/engine (c19.go), hooks zz_verif_c19_engine.go / zz_verif_engine_hooks.go / zz_verif_shard_hooks.go, lib/vlib.py"],
    "assumptions": ["visiting order of a read is a duplicate-free list of remaining shard indices containing every remaining shard",
                    "one address stores one byte string and one header on every shard (object IDs are content hashes): premises `coherent`, `rec_coherent`",
                    "the fault handler that returns nil has taken responsibility for the object (it is not required on the remaining shards)"],
}

KNOWN = {30: "lock-kept-object-not-evacuated", 31: "lock-separated-from-object"}
# outside the classes of the partial theorems for reasons that are not defects of the evacuation
NOT_APPLICABLE = {32, 39, 40}
CLASS_TEXT = {
    1: "address available on a source shard, inside the class of C19_preserved_partial, not returned with the same bytes by the remaining shards",
    2: "lock status changed (inside the class of C19_status_unchanged_partial, or a lock status was created)",
    3: "tombstone status changed (inside the class of C19_status_unchanged_partial, or a tombstone status was created)",
    4: "a source shard answers differently after the evacuation than before",
    14: "different bytes under one address",
    30: "object served by the source shard only because a lock overrides its garbage mark: listing skips it, it is not evacuated",
    31: "expired object served by the source shard only because of a lock stored there: object and lock are re-put on different shards",
    32: "object available on the source but recorded as removed on another shard (engine state inconsistent before, see C20)",
    39: "a remaining shard fails reads / has metadata without data: nothing can be promised",
    40: "tombstone / lock object on a source was not movable (skipped by ignoreErrors, handed to the fault handler, itself in garbage, or a remaining shard without metabase)",
}

PRELUDE19 = ("From NV Require Import Engine.Model Engine.Spec Engine.Check Engine.Gc Engine.Check8 Engine.Evac Engine.EvacSpec Engine.EvacCheck.\n"
             "From Coq Require Import List NArith. Import ListNotations.\nLocal Open Scope N_scope.\n")


def coq_op19(o):
    t = o["op"]
    if t == "evac":
        n = len(o["modes"])
        flat = o.get("ord") or []
        ords = [flat[k:k + n] for k in range(0, len(flat), n)] if n else []
        fh = "(Some %s)" % E.n_list(o.get("acc")) if o.get("hasfh") else "None"
        return "(OEvac %s %s %s %s)" % (E.nat_list(o.get("srcs")), E.b(o.get("ign")), fh,
                                        "[" + "; ".join(E.nat_list(x) for x in ords) + "]")
    if t == "probe":
        return "OProbe"
    if t == "islocked":
        return "(OIsLocked %d%%nat %s)" % (o["i"], E.nat_list(o.get("rem")))
    if t == "detach":
        return "(ODetach %s)" % E.nat_list(o.get("srcs"))
    return "(E19 %s)" % E.coq_op(o)


def coq_obs19(o):
    return "(Obs19 %s %s)" % (E.coq_obs(o), E.n_list(o.get("extra") if o["op"] in ("evac", "probe") else []))


def coq_hist19(h):
    ops = "[" + ";\n  ".join("(%s, %s)" % (coq_op19(o), coq_obs19(o)) for o in h["ops"]) + "]"
    return "(%d%%nat, %d, %s, %s, %s)" % (h["n"], h["thr"], "[" + "; ".join(E.coq_rec(o) for o in h["objs"]) + "]",
                                      E.n_list(h["rank"]), ops)


def hists19_def(hs, name="cases"):
    return "Definition %s : list hist19 := [\n%s\n].\n" % (name, ";\n".join(coq_hist19(h) for h in hs))


def chunks(hs, budget=700):
    """consecutive groups of histories with about `budget` operations each"""
    res, cur, n, off = [], [], 0, 0
    for i, h in enumerate(hs):
        if cur and n + len(h["ops"]) > budget:
            res.append((off, cur))
            cur, n, off = [], 0, i
        cur.append(h)
        n += len(h["ops"])
    if cur:
        res.append((off, cur))
    return res


def evaluate(ctx, hs):
    parts = chunks(hs)
    jobs = [("c19", PRELUDE19 + hists19_def(part),
             {"model": "model_mismatches19 cases", "devs": "all_devs19 cases", "cov": "cov19_all cases"})
            for (_, part) in parts]
    mm, devs, cov = [], [], [0, 0, 0, 0]
    for (off, _), res in zip(parts, ctx.coq_eval_many(jobs)):
        if res is None:
            return None
        mm += [(off + h, k) for (h, k) in E.decode(res["model"])]
        devs += [(off + d // 100 // 1000, d // 100 % 1000, d % 100) for d in res["devs"]]
        cov = [a + b for a, b in zip(cov, res["cov"])]
    return mm, devs, cov


def gen_consts(ctx, binp):
    c = ctx.run_json([binp, "c19consts"])[0]
    text = ("(* GENERATED by props/C19.py from the compiled engine package (harness subcommand c19consts). Do not edit. *)\n"
            "Definition evacuate_batch_size : nat := %d.\n" % c["evacuate_batch_size"])
    vlib.write_if_changed(os.path.join(vlib.COQ, "Gen", "EngineConsts.v"), text)
    return c


def run(ctx):
    binp = ctx.go_build()
    consts = gen_consts(ctx, binp)
    ctx.prove()
    model = ctx.model_ready(["Engine/EvacCheck.vo"])
    if ctx.replay:
        rp = json.load(open(ctx.replay))
        hs, origin = [], []
        for v in rp.get("violations", []):
            if "hist" in v:
                out = ctx.run_json([binp, "c19replay", str(v["hist"])], env={"VERIF_SEED": str(v["seed"])})
                hs.append(out[0])
                origin.append((v["seed"], v["hist"]))
    else:
        count = 32 if ctx.tier == "quick" else 192
        hs = ctx.run_json([binp, "c19", str(count)])
        origin = [(ctx.seed, i) for i in range(len(hs))]
    if not model:
        ctx.tie(False)
        return
    ev = evaluate(ctx, hs)
    if ev is None:
        ctx.tie(False)
        return
    mm, devs, cov = ev
    ctx.tie(not mm)                                   # correspondence: real engine = model on every operation and probe
    unexpected = [d for d in devs if d[2] not in KNOWN and d[2] not in NOT_APPLICABLE]
    ctx.tie(not unexpected)                           # the real engine satisfies the right-hand sides of the C19 theorems
    for (h, k) in mm[:5]:
        o = hs[h]["ops"][k]
        r = ctx.coq_eval_lists("obs", PRELUDE19 + hists19_def([hs[h]]),
                               {"m": "hist_obs19_at (nth 0 cases (0%%nat, 0, [], [], [])) %d%%nat" % k})
        ctx.violation({"what": "real engine and model disagree", "seed": origin[h][0], "hist": origin[h][1], "nops": k + 1,
                       "op": {x: y for x, y in o.items() if x != "ord"},
                       "impl_code_tag_extra": [o["res"], o["tag"]] + (o.get("extra") or []),
                       "model_code_tag_extra": r and r["m"], "note": hs[h].get("note"),
                       "objects": hs[h]["objs"], "prefix": [{x: y for x, y in p.items() if x not in ("ord", "extra")} for p in hs[h]["ops"][:k + 1]]})
    seen = collections.Counter()
    for (h, k, cl) in devs:
        seen[cl] += 1
        if cl in NOT_APPLICABLE or seen[cl] > 3:
            continue
        o = hs[h]["ops"][k]
        evac = [p for p in hs[h]["ops"] if p["op"] == "evac"]
        ctx.violation({"what": CLASS_TEXT.get(cl, "?"), "class": cl, "seed": origin[h][0], "hist": origin[h][1], "nops": k + 1,
                       "observed": {x: y for x, y in o.items() if x not in ("ord", "extra")},
                       "evacuation": evac and {x: y for x, y in evac[0].items() if x != "ord"},
                       "reference": "Evacuate = Ok => object available on a source is returned with the same bytes by the remaining "
                                    "shards; sources unchanged; tombstone / lock status over the remaining shards = over all shards before",
                       "note": hs[h].get("note"), "objects": hs[h]["objs"],
                       "prefix": [{x: y for x, y in p.items() if x not in ("ord", "extra")} for p in hs[h]["ops"][:k + 1]]},
                      key=KNOWN.get(cl))
    ops = [o for h in hs for o in h["ops"]]
    evs = [o for o in ops if o["op"] == "evac"]
    ctx.cov.update({
        "evaluations": len(ops),
        "distinct_nontrivial": vlib.distinct_count([(o.get("srcs"), o.get("ign"), o.get("hasfh"), o["res"], o["tag"], o.get("extra"), o["modes"], o["errs"])
                                                    for o in evs]),
        "rule": "one evaluation = one engine operation / probe compared with the model (result class, count or returned bytes tag, "
                "handed addresses or per-shard probe vector, all shard modes and error counters); non-trivial = evacuations, distinct by "
                "(sources, ignoreErrors, handler, result, count, handed, modes, error counters)",
        "histories": len(hs),
        "evacuations_ok": cov[0],
        "addresses_available_on_a_source": cov[1],
        "of_them_in_class_of_preserved_partial": cov[2],
        "addresses_in_class_of_status_partial": cov[3],
        "listing_page_size": consts["evacuate_batch_size"],
        "max_objects_in_one_history": max(len(h["objs"]) for h in hs) if hs else 0,
        "deviation_classes": {CLASS_TEXT.get(c, str(c))[:80]: n for c, n in seen.items()},
        "evac_result_histogram": dict(collections.Counter(str(o["res"]) for o in evs)),
        "evac_sources_histogram": dict(collections.Counter("%d of %d" % (len(o.get("srcs") or []), len(o["modes"])) for o in evs)),
        "evac_flags_histogram": dict(collections.Counter("ign=%d fh=%s" % (bool(o.get("ign")), "none" if not o.get("hasfh") else
                                                                            ("all" if len(o.get("acc") or []) >= 11 else "some")) for o in evs)),
        "target_mode_histogram": dict(collections.Counter(m for o in evs for j, m in enumerate(o["modes"]) if j not in (o.get("srcs") or []))),
        "op_histogram": dict(collections.Counter(o["op"] for o in ops)),
        "scripted": dict(collections.Counter((h.get("note") or "generated")[:50] for h in hs)),
        "samples": [{x: y for x, y in o.items() if x != "ord"} for o in evs[:3]],
    })
