"""C45 — only client object operations are refused while the node is in maintenance."""
import collections
import objcommon
import vlib

META = {
    "id": "C45",
    "engine": "objsrv",
    "design_ref": "5/C45, 4.3",
    "coq_targets": ["Props/Properties_C45.vo", "Prog/ObjCheck.vo"],
    "coq_files": ["Prog/IR.v", "Prog/IRProofs.v", "Prog/Tables_Obj.v", "Prog/ObjCheck.v", "Props/Properties_C45.v"],
    "theorems": ["C45_static", "C45_maintenance_no_effect", "C45_only_clients"],
    "technique": "Coq: dominance checker over the handler IR (sound once), IR regenerated from the Go source by xlate on every run; plus real gRPC calls in maintenance against recording fakes and Replicate scenarios in maintenance",
    "level_text": "C45_static (vm_compute on the IR regenerated from pkg/services/object) says the maintenance check dominates every storage/network/data effect of each client handler and that the replication handler "
                  "does not consult the maintenance state; C45_maintenance_no_effect lifts it through the soundness theorem to all executions. The correspondence check calls every client RPC with valid requests "
                  "while the fake chain reports maintenance (status must be NODE_UNDER_MAINTENANCE, no effect, no data) and drives Replicate in maintenance (must be decided as without maintenance).",
    "level_note": "Trusted: Coq kernel + vm_compute; xlate; Prog/Tables_Obj.v (effect deny-list, handler list taken from cmd/neofs-node/object.go registration); gRPC transport not modelled. "
                  "handlers.Put(ctx) (creation of the in-memory stream object before the first message) is classified as not touching storage.",
    "trusted_base": ["Coq 8.16.1 kernel, vm_compute", "xlate translator", "Prog/Tables_Obj.v tables", "harness/cmd/objsrv"],
    "assumptions": ["inlining depth 3 within pkg/services/object"],
}


def run(ctx):
    t_ok = objcommon.translate_and_prove(ctx, ("svc",))
    if t_ok and ctx.proof_ok is False:
        objcommon.diagnose(ctx, "(c45_bad Gen.Prog_ObjSvc.funcs, c45_replicate_guarded Gen.Prog_ObjSvc.funcs)")
    binp = ctx.go_build()
    out = ctx.run_json([binp])
    rs = objcommon.handler_cases(out)
    reps = [r for r in out if r.get("kind") == "replicate"]
    if not ctx.model_ready(["Prog/ObjCheck.vo", "Prog/C31Model.vo"]):
        ctx.tie(False)
        return
    lit = vlib.coq_list(rs, objcommon.case_term)
    replit = vlib.coq_list(reps, rep_term)
    res = ctx.coq_eval_lists("cases", "From NV Require Import Prog.ObjCheck Prog.C31Model.\nFrom Coq Require Import List NArith. Import ListNotations.\n"
                             "Definition cases : list Prog.ObjCheck.case := %s.\nDefinition reps : list Prog.C31Model.case := %s.\n" % (lit, replit),
                             {"bad": "c45_forbidden_idx cases", "repl": "model_mismatch_idx reps"})
    if res is None:
        ctx.tie(False)
        return
    ctx.tie(not res["bad"])
    for i in res["bad"][:10]:
        ctx.violation({"call": rs[i], "why": "client operation in maintenance was not refused with the maintenance status, or touched storage/network"})
    # only: replication in maintenance behaves as the (maintenance-free) model says
    ctx.tie(not res["repl"])
    for i in res["repl"][:5]:
        if reps[i]["code"] == 1027:
            ctx.violation({"replicate": reps[i], "why": "node-to-node replication refused with the maintenance status"})
        else:
            ctx.notes.append("replicate in maintenance differs from the model (not a maintenance refusal): %r" % (reps[i],))
    maint = [r for r in rs if r["base"] == "maintenance"]
    ctx.cov.update({
        "programs": len({r["method"] for r in rs}) + 1,
        "evaluations": len(maint) + len(reps),
        "distinct_nontrivial": len({r["method"] for r in maint}) + vlib.distinct_count([{k: r[k] for k in r if k not in ("code", "stored", "err")} for r in reps]),
        "rule": "every client RPC in maintenance (valid request) + generated Replicate scenarios in maintenance; distinct by method / by scenario facts",
        "replicate_stored": sum(1 for r in reps if r["stored"]),
        "samples": maint[:2] + reps[:1],
    })


def rep_term(r):
    return "(mkrep %d %s %s %s %s %s %s, %d%%N, %s)" % (
        r["scheme"], vlib.coq_bool(r["sig_ok"]), vlib.coq_bool(r["server_in_cur"]), vlib.coq_bool(r["client_in_cur"]),
        vlib.coq_bool(r["client_in_prev"]), vlib.coq_bool(r["cnr_missing"]), vlib.coq_bool(r["obj_ok"]), r["code"], vlib.coq_bool(r["stored"]))
