"""C44 — garbage collection eventually removes everything that should be removed (shard level)."""
import importlib.util
import json
import os

import vlib

_spec = importlib.util.spec_from_file_location("_gc", os.path.join(os.path.dirname(os.path.abspath(__file__)), "_gc.py"))
G = importlib.util.module_from_spec(_spec)
_spec.loader.exec_module(G)

C44_SECTIONS = {60, 61, 62, 63}
KEY = "c44-nonphy-parent-starvation"

COQ_FILES = ["Gen/MetaConsts.v", "Meta/SMap.v", "Meta/Model.v", "Meta/Spec.v", "Meta/Check.v", "Meta/SMapProofs.v",
             "Meta/StatusProofs.v", "Meta/WfProofs.v", "Meta/TypedProofs.v", "Meta/ViewProofs.v",
             "GC/Model.v", "GC/Spec.v", "GC/Check.v", "GC/Lemmas.v", "GC/C07Proofs.v", "GC/C44Proofs.v",
             "GC/SplitCheck.v", "GC/SplitProofs.v", "Props/Properties_C44.v"]

META = {
    "id": "C44",
    "engine": "gc",
    "design_ref": "5/C44",
    "coq_targets": ["Props/Properties_C44.vo", "GC/Check.vo", "GC/SplitCheck.vo"],
    "coq_files": COQ_FILES,
    "theorems": ["C44_eventually_partial", "C44_pass_progress", "C44_garbage_eventually", "C44_expired_eventually",
                 "C44_delete_removes_all", "C44_eventually_refuted_nonphy_parent",
                 "C44_split_collect_all", "C44_split_collect_only"],
    "technique": "Coq proof by a decreasing measure (buckets + stored headers + garbage keys) over all well-formed shard states and all "
                 "batch sizes >= 1 on the Gallina model of removeGarbage / collectExpiredObjects / GetGarbage / deleteObjs built on the "
                 "metabase model of C01 + differential correspondence with a real engine holding one real shard, drained by repeated "
                 "epoch advances and GC passes with batch sizes below the garbage volume + executable oracles for the final state; for expired "
                 "split objects: Gallina model of the engine's collectChildren / collectChildrenWithoutLink as a function from the stored set "
                 "to the collected ID list, proved to cover every stored object of a chain of any length (induction on the chain), tied by a "
                 "differential check on a real engine with 1-2 shards (survivors = stored - collected) and compared with the property text",
    "level_text": "Proved for every shard state with well-formed metabase part holding only objects without parent/split/EC fields, in which "
                  "every stored tombstoned object carries a garbage key (what an accepted tombstone leaves), every batch size >= 1 and every "
                  "epoch e' beyond the GC's current and processed epochs (C44_eventually_partial): there are n1, n2 such that after n1 passes, "
                  "one epoch advance to e' (epoch source and GC event) and n2 further passes, no removed container and no garbage key is left, "
                  "the epoch is marked processed, and NO stored object should go at e': none is tombstoned, garbage-marked, or expired "
                  "without a live lock — tombstones and locks included. Ingredients: a pass never adds a bucket, header or garbage key and "
                  "either strictly decreases their number or leaves every garbage list empty (C44_pass_progress), hence <= size+1 passes "
                  "empty the garbage lists whatever the clocks say (C44_garbage_eventually); on a garbage-free synchronised shard every pass "
                  "deletes at least one collected object (first tombstone bin, or the engine callback, which then cannot refuse) or finds "
                  "nothing expired and marks the epoch processed without changing anything (C44_expired_eventually); each delete removes "
                  "header, garbage key and stored data together (C44_delete_removes_all). Refuted outside the fragment: with a non-physical "
                  "parent entry heading the garbage list and batch size 1 a pass is a fixpoint and nothing is ever collected, in this and in "
                  "later containers (C44_eventually_refuted_nonphy_parent, reproduced on the real shard on every run; known finding). Tied on "
                  "every run: histories of puts, tombstones, locks, expirations, forced marks, container removals, then two rounds of (epoch "
                  "advance; passes until two passes change nothing) on a real shard with batch sizes 1-5; every step compared with the model; "
                  "oracles on the drained shard: clean final state, everything that should have gone at the start of the drain is gone, and "
                  "the two unproved premises on every state. Expired split objects (outside the fragment above, engine level): for both split "
                  "versions, every chain (first ID, any number of later parts / link) and every stored set (any subset of the chain, any shards, "
                  "other chains mixed in) every stored object of the chain -- the first part included -- is in the ID list "
                  "collectChildrenWithoutLink hands to Shard.Delete and none survives the delete (C44_split_collect_all), and only the first ID "
                  "and stored objects bound to the chain are collected (C44_split_collect_only). Tied on every run: real engine with 1-2 "
                  "shards holding V2/V1 split chains of 2-4 parts (with / without link object, full / partial, parts spread over the shards, "
                  "expiring parents and controls incl. expiration = final epoch), two rounds of (epoch advance; passes on every shard until "
                  "quiescence); surviving part indices (data and metadata) compared with the model (stored - collected) and with the property "
                  "text (expired unlocked parent: nothing left; otherwise everything left).",
    "level_note": "partial: (1) the theorem speaks about the final state (nothing that should go is stored); that an object which should go at "
                  "the START is the same object later (persistence) and that data never exists without metadata (so that 'no metadata' "
                  "implies 'no data') are not proved — oracles 61/63 check them on every run; the premise ts_inv (stored tombstoned => "
                  "garbage key) is proved to be preserved by GC passes but not by puts/marks — oracle 62 checks it on every state; (2) ticker "
                  "fairness / the event goroutine are abstracted: passes and new-epoch events are driven synchronously through hooks; 'epochs "
                  "advance' = one advance after the garbage lists are drained (needed: a lock removed as garbage can unprotect an expired "
                  "object after the epoch was marked processed); (3) premise excluding persistently failing deletes: the model has no failing "
                  "component calls (a failing metabase Delete retries the same batch forever; a failing BLOB delete leaves data without "
                  "metadata) — not exercised; (4) fragment without family relations, outside it the known finding "
                  "c44-nonphy-parent-starvation; (5) expired split objects: only the collection step (stored set -> IDs handed to Shard.Delete) is "
                  "modelled and proved; that IterateExpired yields the expired parent, that metabase Exists assembles the split info (first / "
                  "split ID) from the stored parts, that a link object of an expired parent is not readable (so the lookup path is taken) and "
                  "that Shard.Delete removes what it is given on every shard are tie-only (differential check of the survivors on the real "
                  "engine); locked split parents and EC parents are not exercised in this class. Trusted: Coq kernel + vm_compute, hand-written model (tied), bbolt as ordered map, fstree as "
                  "address->presence, Go harness, Python driver; 61-bit digest per step.",
    "trusted_base": ["Coq 8.16.1 kernel, vm_compute", "models Meta/Model.v + GC/Model.v + GC/SplitCheck.v hand-written, tied by differential check",
                     "harness/cmd/gc, hooks zz_verif_gc_shard.go / zz_verif_gc_engine.go / zz_verif_meta.go, props/_gc.py, lib/vlib.py",
                     "bbolt modelled as an ordered map with atomic transactions; fstree as address -> presence"],
    "assumptions": ["objects without parent / split / EC fields (invariant inv)", "no failing metabase / BLOB storage calls",
                    "read-write mode, no write-cache, engine with exactly one shard (shard-level theorems; the split class runs 1-2 shards)", "GC batch size >= 1"],
}

REG = lambda c, i: {"c": c, "id": i, "t": 0, "sz": 5, "exp": -1, "as": 0}


def starve_job(lim):
    """child 5 carrying the header of its parent 1; tombstone 3 -> 1; other garbage behind it (same history as Properties_C44.st_hist)"""
    par = {"c": 1, "id": 1, "t": 0, "sz": 10, "exp": -1, "as": 0}
    child = {"c": 1, "id": 5, "t": 0, "sz": 5, "exp": -1, "as": 0, "par": par}
    ops = [{"k": "put", "c": 1, "o": child}, {"k": "put", "c": 1, "o": REG(1, 7)}, {"k": "put", "c": 2, "o": REG(2, 2)},
           {"k": "put", "c": 1, "o": {"c": 1, "id": 3, "t": 1, "sz": 0, "exp": -1, "as": 1}},
           {"k": "mark", "c": 1, "ids": [7]}, {"k": "mark", "c": 2, "ids": [2]}]
    return {"lim": lim, "ops": ops, "drain": 2}


def tiers(ctx):
    if ctx.tier == "quick":
        return [("drain", 14, 22, 2)]
    return [("drain", 300, 34, 2), ("lock", 100, 30, 2)]


def has_parent(h):
    return any(op["k"] == "put" and op["o"].get("par") for op in h["ops"])


def impl_residue(h):
    """what the REAL shard still holds after the drain that the property says should be gone (read off the dump)"""
    o = h["steps"][-1]["obs"]
    res = []
    for c in o["cnrs"]:
        if not c["present"]:
            continue
        if c["cgc"]:
            res.append({"cnr": c["c"], "removed_container_still_present": True})
        for g in c["garb"]:
            res.append({"cnr": c["c"], "garbage_key": g[0], "data_present": bool(o["blob"][c["c"] - 1][g[0] - 1]) if 1 <= g[0] <= G.NOID else None})
    return res


# ---------------------------------------------------------------- scenario class "expired split objects"
SPLIT_PRELUDE = ("From Coq Require Import List NArith Bool.\nImport ListNotations.\n"
                 "From NV Require Import GC.SplitCheck.\nLocal Open Scope N_scope.\n")
SPLIT_IN = ("i", "shards", "lim", "epoch0", "rounds", "chains")


def split_n(ctx):
    return 60 if ctx.tier == "quick" else 1500


def coq_scase(c):
    chs = []
    for k, ch in enumerate(c["chains"]):
        chs.append("(mkSChain %d %s %d %s %s %s)" % (ch["c"], "true" if ch["ver"] == 1 else "false", ch["n"], G.opt(ch["exp"], -1),
                                                   G.nlist(c["before"][k]), G.nlist(c["after"][k])))
    return "(mkSCase %d [%s])" % (c["epoch_n"], "; ".join(chs))


def split_input(c):
    return {k: c[k] for k in SPLIT_IN}


def split_check(ctx, binp, cases):
    """-> (ok_model, ok_ref, ok_harness): ties of the class; reports violations"""
    if not cases:
        return True, True, True
    # harness sanity: every accepted put is stored with data and metadata before the drain, the drain settled
    insane = [c["i"] for c in cases if not c.get("settled") or any(b == [-1] for b in c["before"]) or
              any(sorted(x for x, r in zip(ch["stored"], c["put_res"][k]) if r == 0) != c["before"][k] for k, ch in enumerate(c["chains"]))]
    chunk = 50
    jobs = []
    for off in range(0, len(cases), chunk):
        text = SPLIT_PRELUDE + "Definition cases : list scase := [\n%s].\n" % ";\n".join(coq_scase(c) for c in cases[off:off + chunk])
        jobs.append(("gcsplit", text, {"mm": "split_mismatches cases"}))
    model_bad, ref_bad = {}, {}
    for j, res in enumerate(ctx.coq_eval_many(jobs)):
        if res is None:
            return False, False, not insane
        for code in res["mm"]:
            i, k, sec = j * chunk + code // 40, (code % 40) // 4, code % 4
            (model_bad if sec == 1 else ref_bad).setdefault(i, []).append(k)
    # the same reference evaluated here on the raw observation (data and metadata separately)
    for i, c in enumerate(cases):
        for k, ch in enumerate(c["chains"]):
            expired = 0 <= ch["exp"] < c["epoch_n"]
            want = [] if expired else c["before"][k]
            if c["blob"][k] != want or c["meta"][k] != want:
                ref_bad.setdefault(i, [])
                if k not in ref_bad[i]:
                    ref_bad[i].append(k)
    for i in sorted(set(model_bad) | set(ref_bad))[:4]:
        c = cases[i]
        small = minimise_split(ctx, binp, c)
        ctx.violation({"split_case": split_input(small["case"]), "class": "expired split objects",
                       "disagrees_on": (["model (stored - collected)"] if i in model_bad else []) +
                                       (["property text: expired unlocked parent => no part is left; otherwise all parts stay"] if i in ref_bad else []),
                       "chains": [{"chain": k, "version": ch["ver"], "parts": ch["n"], "parent_expiration": ch["exp"], "final_epoch": small["obs"]["epoch_n"],
                                   "stored_indices_before (n = link)": small["obs"]["before"][k],
                                   "impl_data_left": small["obs"]["blob"][k], "impl_metadata_left": small["obs"]["meta"][k],
                                   "reference_left": [] if 0 <= ch["exp"] < small["obs"]["epoch_n"] else small["obs"]["before"][k]}
                                  for k, ch in enumerate(small["case"]["chains"])]})
    for i in insane[:2]:
        ctx.violation({"split_case": split_input(cases[i]), "class": "expired split objects",
                       "disagrees_on": ["harness sanity: accepted puts stored with data+metadata / drain settles"],
                       "put_res": cases[i]["put_res"], "before": cases[i]["before"], "settled": cases[i].get("settled", False)})
    return not model_bad, not ref_bad, not insane


def split_wrong(c):
    for k, ch in enumerate(c["chains"]):
        want = [] if 0 <= ch["exp"] < c["epoch_n"] else c["before"][k]
        if c["blob"][k] != want or c["meta"][k] != want:
            return True
    return False


def split_replay(ctx, binp, cases):
    inp = "\n".join(json.dumps(split_input(c)) for c in cases) + "\n"
    return ctx.run_json([binp, "splitreplay"], input=inp, timeout=3000)


def minimise_split(ctx, binp, c):
    """drop chains / stored objects / the second shard while the implementation still leaves the wrong set"""
    cur, obs = split_input(c), c
    if not split_wrong(c):
        return {"case": cur, "obs": obs}
    for _ in range(6):
        cands = []
        for k in range(len(cur["chains"])):
            if len(cur["chains"]) > 1:
                cands.append(dict(cur, chains=cur["chains"][:k] + cur["chains"][k + 1:]))
            ch = cur["chains"][k]
            for j in range(len(ch["stored"])):
                ch2 = dict(ch, stored=ch["stored"][:j] + ch["stored"][j + 1:], shard=ch["shard"][:j] + ch["shard"][j + 1:])
                if any(x >= ch["n"] - 1 for x in ch2["stored"]):
                    cands.append(dict(cur, chains=cur["chains"][:k] + [ch2] + cur["chains"][k + 1:]))
        if cur["shards"] > 1:
            cands.append(dict(cur, shards=1))
        if not cands:
            break
        out = split_replay(ctx, binp, cands)
        nxt = next(((cd, o) for cd, o in zip(cands, out) if split_wrong(o)), None)
        if nxt is None:
            break
        cur, obs = nxt
    return {"case": cur, "obs": obs}


def split_coverage(cases):
    hist = lambda f: {k: v for k, v in sorted(__import__("collections").Counter(str(x) for x in f).items())}
    chains = [(c, k, ch) for c in cases for k, ch in enumerate(c["chains"])]
    expired = [(c, k, ch) for c, k, ch in chains if 0 <= ch["exp"] < c["epoch_n"]]
    return {
        "split_cases": len(cases), "split_chains": len(chains),
        "split_expired_chains": len(expired),
        "split_expired_without_link_v2": sum(1 for c, k, ch in expired if ch["ver"] == 2 and ch["n"] not in c["before"][k]),
        "split_expired_first_part_stored": sum(1 for c, k, ch in expired if 0 in c["before"][k]),
        "split_version_histogram": hist(ch["ver"] for _, _, ch in chains),
        "split_parts_histogram": hist(ch["n"] for _, _, ch in chains),
        "split_shards_histogram": hist(c["shards"] for c in cases),
        "split_expiration_minus_start_epoch_histogram": hist(("none" if ch["exp"] < 0 else ch["exp"] - c["epoch0"]) for c, _, ch in chains),
        "split_stored_subset_histogram": hist(("all" if len([x for x in c["before"][k] if x < ch["n"]]) >= ch["n"] else "partial") + ("+link" if ch["n"] in c["before"][k] else "")
                                              for c, k, ch in chains),
        "split_sample": [{"input": split_input(cases[len(cases) // 2]), "before": cases[len(cases) // 2]["before"],
                          "after": cases[len(cases) // 2]["after"]}] if cases else [],
    }


def run(ctx):
    binp = ctx.go_build()
    ctx.prove()
    if not ctx.model_ready(G.MODEL_VO + ["GC/SplitCheck.vo"]):
        ctx.tie(False)
        return
    if ctx.replay:
        rp = json.load(open(ctx.replay))
        jobs = [v["case"] for v in rp.get("violations", []) if "case" in v]
        hs = G.replay_harness(ctx, binp, jobs) if jobs else []
        sjobs = [v["split_case"] for v in rp.get("violations", []) if "split_case" in v]
        scases = split_replay(ctx, binp, sjobs) if sjobs else []
    else:
        hs = []
        for (profile, n, ln, drain) in tiers(ctx):
            hs += G.run_harness(ctx, binp, n, ln, profile, drain)
        hs += G.replay_harness(ctx, binp, [starve_job(1), starve_job(2)])
        scases = ctx.run_json([binp, "split", str(split_n(ctx))], timeout=3000)
    res = G.evaluate(ctx, hs, chunk=max(1, (len(hs) + 3) // 4) if ctx.tier == "quick" else None)
    if res is None:
        ctx.tie(False)
        return
    model_bad = set(res["model"]) | G.dump_bad(hs)
    ref_bad = {x for x in res["ref"] if x[2] in C44_SECTIONS}
    # the reference on the implementation's own final dump, also for cases outside the modelled fragment
    known, unknown_res = [], []
    for i, h in enumerate(hs):
        if h["drain"] >= len(h["ops"]):
            continue
        r = impl_residue(h)
        if not r:
            continue
        o = h["steps"][-1]["obs"]
        nonphy_marked = any((not ob["phy"]) and any(g[0] == ob["id"] for g in c["garb"]) for c in o["cnrs"] for ob in c["objs"])
        if has_parent(h) and nonphy_marked:
            known.append((i, r))
        else:
            unknown_res.append((i, r))
    ctx.tie(not model_bad)                       # correspondence implementation = model on every step, drain phase included
    ctx.tie(not ref_bad and not unknown_res)     # drained real shard is clean / everything that should go is gone

    first = {}
    for (h, k, sec) in sorted(model_bad | ref_bad):
        first.setdefault(h, (k, set()))
        if first[h][0] == k:
            first[h][1].add(sec)
    for i, r in unknown_res:
        first.setdefault(i, (len(hs[i]["ops"]) - 1, {60}))
    for h, (k, secs) in sorted(first.items())[:6]:
        dr = hs[h]["drain"]
        case = {"lim": hs[h]["lim"], "ops": hs[h]["ops"][:min(k + 1, dr)], "drain": 2 if k >= dr else 0}
        ctx.violation({"case": case, "history": h, "step": k,
                       "disagrees_on": [G.SECTIONS.get(s, s) for s in sorted(secs)],
                       "residue_on_real_shard": impl_residue(hs[h]),
                       "observed": G.summarize(hs[h], min(k, len(hs[h]["steps"]) - 1))})
    for i, r in known[:1]:
        ctx.violation({"case": {"lim": hs[i]["lim"], "ops": hs[i]["ops"][:hs[i]["drain"]], "drain": 2},
                       "passes_run": len(hs[i]["ops"]) - hs[i]["drain"], "residue_on_real_shard": r}, key=KEY)
    # expired split objects on the engine (1-2 shards): implementation = model (stored - collected) = property text
    sm, sr, sh_ok = split_check(ctx, binp, scases)
    ctx.tie(sm and sh_ok)
    ctx.tie(sr)
    coverage(ctx, hs, len(known))
    ctx.cov.update(split_coverage(scases))
    ctx.cov["evaluations"] += sum(len(c["chains"]) for c in scases)
    ctx.cov["rule"] += ("; class 'expired split objects': 16 fixed scenarios (V2/V1 x link/no link x expiring/control x 1-2 shards) + cases from the "
                        "same stream: engine with 1-2 shards, 1-3 split chains of 2-4 parts (V2 by split.first, 25% V1 by split ID; 35% with the "
                        "link object; 40% with a random subset of the parts stored; every object on a random shard; parent expiration = start "
                        "epoch -1/0/+1/+2 (= final epoch, must stay)/+50/none), then 2 rounds of (epoch advance + event on every shard; passes on "
                        "every shard until two rounds change nothing); one evaluation = one chain, compared with the model (stored - collected) "
                        "and with the property text; non-trivial = distinct layouts with an expired chain")
    ctx.cov["distinct_nontrivial"] += len({json.dumps([c["shards"], [(ch["ver"], ch["n"], ch["exp"] - c["epoch0"], c["before"][k], ch["shard"]) for k, ch in enumerate(c["chains"])]])
                                            for c in scases if any(0 <= ch["exp"] < c["epoch_n"] for ch in c["chains"])})


def coverage(ctx, hs, nknown):
    steps = sum(len(h["steps"]) for h in hs)
    digests, nontrivial = set(), 0
    drain_len, vol = {}, {}
    for h in hs:
        for st in h["steps"]:
            digests.add(G.digest(st["obs"]))
        if h["drain"] < len(h["ops"]):
            o = h["steps"][h["drain"] - 1]["obs"] if h["drain"] > 0 else None
            garbage = sum(len(c["garb"]) + (len(c["objs"]) if c["cgc"] else 0) for c in o["cnrs"]) if o else 0
            if garbage > h["lim"]:
                nontrivial += 1
            b = "%d" % min(garbage, 12)
            vol[b] = vol.get(b, 0) + 1
            n = len(h["ops"]) - h["drain"]
            b = "%d-%d" % (n // 5 * 5, n // 5 * 5 + 4)
            drain_len[b] = drain_len.get(b, 0) + 1
    lims = {}
    for h in hs:
        lims[str(h["lim"])] = lims.get(str(h["lim"]), 0) + 1
    sample = hs[len(hs) // 3] if hs else None
    ctx.cov.update({
        "evaluations": steps,
        "distinct_nontrivial": nontrivial,
        "distinct_observations": len(digests),
        "rule": "histories from one splitmix64 stream (VERIF_SEED) over 2 containers x 8 object IDs (regular / tombstone / lock with "
                "expirations 0-7, forced marks default/redundant, container removals, epoch changes, a few passes), then the drain: 2 rounds "
                "of (tick to the next epoch; GC passes until two consecutive passes change nothing), batch size 1-5 (rarely 100); one "
                "evaluation = one operation (incl. every pass of the drain) followed by a full observation; non-trivial = the garbage "
                "volume (garbage keys + objects of removed containers) at the start of the drain exceeds the batch size; plus the fixed "
                "starvation scenario (object with parent header) at batch sizes 1 and 2",
        "histories": len(hs),
        "traces_validated_against_impl": len(hs),
        "op_histogram": G.op_hist(hs),
        "batch_size_histogram": lims,
        "garbage_volume_at_drain_start_histogram": vol,
        "drain_length_histogram": drain_len,
        "known_class_hits": nknown,
        "samples": [{"lim": sample["lim"], "ops": sample["ops"][:6], "results": [s["res"] for s in sample["steps"][:6]],
                     "drain_ops": len(sample["ops"]) - sample["drain"]}] if sample else [],
    })
