"""C22 — EC part node order visits every node once and spreads parts."""
import json
import vlib

META = {
    "id": "C22",
    "engine": "ec",
    "design_ref": "5/C22",
    "coq_targets": ["Props/Properties_C22.vo", "EC/NodeSeqCheck.vo"],
    "coq_files": ["EC/NodeSeq.v", "EC/NodeSeqProofs.v", "EC/NodeSeqCheck.v", "Props/Properties_C22.v"],
    "theorems": ["C22_perm", "C22_nodup", "C22_first", "C22_distinct_starts"],
    "technique": "Coq proof (induction, NoDup/Permutation) over all part/node counts + exhaustive small-range correspondence with iec.NodeSequenceForPart",
    "level_text": "Theorems C22_perm/C22_nodup/C22_first/C22_distinct_starts are proved in Coq for every part index, part count > 0 and node count "
                  "(unbounded naturals) about the Gallina transcription node_seq of NodeSequenceForPart; the transcription is tied to the Go code "
                  "on every run by comparing both on all (p,t,n) in a box, and the implementation's outputs are also evaluated against the "
                  "theorem right-hand sides directly.",
    "level_note": "Trusted: Coq 8.16.1 kernel + vm_compute; hand-written model node_seq (tied by exhaustive comparison on t<=12,n<=36 quick / t<=32,n<=128 thorough, plus pseudo-random triples with t<=64, n<=400); "
                  "Go harness and Python driver. totalParts=0 (Go panics: modulo by zero) is excluded by the premise 0<t. Go int overflow is not modelled (indices are small).",
    "trusted_base": ["Coq 8.16.1 kernel, vm_compute", "model EC/NodeSeq.v hand-written, tied by differential check", "harness/cmd/ec, lib/vlib.py"],
    "assumptions": ["0 < totalParts (Go panics on 0)", "no int overflow of partIdx+shift"],
}


def run(ctx):
    ctx.prove()
    model = ctx.model_ready(["EC/NodeSeqCheck.vo"])
    binp = ctx.go_build()
    if ctx.replay:
        rp = json.load(open(ctx.replay))
        cases = [v["case"] for v in rp.get("violations", []) if "case" in v]
        cases = [dict(c, seq=run_one(ctx, binp, c)) for c in cases]
    else:
        mt, mn = (12, 36) if ctx.tier == "quick" else (32, 128)
        cases = ctx.run_json([binp, "nodeseq", str(mt), str(mn)])
    if not model:
        ctx.tie(False)
        return
    bad_model, bad_ref = set(), set()
    CH = 600
    jobs, offs = [], []
    for off in range(0, len(cases), CH):
        chunk = cases[off:off + CH]
        lit = vlib.coq_list(chunk, lambda c: "(%d, %d, %d, %s)" % (c["p"], c["t"], c["n"], vlib.coq_list(c["seq"])))
        jobs.append(("cases", "From NV Require Import EC.NodeSeqCheck.\nFrom Coq Require Import List. Import ListNotations.\n"
                     "Definition cases : list case := %s.\n" % lit,
                     {"model": "model_mismatches cases", "ref": "ref_mismatches cases"}))
        offs.append(off)
    for off, res in zip(offs, ctx.coq_eval_many(jobs)):
        if res is None:
            ctx.tie(False)
            return
        bad_model |= {off + i for i in res["model"]}
        bad_ref |= {off + i for i in res["ref"]}
    ctx.tie(not bad_model)   # correspondence impl = model
    ctx.tie(not bad_ref)     # impl satisfies theorem right-hand sides
    for i in sorted(bad_model | bad_ref)[:10]:
        c = cases[i]
        ctx.violation({"case": {"p": c["p"], "t": c["t"], "n": c["n"]}, "impl_seq": c["seq"],
                       "disagrees_with": [w for w, s in (("model node_seq", bad_model), ("reference (permutation/first)", bad_ref)) if i in s]})
    ctx.cov.update({
        "evaluations": len(cases),
        "distinct_nontrivial": len({(c["p"], c["t"], c["n"]) for c in cases if c["n"] > 1 and c["t"] > 1}),
        "rule": "all (p,t,n) with 1<=t<=T, 0<=p<t+2, 0<=n<=N (exhaustive box) plus 2N pseudo-random triples with t<=64, p<t, n<=400; non-trivial = n>1 and t>1; distinct by (p,t,n)",
        "exhaustive": True,
        "samples": [cases[len(cases) // 3], cases[-1]] if cases else [],
        "traces_validated_against_impl": len(cases),
    })


def run_one(ctx, binp, c):
    out = ctx.run_json([binp, "nodeseq1", str(c["p"]), str(c["t"]), str(c["n"])])
    return out[0]["seq"]
