"""C36 — alphabet rotation keeps size, uniqueness and the one-third replacement bound."""
import json
import os
import re
import vlib

META = {
    "id": "C36",
    "engine": "iring",
    "design_ref": "5/C36",
    "coq_targets": ["Props/Properties_C36.vo", "IRing/AlphabetCheck.vo"],
    "coq_files": ["IRing/Alphabet.v", "IRing/AlphabetProofs.v", "IRing/AlphabetInd.v", "IRing/AlphabetCheck.v", "Props/Properties_C36.v"],
    "theorems": ["C36_alphabet_all", "C36_proposed_differs", "C36_same_alphabet_unchanged", "C36_alpha_res_ok_all", "C36_ir_list", "C36_ir_ok_reading",
                 "C36_pipeline", "C36_alphabet_universe8", "C36_alpha_ok_reading", "C36_ir_list_old_refuted"],
    "technique": "Coq: newAlphabetList proved for key lists of arbitrary length by induction over its two loops (loop invariants; sort handled as a permutation); "
                 "updateInnerRing (repaired, fix 4b54a8d) proved for all lists (induction, NoDup/In); additionally newAlphabetList decided on the property's whole finite "
                 "domain (all subsets of an 8-key universe, 256x256 pairs) by vm_compute; model tied to the Go code with real keys.PublicKeys",
    "level_text": "All theorems are unbounded (any list length, any nat keys) except the extra finite-domain C36_alphabet_universe8. C36_alphabet_all: for duplicate-free current / "
                  "main-network lists the model new_alphabet_list fails only on an empty current list or a shorter main-network list, returns nil exactly when floor((n-1)/3) = 0 or "
                  "the first n keys of the sorted main-network list are all current keys, and otherwise a list of the same size, duplicate-free, made of current/main-network keys, "
                  "with 1..floor((n-1)/3) keys outside the current alphabet (so it differs from it). C36_ir_list: for the repaired updateInnerRing the derived list is duplicate-free "
                  "and z is in it iff (z was in the inner ring and is not a replaced key) or z is a new key -- no excluded class any more. C36_pipeline composes both as "
                  "processAlphabetSync does. C36_ir_list_old_refuted keeps the counterexample for the code before the fix (an extra inner-ring key voted into the alphabet appeared twice).",
    "level_note": "Every clause of the property text is proved on the model for all list sizes. Modelled, not verified: the model IRing/Alphabet.v is hand-written over nat keys "
                  "(key order = rank in the sorted universe) and tied to the Go functions by differential comparison on the property's 8-key domain (+ random malformed lists), not "
                  "by a mechanical translation; processAlphabetSync itself is not executed (needs live morph clients): the harness composes newAlphabetList / updateInnerRing / "
                  "sort as process_update.go does and the plug-in checks those call sites syntactically. Chain clients, voting and notary updates are not modelled. "
                  "Trusted: Coq 8.16.1 kernel (+ vm_compute for the finite theorem and the examples).",
    "trusted_base": ["Coq 8.16.1 kernel, vm_compute", "model IRing/Alphabet.v hand-written, tied by differential check",
                     "harness/cmd/iring, harness/hooks/pkg/innerring/processors/governance, lib/vlib.py"],
    "assumptions": ["key lists fetched from the chains are duplicate-free (NoDup premises)", "the inner ring list contains the current alphabet (incl premise)",
                    "universe of 8 keys only for the additional finite theorem C36_alphabet_universe8"],
}

PRELUDE = ("From NV Require Import IRing.Alphabet IRing.AlphabetCheck.\nFrom Coq Require Import List Arith. Import ListNotations.\n")

CALLS = [r"newAlphabetList\(fsChainAlphabet,\s*mainnetAlphabet\)", r"updateInnerRing\(innerRing,\s*fsChainAlphabet,\s*newAlphabet\)",
         r"sort\.Sort\(newInnerRing\)", r"UpdateNeoFSAlphabetList\(newInnerRing,"]


def callers_ok():
    src = open(os.path.join(vlib.REPO, "pkg/innerring/processors/governance/process_update.go")).read()
    src = re.sub(r"//[^\n]*", "", src)
    pos = []
    for pat in CALLS:
        m = list(re.finditer(pat, src))
        if len(m) != 1:
            return False, "call site `%s` found %d times in process_update.go" % (pat, len(m))
        pos.append(m[0].start())
    if pos != sorted(pos):
        return False, "call sites in process_update.go are not in the expected order"
    return True, ""


def coq_case(c):
    L = vlib.coq_list
    return "(%s, %s, %s, %d, %s, %d, %s)" % (L(c["fs"]), L(c["mn"]), L(c["ir"]), c["astat"], L(c["alpha"]), c["irstat"], L(c["newir"]))


def evaluate(ctx, cases, name="cases"):
    CH = max(50, min(800, -(-len(cases) // vlib.NCPU)))
    jobs, offs = [], []
    for off in range(0, len(cases), CH):
        lit = vlib.coq_list(cases[off:off + CH], coq_case)
        jobs.append((name, PRELUDE + "Definition cases : list case := %s.\n" % lit,
                     {"model": "model_mismatches cases", "full": "ref_full_mismatches cases", "promoted": "promoted_class cases"}))
        offs.append(off)
    res = {"model": set(), "full": set(), "promoted": set()}
    for off, r in zip(offs, ctx.coq_eval_many(jobs)):
        if r is None:
            return None
        for k in res:
            res[k] |= {off + i for i in r[k]}
    return res


def rerun(ctx, binp, cases):
    inp = "".join(json.dumps({"fs": c["fs"], "mn": c["mn"], "ir": c["ir"], "kind": c.get("kind", "")}) + "\n" for c in cases)
    return ctx.run_json([binp, "alphabet-run"], input=inp)


def size(c):
    return (len(c["fs"]) + len(c["mn"]) + len(c["ir"]))


def minimise(ctx, binp, c, which):
    """drop single keys from the three lists while the case still fails in the same way (batched rounds)"""
    for _ in range(8):
        cands = []
        for f in ("fs", "mn", "ir"):
            for i in range(len(c[f])):
                cands.append(dict(c, **{f: c[f][:i] + c[f][i + 1:]}))
        if not cands:
            break
        out = rerun(ctx, binp, cands)
        r = evaluate(ctx, out, "min")
        if r is None:
            break
        bad = sorted(which(r), key=lambda i: size(out[i]))
        if not bad:
            break
        c = out[bad[0]]
    return c


def show(c, why):
    return {"case": {"fs": c["fs"], "mn": c["mn"], "ir": c["ir"]},
            "impl": {"alphabet_status(0 list,1 empty,2 short,3 nil)": c["astat"], "new_alphabet": c["alpha"],
                     "ir_status": c["irstat"], "new_inner_ring_sorted": c["newir"]}, "why": why}


def run(ctx):
    ctx.prove()
    model = ctx.model_ready(["IRing/AlphabetCheck.vo"])
    binp = ctx.go_build()
    if ctx.replay:
        rp = json.load(open(ctx.replay))
        cases = rerun(ctx, binp, [v["case"] for v in rp.get("violations", []) if "case" in v])
    else:
        cases = ctx.run_json([binp, "alphabet"])
    ok, msg = callers_ok()
    ctx.tie(ok)                  # processAlphabetSync composes the two functions as the harness does (syntactic)
    if not ok:
        ctx.violation({"what": msg})
    if not model:
        ctx.tie(False)
        return
    r = evaluate(ctx, cases)
    if r is None:
        ctx.tie(False)
        return
    ctx.tie(not r["model"])      # implementation = model
    ctx.tie(not r["full"])       # implementation satisfies the property (reference = right-hand sides of the theorems), no excluded class
    for i in sorted(r["full"], key=lambda i: size(cases[i]))[:1]:
        ctx.violation(show(minimise(ctx, binp, cases[i], lambda rr: rr["full"]),
                           "property violated: new alphabet (size / duplicates / members / bound / proposed though unchanged) or derived inner ring list "
                           "(duplicates / does not differ from the old list exactly by the replaced keys)"))
    for i in sorted(r["model"], key=lambda i: size(cases[i]))[:1]:
        ctx.violation(show(minimise(ctx, binp, cases[i], lambda rr: rr["model"]), "implementation differs from model IRing.Alphabet.pipeline"))
    promoted = sorted(r["promoted"], key=lambda i: size(cases[i]))
    kinds, stats, sizes = {}, {}, {}
    for c in cases:
        kinds[c["kind"]] = kinds.get(c["kind"], 0) + 1
        stats[str(c["astat"])] = stats.get(str(c["astat"]), 0) + 1
        sizes[str(len(c["fs"]))] = sizes.get(str(len(c["fs"])), 0) + 1
    nt = [c for c in cases if c["astat"] == 0]
    ctx.cov.update({
        "evaluations": len(cases),
        "distinct_nontrivial": vlib.distinct_count([{"f": sorted(c["fs"]), "m": sorted(c["mn"]), "i": sorted(c["ir"])} for c in nt]),
        "rule": "universe of 8 real secp256r1 keys; pairs (current alphabet of 1..7 keys, main-network list at least that large) enumerated (quick: a random sixteenth, "
                "thorough: all, one inner-ring list each), inner ring = alphabet + 0..2 extra keys, all lists shuffled; plus random lists with duplicates / short lists / "
                "inner rings missing alphabet keys (model tie only); non-trivial = a new alphabet was proposed; distinct by the three key sets",
        "samples": [show(cases[i], "sample") for i in (promoted[:1] + [len(cases) // 2, len(cases) - 1])],
        "hist_kind": kinds, "hist_alphabet_status": stats, "hist_current_alphabet_size": sizes,
        "cases_with_extra_inner_ring_key_promoted_to_alphabet": len(promoted),
        "traces_validated_against_impl": len(cases),
    })
