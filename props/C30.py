"""C30 — session and bearer tokens are honoured only when valid for the request."""
import collections
import json
import os
import vlib

META = {
    "id": "C30",
    "engine": "auth",
    "design_ref": "5/C30",
    "coq_targets": ["Props/Properties_C30.vo", "Auth/TokenCheck.vo"],
    "coq_files": ["Gen/AuthTokenConsts.v", "Auth/Token.v", "Auth/TokenProofs.v", "Auth/TokenCheck.v", "Props/Properties_C30.v"],
    "theorems": ["C30_effect_implies_valid_v1", "C30_effect_implies_valid_bearer", "C30_effect_implies_valid_v2",
                 "C30_boundary_nbf", "C30_boundary_exp", "C30_boundary_after_exp", "C30_boundary_before_nbf", "C30_boundary_bearer", "C30_boundary_v2_time",
                 "C30_cache_transparent", "C30_reset_needed",
                 "C30_field_change_rejected_v1", "C30_field_change_rejected_bearer", "C30_field_change_rejected_v2"],
    "technique": "Coq proofs over all tokens/requests about an executable model of VerifySessionV1TokenMessage / VerifySessionTokenMessage (incl. the SDK's v2 delegation-chain validation) / VerifyBearerTokenMessage + "
                 "verifyBearerTokenAgainstRequest / AuthenticateToken(V2) and of the per-epoch result cache (history induction); signatures abstract (Section hypotheses: a signature verifies for at most one message, encodings injective); "
                 "model tied by differential runs of the real acl/v2.Service with really signed tokens of all schemes and single-field / signature / single-byte mutations",
    "level_text": "C30_effect_implies_valid_{v1,bearer,v2}: an accepted token is signed by its issuer (supported scheme, key of the issuer / N3 witness of the issuer's account), inside its lifetime at the current epoch resp. chain time "
                  "(for v2 every token of the delegation chain), and applies to the request's container, object and operation (v2: every token of the chain grants the verb, each issuer is a subject of its origin, depth <= 4). "
                  "Boundary lemmas at cur = nbf, cur = exp, exp+1, nbf-1. C30_cache_transparent: for every history of verifications and epoch ticks, if each tick resets the cache (as the node's new-epoch handler does) the cached service answers "
                  "exactly like the uncached verification at the current epoch; C30_reset_needed shows the reset is load-bearing. C30_field_change_rejected_*: under the unforgeability hypotheses any change of the signed body of an accepted token "
                  "(keeping the signature) is rejected for every request. The harness verifies real tokens (ECDSA SHA-512 / RFC6979 / WalletConnect and N3 witnesses against a witness oracle) through the real Service on one instance, "
                  "re-derives the facts from the final wire message, and compares result classes with the model and with the theorem right-hand sides; mutated copies of accepted tokens must be rejected.",
    "level_note": "Trusted: Coq kernel + vm_compute; hand-written model Auth/Token.v (tied by differential check); the wire-message -> facts decoder of the harness (SDK decoding and SDK signature verification, independent of internal/crypto); "
                  "ECDSA/SHA/N3 script execution exercised, not verified (N3: fake chain = witness oracle). partial: the asynchrony between an epoch tick and the cache reset handler (a request may see the new epoch with the old cache for a moment) is "
                  "runtime behaviour not modelled; SHA-256 cache keys assumed collision-free; session-token authority of the *request signer* (AssertAuthKey/AssertAuthority happen later in put/get/delete services) is outside this property's anchors; "
                  "NNS resolution is a fact list; origin tokens' iat is not constrained by the implementation (only nbf/exp nesting) and the theorem says so.",
    "trusted_base": ["Coq 8.16.1 kernel, vm_compute", "Auth/Token.v hand-written, tied by differential check", "harness/cmd/auth/tokens.go, lib/vlib.py"],
    "assumptions": ["sig_binds: a signature value verifies for at most one message under a key and scheme (ECDSA + collision-free hash idealisation)",
                    "enc1_inj/encb_inj/enc2_inj: stable protobuf encoding of the signed body is injective",
                    "keyf_inj: cache key (SHA-256 of the token encoding) is injective",
                    "ticks_reset: every epoch tick resets the verification cache (done by cmd/neofs-node's new-epoch handlers)",
                    "N3 witness validity (n3ok) and NNS membership are facts supplied by the chain"],
}


def N(n):
    return "%d%%N" % n


def pairs(ps):
    return vlib.coq_list(ps or [], lambda p: "(%s, %s)" % (N(p[0]), N(p[1])))


def life(l):
    return "(mklife %s %s %s)" % (N(l["iat"]), N(l["nbf"]), N(l["exp"]))


def sig(s):
    return "None" if s is None else "(Some (mksig %s %s 0%%N))" % (N(s["scheme"]), N(s["key"]))


def tok1(t):
    return "(mktok1 %s %s %s %s %s %s %s)" % (N(t["issuer"]), life(t["life"]), N(t["authkey"]), N(t["verb"]), N(t["cnr"]),
                                              vlib.coq_list(t["objs"] or [], N), sig(t["sig"]))


def btok(t):
    return "(mkbtok %s %s %s %s 0%%N %s)" % (N(t["issuer"]), life(t["life"]), N(t["cid"]), N(t["user"]), sig(t["sig"]))


def tok2(t):
    def subj(s):
        return {"u": "SUser %s" % N(s["i"]), "n": "SNns %s" % N(s["i"])}.get(s["k"], "SZero")

    def ctx(c):
        return "mkctx %s %s" % (N(c["cnr"]), vlib.coq_list(c["verbs"] or [], N))
    return "(mktok2 %s %s %s %s %s %s %s %s)" % (N(t["version"]), N(t["applen"]), N(t["issuer"]), vlib.coq_list(t["subjs"] or [], subj), life(t["life"]),
                                                 vlib.coq_list(t["ctxs"] or [], ctx), vlib.coq_bool(t["final"]), sig(t["sig"]))


def bools(bs):
    return vlib.coq_list(bs or [], vlib.coq_bool)


# mutations that change the signed body or the signature of the (accepted) base token
BINDING_MUTS = {"exp", "nbf", "iat", "verb", "cnr", "objs", "issuer", "authkey", "id", "scheme", "sigkey", "sigval", "nosig", "byte", "nolife", "nobody",
                "cid", "user", "table", "verbs", "ctx_cnr", "subjects", "final", "appdata", "version"}


def case_term(c):
    mut = vlib.coq_bool(bool(c.get("base")) and c.get("mut") in BINDING_MUTS)
    b0 = lambda l: vlib.coq_bool(bool(l and l[0]))
    if c["kind"] == "v1":
        return "CV1 %s %s %s %s %s %s %s %s %s %s %s" % (pairs(c["ku"]), N(c["epoch"]), vlib.coq_bool(c["wf"]), tok1(c["v1"]), b0(c["sigok"]), b0(c["n3ok"]),
                                                         N(c["reqverb"]), N(c["reqcnr"]), N(c["reqobj"]), mut, N(c["res"]))
    if c["kind"] == "bearer":
        return "CB %s %s %s %s %s %s %s %s %s %s %s" % (pairs(c["ku"]), N(c["epoch"]), vlib.coq_bool(c["wf"]), btok(c["b"]), b0(c["sigok"]), b0(c["n3ok"]),
                                                        N(c["owner"]), N(c["reqcnr"]), N(c["sender"]), mut, N(c["res"]))
    if c["kind"] == "v2":
        return "CV2 %s %s %s %s %s %s %s %s %s %s %s" % (pairs(c["ku"]), pairs(c["nns"]), N(c["now"]), vlib.coq_bool(c["wf"]), vlib.coq_list(c["v2"] or [], tok2),
                                                         bools(c["sigok"]), bools(c["n3ok"]), N(c["reqverb"]), N(c["reqcnr"]), mut, N(c["res"]))

    def ev(e):
        if e["tick"]:
            return "ETick %s %s" % (N(e["epoch"]), vlib.coq_bool(e["reset"]))
        return "EVerify %s %s %s %s false %s %s %s" % (N(e["id"]), tok1(e["v1"]), vlib.coq_bool(e["wf"]), vlib.coq_bool(e["sigok"]),
                                                       N(e["reqverb"]), N(e["reqcnr"]), N(e["reqobj"]))
    return "CH %s %s %s %s" % (pairs(c["ku"]), N(c["epoch"]), vlib.coq_list(c["events"], ev), vlib.coq_list([9 if o < 0 else o for o in c["out"]], N))


def gen_consts(ctx, binp):
    k = ctx.run_json([binp, "tokens", "consts"])[0]
    L = ["(* GENERATED by props/C30.py from `auth tokens consts` (harness/cmd/auth): SDK enum values and limits",
         "   compiled into the node. *)", "From Coq Require Import NArith List.", "Import ListNotations.", "Open Scope N_scope.",
         "Definition ecdsa_schemes : list N := [%s]." % "; ".join(str(x) for x in k["ecdsa_schemes"]),
         "Definition scheme_n3 := %d." % k["scheme_n3"]]
    for n in ["verb_put", "verb_get", "verb_head", "verb_search", "verb_delete", "verb_range", "verb_rangehash",
              "max_subjects", "max_contexts", "max_verbs", "max_depth", "max_appdata"]:
        L.append("Definition %s := %d." % (n, k[n]))
    vlib.write_if_changed(os.path.join(vlib.COQ, "Gen", "AuthTokenConsts.v"), "\n".join(L) + "\n")
    return bool(k.get("v2_same_verbs"))


PRELUDE = ("From Coq Require Import NArith List Bool.\nFrom NV Require Import Gen.AuthTokenConsts Auth.Token Auth.TokenCheck.\n"
           "Import ListNotations.\n")


def run(ctx):
    binp = ctx.go_build()
    ctx.tie(gen_consts(ctx, binp))       # v1/v2 object verbs share their numbering, as the model assumes
    ctx.prove()
    if not ctx.model_ready(["Auth/TokenCheck.vo"]):
        ctx.tie(False)
        return
    if ctx.replay:
        rp = json.load(open(ctx.replay))
        cases = [v["case"] for v in rp.get("violations", []) if "case" in v]
    else:
        cases = ctx.run_json([binp, "tokens"])
        json.dump(cases, open(os.path.join(vlib.BUILD, "last_cases_C30.json"), "w"))
    jobs, offs = [], []
    CH = 250
    for off in range(0, len(cases), CH):
        lit = vlib.coq_list(cases[off:off + CH], lambda c: "(" + case_term(c) + ")")
        jobs.append(("cases", PRELUDE + "Definition cases : list tcase := %s.\n" % lit,
                     {"model": "model_mismatches cases", "ref": "ref_violations cases", "res": "model_results cases"}))
        offs.append(off)
    bad_m, bad_r, mres = [], [], []
    for off, res in zip(offs, ctx.coq_eval_many(jobs)):
        if res is None:
            ctx.tie(False)
            return
        bad_m += [off + i for i in res["model"]]
        bad_r += [off + i for i in res["ref"]]
        mres += res["res"]
    ctx.tie(not bad_m)     # verification result class = model (incl. cache histories)
    ctx.tie(not bad_r)     # accepted => valid for the request; mutated accepted token => rejected
    for i in sorted(set(bad_r))[:5]:
        c = cases[i]
        why = ("a copy of an accepted token with a changed signed field / signature was accepted" if c.get("base") and c.get("mut") in BINDING_MUTS and c.get("res") == 0
               else "token was honoured although it is not correctly signed / within its lifetime / applicable to the request")
        ctx.violation({"case": c, "why": why})
    for i in sorted(set(bad_m) - set(bad_r))[:5]:
        c = cases[i]
        if c["kind"] == "hist":
            ctx.notes.append("cache history differs from the model (no property violation by itself): %s" % json.dumps(c)[:1500])
        else:
            ctx.notes.append("implementation %s, model %s (no property violation on this input): %s" % (c.get("res"), mres[i] if i < len(mres) else "?", json.dumps(c)[:1500]))

    def facts(c):
        return {k: v for k, v in c.items() if k not in ("res", "out")}
    single = [c for c in cases if c["kind"] != "hist"]
    ctx.cov.update({
        "evaluations": len(cases),
        "distinct_nontrivial": vlib.distinct_count([facts(c) for c in single if c["wf"]]),
        "rule": "v1 / bearer / v2 (chains of 1-3, sometimes 5-6 tokens) tokens really signed in all four schemes, lifetimes within +-2 of the current epoch / chain time, all verbs, 2 containers, 3 objects, 5 users on ONE Service instance; "
                "65% valid-for-the-request tokens, of which half get one mutation (signed field, signature scheme/key/value, dropped part, single flipped byte of the wire encoding) after the original was verified; accepted v2/bearer tokens are re-verified at "
                "exp, exp+1, nbf, nbf-1; + histories of verifications and epoch ticks with/without cache reset; non-trivial = well-formed token; distinct by facts",
        "result_histogram": dict(collections.Counter("%s:%s" % (c["kind"], c.get("res")) for c in cases)),
        "mutation_histogram": dict(collections.Counter("%s:%s:%s" % (c["kind"], c["mut"], "from-accepted" if c["base"] else "other") for c in single if c["mut"])),
        "accepted_after_mutation": dict(collections.Counter("%s:%s" % (c["kind"], c["mut"]) for c in single if c["mut"] and c["base"] and c["res"] == 0)),
        "samples": [c for c in cases if c["kind"] == "v1"][:1] + [c for c in cases if c["kind"] == "v2"][:1] + [c for c in cases if c["kind"] == "hist"][:1],
    })
