"""C29 — every object RPC checks authenticity and access before any effect."""
import collections
import objcommon
import vlib

META = {
    "id": "C29",
    "engine": "objsrv",
    "design_ref": "5/C29, 4.3",
    "coq_targets": ["Props/Properties_C29.vo", "Prog/ObjCheck.vo"],
    "coq_files": ["Prog/IR.v", "Prog/IRProofs.v", "Prog/Tables_Obj.v", "Prog/ObjCheck.v", "Props/Properties_C29.v"],
    "theorems": ["C29_static", "C29_failed_check_no_effect", "C29_effect_after_checks", "C29_put_message_checked",
                 "C29_put_init_after_acl", "C29_payload_after_header_eacl"],
    "technique": "Coq: dominance checker over a handler IR proved sound once for all programs/executions; IR regenerated from pkg/services/object by the translator xlate on every run, obligations re-checked by vm_compute; plus real gRPC calls of every object RPC failing exactly one check against recording fakes",
    "level_text": "Quantifier = programs and inputs. The handler bodies of Get/Head/GetRange/Delete/SearchV2/Put (as registered by the node, incl. the buffered variants) are translated to the IR on every run; "
                  "C29_static (vm_compute over the regenerated IR) says that request-signature verification, maintenance, token handling (handleRequestMetaHeader), request classification, basic ACL and eACL each dominate "
                  "every call that reaches handlers/storage/other nodes or sends data, with accepted source shapes of each check; the soundness theorems (all environments, all executions, loops included) give "
                  "C29_failed_check_no_effect / C29_effect_after_checks, and C29_payload_after_header_eacl for the header-time eACL evaluation of the GET stream. "
                  "The correspondence check calls each RPC over a real gRPC server with unsigned / wrongly signed / bad-token / unclassifiable / basic-denied / eACL-denied requests and requires an error status, no effect and no data message.",
    "level_note": "partial for PUT: the stream is a loop over messages; signature and maintenance are proved per message and the ACL checks for the init message; that chunks and close act only on a stream whose init passed "
                  "is a state invariant of putStream validated by the harness only. Trusted: Coq kernel + vm_compute; xlate (syntactic, no types; calls it cannot resolve are effects); tables in Prog/Tables_Obj.v "
                  "(deny-list of effect names, status-response helpers not inlined, accepted check shapes); the checks themselves (signatures, tokens, ACL evaluation) are other properties (C33, C30, C28). gRPC transport not modelled.",
    "trusted_base": ["Coq 8.16.1 kernel, vm_compute", "xlate translator", "Prog/Tables_Obj.v tables", "harness/cmd/objsrv"],
    "assumptions": ["inlining depth 3 within pkg/services/object", "effects are recognised by callee expression (deny-list in Tables_Obj.obj_crit)"],
}


def run(ctx):
    t_ok = objcommon.translate_and_prove(ctx, ("svc",))
    if t_ok and ctx.proof_ok is False:
        objcommon.diagnose(ctx, "(c29_bad Gen.Prog_ObjSvc.funcs, c29_hdr_bad Gen.Prog_ObjSvc.funcs, obj_bad_shapes Gen.Prog_ObjSvc.funcs)")
    binp = ctx.go_build()
    rs = objcommon.handler_cases(ctx.run_json([binp]))
    if not ctx.model_ready(["Prog/ObjCheck.vo"]):
        ctx.tie(False)
        return
    lit = vlib.coq_list(rs, objcommon.case_term)
    res = ctx.coq_eval_lists("cases", "From NV Require Import Prog.ObjCheck.\nFrom Coq Require Import List NArith. Import ListNotations.\n"
                             "Definition cases : list case := %s.\n" % lit, {"bad": "c29_forbidden_idx cases"})
    if res is None:
        ctx.tie(False)
        return
    ctx.tie(not res["bad"])
    for i in res["bad"][:10]:
        ctx.violation({"call": rs[i], "why": "a request failing a check was served, had an effect, or data was sent"})
    # sanity of the harness: the fully valid request does reach the handler
    okc = [r for r in rs if r["base"] == "ok" and r["method"] != "GetProxyRelay"]
    ctx.tie(all(r["effects"] for r in okc))
    ctx.cov.update({
        "programs": len({r["method"] for r in rs}),
        "evaluations": len(rs),
        "distinct_nontrivial": len({(r["method"], r["scenario"]) for r in rs if r["base"] != "ok"}),
        "rule": "6 RPCs x 15 scenarios (a served request first, then requests failing exactly one check, each also with TTL 1 / without meta header); non-trivial = failing scenario; distinct by (method, scenario)",
        "status_histogram": dict(collections.Counter("%s:%d" % (r["scenario"], r["code"]) for r in rs)),
        "samples": rs[:2] + rs[-1:],
        "exhaustive": True,
    })
